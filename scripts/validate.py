#!/usr/bin/env python3-vt
import json, sys, glob, jsonschema
ms = json.load(open('/root/.vp/MANIFEST.schema.json'))
es = json.load(open('/root/.vp/EVIDENCE.schema.json'))
m = json.load(open('/verif/MANIFEST.json'))
jsonschema.validate(m, ms)
print("MANIFEST ok:", len(m['checks']), "checks,", len(m.get('not_applicable', [])), "not applicable")
ids = {json.loads(l)['id'] for l in open('/verif/properties.jsonl')}
claimed = {c['property_id'] for c in m['checks']}
na = {c['property_id'] for c in m.get('not_applicable', [])}
assert claimed | na == ids and not (claimed & na), (ids - claimed - na, claimed & na)
for c in m['checks']:
    f = c['evidence_file']
    try:
        e = json.load(open(f)); jsonschema.validate(e, es)
        assert e['level'] == c['level_claimed']['category']
        print(" ", c['property_id'], e['tier'], "evals", e['coverage']['evaluations'], "nontrivial", e['coverage']['distinct_nontrivial'], "wall", round(e['wall_s'],1))
    except Exception as ex:
        print(" ", c['property_id'], "EVIDENCE PROBLEM:", str(ex)[:200])
