#!/usr/bin/env python3
"""Coverage-guided campaign for one property (thorough tier).
usage: fuzz.py <PROP> <target: total|tape> <runs> <evidence.json>
Builds the libFuzzer targets (cargo +nightly fuzz, ASan, --cfg minicbor_verif), seeds a fresh corpus from
corpus/<PROP>/, runs `jobs` workers with -seed derived from VERIF_SEED, turns any crash artifact into a replay
file, confirms it through the in-process engine and prints the VIOLATION line. Exit: 0 clean, 1 violation, 2 inconclusive."""
import json, os, subprocess, sys, shutil, glob, hashlib, tempfile

ROOT = os.path.dirname(os.path.dirname(os.path.abspath(__file__)))
prop, target, runs, evidence = sys.argv[1], sys.argv[2], int(sys.argv[3]), sys.argv[4]
seed = int(os.environ.get("VERIF_SEED", "0") or 0)
jobs = 8
env = dict(os.environ, RUSTFLAGS="--cfg minicbor_verif", CARGO_NET_OFFLINE="true", VERIF_ROOT=os.environ.get("VERIF_ROOT", ROOT))
fz = os.path.join(ROOT, "harness", "fuzz")
extra = []
tdir = os.path.join(ROOT, "harness", "target")
if os.environ.get("VERIF_REPO_OVERRIDE"):
    r = os.environ["VERIF_REPO_OVERRIDE"]
    extra = ["--config", 'paths=["%s/minicbor","%s/minicbor-derive"]' % (r, r)]
    tdir = os.environ.get("VERIF_TARGET_DIR", "/tmp/verif-mut-target")
b = subprocess.run(["cargo", "+nightly", "fuzz", "build", target, "--target-dir", tdir] + extra, cwd=fz, env=env, capture_output=True, text=True)
if b.returncode != 0:
    sys.stderr.write("fuzz build failed (inconclusive):\n" + b.stderr[-3000:]); sys.exit(2)
binary = os.path.join(tdir, "x86_64-unknown-linux-gnu", "release", target)
work = tempfile.mkdtemp(prefix="verif-fuzz-")
corpus = os.path.join(work, "corpus"); os.makedirs(corpus)
for f in glob.glob(os.path.join(ROOT, "corpus", prop, "*")): shutil.copy(f, corpus)
art = os.path.join(work, "artifacts") + "/"; os.makedirs(art)
if target == "tape": env["VERIF_FUZZ_PROP"] = prop
maxlen = "96" if target == "total" else "1024"
cmd = [binary, "-runs=%d" % (runs // jobs), "-seed=%d" % (seed * 7919 + 1), "-len_control=0", "-max_len=" + maxlen, "-artifact_prefix=" + art,
       "-jobs=%d" % jobs, "-workers=%d" % jobs, "-print_final_stats=1", "-rss_limit_mb=4096", "-timeout=60", corpus]
r = subprocess.run(cmd, cwd=work, env=env, capture_output=True, text=True)
logs = "".join(open(f).read() for f in sorted(glob.glob(os.path.join(work, "fuzz-*.log"))))
execs = sum(int(l.rsplit(":", 1)[1]) for l in logs.splitlines() if l.startswith("stat::number_of_executed_units"))
crashes = sorted(glob.glob(art + "crash-*")) + sorted(glob.glob(art + "oom-*")) + sorted(glob.glob(art + "timeout-*"))
summary = {"engine": "libFuzzer (cargo-fuzz, ASan, debug assertions)", "target": target, "executions": execs, "jobs": jobs, "seed_corpus_files": len(glob.glob(os.path.join(ROOT, "corpus", prop, "*"))),
           "final_corpus_files": len(os.listdir(corpus)), "crash_artifacts": len(crashes)}
rc = 0
if crashes:
    data = open(crashes[0], "rb").read()
    if target == "total":
        body = {"property": prop, "sub": "raw-input", "tape": data.hex()}
    else:
        names = subprocess.run([os.path.join(ROOT, "harness", "target", "verif", "g_codec"), "--list-random", prop], capture_output=True, text=True).stdout.split("\n")
        names = [n for n in names if n]
        body = {"property": prop, "sub": names[data[0] % len(names)] if data else names[0], "tape": data[1:].hex()}
    body["found_by"] = "libFuzzer target %s, artifact %s" % (target, os.path.basename(crashes[0]))
    os.makedirs(os.path.join(env["VERIF_ROOT"], "replays"), exist_ok=True)
    path = os.path.join(env["VERIF_ROOT"], "replays", "%s-fuzz-%s.json" % (prop, hashlib.sha1(data).hexdigest()[:16]))
    json.dump(body, open(path, "w"), indent=1)
    chk = subprocess.run([os.path.join(ROOT, "check"), prop, "quick", "--replay", path], capture_output=True, text=True, env=os.environ)
    if chk.returncode == 1:
        sys.stdout.write("".join(l + "\n" for l in chk.stdout.splitlines() if not l.startswith("VIOLATION")))
        print("VIOLATION property=%s replay=%s" % (prop, path)); rc = 1
    else:
        sys.stderr.write("fuzz artifact %s did not reproduce in the in-process engine: inconclusive\n%s\n" % (crashes[0], logs[-1500:])); rc = 2
    summary["first_artifact_reproduced"] = (rc == 1)
elif r.returncode != 0 and execs == 0:
    sys.stderr.write("fuzz campaign did not run (inconclusive):\n" + (r.stderr + logs)[-2000:]); rc = 2
try:
    e = json.load(open(evidence))
    e["coverage"]["fuzz_campaign"] = summary
    e["coverage"]["evaluations"] += execs
    e["coverage"]["rule"] += " | [libFuzzer %s] coverage-guided tapes through the same oracle (%d executions)" % (target, execs)
    if rc == 1: e["violations"] = e.get("violations", 0) + 1
    json.dump(e, open(evidence, "w"), indent=1)
except Exception as ex:
    sys.stderr.write("cannot update evidence: %s\n" % ex)
sys.stderr.write("  [%s libFuzzer %s] executions=%d corpus=%d artifacts=%d\n" % (prop, target, execs, summary["final_corpus_files"], len(crashes)))
shutil.rmtree(work, ignore_errors=True)
sys.exit(rc)
