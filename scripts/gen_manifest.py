#!/usr/bin/env python3
"""Regenerates /verif/MANIFEST.json from the table below (single source of truth for the check registry)."""
import json, os, subprocess

ROOT = os.path.dirname(os.path.dirname(os.path.abspath(__file__)))

# id -> (built?, engine, technique, level text, level note, design ref)
P = {k: (v["built"], v["engine"], v["technique"], v["text"], v["note"], v["design_ref"]) for k, v in json.load(open(os.path.join(ROOT, "scripts", "checks.json"))).items()}


def main():
    hooks_commits = []
    try:
        out = subprocess.run(["git", "-C", "/repo", "log", "--format=%H %s"], capture_output=True, text=True).stdout
        for line in out.splitlines():
            h, _, s = line.partition(" ")
            if "verification hook" in s:
                hooks_commits.append(h)
    except Exception:
        pass
    checks, na = [], []
    for pid in sorted(P):
        built, engine, technique, text, note, ref = P[pid]
        if not built:
            na.append({"property_id": pid, "reason": "check under construction in this session (planned technique: %s); not claimed until it runs clean" % technique})
            continue
        checks.append({
            "property_id": pid,
            "quick_cmd": "./check %s quick" % pid,
            "thorough_cmd": "./check %s thorough" % pid,
            "evidence_file": "/verif/evidence/%s.json" % pid,
            "replay_cmd_template": "./check %s quick --replay {path}" % pid,
            "engine": engine,
            "level_claimed": {"category": "exploration", "text": text, "design_ref": ref},
            "level_note": note,
            "technique": technique,
        })
    m = {
        "version": 1,
        "setup_cmd": "./setup",
        "hooks": {
            "guard": "--cfg minicbor_verif",
            "enable": "harness/.cargo/config.toml sets rustflags = [\"--cfg\", \"minicbor_verif\"] for every harness build; the hook (step counter in Decoder::current/read) additionally needs feature std",
            "baseline_off_cmd": "cd /repo && cargo test --workspace --no-fail-fast --offline",
            "source_commits": hooks_commits,
            "add_only": True,
        },
        "engines": [
            {"name": "g_codec", "path": "harness/g_codec", "serves_properties": ["C01", "C03", "C04", "C05", "C06", "C11", "C12", "C13", "C19"], "kind_free_text": "proptest-driven tape generators + exhaustive enumerators over an independent RFC 8949 model (vcore)"},
            {"name": "g_total", "path": "harness/g_codec/src/bin/g_total.rs", "serves_properties": ["C02"], "kind_free_text": "totality engine: counting allocator, step-budget hook, panic containment; libFuzzer target in harness/fuzz"},
            {"name": "g_derive", "path": "harness/g_derive", "serves_properties": ["C07", "C08", "C09", "C10"], "kind_free_text": "schema grammar -> generated Rust types compiled by the real derive macros -> schema-driven reference encoder"},
            {"name": "g_io", "path": "harness/g_io", "serves_properties": ["C14", "C15", "C16"], "kind_free_text": "scripted Read/Write and AsyncRead/AsyncWrite with a hand-driven executor; schedules are generated values"},
            {"name": "g_serde", "path": "harness/g_serde", "serves_properties": ["C17", "C18"], "kind_free_text": "serde type family + model serializer"},
            {"name": "g_cfg", "path": "harness/g_cfg", "serves_properties": ["C20"], "kind_free_text": "one probe source built in six feature configurations; transcript comparison"},
        ],
        "checks": checks,
        "not_applicable": na,
        "notes": "All checks: exit 0 = held on everything explored, exit 1 + VIOLATION line = violation with replay file, exit 2 = inconclusive (build failure/watchdog). VERIF_SEED selects the generator seed (default 0). Known findings are listed in known_findings.jsonl.",
    }
    with open(os.path.join(ROOT, "MANIFEST.json"), "w") as f:
        json.dump(m, f, indent=1)
        f.write("\n")

if __name__ == "__main__":
    main()
