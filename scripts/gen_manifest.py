#!/usr/bin/env python3
"""Regenerates /verif/MANIFEST.json from the table below (single source of truth for the check registry)."""
import json, os, subprocess

ROOT = os.path.dirname(os.path.dirname(os.path.abspath(__file__)))

# id -> (built?, engine, technique, level text, level note, design ref)
P = {
 "C01": (True, "g_codec", "property-based round-trip (proptest tape generators) + exhaustive enumeration of small types",
   "Generated-input search: ~120 concrete instantiations of the built-in impls, boundary-dense tape-generated values, decode(encode(v)) with junk suffix compared under the property's equality, exact consumption, borrow check; u8/i8/u16/i16/char/NonZero16 enumerated completely (u32/i32/f32 completely in the thorough tier). Exhaustive where flagged, otherwise 'no counterexample among N cases'.",
   "Trusts the harness equality relations and generators; excludes only what the property excludes.", "DESIGN.md §3 C01"),
 "C02": (False, "g_total", "exhaustive short inputs + type-directed mutation fuzzing + libFuzzer target, panic/step/alloc/bounds oracles", "", "", "DESIGN.md §3 C02"),
 "C03": (False, "g_codec", "differential against an independent RFC 8949 reference encoder/parser; exhaustive small argument spaces; generated Encoder call histories", "", "", "DESIGN.md §3 C03"),
 "C04": (False, "g_codec", "model-based: every accessor / registry type against a data-model oracle over exhaustively enumerated small item trees and generated trees; all strict prefixes", "", "", "DESIGN.md §3 C04"),
 "C05": (True, "g_codec", "exhaustive enumeration + boundary-dense property-based generation against an i128 oracle",
   "Every (sign, width, argument) with argument < 2^16 and every 2^k±3 at every admissible width is decoded through 40 typed targets and the Int conversions and compared with exact i128 arithmetic (complete enumeration); random 64-bit arguments in addition; the thorough tier sweeps all 2^32 arguments at the 4- and 8-byte widths.",
   "Oracle is i128 arithmetic in the harness; 64-bit host only.", "DESIGN.md §3 C05"),
 "C06": (False, "g_codec", "exhaustive small trees + generated deep trees/chains against a reference item-boundary parser; differential with full decoding; no-alloc build replay", "", "", "DESIGN.md §3 C06"),
 "C07": (False, "g_derive", "property-based len == bytes written over built-in types, tokens and generated derived schemas", "", "", "DESIGN.md §3 C07, §4"),
 "C08": (False, "g_derive", "program generation (schema grammar) + schema-driven reference encoder differential", "", "", "DESIGN.md §4"),
 "C09": (False, "g_derive", "program generation + round-trip, re-framing metamorphic relation, negative edits", "", "", "DESIGN.md §4"),
 "C10": (False, "g_derive", "generated schema-version pairs (compatible edit sequences) decoded across versions, field-wise model comparison", "", "", "DESIGN.md §4"),
 "C11": (False, "g_codec", "round-trip / metamorphic identities over generated item sequences and token sequences; exhaustive halves", "", "", "DESIGN.md §3 C11"),
 "C12": (True, "g_codec", "exhaustive enumeration of f16 patterns and stratified/complete f32 sweeps against integer-only reference half arithmetic",
   "All 65536 half patterns and a 2^24 stratified set of f32 patterns (all 2^32 in the thorough tier) are pushed through every float accessor and encoder method and compared bit-for-bit with an independent integer-only IEEE 754 reference (round-to-nearest-even, overflow to infinity, NaN to NaN); doubles at every exponent boundary and random patterns.",
   "The reference half arithmetic is in the harness (unit-tested, no use of the half crate).", "DESIGN.md §3 C12"),
 "C13": (False, "g_codec", "property-based over (value, capacity, sink kind) with canary-guarded buffers and raw write histories against a 3-line model", "", "", "DESIGN.md §3 C13"),
 "C14": (False, "g_io", "exhaustive read-size compositions for short streams + generated fragmentation/fault scripts against a frame model", "", "", "DESIGN.md §5 C14"),
 "C15": (False, "g_io", "exhaustive DFS over poll/drop schedules (bounded) + seeded random schedules, scripted executor", "", "", "DESIGN.md §5 C15"),
 "C16": (False, "g_io", "exhaustive DFS over sink-outcome/cancel schedules (bounded) + seeded random schedules, scripted executor", "", "", "DESIGN.md §5 C16"),
 "C17": (False, "g_serde", "property-based round-trip + differential against a model serde serializer", "", "", "DESIGN.md §5 C17"),
 "C18": (False, "g_serde", "differential bridge vs native on generated values and re-framed encodings", "", "", "DESIGN.md §5 C18"),
 "C19": (False, "g_codec", "exhaustive short inputs + mutation fuzzing with a size-limited sink; differential against a reference renderer", "", "", "DESIGN.md §3 C19"),
 "C20": (False, "g_cfg", "differential across six separately built feature configurations on one generated corpus", "", "", "DESIGN.md §5 C20"),
}

def main():
    hooks_commits = []
    try:
        out = subprocess.run(["git", "-C", "/repo", "log", "--format=%H %s"], capture_output=True, text=True).stdout
        for line in out.splitlines():
            h, _, s = line.partition(" ")
            if "verification hook" in s:
                hooks_commits.append(h)
    except Exception:
        pass
    checks, na = [], []
    for pid in sorted(P):
        built, engine, technique, text, note, ref = P[pid]
        if not built:
            na.append({"property_id": pid, "reason": "check under construction in this session (planned technique: %s); not claimed until it runs clean" % technique})
            continue
        checks.append({
            "property_id": pid,
            "quick_cmd": "./check %s quick" % pid,
            "thorough_cmd": "./check %s thorough" % pid,
            "evidence_file": "/verif/evidence/%s.json" % pid,
            "replay_cmd_template": "./check %s quick --replay {path}" % pid,
            "engine": engine,
            "level_claimed": {"category": "exploration", "text": text, "design_ref": ref},
            "level_note": note,
            "technique": technique,
        })
    m = {
        "version": 1,
        "setup_cmd": "./setup",
        "hooks": {
            "guard": "--cfg minicbor_verif",
            "enable": "harness/.cargo/config.toml sets rustflags = [\"--cfg\", \"minicbor_verif\"] for every harness build; the hook (step counter in Decoder::current/read) additionally needs feature std",
            "baseline_off_cmd": "cd /repo && cargo test --workspace --no-fail-fast --offline",
            "source_commits": hooks_commits,
            "add_only": True,
        },
        "engines": [
            {"name": "g_codec", "path": "harness/g_codec", "serves_properties": ["C01", "C03", "C04", "C05", "C06", "C11", "C12", "C13", "C19"], "kind_free_text": "proptest-driven tape generators + exhaustive enumerators over an independent RFC 8949 model (vcore)"},
            {"name": "g_total", "path": "harness/g_codec/src/bin/g_total.rs", "serves_properties": ["C02"], "kind_free_text": "totality engine: counting allocator, step-budget hook, panic containment; libFuzzer target in harness/fuzz"},
            {"name": "g_derive", "path": "harness/g_derive", "serves_properties": ["C07", "C08", "C09", "C10"], "kind_free_text": "schema grammar -> generated Rust types compiled by the real derive macros -> schema-driven reference encoder"},
            {"name": "g_io", "path": "harness/g_io", "serves_properties": ["C14", "C15", "C16"], "kind_free_text": "scripted Read/Write and AsyncRead/AsyncWrite with a hand-driven executor; schedules are generated values"},
            {"name": "g_serde", "path": "harness/g_serde", "serves_properties": ["C17", "C18"], "kind_free_text": "serde type family + model serializer"},
            {"name": "g_cfg", "path": "harness/g_cfg", "serves_properties": ["C20"], "kind_free_text": "one probe source built in six feature configurations; transcript comparison"},
        ],
        "checks": checks,
        "not_applicable": na,
        "notes": "All checks: exit 0 = held on everything explored, exit 1 + VIOLATION line = violation with replay file, exit 2 = inconclusive (build failure/watchdog). VERIF_SEED selects the generator seed (default 0). Known findings are listed in known_findings.jsonl.",
    }
    with open(os.path.join(ROOT, "MANIFEST.json"), "w") as f:
        json.dump(m, f, indent=1)
        f.write("\n")

if __name__ == "__main__":
    main()
