#!/usr/bin/env python3
"""verify_seed.py <worktree> <seed-id> [PROP ...]
Independent confirmation of a seeded change produced by a sub-agent in <worktree> (a scratch git worktree of /repo
with the change applied and SEED/{patch.diff,demo.rs,meta.json}):
  1. the patch applies to a clean checkout of /repo's HEAD;
  2. with the change: the workspace builds, the pinned suite passes, the demonstration FAILS;
  3. without the change: the demonstration PASSES;
  4. our checks for the named properties (default: the property in meta.json) are run against the changed tree.
On success the seed is stored as /verif/seeded/<seed-id>/ (patch.diff, demo.rs, meta.json incl. what was run)."""
import json, os, subprocess, sys, shutil, time

ROOT = os.path.dirname(os.path.dirname(os.path.abspath(__file__)))
wt, sid = sys.argv[1], sys.argv[2]
props = sys.argv[3:]
env = dict(os.environ, CARGO_NET_OFFLINE="true")

def sh(cmd, cwd=None, timeout=3600):
    r = subprocess.run(cmd, shell=True, cwd=cwd, capture_output=True, text=True, env=env, timeout=timeout)
    return r.returncode, r.stdout + r.stderr

meta = json.load(open(os.path.join(wt, "SEED", "meta.json")))
if not props: props = [meta["property"]]
patch = os.path.join(wt, "SEED", "patch.diff")
demo = os.path.join(wt, "SEED", "demo.rs")
report = {"ran": []}

# fresh scratch copy of /repo's HEAD (not the agent's worktree)
work = "/tmp/vseed/%s" % sid
shutil.rmtree(work, ignore_errors=True); os.makedirs(work)
sh("git -C /repo archive HEAD | tar -x -C %s" % work)
rc, out = sh("git apply --check %s && git apply %s" % (patch, patch) if False else "patch -p1 --no-backup-if-mismatch < %s" % patch, cwd=work)
if rc != 0: print("PATCH DOES NOT APPLY:\n" + out[-800:]); sys.exit(1)
report["ran"].append("patch -p1 < patch.diff on a fresh export of /repo HEAD: applies")
demo_path = meta["demo_path"].split()[0]
demo_cmd = meta["demo_cmd"]
demo_cmd = demo_cmd[demo_cmd.index("cargo test"):].split("&&")[0].strip()   # keep only the cargo invocation
os.makedirs(os.path.dirname(os.path.join(work, demo_path)), exist_ok=True)

# 2. with the change
rc, out = sh("cargo test --workspace --no-fail-fast --offline 2>&1 | grep -E '^test result|FAILED|^error' ", cwd=work)
failed = [l for l in out.splitlines() if "FAILED" in l or l.startswith("error") or (l.startswith("test result") and " 0 failed" not in l)]
passed = sum(int(l.split()[3]) for l in out.splitlines() if l.startswith("test result: ok"))
if failed: print("EXISTING SUITE FAILS WITH THE CHANGE:\n" + "\n".join(failed[:10])); sys.exit(1)
report["ran"].append("with the change: cargo test --workspace --no-fail-fast --offline -> %d tests ok, 0 failed" % passed)
shutil.copy(demo, os.path.join(work, demo_path))
rc_with, out_with = sh(demo_cmd, cwd=work)
report["ran"].append("with the change: `%s` -> exit %d" % (demo_cmd, rc_with))
# 3. without the change
sh("patch -R -p1 --no-backup-if-mismatch < %s" % patch, cwd=work)
rc_without, out_without = sh(demo_cmd, cwd=work)
report["ran"].append("without the change: `%s` -> exit %d" % (demo_cmd, rc_without))
os.remove(os.path.join(work, demo_path))
sh("patch -p1 --no-backup-if-mismatch < %s" % patch, cwd=work)
if rc_with == 0 or rc_without != 0:
    print("DEMONSTRATION DOES NOT DISCRIMINATE: with=%d without=%d\n%s" % (rc_with, rc_without, (out_with if rc_with == 0 else out_without)[-1500:])); sys.exit(1)

# 4. our checks against the changed tree
outroot = "/tmp/vseed/%s-root" % sid
shutil.rmtree(outroot, ignore_errors=True); os.makedirs(outroot)
shutil.copy(os.path.join(ROOT, "known_findings.jsonl"), outroot)
if os.path.isdir(os.path.join(ROOT, "regress")): shutil.copytree(os.path.join(ROOT, "regress"), os.path.join(outroot, "regress"))
results = {}
for p in props:
    e2 = dict(env, VERIF_REPO_OVERRIDE=work, VERIF_TARGET_DIR=os.environ.get("VSEED_TARGET", "/tmp/vseed/target"), VERIF_OUT_ROOT=outroot, VERIF_SRC_ROOT=outroot)
    t0 = time.time()
    r = subprocess.run([os.path.join(ROOT, "check"), p, "quick"], capture_output=True, text=True, env=e2, timeout=7200)
    viol = [l for l in r.stdout.splitlines() if l.startswith("VIOLATION")]
    detail = [l for l in r.stdout.splitlines() if l.startswith("  [")][:1]
    results[p] = {"exit": r.returncode, "violation": bool(viol), "detail": detail[0][:400] if detail else "", "wall_s": round(time.time() - t0)}
    # promote the (shrunk) failing case to a plain regression case that every later run replays first
    if viol:
        rp = viol[0].split("replay=")[1].strip()
        if os.path.exists(rp):
            os.makedirs(os.path.join(ROOT, "regress", p), exist_ok=True)
            shutil.copy(rp, os.path.join(ROOT, "regress", p, "seed-%s.json" % sid))
    report["ran"].append("./check %s quick against the changed tree -> exit %d%s" % (p, r.returncode, (": " + detail[0][:300]) if detail else ""))
    if r.returncode == 2: report["ran"].append("   stderr: " + r.stderr[-400:])
caught = [p for p, v in results.items() if v["violation"]]
dst = os.path.join(ROOT, "seeded", sid)
os.makedirs(dst, exist_ok=True)
shutil.copy(patch, os.path.join(dst, "patch.diff"))
shutil.copy(demo, os.path.join(dst, "demo.rs"))
meta_out = {"properties": props, "breaks": meta["property"], "summary": meta.get("summary"), "needs": meta.get("needs"), "files": meta.get("files"),
            "demo_path": demo_path, "demo_cmd": demo_cmd, "author": "independent sub-agent (given only the property text and a scratch worktree)",
            "confirmed": report["ran"], "detected_by": caught, "check_results": results}
json.dump(meta_out, open(os.path.join(dst, "meta.json"), "w"), indent=1)
shutil.rmtree(work, ignore_errors=True); shutil.rmtree(outroot, ignore_errors=True)
print("%s: demo discriminates; detected by %s; results %s" % (sid, caught or "NOTHING", {p: (v["exit"], v["detail"][:160]) for p, v in results.items()}))
