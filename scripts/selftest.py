#!/usr/bin/env python3
"""Sensitivity self-test: apply each patch in mutants/ (and the reverse of each `fix:` commit, which
re-introduces a genuine defect) to a scratch copy of /repo and require the owning check to report a
VIOLATION. Nothing is applied to /repo. Usage: selftest.py [--jobs N] [--only ID,...] [--tier quick] [--promote] [--with-regress]
By default the promoted regression cases (regress/) are withheld, so that a CAUGHT verdict is earned by the generators."""
import json, os, subprocess, sys, shutil, concurrent.futures, time, glob

ROOT = os.path.dirname(os.path.dirname(os.path.abspath(__file__)))
SCRATCH = "/tmp/vmut"
PROMOTE = False
WITH_REGRESS = False   # default: generators only - promoted regression cases are NOT given to the check

def sh(cmd, **kw):
    return subprocess.run(cmd, shell=True, capture_output=True, text=True, **kw)

def load_mutants():
    ms = []
    for meta in sorted(glob.glob(os.path.join(ROOT, "mutants", "*.json"))):
        m = json.load(open(meta))
        m["id"] = os.path.basename(meta)[:-5]
        m["patch"] = meta[:-5] + ".patch"
        ms.append(m)
    for d in sorted(glob.glob(os.path.join(ROOT, "seeded", "*", "meta.json"))):
        m = json.load(open(d))
        m["id"] = "seeded-" + os.path.basename(os.path.dirname(d))
        m["patch"] = os.path.join(os.path.dirname(d), "patch.diff")
        ms.append(m)
    return ms

def run_one(m, slot, tier):
    mid = m["id"]
    work = os.path.join(SCRATCH, "w%d" % slot)
    repo = os.path.join(work, "repo")
    out = os.path.join(work, "root")
    shutil.rmtree(repo, ignore_errors=True); shutil.rmtree(out, ignore_errors=True)
    os.makedirs(out)
    sh("rsync -a --exclude target --exclude .git /repo/ %s/" % repo)
    if m.get("reverse_commit"):
        r = sh("git -C /repo show %s | (cd %s && patch -R -p1 --no-backup-if-mismatch)" % (m["reverse_commit"], repo))
    else:
        r = sh("cd %s && patch -p1 --no-backup-if-mismatch < %s" % (repo, m["patch"]))
    if r.returncode != 0:
        return mid, "PATCH-FAILED", r.stdout[-400:] + r.stderr[-400:], 0
    shutil.copy(os.path.join(ROOT, "known_findings.jsonl"), out)
    if WITH_REGRESS and os.path.isdir(os.path.join(ROOT, "regress")):
        shutil.copytree(os.path.join(ROOT, "regress"), os.path.join(out, "regress"))
    res = []
    t0 = time.time()
    for prop in m["properties"]:
        env = dict(os.environ, VERIF_REPO_OVERRIDE=repo, VERIF_TARGET_DIR=os.path.join(work, "target"), VERIF_OUT_ROOT=out, VERIF_SRC_ROOT=out)
        t = m.get("tier", tier)
        r = subprocess.run([os.path.join(ROOT, "check"), prop, t], capture_output=True, text=True, env=env, timeout=7200)
        viol = [l for l in r.stdout.splitlines() if l.startswith("VIOLATION")]
        if viol and PROMOTE:
            rp = viol[0].split("replay=")[1].strip()
            if os.path.exists(rp):
                os.makedirs(os.path.join(ROOT, "regress", prop), exist_ok=True)
                shutil.copy(rp, os.path.join(ROOT, "regress", prop, "%s.json" % mid))
        detail = [l for l in r.stdout.splitlines() if l.startswith("  [")][:2]
        res.append((prop, r.returncode, bool(viol), detail, r.stderr[-300:] if r.returncode == 2 else ""))
    caught = any(v for _, _, v, _, _ in res)
    status = "CAUGHT" if caught else ("INCONCLUSIVE" if any(rc == 2 for _, rc, _, _, _ in res) else "MISSED")
    return mid, status, res, time.time() - t0

def main():
    global PROMOTE, WITH_REGRESS
    jobs = 4; only = None; tier = "quick"
    a = sys.argv[1:]
    while a:
        x = a.pop(0)
        if x == "--jobs": jobs = int(a.pop(0))
        elif x == "--only": only = set(a.pop(0).split(","))
        elif x == "--tier": tier = a.pop(0)
        elif x == "--promote": PROMOTE = True
        elif x == "--with-regress": WITH_REGRESS = True
    ms = [m for m in load_mutants() if only is None or m["id"] in only]
    os.makedirs(SCRATCH, exist_ok=True)
    results = {}
    import queue
    slots = queue.Queue()
    for i in range(jobs): slots.put(i)
    def task(m):
        s = slots.get()
        try: return run_one(m, s, tier)
        except Exception as e: return m["id"], "ERROR", str(e), 0
        finally: slots.put(s)
    with concurrent.futures.ThreadPoolExecutor(jobs) as ex:
        for mid, status, res, dt in ex.map(task, ms):
            print("%-44s %-12s %5.0fs  %s" % (mid, status, dt, "" if status == "CAUGHT" else res), flush=True)
            if status == "CAUGHT":
                for prop, rc, v, detail, _ in res:
                    if v: print("      %s: %s" % (prop, detail[0][:200] if detail else "")); break
            results[mid] = {"status": status, "wall_s": round(dt), "detail": [[p, rc, v, d] for p, rc, v, d, _ in res] if isinstance(res, list) else res}
    path = os.path.join(ROOT, "mutants", "RESULTS.json")
    old = {}
    if os.path.exists(path): old = json.load(open(path))
    old.update(results)
    json.dump(old, open(path, "w"), indent=1, sort_keys=True)
    shutil.rmtree(SCRATCH, ignore_errors=True)
    missed = [k for k, v in results.items() if v["status"] != "CAUGHT"]
    print("caught %d / %d" % (len(results) - len(missed), len(results)), "missed:", missed)
    sys.exit(1 if missed else 0)

if __name__ == "__main__":
    main()
