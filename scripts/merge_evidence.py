#!/usr/bin/env python3
"""merge_evidence.py MAIN.json EXTRA.json [LABEL] : fold EXTRA (a sub-property run by another engine, or - with LABEL - the
same sub-checks run under another build profile) into MAIN."""
import json, sys, os
main, extra = sys.argv[1], sys.argv[2]
label = sys.argv[3] if len(sys.argv) > 3 else None
a = json.load(open(main)); b = json.load(open(extra))
ca, cb = a["coverage"], b["coverage"]
ca["evaluations"] += cb["evaluations"]
ca["distinct_nontrivial"] += cb["distinct_nontrivial"]
if label:
    note = " | [%s] the same sub-checks once more in a build of harness and library with that profile (%d evaluations)" % (label, cb["evaluations"])
    if note.split("(")[0] not in ca["rule"]: ca["rule"] += note
    else: ca["rule"] += " (+%d evaluations: %s)" % (cb["evaluations"], b.get("property_id"))
    for s in (cb.get("subchecks") or []): s["sub"] = "%s/%s" % (label, s.get("sub"))
    cb["classes"] = {"%s: %s" % (label, k): v for k, v in (cb.get("classes") or {}).items()}
    cb["samples"] = []
else:
    ca["rule"] += " | " + cb["rule"]
ca["samples"] = (ca.get("samples") or []) + (cb.get("samples") or [])
ca["subchecks"] = (ca.get("subchecks") or []) + (cb.get("subchecks") or [])
for k, v in (cb.get("classes") or {}).items(): ca.setdefault("classes", {})[k] = ca.get("classes", {}).get(k, 0) + v
ca["exhaustive"] = bool(ca.get("exhaustive")) and bool(cb.get("exhaustive"))
ca["known_findings_met"] = (ca.get("known_findings_met") or []) + ([] if label else (cb.get("known_findings_met") or []))
a["assumptions"] = list(dict.fromkeys((a.get("assumptions") or []) + (b.get("assumptions") or [])))
a["wall_s"] += b["wall_s"]
a["violations"] = a.get("violations", 0) + b.get("violations", 0)
json.dump(a, open(main, "w"), indent=1)
os.remove(extra)
