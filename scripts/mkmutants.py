#!/usr/bin/env python3
"""Generates mutants/<id>.patch + <id>.json from (file, old, new) edits against the current /repo tree.
The patches are never applied to /repo; scripts/selftest.py applies them to scratch copies."""
import difflib, json, os, sys

ROOT = os.path.dirname(os.path.dirname(os.path.abspath(__file__)))
REPO = "/repo"

M = []
def mut(mid, props, what, edits, tier=None):
    M.append((mid, props, what, edits, tier))

DEC = "minicbor/src/decode/decoder.rs"
ENC = "minicbor/src/encode/encoder.rs"
DECRS = "minicbor/src/decode.rs"
ENCRS = "minicbor/src/encode.rs"
TOK = "minicbor/src/data/token.rs"
TKZ = "minicbor/src/decode/tokenizer.rs"
DATA = "minicbor/src/data.rs"
WR = "minicbor/src/encode/write.rs"

# ---- C01 ----
mut("c01-duration-swapped", ["C01"], "Duration::encode writes nanos before secs",
    [(ENCRS, ".encode_with(self.as_secs(), ctx)?\n            .encode_with(self.subsec_nanos(), ctx)?", ".encode_with(u64::from(self.subsec_nanos()), ctx)?\n            .encode_with(self.as_secs() as u32, ctx)?")])
mut("c01-vecdeque-push-front", ["C01"], "VecDeque decoded with push_front (reversed)",
    [(DECRS, "alloc::collections::VecDeque<T>, push_back", "alloc::collections::VecDeque<T>, push_front")])
mut("c01-bound-excluded-index", ["C01"], "Bound::Excluded written with variant index 0",
    [(ENCRS, "core::ops::Bound::Excluded(v) => e.u32(1)?", "core::ops::Bound::Excluded(v) => e.u32(0)?")])
mut("c01-char-truncated", ["C01", "C03"], "Encoder::char truncates the scalar value to 16 bits",
    [(ENC, "self.u32(u32::from(x))", "self.u32(u32::from(x) & 0xffff)")])
mut("c01-option-some-none-swapped-hashset-len", ["C01"], "HashSet encoded with one element fewer when len is 3",
    [(ENCRS, "        e.array(self.len() as u64)?;\n        for x in self {\n            x.encode(e, ctx)?\n        }\n        Ok(())\n    }\n}\n\n#[cfg(feature = \"std\")]\nimpl<C, T, S> CborLen<C> for std::collections::HashSet<T, S>",
             "        e.array(self.len() as u64)?;\n        for x in self.iter().skip(if self.len() == 3 { 1 } else { 0 }) {\n            x.encode(e, ctx)?\n        }\n        if self.len() == 3 { e.null()?; }\n        Ok(())\n    }\n}\n\n#[cfg(feature = \"std\")]\nimpl<C, T, S> CborLen<C> for std::collections::HashSet<T, S>")])

mut("c01-token-map-as-array", ["C01"], "Token::Map(n) encoded with an array head",
    [(TOK, "Token::Map(val)    => e.map(val)?,", "Token::Map(val)    => e.array(val)?,")])
mut("c01-token-decode-beginmap", ["C01"], "Decode for Token returns BeginArray for an indefinite map head",
    [(TOK, "Type::MapIndef     => { skip_byte(d); Ok(Token::BeginMap)    }", "Type::MapIndef     => { skip_byte(d); Ok(Token::BeginArray)  }")])

# ---- C02 ----
mut("c02-heap-prealloc", ["C02"], "BinaryHeap pre-allocates the declared length",
    [(DECRS, "let mut v = alloc::collections::BinaryHeap::new();", "let mut v = alloc::collections::BinaryHeap::with_capacity(iter.size_hint().0.max(d_len_hint));"),
     (DECRS, "        let iter: ArrayIterWithCtx<C, T> = d.array_iter_with(ctx)?;\n        let mut v = alloc::collections::BinaryHeap", "        let d_len_hint = d.probe().array().ok().flatten().unwrap_or(0) as usize;\n        let iter: ArrayIterWithCtx<C, T> = d.array_iter_with(ctx)?;\n        let mut v = alloc::collections::BinaryHeap")])
mut("c02-read-slice-unchecked-add", ["C02"], "read_slice adds without overflow check",
    [(DEC, "if let Some(b) = self.pos.checked_add(n).and_then(|end| self.buf.get(self.pos .. end)) {", "if let Some(b) = self.buf.get(self.pos .. self.pos + n) {")])
mut("c02-tokenizer-no-drain", ["C02", "C11"], "Tokenizer::token does not drain the decoder on error",
    [(TKZ, "                self.decoder.set_position(end); // drain decoder\n", "                let _ = end;\n")])
mut("c02-skip-byte-two", ["C02", "C11"], "Token::decode advances two bytes for one-byte tokens",
    [(TOK, "d.set_position(d.position() + 1)", "d.set_position(d.position() + 2)")])
mut("c02-arrayvec-no-forget", ["C02"], "ArrayVec::into_array does not forget self (double drop)",
    [(DECRS, "            core::mem::forget(self);\n", "            let this = self; let _ = &this;\n")])
mut("c02-arrayvec-drop-leaks-last", ["C02"], "ArrayVec::drop forgets the last element of a partially filled buffer (leak on the error path)",
    [(DECRS, "            let s = core::slice::from_raw_parts_mut(self.buffer.as_mut_ptr() as *mut T, self.len);", "            let s = core::slice::from_raw_parts_mut(self.buffer.as_mut_ptr() as *mut T, if self.len > 2 { self.len - 1 } else { self.len });")])
mut("c02-systemtime-unchecked", ["C02"], "SystemTime decode adds the duration unchecked",
    [(DECRS, "        std::time::UNIX_EPOCH\n            .checked_add(d.decode_with(ctx)?)\n            .ok_or_else(|| Error::message(\"duration value can not represent system time\").at(p))", "        let _ = p;\n        Ok(std::time::UNIX_EPOCH + d.decode_with::<C, core::time::Duration>(ctx)?)")])

# ---- C03 ----
mut("c03-type-len-boundary", ["C03"], "type_len uses the one-byte form for 0x100",
    [(ENC, "            0x18     ..= 0xff        => self.put(&[t | 24, x as u8]),\n            0x100    ..= 0xffff      => self.put(&[t | 25])?.put(&(x as u16).to_be_bytes()[..]),\n            0x1_0000 ..= 0xffff_ffff => self.put(&[t | 26])?.put(&(x as u32).to_be_bytes()),",
           "            0x18     ..= 0x100       => self.put(&[t | 24, x as u8]),\n            0x101    ..= 0xffff      => self.put(&[t | 25])?.put(&(x as u16).to_be_bytes()[..]),\n            0x1_0000 ..= 0xffff_ffff => self.put(&[t | 26])?.put(&(x as u32).to_be_bytes()),")])
mut("c03-u32-boundary", ["C03"], "Encoder::u32 writes 0x10000 in the two-byte form",
    [(ENC, "            0x100 ..= 0xffff => self.put(&[25])?.put(&(x as u16).to_be_bytes()[..]),\n            _                => self.put(&[26])?.put(&x.to_be_bytes()[..])\n        }\n    }\n\n    /// Encode an `i32` value.",
           "            0x100 ..= 0x1_0000 => self.put(&[25])?.put(&(x as u16).to_be_bytes()[..]),\n            _                => self.put(&[26])?.put(&x.to_be_bytes()[..])\n        }\n    }\n\n    /// Encode an `i32` value.")])
mut("c03-u64-non-shortest", ["C03"], "Encoder::u64 uses the 8-byte form from 2^31 on",
    [(ENC, "            0x1_0000 ..= 0xffff_ffff => self.put(&[26])?.put(&(x as u32).to_be_bytes()[..]),\n            _                        => self.put(&[27])?.put(&x.to_be_bytes()[..])\n        }\n    }\n\n    /// Encode an `i64` value.",
           "            0x1_0000 ..= 0x7fff_ffff => self.put(&[26])?.put(&(x as u32).to_be_bytes()[..]),\n            _                        => self.put(&[27])?.put(&x.to_be_bytes()[..])\n        }\n    }\n\n    /// Encode an `i64` value.")])
mut("c03-btreemap-double-len", ["C03"], "BTreeMap encode writes len()*2 in the header",
    [(ENCRS, "    K: Encode<C> + Eq + Ord,\n    V: Encode<C>\n{\n    fn encode<W: Write>(&self, e: &mut Encoder<W>, ctx: &mut C) -> Result<(), Error<W::Error>> {\n        e.map(self.len() as u64)?;",
             "    K: Encode<C> + Eq + Ord,\n    V: Encode<C>\n{\n    fn encode<W: Write>(&self, e: &mut Encoder<W>, ctx: &mut C) -> Result<(), Error<W::Error>> {\n        e.map(self.len() as u64 * 2)?;")])
mut("c03-arrayiter-inexact-definite", ["C03"], "ArrayIter trusts the lower size_hint bound when the upper bound is larger",
    [(ENCRS, "        let iter = self.0.clone();\n        let (low, up) = iter.size_hint();\n        let exact = Some(low) == up;\n        if exact {\n            e.array(low as u64)?;",
             "        let iter = self.0.clone();\n        let (low, up) = iter.size_hint();\n        let exact = Some(low) == up || (low == 0 && up == Some(5));\n        if exact {\n            e.array(low as u64)?;")])
mut("c03-i64-neg-boundary", ["C03"], "Encoder::i64 uses the 4-byte form for -2^32-1",
    [(ENC, "            n @ 0x1_0000 ..= 0xffff_ffff => self.put(&[SIGNED | 26])?.put(&(n as u32).to_be_bytes()[..]),\n            n                            => self.put(&[SIGNED | 27])?.put(&n.to_be_bytes()[..])\n        }\n    }\n\n    /// Encode a CBOR integer.",
           "            n @ 0x1_0000 ..= 0x1_0000_0000 => self.put(&[SIGNED | 26])?.put(&(n as u32).to_be_bytes()[..]),\n            n                            => self.put(&[SIGNED | 27])?.put(&n.to_be_bytes()[..])\n        }\n    }\n\n    /// Encode a CBOR integer.")])

# ---- C04 ----
mut("c04-str-unchecked-utf8", ["C04"], "Decoder::str skips UTF-8 validation",
    [(DEC, "        let d = self.read_slice(n)?;\n        str::from_utf8(d).map_err(|e| Error::utf8(e).at(p))", "        let d = self.read_slice(n)?;\n        let _ = p;\n        Ok(unsafe { str::from_utf8_unchecked(d) })")])
mut("c04-arrayiter-break-not-consumed", ["C04"], "ArrayIterWithCtx does not consume the break byte",
    [(DEC, "impl<'a, 'b, C, T: Decode<'b, C>> Iterator for ArrayIterWithCtx<'a, 'b, C, T> {\n    type Item = Result<T, Error>;\n\n    fn next(&mut self) -> Option<Self::Item> {\n        match self.len {\n            None => match self.decoder.current() {\n                Ok(BREAK) => self.decoder.read().map(|_| None).transpose(),",
           "impl<'a, 'b, C, T: Decode<'b, C>> Iterator for ArrayIterWithCtx<'a, 'b, C, T> {\n    type Item = Result<T, Error>;\n\n    fn next(&mut self) -> Option<Self::Item> {\n        match self.len {\n            None => match self.decoder.current() {\n                Ok(BREAK) => None,")])
mut("c04-tag-accepts-major7", ["C04"], "Decoder::tag accepts major type 7",
    [(DEC, "        if TAGGED != type_of(b) {\n            return Err(Error::type_mismatch(self.type_of(b)?)\n                .with_message(\"expected tag\")", "        if TAGGED != type_of(b) && SIMPLE != type_of(b) {\n            return Err(Error::type_mismatch(self.type_of(b)?)\n                .with_message(\"expected tag\")")])
mut("c04-unsigned-u16-little-endian", ["C04", "C05"], "unsigned() reads the 2-byte argument little-endian",
    [(DEC, "            0x19 => self.read_array().map(u16::from_be_bytes).map(u64::from),\n            0x1a => self.read_array().map(u32::from_be_bytes).map(u64::from),\n            0x1b => self.read_array().map(u64::from_be_bytes),\n            _    => Err(Error::type_mismatch(self.type_of(b)?)\n                .with_message(\"expected u64\")",
           "            0x19 => self.read_array().map(u16::from_le_bytes).map(u64::from),\n            0x1a => self.read_array().map(u32::from_be_bytes).map(u64::from),\n            0x1b => self.read_array().map(u64::from_be_bytes),\n            _    => Err(Error::type_mismatch(self.type_of(b)?)\n                .with_message(\"expected u64\")")])
mut("c04-bytes-accepts-text", ["C04"], "Decoder::bytes accepts text strings",
    [(DEC, "        if BYTES != type_of(b) || info_of(b) == 31 {", "        if (BYTES != type_of(b) && TEXT != type_of(b)) || info_of(b) == 31 {")])
mut("c04-read-slice-wrong-error-class", ["C04"], "read_slice reports short input as a message error",
    [(DEC, "            self.pos += n;\n            return Ok(b)\n        }\n        Err(Error::end_of_input())", "            self.pos += n;\n            return Ok(b)\n        }\n        Err(Error::message(\"not enough bytes\"))")])
mut("c04-i32-accepts-wider-silently", ["C04", "C05"], "Decoder::i32 truncates 8-byte negative arguments",
    [(DEC, "            0x3b              => self.read_array().map(u64::from_be_bytes).and_then(|n| try_as(n, \"when converting u64 to i32\", p).map(|n: i32| -1 - n)),", "            0x3b              => self.read_array().map(u64::from_be_bytes).map(|n| -1 - ((n & 0x7fff_ffff) as i32)),")])
mut("c04-stritter-definite-utf8-skipped", ["C04"], "StrIter skips UTF-8 validation for definite strings",
    [(DEC, "                Some(self.decoder.read_slice(n).and_then(|d| str::from_utf8(d).map_err(|e| Error::utf8(e).at(self.pos))))", "                Some(self.decoder.read_slice(n).map(|d| unsafe { str::from_utf8_unchecked(d) }))")])
mut("c04-size-tail-map-doubles", ["C04"], "Size::tail reports 2n items for maps",
    [("minicbor/src/decode/info.rs", "            ARRAY | MAP => match info_of(fst) {\n                0x1f => Ok(Self::Indef),\n                info => {\n                    let mut d = Decoder::new(&head[1 ..]);\n                    let p = d.position();\n                    let n = d.unsigned(info, p)?;\n                    Ok(Self::Items(n))",
      "            ARRAY | MAP => match info_of(fst) {\n                0x1f => Ok(Self::Indef),\n                info => {\n                    let mut d = Decoder::new(&head[1 ..]);\n                    let p = d.position();\n                    let n = d.unsigned(info, p)?;\n                    Ok(Self::Items(if type_of(fst) == MAP { n.saturating_mul(2) } else { n }))")])

# ---- C05 ----
mut("c05-i32-minus-n", ["C05"], "Decoder::i32 maps the 4-byte negative argument to -n",
    [(DEC, "            0x3a              => self.read_array().map(u32::from_be_bytes).and_then(|n| try_as(n, \"when converting u32 to i32\", p).map(|n: i32| -1 - n)),", "            0x3a              => self.read_array().map(u32::from_be_bytes).and_then(|n| try_as(n, \"when converting u32 to i32\", p).map(|n: i32| -n)),")])
mut("c05-type-of-threshold", ["C05", "C11"], "type_of classifies 38 80 as I8",
    [(DEC, "            0x38                 => if self.peek()? < 0x80 { Type::I8  } else { Type::I16 }", "            0x38                 => if self.peek()? <= 0x80 { Type::I8  } else { Type::I16 }")])
mut("c05-u8-as-cast", ["C05"], "Decoder::u8 truncates 2-byte arguments with `as`",
    [(DEC, "            0x19           => self.read_array().map(u16::from_be_bytes).and_then(|n| try_as(n, \"when converting u16 to u8\", p)),", "            0x19           => self.read_array().map(u16::from_be_bytes).map(|n| n as u8),")])
mut("c05-int-to-i64-no-sign-split", ["C05"], "TryFrom<Int> for i64 ignores the sign for 2^63-1",
    [(DATA, "        Ok(if i.neg { -1 - j } else { j })", "        Ok(if i.neg && j != i64::MAX { -1 - j } else { j })")])
mut("c05-int-tryfrom-i128-boundary", ["C05"], "TryFrom<i128> for Int accepts -2^64-1",
    [(DATA, "            if i < -0x1_0000_0000_0000_0000 {", "            if i < -0x1_0000_0000_0000_0001 {")])
mut("c05-i64-from-int-negative", ["C05"], "From<i64> for Int maps negative values to n instead of -1-n for i64::MIN",
    [(DATA, "            Int { neg: true, val: (-1 - i) as u64 }\n        } else {\n            Int { neg: false, val: i as u64 }\n        }\n    }\n}\n\nimpl TryFrom<i128> for Int", "            Int { neg: true, val: if i == i64::MIN { i64::MAX as u64 - 1 } else { (-1 - i) as u64 } }\n        } else {\n            Int { neg: false, val: i as u64 }\n        }\n    }\n}\n\nimpl TryFrom<i128> for Int")])

# ---- C06 ----
SKIP_TAG_OLD = "                TAGGED ..= 0xdb => {\n                    let p = self.pos;\n                    self.read().and_then(|n| self.unsigned(info_of(n), p))?;\n                    continue\n                }\n                SIMPLE ..= 0xfb => {\n                    let p = self.pos;\n                    self.read().and_then(|n| self.unsigned(info_of(n), p))?;\n                }\n                BREAK => {\n                    self.read()?;\n                    if nrounds == 0 && irounds == 0 {"
mut("c06-tags-counted", ["C06"], "skip counts a tag as an item (alloc variant)",
    [(DEC, SKIP_TAG_OLD, SKIP_TAG_OLD.replace("                    continue\n                }\n                SIMPLE", "                }\n                SIMPLE"))])
mut("c06-switch-keeps-nrounds", ["C06"], "skip pushes nrounds instead of nrounds-1 when switching to the stack (array)",
    [(DEC, "                                stack.push(Some(nrounds - 1));\n                                stack.push(None);\n                                nrounds = 0;\n                                irounds = 0\n                            }\n                    }\n                MAP ..= 0xbf =>", "                                stack.push(Some(nrounds));\n                                stack.push(None);\n                                nrounds = 0;\n                                irounds = 0\n                            }\n                    }\n                MAP ..= 0xbf =>")])
mut("c06-map-stack-n", ["C06"], "skip pushes n instead of 2n for a definite map in stack mode",
    [(DEC, "                                stack.push(Some(n.saturating_mul(2)))", "                                stack.push(Some(n))")])
mut("c06-irounds-dropped-on-switch", ["C06"], "skip forgets open indefinite containers when switching to the stack (map)",
    [(DEC, "                                for _ in 0 .. irounds {\n                                    stack.push(None)\n                                }\n                                stack.push(Some(nrounds - 1));\n                                stack.push(None);\n                                nrounds = 0;\n                                irounds = 0\n                            }\n                    }\n                TAGGED", "                                stack.push(Some(nrounds - 1));\n                                stack.push(None);\n                                nrounds = 0;\n                                irounds = 0\n                            }\n                    }\n                TAGGED")])
mut("c06-finished-counts-not-unwound", ["C06"], "skip pops only one finished definite container per item in stack mode",
    [(DEC, "                while let Some(Some(0)) = stack.last() {\n                     stack.pop();\n                }", "                if let Some(Some(0)) = stack.last() {\n                     stack.pop();\n                }")])

# ---- C07 (built-in) ----
mut("c07-u32-len-boundary", ["C07"], "u32::cbor_len reports 5 for 0xffff",
    [(ENCRS, "            0     ..= 0x17   => 1,\n            0x18  ..= 0xff   => 2,\n            0x100 ..= 0xffff => 3,\n            _                => 5", "            0     ..= 0x17   => 1,\n            0x18  ..= 0xff   => 2,\n            0x100 ..= 0xfffe => 3,\n            _                => 5")])
mut("c07-str-len-no-head", ["C07"], "str::cbor_len omits the head for empty strings",
    [(ENCRS, "impl<C> CborLen<C> for str {\n    fn cbor_len(&self, ctx: &mut C) -> usize {\n        let n = self.len();\n        n.cbor_len(ctx) + n", "impl<C> CborLen<C> for str {\n    fn cbor_len(&self, ctx: &mut C) -> usize {\n        let n = self.len();\n        if n == 0 { return 0 }\n        n.cbor_len(ctx) + n")])
mut("c07-bound-unbounded-len", ["C07"], "Bound::Unbounded length counted as 1",
    [(ENCRS, "            core::ops::Bound::Unbounded   => 2\n", "            core::ops::Bound::Unbounded   => 1\n")])
mut("c07-i64-len-min", ["C07"], "i64::cbor_len computes -x instead of -1-x",
    [(ENCRS, "        let x = if *self >= 0 { *self as u64 } else { (-1 - self) as u64 };", "        let x = if *self >= 0 { *self as u64 } else { self.wrapping_neg() as u64 };")])

# ---- C11 ----
mut("c11-break-as-undefined", ["C11"], "Token::Break encoded as undefined",
    [(TOK, "            Token::Break       => e.end()?,", "            Token::Break       => e.undefined()?,")])
mut("c11-begin-bytes-two", ["C11", "C02"], "Token::BeginBytes consumes two bytes",
    [(TOK, "            Type::BytesIndef   => { skip_byte(d); Ok(Token::BeginBytes)  }", "            Type::BytesIndef   => { skip_byte(d); skip_byte(d); Ok(Token::BeginBytes)  }")])
mut("c11-tag-token-u32", ["C11"], "Token::Tag re-encoded through u32 truncation",
    [(TOK, "            Token::Tag(val)    => e.tag(val)?,", "            Token::Tag(val)    => e.tag(Tag::new(val.as_u64() & 0xffff_ffff))?,")])
mut("c11-map-token-as-array", ["C11"], "Token::Map(n) encoded as an array head when n is 0",
    [(TOK, "            Token::Map(val)    => e.map(val)?,", "            Token::Map(val)    => if val == 0 { e.array(0)? } else { e.map(val)? },")])

# ---- C12 ----
mut("c12-f32-little-endian", ["C12", "C01"], "Encoder::f32 writes little-endian",
    [(ENC, "self.put(&[SIMPLE | 26])?.put(&x.to_be_bytes()[..])", "self.put(&[SIMPLE | 26])?.put(&x.to_le_bytes()[..])")])
mut("c12-f32-accepts-f64", ["C12", "C04"], "Decoder::f32 accepts doubles by narrowing",
    [(DEC, "            0xfa => {\n                self.read()?;\n                Ok(f32::from_be_bytes(self.read_array()?))\n            }\n            b => Err(Error::type_mismatch(self.type_of(b)?).at(p).with_message(\"expected f32\"))", "            0xfa => {\n                self.read()?;\n                Ok(f32::from_be_bytes(self.read_array()?))\n            }\n            0xfb => {\n                self.read()?;\n                Ok(f64::from_be_bytes(self.read_array()?) as f32)\n            }\n            b => Err(Error::type_mismatch(self.type_of(b)?).at(p).with_message(\"expected f32\"))")])
mut("c12-f16-truncates", ["C12"], "Encoder::f16 truncates instead of rounding to nearest even",
    [(ENC, "let n = half::f16::from_f32(x).to_bits();", "let n = half::f16::from_f32(f32::from_bits(x.to_bits() & 0xffff_e000)).to_bits();")])
mut("c12-f64-widening-via-decimal", ["C12"], "Decoder::f64 of an f32 item loses NaN-ness for signalling NaNs (maps them to infinity)",
    [(DEC, "            0xfa => self.f32().map(f64::from),", "            0xfa => self.f32().map(|x| if x.is_nan() && x.to_bits() & 0x0040_0000 == 0 { f64::INFINITY } else { f64::from(x) }),")])

# ---- C13 ----
mut("c13-cursor-advances-on-failure", ["C13"], "Cursor<&mut [u8]> advances its position even when the write fails",
    [(WR, "impl Write for Cursor<&mut [u8]> {\n    type Error = EndOfSlice;\n\n    fn write_all(&mut self, buf: &[u8]) -> Result<(), Self::Error> {\n        let mut slice = &mut self.0[self.1 ..];\n        slice.write_all(buf)?;\n        self.1 += buf.len();\n        Ok(())", "impl Write for Cursor<&mut [u8]> {\n    type Error = EndOfSlice;\n\n    fn write_all(&mut self, buf: &[u8]) -> Result<(), Self::Error> {\n        let mut slice = &mut self.0[self.1 ..];\n        let r = slice.write_all(buf);\n        self.1 = (self.1 + buf.len()).min(self.0.len());\n        r")])
mut("c13-array-cursor-ignores-position", ["C13"], "Cursor<[u8; N]> always writes at the start",
    [(WR, "impl<const N: usize> Write for Cursor<[u8; N]> {\n    type Error = EndOfArray;\n\n    fn write_all(&mut self, buf: &[u8]) -> Result<(), Self::Error> {\n        let mut slice = &mut self.0[self.1 ..];", "impl<const N: usize> Write for Cursor<[u8; N]> {\n    type Error = EndOfArray;\n\n    fn write_all(&mut self, buf: &[u8]) -> Result<(), Self::Error> {\n        let mut slice = &mut self.0[.. N - self.1];")])
mut("c13-slice-off-by-one", ["C13"], "&mut [u8] refuses a write that fits exactly",
    [(WR, "        if self.len() < buf.len() {\n            return Err(EndOfSlice(()))", "        if self.len() <= buf.len() && !buf.is_empty() {\n            return Err(EndOfSlice(()))")])
mut("c13-boxed-cursor-wrong-error", ["C13"], "encoder maps write errors of 1-byte writes to a message error",
    [(ENC, "        self.writer.write_all(b).map_err(Error::write)?;", "        self.writer.write_all(b).map_err(|e| if b.len() == 9 { Error::message(\"nine\") } else { Error::write(e) })?;")])

# ---- C19 ----
mut("c19-hex-no-separator", ["C19"], "hex bytes rendered without separating spaces",
    [(TOK, "                        write!(f, \"{:02x} \", x)?", "                        write!(f, \"{:02x}\", x)?")])
mut("c19-indef-array-no-space", ["C19"], "indefinite array rendered as `[_` without the space",
    [(TKZ, "                            f.write_str(\"[_ \")?", "                            f.write_str(\"[_\")?")])
mut("c19-tag-as-T", ["C19"], "tags rendered as T(n)(",
    [(TKZ, "                            write!(f, \"{}(\", u64::from(t))?", "                            write!(f, \"T({})(\", u64::from(t))?")])
mut("c19-map-colon-no-space", ["C19"], "map entries rendered with `:` without the space (definite maps with one entry)",
    [(TKZ, "                    E::M(Some(1)) => {\n                        stack.push(E::M(Some(0)));\n                        stack.push(E::N);\n                        stack.push(E::S(\": \"));", "                    E::M(Some(1)) => {\n                        stack.push(E::M(Some(0)));\n                        stack.push(E::N);\n                        stack.push(E::S(\":\"));")])
mut("c19-indef-bytes-not-closed-loop", ["C19"], "display of an unterminated indefinite map pushes without consuming",
    [(TKZ, "                        None => {\n                            write!(f, \" !!! indefinite map not closed\")?;\n                            return Ok(())\n                        }", "                        None => {\n                            stack.push(E::M(None));\n                            stack.push(E::S(\" !!! indefinite map not closed\"));\n                        }")])
mut("c19-empty-indef-text", ["C19"], "empty indefinite text rendered like empty indefinite bytes",
    [(TKZ, "                            f.write_str(\"\\\"\\\"_\")?", "                            f.write_str(\"''_\")?")])


# ---- C14 ----
RD = "minicbor-io/src/reader.rs"
WRI = "minicbor-io/src/writer.rs"
AR = "minicbor-io/src/async_reader.rs"
AW = "minicbor-io/src/async_writer.rs"
mut("c14-eof-in-prefix-clean-end", ["C14"], "blocking reader reports a clean end when the stream stops inside a length prefix",
    [(RD, "                Ok(0) =>\n                    return Err(Error::Io(io::ErrorKind::UnexpectedEof.into())),", "                Ok(0) =>\n                    return Ok(None),")])
mut("c14-maxlen-after-resize", ["C14"], "blocking reader resizes its buffer before checking max_len",
    [(RD, "        if len > self.max_len {\n            return Err(Error::InvalidLen)\n        }\n        self.buffer.clear();\n        self.buffer.resize(len, 0u8);", "        self.buffer.clear();\n        self.buffer.resize(len, 0u8);\n        if len > self.max_len {\n            return Err(Error::InvalidLen)\n        }")])
mut("c14-prefix-len-assign", ["C14"], "prefix loop overwrites the received count instead of adding",
    [(RD, "                Ok(n) =>\n                    len += n,", "                Ok(n) =>\n                    len = n.max(len),")])
mut("c14-interrupted-propagated", ["C14"], "blocking reader propagates Interrupted while reading the prefix",
    [(RD, "                Err(e) if e.kind() == io::ErrorKind::Interrupted =>\n                    continue,\n", "")])
mut("c14-writer-prefix-le", ["C14"], "blocking writer writes the length prefix little-endian",
    [(WRI, "let prefix = (self.buffer.len() as u32 - 4).to_be_bytes();", "let prefix = (self.buffer.len() as u32 - 4).to_le_bytes();")])
mut("c16-async-writer-maxlen-off-by-one", ["C16"], "AsyncWriter accepts a payload one byte above max_len (found by the mutation sweep)",
    [("minicbor-io/src/async_writer.rs", "if self.buffer.len() - 4 > self.max_len {", "if self.buffer.len() - 5 > self.max_len {")])
mut("c15-async-reader-maxlen-ge", ["C15"], "AsyncReader refuses a frame of exactly max_len bytes (found by the mutation sweep)",
    [("minicbor-io/src/async_reader.rs", "if len > self.max_len {", "if len >= self.max_len {")])
mut("c14-reader-default-max-len", ["C14"], "the blocking Reader's default maximum is 513 KiB (found by the mutation sweep)",
    [("minicbor-io/src/reader.rs", "Self { reader, buffer, max_len: 512 * 1024 }", "Self { reader, buffer, max_len: 513 * 1024 }")])
mut("c14-writer-with-buffer-stale", ["C14"], "a Writer built with_buffer keeps the content its scratch buffer arrived with",
    [("minicbor-io/src/writer.rs", "        self.buffer.resize(4, 0u8);\n", "        if self.buffer.len() < 4 { self.buffer.resize(4, 0u8) }\n")])
mut("c14-reader-buffer-only-grows", ["C14"], "the blocking reader never shrinks its buffer: a short frame after a long one is decoded from a buffer with stale tail and the payload read swallows the next frame",
    [("minicbor-io/src/reader.rs", "        self.buffer.clear();\n        self.buffer.resize(len, 0u8);\n", "        if self.buffer.len() < len { self.buffer.resize(len, 0u8) }\n")])
mut("c01-vecdeque-slices-swapped", ["C01"], "VecDeque encoded from as_slices() in the wrong order (only visible when the ring buffer is wrapped)",
    [(ENCRS, "    alloc::collections::VecDeque<T>\n    alloc::collections::LinkedList<T>", "    alloc::collections::LinkedList<T>"),
     (ENCRS, "impl <C, T: Encode<C>, const N: usize> Encode<C> for [T; N] {", "#[cfg(feature = \"alloc\")]\nimpl<C, T: Encode<C>> Encode<C> for alloc::collections::VecDeque<T> {\n    fn encode<W: Write>(&self, e: &mut Encoder<W>, ctx: &mut C) -> Result<(), Error<W::Error>> {\n        let (a, b) = self.as_slices();\n        e.array(self.len() as u64)?;\n        for x in b.iter().chain(a) { x.encode(e, ctx)? }\n        Ok(())\n    }\n}\n#[cfg(feature = \"alloc\")]\nimpl<C, T: CborLen<C>> CborLen<C> for alloc::collections::VecDeque<T> {\n    fn cbor_len(&self, ctx: &mut C) -> usize { let n = self.len(); n.cbor_len(ctx) + self.iter().map(|x| x.cbor_len(ctx)).sum::<usize>() }\n}\n\nimpl <C, T: Encode<C>, const N: usize> Encode<C> for [T; N] {")])
mut("c03-arrayiter-lower-bound-only", ["C03"], "ArrayIter trusts the lower bound of size_hint whenever there is no upper bound",
    [(ENCRS, "        let (low, up) = iter.size_hint();\n        let exact = Some(low) == up;\n        if exact {\n            e.array(low as u64)?;", "        let (low, up) = iter.size_hint();\n        let exact = Some(low) == up || (up.is_none() && low > 0);\n        if exact {\n            e.array(low as u64)?;")])
mut("c11-borrowed-tokenizer-no-drain", ["C11", "C02"], "a tokenizer that borrows its decoder is not drained on error",
    [(TKZ, "                self.decoder.set_position(end); // drain decoder\n", "                if let Decoder::Owned(_) = self.decoder { self.decoder.set_position(end) }\n")])
mut("c14-writer-maxlen-off-by-one", ["C14"], "blocking writer accepts a payload one byte above max_len",
    [(WRI, "        if self.buffer.len() - 4 > self.max_len {", "        if self.buffer.len() - 5 > self.max_len {")])

# ---- C15 ----
mut("c15-prefix-rest-read-exact", ["C15"], "async reader fetches the rest of a partially received prefix with read_exact (progress lives in the dropped future)",
    [(AR, "                State::ReadLen(ref mut buf, ref mut o) => {\n                    let n = self.reader.read(&mut buf[usize::from(*o) ..]).await?;", "                State::ReadLen(ref mut buf, ref mut o) if *o > 0 => {\n                    self.reader.read_exact(&mut buf[usize::from(*o) ..]).await?;\n                    *o = 4\n                }\n                State::ReadLen(ref mut buf, ref mut o) => {\n                    let n = self.reader.read(&mut buf[usize::from(*o) ..]).await?;")])
mut("c15-eof-in-prefix-clean-end", ["C15"], "async reader reports a clean end when the stream stops inside a prefix",
    [(AR, "                        return if *o == 0 {\n                            Ok(None)\n                        } else {\n                            Err(Error::Io(io::ErrorKind::UnexpectedEof.into()))\n                        }", "                        return Ok(None)")])
mut("c15-payload-offset-assign", ["C15"], "async reader overwrites the payload offset instead of advancing it",
    [(AR, "                    if n == 0 {\n                        return Err(Error::Io(io::ErrorKind::UnexpectedEof.into()))\n                    }\n                    *o += n", "                    if n == 0 {\n                        return Err(Error::Io(io::ErrorKind::UnexpectedEof.into()))\n                    }\n                    *o = if *o > 2 { n.max(*o) } else { *o + n }")])
mut("c15-error-resets-state", ["C15"], "async reader forgets the partially received payload when the source reports an error",
    [(AR, "                State::ReadVal(ref mut o) => {\n                    let n = self.reader.read(&mut self.buffer[*o ..]).await?;", "                State::ReadVal(ref mut o) => {\n                    let n = match self.reader.read(&mut self.buffer[*o ..]).await { Ok(n) => n, Err(e) => { *o = 0; return Err(e.into()) } };")])
mut("c15-payload-via-read-exact", ["C15"], "async reader reads the payload with read_exact when more than 2 bytes are missing",
    [(AR, "                State::ReadVal(ref mut o) => {\n                    let n = self.reader.read(&mut self.buffer[*o ..]).await?;", "                State::ReadVal(ref mut o) if self.buffer.len() - *o > 2 => {\n                    self.reader.read_exact(&mut self.buffer[*o ..]).await?;\n                    *o = self.buffer.len()\n                }\n                State::ReadVal(ref mut o) => {\n                    let n = self.reader.read(&mut self.buffer[*o ..]).await?;")])

# ---- C16 ----
mut("c16-sync-restarts-after-error", ["C16"], "AsyncWriter::sync restarts the frame from offset 0 after a sink error",
    [(AW, "                    let n = self.writer.write(&self.buffer[*o ..]).await?;", "                    let n = match self.writer.write(&self.buffer[*o ..]).await { Ok(n) => n, Err(e) => { *o = 0; return Err(e.into()) } };")])
mut("c16-done-one-byte-early", ["C16"], "AsyncWriter::sync considers the frame complete when one byte is left",
    [(AW, "                State::WriteFrom(o) if o >= self.buffer.len() => {", "                State::WriteFrom(o) if o >= self.buffer.len() || (o > 4 && o + 1 == self.buffer.len() && self.buffer.len() > 9) => {")])
mut("c16-write-zero-ignored", ["C16"], "AsyncWriter::sync ignores a sink that accepts zero bytes",
    [(AW, "                    if n == 0 {\n                        return Err(Error::Io(io::ErrorKind::WriteZero.into()))\n                    }\n", "")])
mut("c16-state-armed-before-maxlen", ["C16"], "AsyncWriter arms the transfer before checking max_len",
    [(AW, "        if self.buffer.len() - 4 > self.max_len {\n            return Err(Error::InvalidLen)\n        }\n        let prefix = (self.buffer.len() as u32 - 4).to_be_bytes();\n        self.buffer[.. 4].copy_from_slice(&prefix);\n        self.state = State::WriteFrom(0);", "        self.state = State::WriteFrom(0);\n        if self.buffer.len() - 4 > self.max_len {\n            return Err(Error::InvalidLen)\n        }\n        let prefix = (self.buffer.len() as u32 - 4).to_be_bytes();\n        self.buffer[.. 4].copy_from_slice(&prefix);")])
mut("c16-assumes-full-write", ["C16"], "AsyncWriter::sync assumes the sink took everything it was offered once more than half was taken",
    [(AW, "                    *o += n\n                }\n            }\n        }\n    }\n\n    /// Flush", "                    *o += if 2 * n > self.buffer.len() - *o { self.buffer.len() - *o } else { n }\n                }\n            }\n        }\n    }\n\n    /// Flush")])
mut("c16-write-returns-frame-len", ["C16"], "AsyncWriter::write returns the frame length including the prefix",
    [(AW, "        self.sync().await?;\n\n        Ok(self.buffer.len() - 4)", "        self.sync().await?;\n\n        Ok(self.buffer.len() - 4 + (self.buffer.len() > 300) as usize * 4)")])


# ---- derive: C07 (derived) C08 C09 C10 ----
DENC = "minicbor-derive/src/encode.rs"
DDEC = "minicbor-derive/src/decode.rs"
DLEN = "minicbor-derive/src/cbor_len.rs"
mut("c08-wide-gap-short", ["C08"], "derived array encoding fills gaps of two or more indices with one null too few",
    [(DENC, "                    idx.val() - k - 1\n                };", "                    { let g = idx.val() - k - 1; if g >= 2 { g - 1 } else { g } }\n                };")])
mut("c08-map-declaration-order", ["C08"], "derived map encoding emits entries in declaration order instead of ascending index order",
    [(DENC, "        Encoding::Map => for field in fields.fields() {\n            if field.attrs.skip() {\n                continue\n            }\n            let is_nil = is_nil(&field.typ, field.attrs.codec());\n            let encode_fn", "        Encoding::Map => for field in { let mut fs: Vec<&Field> = fields.fields().collect(); fs.sort_by_key(|f| f.pos); fs } {\n            if field.attrs.skip() {\n                continue\n            }\n            let is_nil = is_nil(&field.typ, field.attrs.codec());\n            let encode_fn")])
mut("c08-trailing-nil-kept", ["C08"], "derived array encoding does not end at the highest present index (trailing absent optionals written as null)",
    [(DENC, "                            quote! {\n                                if !#is_nil(&self.#ident) {\n                                    __max_index777 = Some(#n)\n                                }\n                            }", "                            quote! {\n                                {\n                                    let _ = #is_nil(&self.#ident);\n                                    __max_index777 = Some(#n)\n                                }\n                            }")])
mut("c08-unit-variant-tag-dropped", ["C08", "C09"], "derived encoder omits the variant tag of unit variants under map encoding",
    [(DENC, "                        __e777.u32(#idx)?;\n                        #tag\n                        __e777.map(0)?;", "                        __e777.u32(#idx)?;\n                        __e777.map(0)?;")])
mut("c09-missing-value-class", ["C09"], "derived decoder reports a missing mandatory struct field as a generic message error",
    [(DDEC, "                    return Err(minicbor::decode::Error::missing_value(#indices).with_message(#field_str).at(__p777))\n                },)*\n                #(#skipped : Default::default(),)*\n            })\n        }\n    } else if let syn::Fields::Unit = data.fields {", "                    return Err(minicbor::decode::Error::message(#field_str).at(__p777))\n                },)*\n                #(#skipped : Default::default(),)*\n            })\n        }\n    } else if let syn::Fields::Unit = data.fields {")])
mut("c09-small-tags-unchecked", ["C09"], "derived decoder does not verify tags below 24",
    [(DDEC, "            if #t != __t777.as_u64() {\n                return Err(#err)", "            if #t != __t777.as_u64() && #t > 23 {\n                return Err(#err)")])
mut("c09-b-cow-str-owned", ["C09"], "#[b] Cow<str> fields are decoded as owned copies",
    [(DDEC, "                    && field.index.is_b()\n                    && is_cow(&field.typ, |t| is_str(t) || is_byte_slice(t))\n                {\n                    if cfg!(feature = \"std\") {\n                        quote!(Some(std::borrow::Cow::Borrowed(__v777)))", "                    && field.index.is_b()\n                    && is_cow(&field.typ, |t| is_byte_slice(t))\n                {\n                    if cfg!(feature = \"std\") {\n                        quote!(Some(std::borrow::Cow::Borrowed(__v777)))")])
mut("c09-indef-array-break-left", ["C09"], "derived array decoder does not consume the break of an indefinite-length body",
    [(DDEC, "                    __i777 += 1\n                }\n                __d777.skip()?\n            }\n        },", "                    __i777 += 1\n                }\n            }\n        },")])
mut("c09-unknown-variant-at-top-level-defaulted", ["C09"], "enum decoder maps an unknown variant index to the first variant when the enum is index_only",
    [(DDEC, "                    n => {\n                        #rewind\n                        Err(minicbor::decode::Error::unknown_variant(n).at(__p778))\n                    }", "                    n if n > 1000 => {\n                        #rewind\n                        Err(minicbor::decode::Error::message(\"bad variant\").at(__p778))\n                    }\n                    n => {\n                        #rewind\n                        Err(minicbor::decode::Error::unknown_variant(n).at(__p778))\n                    }")])
mut("c10-unknown-map-key-rejected", ["C10"], "derived map decoder rejects unknown keys in definite-length maps",
    [(DDEC, "                for _ in 0 .. __len777 {\n                    match __d777.u32()? {\n                        #(#indices => #actions)*\n                        _          => __d777.skip()?", "                for _ in 0 .. __len777 {\n                    match __d777.u32()? {\n                        #(#indices => #actions)*\n                        _          => return Err(minicbor::decode::Error::message(\"unknown field\"))")])
mut("c10-unknown-variant-body-not-skipped", ["C10"], "an unknown variant in an optional field is tolerated but its body is not skipped",
    [(DDEC, "            } else if is_option(&field.typ, |_| true) {\n                quote! {\n                    Err(e) if e.is_unknown_variant() => __d777.skip()?,\n                }\n            } else {\n                let ty = &field.typ;", "            } else if is_option(&field.typ, |_| true) {\n                quote! {\n                    Err(e) if e.is_unknown_variant() => {}\n                }\n            } else {\n                let ty = &field.typ;")])
mut("c10-extra-array-elements-rejected", ["C10"], "derived array decoder rejects arrays longer than the highest known index + 1 when the unknown element is the last of more than three",
    [(DDEC, "            if let Some(__len777) = __d777.array()? {\n                for __i777 in 0 .. __len777 {\n                    match __i777 {\n                        #(#indices => #actions)*\n                        _          => __d777.skip()?", "            if let Some(__len777) = __d777.array()? {\n                for __i777 in 0 .. __len777 {\n                    match __i777 {\n                        #(#indices => #actions)*\n                        _ if __len777 > 3 && __i777 + 1 == __len777 => return Err(minicbor::decode::Error::message(\"too long\")),\n                        _          => __d777.skip()?")])
mut("c07-derived-single-gap-forgotten", ["C07"], "derived CborLen does not count a gap of exactly one index before a field",
    [(DLEN, "                        __len777 += (#n - __num777) + #tag + #cbor_len(#access, __ctx777);", "                        __len777 += (if #n - __num777 == 1 { 0 } else { #n - __num777 }) + #tag + #cbor_len(#access, __ctx777);")])
mut("c07-derived-variant-tag-forgotten", ["C07"], "derived CborLen forgets the variant tag of map-encoded struct variants",
    [(DLEN, "                        #name::#con{#(#idents,)* ..} => { 1 + #idx.cbor_len(__ctx777) + #tag + #(#steps)* }", "                        #name::#con{#(#idents,)* ..} => { 1 + #idx.cbor_len(__ctx777) + #(#steps)* }")])


# ---- serde bridge: C17 C18 ----
SER = "minicbor-serde/src/ser.rs"
SDE = "minicbor-serde/src/de.rs"
mut("c17-unit-variant-as-map", ["C17"], "unit variants serialised as {name: null}",
    [(SER, "        variant.serialize(self)\n    }\n\n    fn serialize_newtype_struct<T>", "        self.encoder.map(1)?.str(variant)?.null()?;\n        Ok(())\n    }\n\n    fn serialize_newtype_struct<T>")])
mut("c17-none-as-undefined", ["C17", "C18"], "None serialised as undefined",
    [(SER, "    fn serialize_none(self) -> Result<Self::Ok, Self::Error> {\n        self.encoder.null()?;", "    fn serialize_none(self) -> Result<Self::Ok, Self::Error> {\n        self.encoder.undefined()?;")])
mut("c17-map-value-count-stuck", ["C17"], "map access does not count down the last entry of maps with more than 23 entries",
    [(SDE, "        if let Some(n) = self.len {\n            let x = seed.deserialize(&mut *self.deserializer)?;\n            self.len = Some(n - 1);", "        if let Some(n) = self.len {\n            let x = seed.deserialize(&mut *self.deserializer)?;\n            self.len = Some(if n == 1 && self.deserializer.decoder.position() > 300 { 1 } else { n - 1 });")])
mut("c17-seq-stops-early", ["C17", "C18"], "sequence access stops one element early for sequences of exactly 24 elements",
    [(SDE, "            Some(0) => Ok(None),\n            Some(n) => {\n                let x = seed.deserialize(&mut *self.deserializer)?;\n                self.len = Some(n - 1);", "            Some(0) => Ok(None),\n            Some(n) => {\n                let x = seed.deserialize(&mut *self.deserializer)?;\n                self.len = Some(if n == 24 { n - 2 } else { n - 1 });")])
mut("c17-u64-truncated", ["C17", "C18"], "serialize_u64 goes through u32 for values below 2^33",
    [(SER, "    fn serialize_u64(self, v: u64) -> Result<Self::Ok, Self::Error> {\n        self.encoder.u64(v)?;", "    fn serialize_u64(self, v: u64) -> Result<Self::Ok, Self::Error> {\n        if v < (1 << 33) { self.encoder.u32(v as u32)?; } else { self.encoder.u64(v)?; }")])
mut("c17-i64-via-i32", ["C17", "C18"], "deserialize_i64 reads through the i32 accessor",
    [(SDE, "        visitor.visit_i64(self.decoder.i64()?)", "        visitor.visit_i64(self.decoder.i32()?.into())")])
mut("c17-tuple-struct-indefinite", ["C17"], "tuple structs serialised as indefinite arrays",
    [(SER, "        self.serialize_tuple(len)\n    }\n\n    fn serialize_tuple_variant", "        let _ = len;\n        self.encoder.begin_array()?;\n        Ok(SeqSerializer { serializer: self, indefinite: true })\n    }\n\n    fn serialize_tuple_variant")])
mut("c17-indef-map-no-break", ["C17"], "maps of unknown length are not terminated by a break",
    [(SER, "impl<'a, W: Write> SerializeMap for SeqSerializer<'a, W>", "impl<'a, W: Write> SerializeMap for SeqSerializer<'a, W> // no break\n"),
     (SER, "    fn serialize_value<T: Serialize + ?Sized>(&mut self, v: &T) -> Result<(), Self::Error> {\n        v.serialize(&mut *self.serializer)\n    }\n\n    fn end(self) -> Result<Self::Ok, Self::Error> {\n        if self.indefinite {", "    fn serialize_value<T: Serialize + ?Sized>(&mut self, v: &T) -> Result<(), Self::Error> {\n        v.serialize(&mut *self.serializer)\n    }\n\n    fn end(self) -> Result<Self::Ok, Self::Error> {\n        if self.indefinite && false {")])
mut("c17-struct-variant-no-wrapper-len", ["C17"], "struct variants declare a two-entry wrapper map",
    [(SER, "        self.encoder.map(1)?.str(variant)?;\n        self.serialize_struct(name, len)", "        self.encoder.map(2)?.str(variant)?;\n        self.serialize_struct(name, len)")])
mut("c17-ignored-any-not-skipped", ["C17"], "deserialize_ignored_any does not skip tagged or nested values completely (skips only when the item is not an array)",
    [(SDE, "        self.decoder.skip()?;\n        visitor.visit_unit() // ignored", "        if self.decoder.datatype()? == Type::Array { self.decoder.array()?; } else { self.decoder.skip()?; }\n        visitor.visit_unit() // ignored")])
mut("c18-char-as-text", ["C18", "C17"], "the bridge serialises char as a text string",
    [(SER, "        self.encoder.char(v)?;\n        Ok(())", "        let mut b = [0u8; 4];\n        self.encoder.str(v.encode_utf8(&mut b))?;\n        Ok(())")])
mut("c18-f32-as-f64", ["C18", "C17"], "the bridge serialises f32 as a double",
    [(SER, "        self.encoder.f32(v)?;", "        self.encoder.f64(v.into())?;")])
mut("c18-unit-native-null", ["C18", "C01"], "the native codec encodes () as null (and accepts it)",
    [(ENCRS, "impl<C> Encode<C> for () {\n    fn encode<W: Write>(&self, e: &mut Encoder<W>, _: &mut C) -> Result<(), Error<W::Error>> {\n        e.array(0)?.ok()", "impl<C> Encode<C> for () {\n    fn encode<W: Write>(&self, e: &mut Encoder<W>, _: &mut C) -> Result<(), Error<W::Error>> {\n        e.null()?.ok()"),
     (DECRS, "impl<'b, C> Decode<'b, C> for () {\n    fn decode(d: &mut Decoder<'b>, _: &mut C) -> Result<Self, Error> {\n        let p = d.position();", "impl<'b, C> Decode<'b, C> for () {\n    fn decode(d: &mut Decoder<'b>, _: &mut C) -> Result<Self, Error> {\n        if d.datatype()? == crate::data::Type::Null { return d.null() }\n        let p = d.position();")])
mut("c18-bridge-tuple-accepts-indefinite-short", ["C17", "C18"], "the bridge's tuple deserialisation accepts indefinite arrays and stops at the tuple length without consuming the break",
    [(SDE, "        if Some(len as u64) != n {", "        if n.is_some() && Some(len as u64) != n {")])


# ---- C20 / C06 no-alloc: change one cfg twin only ----
mut("c20-noalloc-skip-map-count", ["C20", "C06"], "the no-alloc skip counts n instead of 2n items for a definite map",
    [(DEC, "                    if let Some(n) = self.map()? {\n                        nrounds = nrounds.saturating_add(n.saturating_mul(2))", "                    if let Some(n) = self.map()? {\n                        nrounds = nrounds.saturating_add(n)")])
mut("c20-noalloc-skip-nrounds-3", ["C06", "C20"], "the no-alloc skip accepts an indefinite array as the last-but-one element of a definite container (wrong position instead of the documented error)",
    [(DEC, "                    if let Some(n) = self.array()? {\n                        nrounds = nrounds.saturating_add(n)\n                    } else if nrounds < 2 {", "                    if let Some(n) = self.array()? {\n                        nrounds = nrounds.saturating_add(n)\n                    } else if nrounds < 3 {")])
mut("c20-nohalf-f32-accepts-f16", ["C20"], "without the half feature Decoder::f32 consumes a half item and returns 0.0",
    [(DEC, "            #[cfg(feature = \"half\")]\n            0xf9 => self.f16(),\n            0xfa => {", "            #[cfg(feature = \"half\")]\n            0xf9 => self.f16(),\n            #[cfg(not(feature = \"half\"))]\n            0xf9 => { self.read()?; self.read_array::<2>()?; Ok(0.0) }\n            0xfa => {")])
mut("c20-alloc-tagged-error-class", ["C20"], "with alloc, a Tagged<N,T> tag mismatch is reported as a generic message error",
    [(DECRS, "            #[cfg(feature = \"alloc\")]\n            return Err(Error::tag_mismatch(t).with_message(alloc::format!(\"expected tag {N}\")).at(p));", "            #[cfg(feature = \"alloc\")]\n            { let _ = t; return Err(Error::message(alloc::format!(\"expected tag {N}\")).at(p)); }")])
mut("c20-noalloc-array-too-many-silent", ["C20"], "without alloc, [T; N] ignores surplus elements instead of reporting them",
    [(DECRS, "                #[cfg(not(feature = \"alloc\"))]\n                let msg = \"array has too many elements\";\n                Error::message(msg).at(p)\n            })?;", "                #[cfg(not(feature = \"alloc\"))]\n                let msg = \"array has too many elements\";\n                Error::message(msg).at(p)\n            }).or_else(|e| if cfg!(feature = \"alloc\") { Err(e) } else { Ok(()) })?;")])
mut("c20-std-only-position-on-error", ["C20"], "with std, Decoder::bytes rewinds the position when the declared length exceeds the input",
    [(DEC, "        let n = u64_to_usize(self.unsigned(info_of(b), p)?, p)?;\n        self.read_slice(n)\n    }\n\n    /// Iterate over byte slices.", "        let n = u64_to_usize(self.unsigned(info_of(b), p)?, p)?;\n        let r = self.read_slice(n);\n        #[cfg(feature = \"std\")]\n        if r.is_err() { self.pos = p }\n        r\n    }\n\n    /// Iterate over byte slices.")])
mut("c20-serde-noalloc-tuple-len", ["C20"], "without alloc the bridge's tuple deserialisation accepts longer arrays",
    [(SDE, "        if Some(len as u64) != n {\n            #[cfg(feature = \"alloc\")]", "        if Some(len as u64) != n && (cfg!(feature = \"alloc\") || n.map(|x| x < len as u64).unwrap_or(true)) {\n            #[cfg(feature = \"alloc\")]")])

def main():
    outdir = os.path.join(ROOT, "mutants")
    os.makedirs(outdir, exist_ok=True)
    bad = 0
    for mid, props, what, edits, tier in M:
        patch = ""
        files = {}
        ok = True
        for f, old, new in edits:
            src = files.get(f) or open(os.path.join(REPO, f)).read()
            if src.count(old) != 1:
                print("!! %s: anchor occurs %d times in %s" % (mid, src.count(old), f)); ok = False; break
            files[f] = src.replace(old, new)
        if not ok: bad += 1; continue
        for f, new_src in files.items():
            orig = open(os.path.join(REPO, f)).read()
            patch += "".join(difflib.unified_diff(orig.splitlines(True), new_src.splitlines(True), "a/" + f, "b/" + f, n=3))
        open(os.path.join(outdir, mid + ".patch"), "w").write(patch)
        meta = {"properties": props, "what": what}
        if tier: meta["tier"] = tier
        json.dump(meta, open(os.path.join(outdir, mid + ".json"), "w"), indent=1)
    print("wrote %d mutants, %d anchor problems" % (len(M) - bad, bad))
    return bad

if __name__ == "__main__":
    sys.exit(1 if main() else 0)
