#!/usr/bin/env python3
"""Regenerates seeded/README.md from seeded/*/meta.json (written by verify_seed.py) and the notes below."""
import json, os, glob
ROOT = os.path.dirname(os.path.dirname(os.path.abspath(__file__)))
NOTES = {
 "C01-h": "missed at first: the positional-field decoders (Range, RangeInclusive, ...) were only instantiated over integers; the matrix now has ranges over ten element types and Box<Option<u8>> / Cell<Option<u8>> as elements (values that encode as null without being Option)",
 "C04-h": "missed at first by C04 (the no-alloc half of C06 reports it): C04 drove the accessors in the std configuration only; new part C04N: the no-alloc skip accessor on well-formed entries and on strict prefixes",
 "C08-h": "missed at first: no optional field had a payload type with a nil value of its own, so `Some(nil)` never occurred; new harness type WideNil (nil = the ordinary value 0) as mandatory field and as Option<WideNil>",
 "C09-h": "inconclusive at first (exit 2): with the change the macros emit code that no longer type-checks for part of the generated population, so none of the derive checks could be built - while definitions with uniform field types compile and are silently permuted; new parts C08B / C09B in g_codec (hand-written wide positional definitions outside the population), and a violation shown by one layer is now reported even if another layer cannot be built",
 "C15-h": "missed at first: the limit was set once at construction; between two reads (after a dropped future or a surfaced transient error) the walks may now lower it to the largest frame still to come",
 "C17-h": "missed at first: borrowed strings were only checked as *values*; added a flattened catch-all map and a plain map with &str keys",
 "C18-h": "missed at first: every Deserializer read one input; `interleaved` now swaps the decoder of a used Deserializer for a second input (re-framed, with a stray break behind it)",
 "C01-g": "missed at first: C01 ran in the std configuration only and the defect sits in the no-alloc variant of `skip` (reached by `Decode for Bound` on `Unbounded` = `[2, []]`); new part C01N (g_cfg): value-driven round trips of all types that exist without alloc in each of the six configurations",
 "C02-g": "missed at first: the new branch is reached by `tag 1 + float >= 2^64` only, which neither mutation of valid `[secs, nanos]` encodings nor the generic item generator produced often enough; new `tagged-numbers` sub-check (registered tags x boundary numbers of every width through every entry point)",
 "C04-g": "missed at first: release-only (the consuming read sits inside a debug_assert!); the harness profile has debug assertions on. Every check now has a *release leg*: the quick-tier amounts once more against harness and library built without debug assertions and with wrapping arithmetic",
 "C05-g": "missed at first: the serde part drove the typed targets only; it now also drives a deserialize_any visitor and an untagged integer enum",
 "C06-g": "missed at first: release-only (the pop sits inside a debug_assert!) - see C04-g: release leg",
 "C07-g": "missed at first: no element type made the user context observable, so the order in which len_with visits keys and values could not matter; new `context-threading` sub-check (C01, C07)",
 "C08-g": "missed at first: no array-encoded definition had a field index near u32::MAX (its encoding would be 4 GiB); new `extreme-indices` sub-check observes header and first bytes through a 48-byte sink - and found the genuine defect D10 on the way",
 "C09-g": "missed at first: field types were always bare paths; the population now has a parenthesised `(Option<Vec<u8>>)` under `minicbor::bytes` (mandatory by spelling, its None an explicit null)",
 "C10-g": "missed at first: optional enum fields always spelled `Option<..>`; every third one now hides the Option behind a type alias (optional only through Decode::nil)",
 "C11-g": "missed at first by C11 (C02 reported the panic): tokenizers were built from decoders at positions inside the input only; now also at and behind the end",
 "C15-g": "missed at first: the scripted source had std's default poll_read_vectored; every second DFS stream and half of the walks now use a native scatter read whose deliveries end anywhere",
 "C17-g": "missed at first: no family type went through `Serializer::collect_str`; added one-piece and multi-piece Display types of 0-1000 bytes read back as String",
 "C18-g": "missed at first: release-only (the break is consumed inside a debug_assert_eq!) - see C04-g: release leg",
 "C19-g": "missed at first: display was only ever formatted with `{}`; the rendering must not depend on width, fill, alignment, sign, precision or the alternate flag",
 "C20-g": "missed at first: every visitor in the probe accepted every item kind, so serde's provided error constructors were never reached; added visitors that accept two kinds only, deny_unknown_fields, NonZero and a 3-tuple",
 "C01-f": "missed at first: every impl was covered, but the container impls look at the next byte before handing over to the element's impl and no container had an element type whose encoding can start with that byte (`Token::Break` = 0xff inside a `Vec`); the registry now has a container x element matrix of 157 composite types (Vec, VecDeque, LinkedList, [T;2], Box, (T,u8,T), BTreeMap<u16,T>, Result, Bound, Option over 16 element types with distinctive first bytes)",
 "C03-f": "missed at first by C03 (C13 reported it): C03 only observed bytes collected by a Vec; every registry value is now also encoded through the std::io adapter into a sink that takes the bytes in scripted short writes, with Interrupted calls and a native write_vectored",
 "C04-f": "missed at first by C04 (C14's frame-extent reported it): typed decoding was only driven on plain buffers; new part C04F in g_io offers frames holding a strict prefix of an encoding to Reader / AsyncReader (new / with_buffer) after longer frames and demands an end-of-input decode error",
 "C05-f": "missed at first: C05 only drove the core accessors; new part C05S in g_serde drives every integer item (sign x five head widths, argument not necessarily minimal for the width) through the serde bridge's integer and char targets",
 "C06-f": "missed at first: chunk lengths in generated items were small, so no head argument ever contained 0xff; new `special-lengths` sub-check (chunk / string / array / map lengths 255, 511, 767, 0xff00.., minimal and wider heads such as 79 00 ff, payloads full of 0xff)",
 "C07-f": "missed at first: the harness's three nil-capable codecs all encoded their nil value as null (one byte), so 'a nil is one byte' was true of the whole population; `NilU32`'s nil is now a 5-byte sentinel and `NilStr`'s nil the empty text",
 "C08-f": "missed at first: no definition had reference-typed fields (the population derives Decode as well); new `reference-fields` sub-check: encode-only definitions over &T, &mut T, &&T, &&mut T, &mut &T against twins that own the values",
 "C09-f": "missed at first: a transparent newtype around `#[b] Cow<[u8]>` with `minicbor::bytes` had probability ~1/700 per definition and did not occur; every second transparent newtype now wraps a string / byte-string type",
 "C11-f": "missed at first: payloads never exceeded a few hundred bytes; new `long-payloads` sub-check (60-200 KB text with 1-4 byte characters in a pseudo-random mix around 2^16 / 2^17 boundaries, definite and chunked)",
 "C12-f": "missed at first by C12 (C20 would report the configuration difference): the float checks ran in one feature configuration; new part C12N judges every float entry point in all six configurations against absolute expectations",
 "C13-f": "missed at first: the io sink only made short writes; it is now scripted (short writes, Interrupted - also right after a partial write -, native write_vectored)",
 "C14-f": "missed at first: the writer's sinks used std's default write_vectored; the scripted sink now has a native one that takes bytes across the prefix/payload boundary",
 "C15-f": "missed at first: the executor only considered dropping a future at Pendings its transport had caused, and walks rarely made 128 deliveries within one future; a Pending the transport did not cause is now a drop point (first three always taken), and long payloads have position-dependent content",
 "C16-f": "missed at first: idle syncs were only issued after a write; walks and DFS lists may now start with a sync() on a writer constructed around a used buffer",
 "C18-f": "missed at first by C18 (C03's reference encoder reported it): the shared model had tuples of arity 1-4, 6 and 12; it now has every arity 1-16",
 "C01-a": "missed by the first version of the registry (tuples of arity 1-4, 12 and 16 only); the registry now holds every arity 1..=16 with pairwise distinguishable neighbouring fields",
 "C02-a": "the corrupted heap aborts the child process; the supervisor translates the fatal signal into a reproduced violation (added after mutant c02-arrayvec-no-forget showed the abort was reported as inconclusive)",
 "C14-a": "missed before the `writer-histories` sub-check existed (the frame checks only used writers that never failed); added: histories of writes on one Writer with failing encodes, over-long values and a failing sink",
 "C01-b": "missed at first: registry values reach the encoder through `clone()`, which always yields a contiguous ring buffer; the VecDeque entries now build the deque with a chosen physical layout (contiguous / pushed at the front / sliding window) and the evidence classes report wrapped vs contiguous; Cow entries likewise cover Owned and Borrowed",
 "C02-b": "missed at first: only owning tokenizers were driven past their first error; C02 (two new entry points), C11 (`arbitrary-bytes`, `short-inputs`) and C19 (Display of `Decoder::tokens()`) now also drive the borrowing forms `Decoder::tokens()` and `Tokenizer::from(&mut Decoder)`",
 "C03-b": "missed at first: the inexact iterators were all `filter` adaptors, whose hint is (0, Some(n)); `iter-encoders` now wraps the iterator in a type reporting a generated truthful hint ((0,None), (k,None), (n,None), (0,Some(n)), (n,Some(n+d)), (k,Some(m)), exact) and also uses `flat_map`",
 "C08-b": "missed at first: every nil-capable field of the schema grammar was either a literal `Option<..>` or carried a custom codec attribute; the grammar now also has a user type overriding `Encode::is_nil`/`Decode::nil`, a type alias of `Option<u8>`, and generic structs instantiated at `Option<u16>` (the false alarm this uncovered in the generator - `Option` around a transparent newtype of an `Option` - is excluded by construction, see DESIGN.md section 9)",
 "C01-c": "missed at first: address generators were uniform over the bits; now class-aware (IPv4-mapped, loopback, multicast, ...)",
 "C03-c": "missed at first: no byte-level reference for Token encoding beyond half-representable payloads; added `token-bytes` (and `iana-tags`)",
 "C07-c": "missed at first: the >= 24-field schemas only had literal Option fields; trait-level nil types added to them",
 "C09-c": "missed at first: no Box<Option<T>> field type in the grammar; added",
 "C10-c": "missed at first: unknown-field content was limited to what the schema grammar expresses; C10 now injects fields of arbitrary well-formed content and re-frames the writer's bytes",
 "C16-c": "missed at first: the harness's own sync() after every write repaired the stale state; the extra idle sync is now a generated choice",
 "C02-d": "missed at first: no input deeper than 10^4 and 64 MiB worker stacks; deep chains (to 10^5) through every entry point on a 2 MiB stack, crash supervision with the handler on the alternate stack",
 "C04-d": "missed at first: the broken CString invariant is invisible to a data-model comparison; added `cstr-shapes`",
 "C08-d": "missed at first: no decode_with-only / encode_with-only fields in the grammar; forwarding codec attributes added",
 "C09-d": "missed at first: attribute key order was fixed; key order and distribution over several attributes are now permuted",
 "C10-d": "missed at first: `Option` was always spelled unqualified; four spellings now",
 "C11-d": "missed at first: tag numbers were boundary-dense, never the registered ones, and only Decoder::tokens was compared with the model; registered tags generated, all four constructors must agree",
 "C12-d": "first reported by C17 only; C12 now has a serde-bridge half (C12S)",
 "C17-d": "missed at first: borrowed deserialisation was only checked in a plain struct; added `borrowed-buffered`",
 "C18-d": "missed at first: no array of 23-25 elements in the shared model; added",
 "C19-d": "missed at first: exact rendering only to depth 8; added `deep-chains`",
 "C20-d": "missed at first: no chain beyond 10^4 levels; chains up to 10^5 in the corpus",
 "C02-e": "missed at first: no check looked at the iterators' size_hint; lower bound must be backed by the remaining input",
 "C05-e": "missed at first: integers were always decoded at offset 0 of their own buffer; `in_context` places them behind six kinds of prefix",
 "C08-e": "missed at first: six hand-picked attribute key orders; now every order the macros accept",
 "C09-e": "missed at first (and inconclusive in between): the affected definitions were only reachable through universe roots that did not use them; every definition is now a check root",
 "C11-e": "missed at first: tokenizers were built from fresh decoders only; now also from decoders standing behind j items",
 "C16-e": "missed at first: no limit near u32::MAX on the async side",
 "C19-e": "missed at first: ill-formed input was only checked for totality and size; a definite head declaring more than follows must be reported inline",
 "C20-a": "also reported by the no-alloc half of C06; needed the tightened difference rule r1 (a no-alloc skip may differ only by the documented refusal, never by position)",
}
rows = []
for d in sorted(glob.glob(os.path.join(ROOT, "seeded", "*", "meta.json"))):
    m = json.load(open(d)); sid = os.path.basename(os.path.dirname(d))
    det = []
    for p, r in m["check_results"].items():
        det.append("`./check %s quick` -> exit %d, %s" % (p, r["exit"], ("`" + r["detail"].strip()[:150].replace("|", "/") + "...`") if r["detail"] else "no violation"))
    rows.append((sid, m["breaks"], (m.get("summary") or "").replace("\n", " ").replace("|", "/"), (m.get("needs") or "").replace("\n", " ").replace("|", "/")[:400], det, NOTES.get(sid, "")))
out = ["# Seeded changes", "",
 "Each directory holds one change to /repo written by an independent sub-agent that was given only the text of one",
 "property and a scratch git worktree (nothing from /verif): `patch.diff`, the demonstration `demo.rs` (a test that",
 "fails with the change and passes without it) and `meta.json` (what the change needs to manifest, what",
 "`scripts/verify_seed.py` re-ran to confirm it on a fresh export of /repo's HEAD - patch applies, pinned suite still",
 "passes, demonstration discriminates - and what our checks reported against the changed tree).",
 "None of these patches is ever applied to /repo by the scripts; they are applied to a scratch export and the harness",
 "is pointed at it with a cargo `paths` override.  `python3 scripts/selftest.py --only seeded-<id>` re-runs one.", "",
 "| seed | breaks | change | needs | detected by (quick tier, default seed) | notes |", "|---|---|---|---|---|---|"]
for r in rows:
    out.append("| %s | %s | %s | %s | %s | %s |" % (r[0], r[1], r[2], r[3], "<br>".join(r[4]), r[5]))
out += ["", "%d seeded changes, %d detected by the check of the property they target." % (len(rows), sum(1 for r in rows if any("exit 1" in x for x in r[4])))]
open(os.path.join(ROOT, "seeded", "README.md"), "w").write("\n".join(out) + "\n")
print("\n".join(out[-2:]))
