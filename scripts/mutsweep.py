#!/usr/bin/env python3
"""Automated mutation sweep: blind-spot search for the checks (complements the hand-designed mutants/ and the seeded/ changes).

One-token mutations (relational / arithmetic / logical operators, integer literals +-1, boolean literals, removed
`self.x op= ..;` / `..?;` statements) are applied, one at a time, to a scratch copy of /repo's library sources; every mutant
that still type-checks is handed to the quick tier of the checks that own the mutated file.  A mutant is KILLED when one
of them prints a VIOLATION line, SURVIVED when all of them pass, INCONCLUSIVE when a check exits 2.
Survivors are the output: each one is either equivalent / outside every listed property, or a blind spot to fix.
Nothing is ever applied to /repo.

usage: mutsweep.py [--lanes N] [--max M] [--seed S] [--files glob,...] [--out FILE] [--list]
"""
import concurrent.futures, glob, hashlib, json, os, queue, random, re, shutil, subprocess, sys, time

ROOT = os.path.dirname(os.path.dirname(os.path.abspath(__file__)))
SCRATCH = "/tmp/msweep"

GROUPS = [  # (path prefix, checks run in this order - cheapest / most likely first, stop at the first VIOLATION)
    ("minicbor-io/src/", ["C14", "C15", "C16"]),
    ("minicbor-serde/src/", ["C17", "C18", "C20"]),
    ("minicbor-derive/src/", ["C08", "C09", "C07", "C10"]),
    ("minicbor/src/", ["C04", "C01", "C03", "C05", "C11", "C12", "C19", "C13", "C07", "C06", "C02", "C18", "C20"]),
]
SKIP_FILES = ("minicbor/src/lib.rs", "minicbor/src/bin/cbor-display.rs", "minicbor/src/decode/error.rs", "minicbor/src/encode/error.rs", "minicbor-io/src/error.rs", "minicbor-serde/src/error.rs",
              "minicbor-derive/src/attrs.rs", "minicbor-derive/src/attrs/codec.rs", "minicbor-derive/src/attrs/idx.rs", "minicbor-derive/src/attrs/typeparam.rs", "minicbor-derive/src/lifetimes.rs", "minicbor-derive/src/blacklist.rs")

def props_for(path):
    for pre, props in GROUPS:
        if path.startswith(pre): return props
    return None

REL = [(" < ", " <= "), (" <= ", " < "), (" > ", " >= "), (" >= ", " > "), (" == ", " != "), (" != ", " == ")]
ARI = [(" + ", " - "), (" - ", " + "), (" += ", " -= "), (" -= ", " += "), (" * ", " + "), (" << ", " >> "), (" >> ", " << "), (" & ", " | "), (" | ", " & ")]
LOG = [(" && ", " || "), (" || ", " && ")]
BOOL = [("true", "false"), ("false", "true")]
NUM = re.compile(r"(?<![\w.#])(0x[0-9a-fA-F_]+|\d[\d_]*)(?![\w.]*\")")

def eligible(line):
    s = line.strip()
    if not s or s.startswith("//") or s.startswith("#[") or s.startswith("#!") or s.startswith("use ") or s.startswith("pub use "): return False
    if s.startswith("///") or s.startswith("//!") or s.startswith("*") or s.startswith("pub mod") or s.startswith("mod "): return False
    if "debug_assert" in s or s.startswith("const __") or "cargo:" in s: return False
    return True

def strip_strings(line):
    # blank out string literals and trailing comments so that operators inside them are not mutated
    out, i, n, instr = [], 0, len(line), False
    while i < n:
        c = line[i]
        if instr:
            if c == "\\": out.append("  "); i += 2; continue
            if c == '"': instr = False
            out.append(" " if c != '"' else '"'); i += 1; continue
        if c == '"': instr = True; out.append('"'); i += 1; continue
        if line.startswith("//", i): out.append(" " * (n - i)); break
        out.append(c); i += 1
    return "".join(out)

def sites(path, text):
    res = []
    lines = text.split("\n")
    in_test = False
    depth_at_test = None
    for ln, line in enumerate(lines):
        if "#[cfg(test)]" in line: in_test = True
        if in_test: continue
        if not eligible(line): continue
        code = strip_strings(line)
        for kind, table in (("rel", REL), ("ari", ARI), ("log", LOG)):
            for a, b in table:
                start = 0
                while True:
                    k = code.find(a, start)
                    if k < 0: break
                    start = k + 1
                    if a in (" < ", " > ") and ("<" in code[:k] and ">" in code[k+1:] and ("fn " in code or "impl" in code or "::<" in code)): continue
                    if a == " - " and code[k+3:k+4] == ">": continue
                    if a in (" & ", " | ") and ("=>" in code and code.strip().endswith("=>") is False and " | " == a and "=>" in code[k:]): continue  # match-arm alternatives
                    res.append((ln, kind, k, a, b))
        for a, b in BOOL:
            for m in re.finditer(r"\b%s\b" % a, code):
                res.append((ln, "bool", m.start(), a, b))
        for m in NUM.finditer(code):
            tok = m.group(1)
            if code[:m.start()].rstrip().endswith(("n(", "b(", "tag(")): continue
            try: v = int(tok.replace("_", ""), 0)
            except ValueError: continue
            for d in (1, -1):
                if v + d < 0: continue
                new = ("0x%x" % (v + d)) if tok.lower().startswith("0x") else str(v + d)
                res.append((ln, "num", m.start(), tok, new))
        s = line.strip()
        if re.match(r"^self(\.\w+|\[[^\]]+\])+ (\+|-|\*)?= .*;$", s) or re.match(r"^(self|[a-z_]+)\.[a-z_]+\(.*\)\?;$", s) or re.match(r"^\*?[a-z_]+ (\+|-)= .*;$", s):
            res.append((ln, "del", 0, s, ""))
    return [(path,) + r for r in res]

def apply(text, site):
    _, ln, kind, col, a, b = site
    lines = text.split("\n")
    line = lines[ln]
    if kind == "del":
        lines[ln] = line[:len(line) - len(line.lstrip())] + "/* removed: " + line.strip().replace("*/", "* /") + " */"
    else:
        assert line[col:col + len(a)] == a, (line, col, a)
        lines[ln] = line[:col] + b + line[col + len(a):]
    return "\n".join(lines)

def sh(cmd, **kw): return subprocess.run(cmd, shell=True, capture_output=True, text=True, **kw)

def lane_setup(k):
    d = os.path.join(SCRATCH, "lane%d" % k)
    os.makedirs(d, exist_ok=True)
    sh("rsync -a --delete --exclude target --exclude .git /repo/ %s/repo/" % d)
    root = os.path.join(d, "root"); shutil.rmtree(root, ignore_errors=True); os.makedirs(root)
    shutil.copy(os.path.join(ROOT, "known_findings.jsonl"), root)
    return d

def run_mutant(site, lane, only_props=None):
    path = site[0]
    d = os.path.join(SCRATCH, "lane%d" % lane)
    repo = os.path.join(d, "repo"); root = os.path.join(d, "root")
    f = os.path.join(repo, path)
    orig = open(os.path.join("/repo", path)).read()
    mutated = apply(orig, site)
    desc = "%s:%d [%s] `%s` -> `%s` | %s" % (path, site[1] + 1, site[2], site[4] if site[2] != "del" else "stmt", site[5] if site[2] != "del" else "removed", orig.split("\n")[site[1]].strip()[:140])
    open(f, "w").write(mutated)
    try:
        env = dict(os.environ, CARGO_NET_OFFLINE="true", CARGO_TARGET_DIR=os.path.join(d, "target-check"))
        crate = path.split("/")[0]
        feats = {"minicbor": "--features std,half,derive", "minicbor-io": "--features async-io", "minicbor-serde": "--features std,half", "minicbor-derive": "--features std"}.get(crate, "")
        r = subprocess.run("cargo check -q -p %s %s --offline" % (crate, feats), shell=True, cwd=repo, capture_output=True, text=True, env=env)
        if r.returncode != 0:
            return {"desc": desc, "status": "NOCOMPILE"}
        props = only_props or props_for(path)
        t0 = time.time()
        log = []
        for p in props:
            e2 = dict(os.environ, VERIF_REPO_OVERRIDE=repo, VERIF_TARGET_DIR=os.path.join(d, "target"), VERIF_OUT_ROOT=root, VERIF_SRC_ROOT=root)
            try:
                r = subprocess.run([os.path.join(ROOT, "check"), p, "quick"], capture_output=True, text=True, env=e2, timeout=1500)
            except subprocess.TimeoutExpired:
                log.append((p, "timeout")); return {"desc": desc, "status": "KILLED", "by": p, "detail": "timeout (non-termination)", "wall_s": round(time.time() - t0), "log": log}
            viol = [l for l in r.stdout.splitlines() if l.startswith("VIOLATION")]
            if viol:
                det = [l for l in r.stdout.splitlines() if l.startswith("  [")][:1]
                return {"desc": desc, "status": "KILLED", "by": p, "detail": (det[0].strip()[:300] if det else ""), "wall_s": round(time.time() - t0)}
            if r.returncode == 2:
                tail = (r.stderr or "")[-300:]
                if "harness build failed" in tail or "error[" in tail: return {"desc": desc, "status": "NOCOMPILE", "detail": tail[-200:]}
                log.append((p, "exit2: " + tail[-160:]))
            else:
                log.append((p, "pass"))
        st = "INCONCLUSIVE" if any(x[1].startswith("exit2") for x in log) else "SURVIVED"
        return {"desc": desc, "status": st, "wall_s": round(time.time() - t0), "log": log}
    finally:
        open(f, "w").write(orig)

def main():
    a = sys.argv[1:]
    lanes, mx, seed, files, out, only_list, props = 4, 200, 1, None, os.path.join(ROOT, "mutants", "sweep.jsonl"), False, None
    while a:
        x = a.pop(0)
        if x == "--lanes": lanes = int(a.pop(0))
        elif x == "--max": mx = int(a.pop(0))
        elif x == "--seed": seed = int(a.pop(0))
        elif x == "--files": files = a.pop(0).split(",")
        elif x == "--out": out = a.pop(0)
        elif x == "--list": only_list = True
        elif x == "--props": props = a.pop(0).split(",")
    all_sites = []
    for crate in ("minicbor", "minicbor-derive", "minicbor-io", "minicbor-serde"):
        for f in sorted(glob.glob("/repo/%s/src/**/*.rs" % crate, recursive=True)):
            rel = os.path.relpath(f, "/repo")
            if rel in SKIP_FILES or props_for(rel) is None: continue
            if files and not any(rel.startswith(x) or x in rel for x in files): continue
            all_sites += sites(rel, open(f).read())
    rnd = random.Random(seed)
    # stratify per file so that small files (io, serde) are not drowned out
    byfile = {}
    for s in all_sites: byfile.setdefault(s[0], []).append(s)
    for v in byfile.values(): rnd.shuffle(v)
    done = set()
    if os.path.exists(out):
        for l in open(out):
            try: done.add(json.loads(l)["key"])
            except Exception: pass
    picked = []
    order = sorted(byfile)
    while len(picked) < mx and any(byfile.values()):
        for f in order:
            if byfile[f] and len(picked) < mx:
                s = byfile[f].pop()
                key = hashlib.sha1(repr(s).encode()).hexdigest()[:16]
                if key in done: continue
                picked.append((key, s))
    print("%d mutation sites in %d files; running %d (seed %d, %d lanes)" % (len(all_sites), len(order), len(picked), seed, lanes), flush=True)
    if only_list:
        for k, s in picked: print(k, s)
        return
    os.makedirs(SCRATCH, exist_ok=True)
    slots = queue.Queue()
    for i in range(lanes): lane_setup(i); slots.put(i)
    def task(ks):
        key, s = ks
        lane = slots.get()
        try:
            r = run_mutant(s, lane, props)
        except Exception as e:
            r = {"desc": repr(s), "status": "ERROR", "detail": str(e)}
        finally: slots.put(lane)
        r["key"] = key; r["site"] = list(s)
        return r
    counts = {}
    with concurrent.futures.ThreadPoolExecutor(lanes) as ex, open(out, "a") as fo:
        for r in ex.map(task, picked):
            counts[r["status"]] = counts.get(r["status"], 0) + 1
            fo.write(json.dumps(r) + "\n"); fo.flush()
            print("%-12s %s %s" % (r["status"], r["desc"][:200], ("<- " + r.get("by", "") + " " + r.get("detail", "")[:80]) if r["status"] == "KILLED" else ""), flush=True)
    print("summary:", counts)

if __name__ == "__main__":
    main()
