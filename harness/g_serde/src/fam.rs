//! A family of serde-serialisable types spanning every Serializer / Deserializer method and every
//! serde enum representation.

use serde::{Deserialize, Serialize};
use std::collections::BTreeMap;
use std::fmt::Debug;
use vcore::Gen;

pub trait Case: Serialize + for<'de> Deserialize<'de> + PartialEq + Debug + Sized {
    const NAME: &'static str;
    /// a plain struct (map keyed by field name, no flatten): unknown extra entries must be ignored
    const TOP_STRUCT: bool = false;
    fn gen(g: &mut Gen) -> Self;
}

fn f32n(g: &mut Gen) -> f32 { let x = f32::from_bits(g.f32_bits()); if x.is_nan() { 1.5 } else { x } }
fn f64n(g: &mut Gen) -> f64 { let x = f64::from_bits(g.f64_bits()); if x.is_nan() { -2.25 } else { x } }
fn s(g: &mut Gen) -> String { g.string(12) }
fn opt<T>(g: &mut Gen, f: impl FnOnce(&mut Gen) -> T) -> Option<T> { if g.chance(80) { None } else { Some(f(g)) } }
fn vecof<T>(g: &mut Gen, mut f: impl FnMut(&mut Gen) -> T) -> Vec<T> { let n = g.len(30).min(30); (0 .. n).map(|_| f(g)).collect() }

/// A byte buffer that uses serialize_bytes / deserialize_byte_buf.
#[derive(Debug, Clone, PartialEq)]
pub struct Buf(pub Vec<u8>);
impl Serialize for Buf { fn serialize<S: serde::Serializer>(&self, s: S) -> Result<S::Ok, S::Error> { s.serialize_bytes(&self.0) } }
impl<'de> Deserialize<'de> for Buf {
    fn deserialize<D: serde::Deserializer<'de>>(d: D) -> Result<Self, D::Error> {
        struct V;
        impl<'de> serde::de::Visitor<'de> for V {
            type Value = Buf;
            fn expecting(&self, f: &mut std::fmt::Formatter) -> std::fmt::Result { f.write_str("bytes") }
            fn visit_bytes<E: serde::de::Error>(self, v: &[u8]) -> Result<Buf, E> { Ok(Buf(v.to_vec())) }
            fn visit_byte_buf<E: serde::de::Error>(self, v: Vec<u8>) -> Result<Buf, E> { Ok(Buf(v)) }
        }
        d.deserialize_byte_buf(V)
    }
}

/// Sequence / map serialised with unknown length (indefinite on the wire).
#[derive(Debug, Clone, PartialEq)]
pub struct LazySeq(pub Vec<i32>);
impl Serialize for LazySeq {
    fn serialize<S: serde::Serializer>(&self, s: S) -> Result<S::Ok, S::Error> {
        use serde::ser::SerializeSeq;
        let mut q = s.serialize_seq(None)?;
        for x in &self.0 { q.serialize_element(x)? }
        q.end()
    }
}
impl<'de> Deserialize<'de> for LazySeq { fn deserialize<D: serde::Deserializer<'de>>(d: D) -> Result<Self, D::Error> { Vec::<i32>::deserialize(d).map(LazySeq) } }
#[derive(Debug, Clone, PartialEq)]
pub struct LazyMap(pub BTreeMap<String, u16>);
impl Serialize for LazyMap {
    fn serialize<S: serde::Serializer>(&self, s: S) -> Result<S::Ok, S::Error> {
        use serde::ser::SerializeMap;
        let mut q = s.serialize_map(None)?;
        for (k, v) in &self.0 { q.serialize_entry(k, v)? }
        q.end()
    }
}
impl<'de> Deserialize<'de> for LazyMap { fn deserialize<D: serde::Deserializer<'de>>(d: D) -> Result<Self, D::Error> { BTreeMap::<String, u16>::deserialize(d).map(LazyMap) } }

macro_rules! case {
    ($t:ty, $name:expr, |$g:ident| $e:expr) => { impl Case for $t { const NAME: &'static str = $name; fn gen($g: &mut Gen) -> Self { $e } } };
    ($t:ty, $name:expr, top, |$g:ident| $e:expr) => { impl Case for $t { const NAME: &'static str = $name; const TOP_STRUCT: bool = true; fn gen($g: &mut Gen) -> Self { $e } } };
}

#[derive(Debug, Clone, PartialEq, Serialize, Deserialize)]
pub struct Prims { pub a: u8, pub b: u16, pub c: u32, pub d: u64, pub e: i8, pub f: i16, pub g: i32, pub h: i64, pub i: bool, pub j: f32, pub k: f64, pub l: String }
case!(Prims, "Prims", top, |g| Prims { a: g.u8(), b: g.u16(), c: g.u32(), d: g.u64(), e: g.i8(), f: g.i16(), g: g.i32(), h: g.i64(), i: g.bool(), j: f32n(g), k: f64n(g), l: s(g) });

#[derive(Debug, Clone, PartialEq, Serialize, Deserialize)] pub struct UnitS;
case!(UnitS, "UnitS", |_g| UnitS);
#[derive(Debug, Clone, PartialEq, Serialize, Deserialize)] pub struct NewT(pub u32);
case!(NewT, "NewT(u32)", |g| NewT(g.u32()));
#[derive(Debug, Clone, PartialEq, Serialize, Deserialize)] pub struct NewStr(pub String);
case!(NewStr, "NewStr(String)", |g| NewStr(s(g)));
#[derive(Debug, Clone, PartialEq, Serialize, Deserialize)] pub struct TupS(pub i16, pub String, pub bool);
case!(TupS, "TupS(i16,String,bool)", |g| TupS(g.i16(), s(g), g.bool()));
#[derive(Debug, Clone, PartialEq, Serialize, Deserialize)] pub struct WithChar { pub c: char, pub n: u8 }
case!(WithChar, "WithChar", top, |g| WithChar { c: g.char(), n: g.u8() });
#[derive(Debug, Clone, PartialEq, Serialize, Deserialize)] pub struct WithUnit { pub u: (), pub n: u8 }
case!(WithUnit, "WithUnit", top, |g| WithUnit { u: (), n: g.u8() });
#[derive(Debug, Clone, PartialEq, Serialize, Deserialize)] pub struct WithBuf { pub b: Buf, pub o: Option<Buf> }
case!(WithBuf, "WithBuf", top, |g| WithBuf { b: Buf(g.bytes(40)), o: opt(g, |g| Buf(g.bytes(10))) });
#[derive(Debug, Clone, PartialEq, Serialize, Deserialize)] pub struct Opts { pub a: Option<u8>, pub b: Option<String>, pub c: Option<Vec<u16>>, pub d: Option<()>, pub e: Option<(u8, bool)> }
case!(Opts, "Opts", top, |g| Opts { a: opt(g, |g| g.u8()), b: opt(g, s), c: opt(g, |g| vecof(g, |g| g.u16())), d: opt(g, |_| ()), e: opt(g, |g| (g.u8(), g.bool())) });
#[derive(Debug, Clone, PartialEq, Serialize, Deserialize)] pub struct Colls { pub v: Vec<i64>, pub t: (u8, String, i32), pub a: [u16; 3], pub m: BTreeMap<String, Vec<u8>>, pub n: BTreeMap<u8, bool>, pub e: Vec<String>, pub z: [u8; 0] }
case!(Colls, "Colls", top, |g| Colls { v: vecof(g, |g| g.i64()), t: (g.u8(), s(g), g.i32()), a: [g.u16(), g.u16(), g.u16()], m: { let n = g.len(8).min(8); (0 .. n).map(|_| (s(g), g.bytes(6))).collect() }, n: { let n = g.len(30).min(30); (0 .. n).map(|_| (g.u8(), g.bool())).collect() }, e: vecof(g, s), z: [] });
#[derive(Debug, Clone, PartialEq, Serialize, Deserialize)] pub struct Nested { pub p: Prims, pub o: Option<Box<Nested>>, pub v: Vec<NewT> }
impl Case for Nested { const NAME: &'static str = "Nested"; const TOP_STRUCT: bool = true; fn gen(g: &mut Gen) -> Self { fn go(g: &mut Gen, d: usize) -> Nested { Nested { p: Prims::gen(g), o: if d < 3 && g.chance(90) { Some(Box::new(go(g, d + 1))) } else { None }, v: vecof(g, |g| NewT(g.u32())) } } go(g, 0) } }

#[derive(Debug, Clone, PartialEq, Serialize, Deserialize)] pub enum Ext { Unit, Other, New(u16), NewS(String), Tup(u8, String), Struct { a: i32, b: Option<bool> }, NewOpt(Option<u8>), NewUnit(()) }
case!(Ext, "Ext (externally tagged)", |g| match g.below(8) { 0 => Ext::Unit, 1 => Ext::Other, 2 => Ext::New(g.u16()), 3 => Ext::NewS(s(g)), 4 => Ext::Tup(g.u8(), s(g)), 5 => Ext::Struct { a: g.i32(), b: opt(g, |g| g.bool()) }, 6 => Ext::NewOpt(opt(g, |g| g.u8())), _ => Ext::NewUnit(()) });
#[derive(Debug, Clone, PartialEq, Serialize, Deserialize)] pub struct HoldsExt { pub e: Ext, pub v: Vec<Ext>, pub m: BTreeMap<String, Ext> }
case!(HoldsExt, "HoldsExt", top, |g| HoldsExt { e: Ext::gen(g), v: vecof(g, Ext::gen), m: { let n = g.below(4); (0 .. n).map(|_| (s(g), Ext::gen(g))).collect() } });

#[derive(Debug, Clone, PartialEq, Serialize, Deserialize)] #[serde(tag = "t")] pub enum Internal { A { x: u32, y: String }, B { z: Option<i64> }, C }
case!(Internal, "Internal (tag = t)", |g| match g.below(3) { 0 => Internal::A { x: g.u32(), y: s(g) }, 1 => Internal::B { z: opt(g, |g| g.i64()) }, _ => Internal::C });
#[derive(Debug, Clone, PartialEq, Serialize, Deserialize)] #[serde(tag = "t", content = "c")] pub enum Adjacent { A(u32), B(String, i8), C { k: Vec<u8> }, D }
case!(Adjacent, "Adjacent (tag = t, content = c)", |g| match g.below(4) { 0 => Adjacent::A(g.u32()), 1 => Adjacent::B(s(g), g.i8()), 2 => Adjacent::C { k: g.bytes(8) }, _ => Adjacent::D });
#[derive(Debug, Clone, PartialEq, Serialize, Deserialize)] #[serde(untagged)] pub enum Untagged { N(u64), S(String), P { a: i16, b: bool }, L(Vec<i32>) }
case!(Untagged, "Untagged", |g| match g.below(4) { 0 => Untagged::N(g.u64()), 1 => Untagged::S(s(g)), 2 => Untagged::P { a: g.i16(), b: g.bool() }, _ => Untagged::L(vecof(g, |g| g.i32())) });
#[derive(Debug, Clone, PartialEq, Serialize, Deserialize)] pub struct Inner { pub p: u16, pub q: String }
#[derive(Debug, Clone, PartialEq, Serialize, Deserialize)] pub struct Flat { pub id: u32, #[serde(flatten)] pub inner: Inner, pub tail: bool }
case!(Flat, "Flat (flatten struct)", |g| Flat { id: g.u32(), inner: Inner { p: g.u16(), q: s(g) }, tail: g.bool() });
#[derive(Debug, Clone, PartialEq, Serialize, Deserialize)] pub struct FlatMap { pub id: u8, #[serde(flatten)] pub rest: BTreeMap<String, i64> }
case!(FlatMap, "FlatMap (flatten map)", |g| FlatMap { id: g.u8(), rest: { let n = g.below(5); (0 .. n).map(|i| (format!("k{}{}", i, s(g)), g.i64())).collect() } });
#[derive(Debug, Clone, PartialEq, Serialize, Deserialize, Default)] pub struct SkipIf { pub a: u8, #[serde(skip_serializing_if = "Option::is_none", default)] pub b: Option<String>, #[serde(skip_serializing_if = "Vec::is_empty", default)] pub c: Vec<u8>, #[serde(default)] pub d: i32 }
case!(SkipIf, "SkipIf (skip_serializing_if)", top, |g| SkipIf { a: g.u8(), b: opt(g, s), c: if g.bool() { vec![] } else { g.bytes(5) }, d: g.i32() });
#[derive(Debug, Clone, PartialEq, Serialize, Deserialize)] pub struct Renamed { #[serde(rename = "x-1")] pub a: u8, #[serde(rename = "")] pub b: u8, #[serde(rename = "long name with spaces \u{e9}")] pub c: String }
case!(Renamed, "Renamed", top, |g| Renamed { a: g.u8(), b: g.u8(), c: s(g) });
#[derive(Debug, Clone, PartialEq, Serialize, Deserialize)] pub struct Lazy { pub s: LazySeq, pub m: LazyMap, pub n: u8 }
case!(Lazy, "Lazy (unknown-length seq/map)", top, |g| Lazy { s: LazySeq(vecof(g, |g| g.i32())), m: LazyMap({ let n = g.below(5); (0 .. n).map(|_| (s(g), g.u16())).collect() }), n: g.u8() });
#[derive(Debug, Clone, PartialEq, Serialize, Deserialize)] pub struct Generic<T> { pub v: T, pub w: Vec<T> }
impl Case for Generic<i8> { const NAME: &'static str = "Generic<i8>"; const TOP_STRUCT: bool = true; fn gen(g: &mut Gen) -> Self { Generic { v: g.i8(), w: vecof(g, |g| g.i8()) } } }
#[derive(Debug, Clone, PartialEq, Serialize, Deserialize)] pub struct Big { pub f00: u8, pub f01: u8, pub f02: u8, pub f03: u8, pub f04: u8, pub f05: u8, pub f06: u8, pub f07: u8, pub f08: u8, pub f09: u8, pub f10: u8, pub f11: u8, pub f12: u8, pub f13: u8, pub f14: u8, pub f15: u8, pub f16: u8, pub f17: u8, pub f18: u8, pub f19: u8, pub f20: u8, pub f21: u8, pub f22: u8, pub f23: u8, pub f24: Option<u8> }
case!(Big, "Big (25 fields)", top, |g| Big { f00: g.u8(), f01: g.u8(), f02: g.u8(), f03: g.u8(), f04: g.u8(), f05: g.u8(), f06: g.u8(), f07: g.u8(), f08: g.u8(), f09: g.u8(), f10: g.u8(), f11: g.u8(), f12: g.u8(), f13: g.u8(), f14: g.u8(), f15: g.u8(), f16: g.u8(), f17: g.u8(), f18: g.u8(), f19: g.u8(), f20: g.u8(), f21: g.u8(), f22: g.u8(), f23: g.u8(), f24: opt(g, |g| g.u8()) });

// top-level std types
case!(u64, "u64", |g| g.u64());
case!(i64, "i64", |g| g.i64());
case!(i8, "i8", |g| g.i8());
case!(bool, "bool", |g| g.bool());
case!(char, "char", |g| g.char());
case!(String, "String", |g| s(g));
case!((), "()", |_g| ());
case!(f32, "f32", |g| f32n(g));
case!(f64, "f64", |g| f64n(g));
case!(Option<u32>, "Option<u32>", |g| opt(g, |g| g.u32()));
case!(Vec<u8>, "Vec<u8>", |g| g.bytes(60));
case!(Vec<Option<String>>, "Vec<Option<String>>", |g| vecof(g, |g| opt(g, s)));
case!((u8, (bool, String), [i16; 2]), "(u8,(bool,String),[i16;2])", |g| (g.u8(), (g.bool(), s(g)), [g.i16(), g.i16()]));
case!(BTreeMap<i32, Vec<String>>, "BTreeMap<i32,Vec<String>>", |g| { let n = g.len(20).min(20); (0 .. n).map(|_| (g.i32(), vecof(g, s))).collect() });
case!(Buf, "Buf (bytes)", |g| Buf(g.bytes(300)));
case!(LazySeq, "LazySeq", |g| LazySeq(vecof(g, |g| g.i32())));
case!(Box<Ext>, "Box<Ext>", |g| Box::new(Ext::gen(g)));

// ---- char / unit in the contexts where serde buffers through its Content layer ----------------
#[derive(Debug, Clone, PartialEq, Serialize, Deserialize)] pub struct InnerChar { pub c: char }
#[derive(Debug, Clone, PartialEq, Serialize, Deserialize)] pub struct FlatChar { pub id: u8, #[serde(flatten)] pub inner: InnerChar }
case!(FlatChar, "buffered/char/flatten", |g| FlatChar { id: g.u8(), inner: InnerChar { c: g.char() } });
#[derive(Debug, Clone, PartialEq, Serialize, Deserialize)] pub struct InnerUnit { pub u: () }
#[derive(Debug, Clone, PartialEq, Serialize, Deserialize)] pub struct FlatUnit { pub id: u8, #[serde(flatten)] pub inner: InnerUnit }
case!(FlatUnit, "buffered/unit/flatten", |g| FlatUnit { id: g.u8(), inner: InnerUnit { u: () } });
#[derive(Debug, Clone, PartialEq, Serialize, Deserialize)] #[serde(untagged)] pub enum UntaggedChar { A(char) }
case!(UntaggedChar, "buffered/char/untagged", |g| UntaggedChar::A(g.char()));
#[derive(Debug, Clone, PartialEq, Serialize, Deserialize)] #[serde(untagged)] pub enum UntaggedUnit { A(()) }
case!(UntaggedUnit, "buffered/unit/untagged", |_g| UntaggedUnit::A(()));
#[derive(Debug, Clone, PartialEq, Serialize, Deserialize)] #[serde(tag = "t")] pub enum InternalChar { A { c: char }, B }
case!(InternalChar, "buffered/char/internal", |g| if g.chance(220) { InternalChar::A { c: g.char() } } else { InternalChar::B });
#[derive(Debug, Clone, PartialEq, Serialize, Deserialize)] #[serde(tag = "t")] pub enum InternalUnit { A { u: () }, B }
case!(InternalUnit, "buffered/unit/internal", |g| if g.chance(220) { InternalUnit::A { u: () } } else { InternalUnit::B });
#[derive(Debug, Clone, PartialEq, Serialize, Deserialize)] #[serde(tag = "t", content = "c")] pub enum AdjacentChar { A(char), B }
case!(AdjacentChar, "adjacent/char (tag first)", |g| if g.chance(220) { AdjacentChar::A(g.char()) } else { AdjacentChar::B });
#[derive(Debug, Clone, PartialEq, Serialize, Deserialize)] #[serde(tag = "t", content = "c")] pub enum AdjacentUnit { A(()), B }
case!(AdjacentUnit, "adjacent/unit (tag first)", |g| if g.chance(220) { AdjacentUnit::A(()) } else { AdjacentUnit::B });

// ---- floats with every bit pattern (NaN payloads included): equality by bits --------------------
#[derive(Debug, Clone, Copy, Serialize, Deserialize)] #[serde(transparent)] pub struct F32b(pub f32);
impl PartialEq for F32b { fn eq(&self, o: &Self) -> bool { self.0.to_bits() == o.0.to_bits() } }
#[derive(Debug, Clone, Copy, Serialize, Deserialize)] #[serde(transparent)] pub struct F64b(pub f64);
impl PartialEq for F64b { fn eq(&self, o: &Self) -> bool { self.0.to_bits() == o.0.to_bits() } }
case!(F32b, "f32 (all bit patterns)", |g| F32b(f32::from_bits(g.f32_bits())));
case!(F64b, "f64 (all bit patterns)", |g| F64b(f64::from_bits(g.f64_bits())));
#[derive(Debug, Clone, PartialEq, Serialize, Deserialize)] pub struct Floats { pub a: F32b, pub b: F64b, pub v: Vec<F32b>, pub o: Option<F64b> }
case!(Floats, "Floats", top, |g| Floats { a: F32b::gen(g), b: F64b::gen(g), v: vecof(g, F32b::gen), o: opt(g, F64b::gen) });

// ---- every self-describing leaf kind in the contexts that go through deserialize_any ----------------
/// Variants are tried in declaration order; the generator only produces values that the earlier variants refuse
/// (serde's own `String` visitor accepts UTF-8 byte strings, hence the byte buffer comes before the text).
#[derive(Debug, Clone, PartialEq, Serialize, Deserialize)] #[serde(untagged)]
pub enum UntaggedWide { B(bool), I(i64), U(u64), F(F64b), Y(Buf), T(String), O(Option<u8>), L(Vec<i8>), M(BTreeMap<String, i16>), P(i8, String) }
case!(UntaggedWide, "UntaggedWide", |g| match g.below(10) {
    0 => UntaggedWide::B(g.bool()), 1 => UntaggedWide::I(g.i64()), 2 => UntaggedWide::U(g.u64() | (1 << 63)), 3 => UntaggedWide::F(F64b(f64::from_bits(g.f64_bits()))),
    4 => UntaggedWide::T(s(g)), 5 => UntaggedWide::Y(Buf(g.bytes(20))), 6 => UntaggedWide::O(None),
    7 => UntaggedWide::L(vecof(g, |g| g.i8())), 8 => UntaggedWide::M({ let n = g.below(4); (0 .. n).map(|_| (s(g), g.i16())).collect() }),
    _ => UntaggedWide::L(vec![g.i8()]) });
/// Single precision on the wire in an untagged context (kept apart from the f64 variant: serde's float visitors accept each other's width).
#[derive(Debug, Clone, PartialEq, Serialize, Deserialize)] #[serde(untagged)] pub enum UntaggedF32 { I(i64), G(F32b), T(String) }
case!(UntaggedF32, "UntaggedF32", |g| match g.below(4) { 0 => UntaggedF32::I(g.i64()), 1 => UntaggedF32::T(s(g)), _ => UntaggedF32::G(F32b(f32::from_bits(g.f32_bits()))) });
#[derive(Debug, Clone, PartialEq, Serialize, Deserialize)] pub struct InnerWide { pub i: i64, pub u: u64, pub f: F64b, pub g: F32b, pub b: bool, pub o: Option<u8>, pub t: String, pub v: Vec<i16>, pub m: BTreeMap<String, u8>, pub n: i8, pub y: Buf, pub p: (u8, bool), pub w: NewT }
impl InnerWide { fn gen(g: &mut Gen) -> Self { InnerWide { i: g.i64(), u: g.u64(), f: F64b(f64::from_bits(g.f64_bits())), g: F32b(f32::from_bits(g.f32_bits())), b: g.bool(), o: opt(g, |g| g.u8()), t: s(g), v: vecof(g, |g| g.i16()), m: { let n = g.below(4); (0 .. n).map(|_| (s(g), g.u8())).collect() }, n: g.i8(), y: Buf(g.bytes(12)), p: (g.u8(), g.bool()), w: NewT(g.u32()) } } }
#[derive(Debug, Clone, PartialEq, Serialize, Deserialize)] pub struct FlatWide { pub id: u32, #[serde(flatten)] pub inner: InnerWide, pub tail: Option<bool> }
case!(FlatWide, "FlatWide (flatten, every leaf kind)", |g| FlatWide { id: g.u32(), inner: InnerWide::gen(g), tail: opt(g, |g| g.bool()) });
#[derive(Debug, Clone, PartialEq, Serialize, Deserialize)] #[serde(tag = "kind")] pub enum InternalWide { A(InnerWide), B { x: i64, y: Option<String>, z: Vec<bool> }, C }
case!(InternalWide, "InternalWide (internally tagged, every leaf kind)", |g| match g.below(3) { 0 => InternalWide::A(InnerWide::gen(g)), 1 => InternalWide::B { x: g.i64(), y: opt(g, s), z: vecof(g, |g| g.bool()) }, _ => InternalWide::C });
#[derive(Debug, Clone, PartialEq, Serialize, Deserialize)] #[serde(tag = "t", content = "c")] pub enum AdjacentWide { A(InnerWide), B(i64, f64, Option<u8>), C(Vec<Ext>), D }
case!(AdjacentWide, "AdjacentWide", |g| match g.below(4) { 0 => AdjacentWide::A(InnerWide::gen(g)), 1 => AdjacentWide::B(g.i64(), f64n(g), opt(g, |g| g.u8())), 2 => AdjacentWide::C(vecof(g, Ext::gen)), _ => AdjacentWide::D });
/// Enums as the LAST element of an unknown-length sequence / LAST value of an unknown-length map.
#[derive(Debug, Clone, PartialEq)] pub struct LazyExts(pub Vec<Ext>);
impl Serialize for LazyExts { fn serialize<S: serde::Serializer>(&self, s: S) -> Result<S::Ok, S::Error> { use serde::ser::SerializeSeq; let mut q = s.serialize_seq(None)?; for x in &self.0 { q.serialize_element(x)? } q.end() } }
impl<'de> Deserialize<'de> for LazyExts { fn deserialize<D: serde::Deserializer<'de>>(d: D) -> Result<Self, D::Error> { Vec::<Ext>::deserialize(d).map(LazyExts) } }
case!(LazyExts, "LazyExts (enums in an unknown-length seq)", |g| LazyExts(vecof(g, Ext::gen)));
#[derive(Debug, Clone, PartialEq, Serialize, Deserialize)] pub struct FlatThenEnum { #[serde(flatten)] pub inner: Inner, pub id: u8, pub last: Ext }
case!(FlatThenEnum, "FlatThenEnum (enum last in a flattened struct)", |g| FlatThenEnum { inner: Inner { p: g.u16(), q: s(g) }, id: g.u8(), last: Ext::gen(g) });

// ---- values serialised through `Serializer::collect_str` (what `serialize_with = "display"` helpers, DisplayFromStr wrappers and
// hand-written "serialise by Display" impls use): the documented representation is the text, read back as a String --------
#[derive(Debug, Clone, PartialEq)] pub struct ByDisplay(pub String);
impl Serialize for ByDisplay { fn serialize<S: serde::Serializer>(&self, s: S) -> Result<S::Ok, S::Error> { s.collect_str(&self.0) } }
impl<'de> Deserialize<'de> for ByDisplay { fn deserialize<D: serde::Deserializer<'de>>(d: D) -> Result<Self, D::Error> { String::deserialize(d).map(ByDisplay) } }
case!(ByDisplay, "ByDisplay (collect_str, one piece)", |g| { let n = *g.pick(&[0usize, 1, 23, 24, 63, 64, 65, 127, 128, 255, 256, 1000]); let k = g.below(26); ByDisplay(if g.bool() { (0 .. n).map(|i| (b'a' + ((i * 7 + k) % 26) as u8) as char).collect() } else { g.string(80) }) });
/// Display output produced in several pieces (number, separator, text, number).
#[derive(Debug, Clone, PartialEq)] pub struct ByDisplayParts { pub a: u32, pub s: String }
impl std::fmt::Display for ByDisplayParts { fn fmt(&self, f: &mut std::fmt::Formatter<'_>) -> std::fmt::Result { write!(f, "{}:{}", self.a, self.s)?; f.write_str("/")?; write!(f, "{:05}", self.a % 100000) } }
impl Serialize for ByDisplayParts { fn serialize<S: serde::Serializer>(&self, s: S) -> Result<S::Ok, S::Error> { s.collect_str(self) } }
impl<'de> Deserialize<'de> for ByDisplayParts {
    fn deserialize<D: serde::Deserializer<'de>>(d: D) -> Result<Self, D::Error> {
        let t = String::deserialize(d)?;
        let (a, rest) = t.split_once(':').ok_or_else(|| serde::de::Error::custom("no colon"))?;
        let (s, _) = rest.rsplit_once('/').ok_or_else(|| serde::de::Error::custom("no slash"))?;
        Ok(ByDisplayParts { a: a.parse().map_err(serde::de::Error::custom)?, s: s.to_string() })
    }
}
case!(ByDisplayParts, "ByDisplayParts (collect_str, several pieces)", |g| { let n = *g.pick(&[0usize, 5, 50, 56, 57, 58, 70, 200]); ByDisplayParts { a: g.u32(), s: (0 .. n).map(|i| (b'a' + (i % 26) as u8) as char).collect() } });
#[derive(Debug, Clone, PartialEq, Serialize, Deserialize)] pub struct WithDisplays { pub id: u8, pub d: ByDisplay, pub p: Vec<ByDisplayParts>, pub o: Option<ByDisplay> }
case!(WithDisplays, "WithDisplays", top, |g| WithDisplays { id: g.u8(), d: ByDisplay::gen(g), p: vecof(g, ByDisplayParts::gen), o: opt(g, ByDisplay::gen) });

// ---- long and deep documents (cumulative effects: counters, budgets, buffers that only show after many elements) ----
fn big(g: &mut Gen) -> usize { *g.pick(&[130usize, 300, 1000, 2500]) + g.below(7) }
#[derive(Debug, Clone, PartialEq, Serialize, Deserialize)] pub struct LongDoc { pub opts: Vec<Option<u16>>, pub units: Vec<()>, pub map: BTreeMap<u32, Option<String>>, pub nested: Vec<Vec<Option<bool>>>, pub exts: Vec<Ext>, pub tail: u8 }
case!(LongDoc, "LongDoc (hundreds to thousands of elements)", top, |g| {
    let which = g.below(5);
    let n = big(g);
    LongDoc {
        opts: if which == 0 { (0 .. n).map(|i| if g.chance(200) || i % 97 == 0 { None } else { Some(g.u16()) }).collect() } else { vec![None, Some(1)] },
        units: if which == 1 { vec![(); n] } else { vec![] },
        map: if which == 2 { (0 .. n as u32).map(|i| (i * 3, if g.chance(180) { None } else { Some(s(g)) })).collect() } else { BTreeMap::new() },
        nested: if which == 3 { (0 .. n / 8).map(|_| (0 .. 8).map(|_| opt(g, |g| g.bool())).collect()).collect() } else { vec![] },
        exts: if which == 4 { (0 .. n / 2).map(|_| Ext::gen(g)).collect() } else { vec![] },
        tail: g.u8()
    }
});
#[derive(Debug, Clone, PartialEq, Serialize, Deserialize)] pub struct Deep { pub next: Option<Box<Deep>>, pub v: u8 }
case!(Deep, "Deep (nesting up to 100 levels)", |g| { let depth = *g.pick(&[1usize, 5, 30, 64, 100]); let mut d = Deep { next: None, v: g.u8() }; for _ in 0 .. depth { d = Deep { next: Some(Box::new(d)), v: g.u8() } } d });

// ---- std types with serde impls of their own ----------------------------------------------------------
case!(std::time::Duration, "Duration", |g| std::time::Duration::new(g.u64(), g.u32() % 1_000_000_000));
case!(std::net::IpAddr, "IpAddr", |g| if g.bool() { std::net::IpAddr::V4(std::net::Ipv4Addr::from(g.u32())) } else { std::net::IpAddr::V6(std::net::Ipv6Addr::from(((g.u64() as u128) << 64) | g.u64() as u128)) });
case!(std::net::SocketAddr, "SocketAddr", |g| std::net::SocketAddr::new(<std::net::IpAddr as Case>::gen(g), g.u16()));
case!(std::ops::Range<u8>, "Range<u8>", |g| g.u8() .. g.u8());
case!(std::ops::Bound<i16>, "Bound<i16>", |g| match g.below(3) { 0 => std::ops::Bound::Unbounded, 1 => std::ops::Bound::Included(g.i16()), _ => std::ops::Bound::Excluded(g.i16()) });
case!(Result<u8, String>, "Result<u8,String>", |g| if g.bool() { Ok(g.u8()) } else { Err(s(g)) });
case!(std::num::NonZeroU16, "NonZeroU16", |g| std::num::NonZeroU16::new(g.u16().max(1)).unwrap());
case!(std::num::Wrapping<i8>, "Wrapping<i8>", |g| std::num::Wrapping(g.i8()));
case!(std::cmp::Reverse<u8>, "Reverse<u8>", |g| std::cmp::Reverse(g.u8()));
case!(std::marker::PhantomData<u8>, "PhantomData<u8>", |_g| std::marker::PhantomData);
case!(std::ffi::CString, "CString", |g| { let mut b = g.bytes(20); b.retain(|x| *x != 0); std::ffi::CString::new(b).unwrap() });
case!(std::path::PathBuf, "PathBuf", |g| std::path::PathBuf::from(s(g)));
case!(std::collections::BTreeSet<u8>, "BTreeSet<u8>", |g| g.bytes(20).into_iter().collect());
case!(std::collections::VecDeque<i16>, "VecDeque<i16>", |g| vecof(g, |g| g.i16()).into());
case!(std::borrow::Cow<'static, str>, "Cow<str>", |g| std::borrow::Cow::Owned(s(g)));
case!(Box<str>, "Box<str>", |g| s(g).into_boxed_str());
case!([u8; 32], "[u8;32]", |g| { let mut a = [0u8; 32]; for x in a.iter_mut() { *x = g.byte() } a });
case!((u8, i8, u16, i16, u32, i32, u64, bool, char, String, Option<u8>, ()), "12-tuple", |g| (g.u8(), g.i8(), g.u16(), g.i16(), g.u32(), g.i32(), g.u64(), g.bool(), g.char(), s(g), opt(g, |g| g.u8()), ()));
case!(std::collections::HashMap<u8, String>, "HashMap<u8,String>", |g| { let n = g.below(6); (0 .. n).map(|_| (g.u8(), s(g))).collect() });

#[macro_export]
macro_rules! for_each_case {
    ($mac:ident) => {{
        use $crate::fam::*;
        vec![
            $mac!(Prims), $mac!(UnitS), $mac!(NewT), $mac!(NewStr), $mac!(TupS), $mac!(WithChar), $mac!(WithUnit), $mac!(WithBuf), $mac!(Opts), $mac!(Colls), $mac!(Nested),
            $mac!(Ext), $mac!(HoldsExt), $mac!(Internal), $mac!(Adjacent), $mac!(Untagged), $mac!(Flat), $mac!(FlatMap), $mac!(SkipIf), $mac!(Renamed), $mac!(Lazy), $mac!(Generic<i8>), $mac!(Big),
            $mac!(u64), $mac!(i64), $mac!(i8), $mac!(bool), $mac!(char), $mac!(String), $mac!(()), $mac!(f32), $mac!(f64), $mac!(Option<u32>), $mac!(Vec<u8>), $mac!(Vec<Option<String>>),
            $mac!((u8, (bool, String), [i16; 2])), $mac!(std::collections::BTreeMap<i32, Vec<String>>), $mac!(Buf), $mac!(LazySeq), $mac!(Box<Ext>),
            $mac!(F32b), $mac!(F64b), $mac!(Floats), $mac!(UntaggedWide), $mac!(UntaggedF32), $mac!(FlatWide), $mac!(InternalWide), $mac!(AdjacentWide), $mac!(LazyExts), $mac!(FlatThenEnum), $mac!(LongDoc), $mac!(Deep), $mac!(ByDisplay), $mac!(ByDisplayParts), $mac!(WithDisplays),
            $mac!(std::time::Duration), $mac!(std::net::IpAddr), $mac!(std::net::SocketAddr), $mac!(std::ops::Range<u8>), $mac!(std::ops::Bound<i16>), $mac!(Result<u8, String>),
            $mac!(std::num::NonZeroU16), $mac!(std::num::Wrapping<i8>), $mac!(std::cmp::Reverse<u8>), $mac!(std::marker::PhantomData<u8>), $mac!(std::ffi::CString), $mac!(std::path::PathBuf),
            $mac!(std::collections::BTreeSet<u8>), $mac!(std::collections::VecDeque<i16>), $mac!(std::borrow::Cow<'static, str>), $mac!(Box<str>), $mac!([u8; 32]),
            $mac!((u8, i8, u16, i16, u32, i32, u64, bool, char, String, Option<u8>, ())), $mac!(std::collections::HashMap<u8, String>),
            $mac!(FlatChar), $mac!(FlatUnit), $mac!(UntaggedChar), $mac!(UntaggedUnit), $mac!(InternalChar), $mac!(InternalUnit), $mac!(AdjacentChar), $mac!(AdjacentUnit),
        ]
    }}
}
