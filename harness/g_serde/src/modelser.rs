//! An independent `serde::Serializer` that builds the CBOR item a value must map to under the
//! documented representation of minicbor-serde (structs = maps keyed by field name, unit variants = the
//! name as text, other variants = one-entry map name -> content, None = null, unit = empty array,
//! unknown-length sequences/maps = indefinite). Shares no code with the bridge.

use serde::ser::{self, Serialize};
use std::fmt;
use vcore::item::{Item, W};

#[derive(Debug)]
pub struct MErr(pub String);
impl fmt::Display for MErr { fn fmt(&self, f: &mut fmt::Formatter<'_>) -> fmt::Result { f.write_str(&self.0) } }
impl std::error::Error for MErr {}
impl ser::Error for MErr { fn custom<T: fmt::Display>(m: T) -> Self { MErr(m.to_string()) } }

pub fn model<T: Serialize + ?Sized>(v: &T) -> Result<Item, MErr> { v.serialize(MS) }

pub struct MS;

pub struct SeqB { items: Vec<Item>, definite: bool, wrap: Option<&'static str> }
pub struct MapB { items: Vec<(Item, Item)>, key: Option<Item>, definite: bool, wrap: Option<&'static str> }

fn wrap(name: Option<&'static str>, it: Item) -> Item { match name { Some(n) => Item::map(vec![(Item::text(n), it)]), None => it } }

impl ser::Serializer for MS {
    type Ok = Item;
    type Error = MErr;
    type SerializeSeq = SeqB;
    type SerializeTuple = SeqB;
    type SerializeTupleStruct = SeqB;
    type SerializeTupleVariant = SeqB;
    type SerializeMap = MapB;
    type SerializeStruct = MapB;
    type SerializeStructVariant = MapB;

    fn serialize_bool(self, v: bool) -> Result<Item, MErr> { Ok(Item::bool(v)) }
    fn serialize_i8(self, v: i8) -> Result<Item, MErr> { Ok(Item::int(v as i128)) }
    fn serialize_i16(self, v: i16) -> Result<Item, MErr> { Ok(Item::int(v as i128)) }
    fn serialize_i32(self, v: i32) -> Result<Item, MErr> { Ok(Item::int(v as i128)) }
    fn serialize_i64(self, v: i64) -> Result<Item, MErr> { Ok(Item::int(v as i128)) }
    fn serialize_u8(self, v: u8) -> Result<Item, MErr> { Ok(Item::uint(v as u64)) }
    fn serialize_u16(self, v: u16) -> Result<Item, MErr> { Ok(Item::uint(v as u64)) }
    fn serialize_u32(self, v: u32) -> Result<Item, MErr> { Ok(Item::uint(v as u64)) }
    fn serialize_u64(self, v: u64) -> Result<Item, MErr> { Ok(Item::uint(v)) }
    fn serialize_f32(self, v: f32) -> Result<Item, MErr> { Ok(Item::F32(v.to_bits())) }
    fn serialize_f64(self, v: f64) -> Result<Item, MErr> { Ok(Item::F64(v.to_bits())) }
    // shared with the native codec (property C18): a char is its scalar value as an unsigned integer
    fn serialize_char(self, v: char) -> Result<Item, MErr> { Ok(Item::uint(v as u64)) }
    fn serialize_str(self, v: &str) -> Result<Item, MErr> { Ok(Item::text(v)) }
    fn serialize_bytes(self, v: &[u8]) -> Result<Item, MErr> { Ok(Item::bytes(v)) }
    fn serialize_none(self) -> Result<Item, MErr> { Ok(Item::Null) }
    fn serialize_some<T: Serialize + ?Sized>(self, v: &T) -> Result<Item, MErr> { v.serialize(MS) }
    fn serialize_unit(self) -> Result<Item, MErr> { Ok(Item::array(vec![])) }
    fn serialize_unit_struct(self, _: &'static str) -> Result<Item, MErr> { Ok(Item::array(vec![])) }
    fn serialize_unit_variant(self, _: &'static str, _: u32, variant: &'static str) -> Result<Item, MErr> { Ok(Item::text(variant)) }
    fn serialize_newtype_struct<T: Serialize + ?Sized>(self, _: &'static str, v: &T) -> Result<Item, MErr> { v.serialize(MS) }
    fn serialize_newtype_variant<T: Serialize + ?Sized>(self, _: &'static str, _: u32, variant: &'static str, v: &T) -> Result<Item, MErr> { Ok(wrap(Some(variant), v.serialize(MS)?)) }
    fn serialize_seq(self, len: Option<usize>) -> Result<SeqB, MErr> { Ok(SeqB { items: vec![], definite: len.is_some(), wrap: None }) }
    fn serialize_tuple(self, _: usize) -> Result<SeqB, MErr> { Ok(SeqB { items: vec![], definite: true, wrap: None }) }
    fn serialize_tuple_struct(self, _: &'static str, _: usize) -> Result<SeqB, MErr> { Ok(SeqB { items: vec![], definite: true, wrap: None }) }
    fn serialize_tuple_variant(self, _: &'static str, _: u32, variant: &'static str, _: usize) -> Result<SeqB, MErr> { Ok(SeqB { items: vec![], definite: true, wrap: Some(variant) }) }
    fn serialize_map(self, len: Option<usize>) -> Result<MapB, MErr> { Ok(MapB { items: vec![], key: None, definite: len.is_some(), wrap: None }) }
    fn serialize_struct(self, _: &'static str, _: usize) -> Result<MapB, MErr> { Ok(MapB { items: vec![], key: None, definite: true, wrap: None }) }
    fn serialize_struct_variant(self, _: &'static str, _: u32, variant: &'static str, _: usize) -> Result<MapB, MErr> { Ok(MapB { items: vec![], key: None, definite: true, wrap: Some(variant) }) }
    fn is_human_readable(&self) -> bool { false }
}

impl SeqB { fn finish(self) -> Item { let it = if self.definite { Item::array(self.items) } else { Item::Array(self.items, None) }; wrap(self.wrap, it) } }
impl MapB { fn finish(self) -> Item { let it = if self.definite { let w = W::min_for(self.items.len() as u64); Item::Map(self.items, Some(w)) } else { Item::Map(self.items, None) }; wrap(self.wrap, it) } }

impl ser::SerializeSeq for SeqB { type Ok = Item; type Error = MErr; fn serialize_element<T: Serialize + ?Sized>(&mut self, v: &T) -> Result<(), MErr> { self.items.push(v.serialize(MS)?); Ok(()) } fn end(self) -> Result<Item, MErr> { Ok(self.finish()) } }
impl ser::SerializeTuple for SeqB { type Ok = Item; type Error = MErr; fn serialize_element<T: Serialize + ?Sized>(&mut self, v: &T) -> Result<(), MErr> { self.items.push(v.serialize(MS)?); Ok(()) } fn end(self) -> Result<Item, MErr> { Ok(self.finish()) } }
impl ser::SerializeTupleStruct for SeqB { type Ok = Item; type Error = MErr; fn serialize_field<T: Serialize + ?Sized>(&mut self, v: &T) -> Result<(), MErr> { self.items.push(v.serialize(MS)?); Ok(()) } fn end(self) -> Result<Item, MErr> { Ok(self.finish()) } }
impl ser::SerializeTupleVariant for SeqB { type Ok = Item; type Error = MErr; fn serialize_field<T: Serialize + ?Sized>(&mut self, v: &T) -> Result<(), MErr> { self.items.push(v.serialize(MS)?); Ok(()) } fn end(self) -> Result<Item, MErr> { Ok(self.finish()) } }
impl ser::SerializeMap for MapB {
    type Ok = Item; type Error = MErr;
    fn serialize_key<T: Serialize + ?Sized>(&mut self, k: &T) -> Result<(), MErr> { self.key = Some(k.serialize(MS)?); Ok(()) }
    fn serialize_value<T: Serialize + ?Sized>(&mut self, v: &T) -> Result<(), MErr> { let k = self.key.take().ok_or_else(|| MErr("value without key".into()))?; self.items.push((k, v.serialize(MS)?)); Ok(()) }
    fn end(self) -> Result<Item, MErr> { Ok(self.finish()) }
}
impl ser::SerializeStruct for MapB { type Ok = Item; type Error = MErr; fn serialize_field<T: Serialize + ?Sized>(&mut self, k: &'static str, v: &T) -> Result<(), MErr> { self.items.push((Item::text(k), v.serialize(MS)?)); Ok(()) } fn end(self) -> Result<Item, MErr> { Ok(self.finish()) } }
impl ser::SerializeStructVariant for MapB { type Ok = Item; type Error = MErr; fn serialize_field<T: Serialize + ?Sized>(&mut self, k: &'static str, v: &T) -> Result<(), MErr> { self.items.push((Item::text(k), v.serialize(MS)?)); Ok(()) } fn end(self) -> Result<Item, MErr> { Ok(self.finish()) } }
