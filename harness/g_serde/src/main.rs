//! C17 — serde bridge round-trip with the documented representation; C18 — bridge / native interoperability.

mod fam;
mod modelser;

use fam::Case;
use g_codec::model::{Arb, Same};
use g_codec::util::short_hex;
use minicbor::{Decode, Encode};
use serde::de::DeserializeOwned;
use serde::{Deserialize, Serialize};
use std::fmt::Debug;
use vcore::engine::{hash_of, CaseResult, Kind, RandomFn, Stats, Sub};
use vcore::gen::reframe;
use vcore::item::{parse, wellformed, Item};
use vcore::{ensure, fail, Gen};

fn from_slice_pos<'de, T: Deserialize<'de>>(buf: &'de [u8]) -> (Result<T, minicbor_serde::error::DecodeError>, usize) {
    let mut d = minicbor_serde::Deserializer::new(buf);
    let r = T::deserialize(&mut d);
    (r, d.decoder().position())
}

fn scoped<F: FnOnce() -> CaseResult>(name: &str, f: F) -> CaseResult { g_codec::util::scoped(name, f) }

/// C17 for one family member.
fn c17<T: Case>(g: &mut Gen, st: &mut Stats) -> CaseResult {
    scoped(T::NAME, || {
        st.eval();
        let v = T::gen(g);
        let bytes = match minicbor_serde::to_vec(&v) { Ok(b) => b, Err(e) => fail!("serialize-failed", "to_vec({:?}) failed: {}", v, e) };
        // (i) one well-formed item, equal to the documented representation
        match wellformed(&bytes) { Ok(n) if n == bytes.len() => {}, other => fail!("ill-formed", "{:?} serialised as {} which is not exactly one well-formed item ({:?})", v, short_hex(&bytes), other) }
        let model = modelser::model(&v).map_err(|e| vcore::Fail::new("model-error", e.to_string()))?;
        let want = model.encode();
        ensure!(bytes == want, "representation", "{:?} serialised as {} = {} ; the documented representation is {} = {}", v, short_hex(&bytes), parse(&bytes).map(|x| x.0.render()).unwrap_or_default(), short_hex(&want), model.render());
        // (ii) round trip with exact consumption (junk follows)
        let mut buf = bytes.clone();
        for _ in 0 .. g.below(3) { buf.push(g.byte()) }
        let (r, pos) = from_slice_pos::<T>(&buf);
        match r {
            Ok(back) => {
                ensure!(back == v, "roundtrip-value", "{:?} serialised as {} deserialised to {:?}", v, short_hex(&bytes), back);
                ensure!(pos == bytes.len(), "roundtrip-position", "deserialising {} consumed {} of {} bytes", short_hex(&bytes), pos, bytes.len());
            }
            Err(e) => fail!("roundtrip-rejected", "{:?} serialised as {} = {} but deserialising it as the same type failed: {}", v, short_hex(&bytes), model.render(), e)
        }
        // (iii) metamorphic inputs
        // wider heads only: must give the same value
        let wide = reframe(g, &model, false, false, true).encode();
        let (r, pos) = from_slice_pos::<T>(&wide);
        match r {
            Ok(back) => { ensure!(back == v, "wide-heads-value", "{} (wider heads of {}) deserialised to {:?}, expected {:?}", short_hex(&wide), short_hex(&bytes), back, v); ensure!(pos == wide.len(), "wide-heads-position", "consumed {} of {}", pos, wide.len()) }
            Err(e) => fail!("wide-heads-rejected", "{} (the encoding {} of {:?} with wider heads) was rejected: {}", short_hex(&wide), short_hex(&bytes), v, e)
        }
        // indefinite containers / chunked strings: the value or an error, never another value
        let chunk = g.bool();
        let alt = reframe(g, &model, true, chunk, true).encode();
        let (r, pos) = from_slice_pos::<T>(&alt);
        if let Ok(back) = r {
            ensure!(back == v, "reframed-value", "{} (re-framed {}) deserialised to {:?}, expected {:?}", short_hex(&alt), short_hex(&bytes), back, v);
            ensure!(pos == alt.len(), "reframed-position", "consumed {} of {}", pos, alt.len());
            st.class("reframed/accepted");
        } else { st.class("reframed/refused") }
        // struct fields are identified by name, not by position: any order of the entries gives the same value
        if T::TOP_STRUCT {
            if let Item::Map(entries, f) = &model {
                if entries.len() >= 2 {
                    let mut e2 = entries.clone();
                    for i in (1 .. e2.len()).rev() { let j = g.below(i + 1); e2.swap(i, j) }
                    let it = if f.is_some() { Item::map(e2) } else { Item::Map(e2, None) };
                    let enc = it.encode();
                    let (r, pos) = from_slice_pos::<T>(&enc);
                    match r {
                        Ok(back) => { ensure!(back == v, "reordered-fields-value", "with its entries reordered, {} deserialised to {:?}, expected {:?}", it.render(), back, v); ensure!(pos == enc.len(), "reordered-fields-position", "consumed {} of {}", pos, enc.len()) }
                        Err(e) => fail!("reordered-fields-rejected", "reordering the entries of a struct map made {} fail: {}", it.render(), e)
                    }
                    st.class("reordered-struct-entries");
                }
            }
        }
        // unknown extra entries in a struct map are ignored
        if T::TOP_STRUCT {
            if let Item::Map(entries, f) = &model {
                let mut e2 = entries.clone();
                let extra = (Item::text("zz unknown field"), vcore::gen::item(g, &vcore::gen::ItemCfg { max_nodes: 8, max_depth: 3, ..vcore::gen::ItemCfg::FULL }));
                let at = g.below(e2.len() + 1);
                e2.insert(at, extra);
                let it = if f.is_some() { Item::map(e2) } else { Item::Map(e2, None) };
                let enc = it.encode();
                let (r, pos) = from_slice_pos::<T>(&enc);
                match r {
                    Ok(back) => { ensure!(back == v, "extra-field-value", "with an unknown extra entry, {} deserialised to {:?}, expected {:?}", short_hex(&enc), back, v); ensure!(pos == enc.len(), "extra-field-position", "consumed {} of {}", pos, enc.len()) }
                    Err(e) => fail!("extra-field-rejected", "an unknown extra struct entry made {} fail: {}", short_hex(&enc), e)
                }
                st.class("extra-struct-entry");
            }
        }
        if bytes.len() >= 2 { st.nontrivial(hash_of(&(T::NAME, &bytes))) }
        st.class(T::NAME);
        st.sample(hash_of(&bytes), || format!("{}: {:?} <-> {}", T::NAME, v, model.render()));
        Ok(())
    })
}

macro_rules! c17_row { ($t:ty) => { c17::<$t> as RandomFn } }
fn c17_family(g: &mut Gen, st: &mut Stats) -> CaseResult {
    static T: std::sync::OnceLock<Vec<RandomFn>> = std::sync::OnceLock::new();
    let t = T.get_or_init(|| for_each_case!(c17_row));
    t[g.below(t.len())](g, st)
}

/// Adjacently tagged enums accept tag and content in either order (content first forces buffering).
fn adjacent_reordered<T: Case>(g: &mut Gen, st: &mut Stats, name: &'static str) -> CaseResult {
    scoped(name, || {
        st.eval();
        let v = T::gen(g);
        let model = modelser::model(&v).map_err(|e| vcore::Fail::new("model-error", e.to_string()))?;
        if let Item::Map(entries, _) = &model {
            if entries.len() == 2 {
                let swapped = Item::map(vec![entries[1].clone(), entries[0].clone()]);
                let enc = swapped.encode();
                let (r, pos) = from_slice_pos::<T>(&enc);
                match r {
                    Ok(back) => { ensure!(back == v, "reordered-value", "{} deserialised to {:?}, expected {:?}", swapped.render(), back, v); ensure!(pos == enc.len(), "reordered-position", "consumed {} of {}", pos, enc.len()) }
                    Err(e) => fail!("reordered-rejected", "content-before-tag {} of {:?} was rejected: {}", swapped.render(), v, e)
                }
                st.nontrivial(hash_of(&enc));
                st.sample(hash_of(&enc), || format!("{}: {}", name, swapped.render()));
            }
        }
        Ok(())
    })
}
fn adj_plain(g: &mut Gen, st: &mut Stats) -> CaseResult { adjacent_reordered::<fam::Adjacent>(g, st, "adjacent-reordered/plain") }
fn adj_char(g: &mut Gen, st: &mut Stats) -> CaseResult { adjacent_reordered::<fam::AdjacentChar>(g, st, "buffered/char/adjacent-reordered") }
fn adj_unit(g: &mut Gen, st: &mut Stats) -> CaseResult { adjacent_reordered::<fam::AdjacentUnit>(g, st, "buffered/unit/adjacent-reordered") }
fn adjacent_sub(g: &mut Gen, st: &mut Stats) -> CaseResult { match g.below(3) { 0 => adj_plain(g, st), 1 => adj_char(g, st), _ => adj_unit(g, st) } }

/// Borrowed deserialisation: &str / &[u8] fields point into the input.
fn borrowed(g: &mut Gen, st: &mut Stats) -> CaseResult {
    #[derive(Debug, PartialEq, Serialize, Deserialize)]
    struct B<'a> { #[serde(borrow)] s: &'a str, #[serde(borrow)] b: &'a [u8], n: u8 }
    st.eval();
    let s = g.string(20);
    let b = g.bytes(20);
    let v = B { s: &s, b: &b, n: g.u8() };
    // &[u8] serialises as a sequence of u8 in serde's data model unless it goes through serialize_bytes: build the input by hand
    let model = Item::map(vec![(Item::text("s"), Item::text(&s)), (Item::text("b"), Item::bytes(&b)), (Item::text("n"), Item::uint(v.n as u64))]);
    let enc = model.encode();
    let (r, pos) = from_slice_pos::<B>(&enc);
    match r {
        Ok(back) => {
            ensure!(back == v, "borrowed-value", "{} deserialised to {:?}", model.render(), back);
            ensure!(pos == enc.len(), "borrowed-position", "consumed {} of {}", pos, enc.len());
            let inside = |p: *const u8, n: usize| ((p as usize) >= enc.as_ptr() as usize && (p as usize) + n <= enc.as_ptr() as usize + enc.len());
            ensure!(inside(back.s.as_ptr(), back.s.len()) && inside(back.b.as_ptr(), back.b.len()), "not-borrowed", "borrowed fields do not point into the input");
        }
        Err(e) => fail!("borrowed-rejected", "{} rejected: {}", model.render(), e)
    }
    st.nontrivial(hash_of(&enc));
    st.class("borrowed");
    Ok(())
}

/// A zero-copy byte buffer: serialises through serialize_bytes and can only be deserialised by *borrowing* from the input.
#[derive(Debug, PartialEq, Clone, Copy)]
struct BB<'a>(&'a [u8]);
impl Serialize for BB<'_> { fn serialize<S: serde::Serializer>(&self, s: S) -> Result<S::Ok, S::Error> { s.serialize_bytes(self.0) } }
impl<'de: 'a, 'a> Deserialize<'de> for BB<'a> {
    fn deserialize<D: serde::Deserializer<'de>>(d: D) -> Result<Self, D::Error> {
        struct V;
        impl<'de> serde::de::Visitor<'de> for V {
            type Value = BB<'de>;
            fn expecting(&self, f: &mut std::fmt::Formatter) -> std::fmt::Result { f.write_str("borrowed bytes") }
            fn visit_borrowed_bytes<E: serde::de::Error>(self, v: &'de [u8]) -> Result<BB<'de>, E> { Ok(BB(v)) }
        }
        d.deserialize_bytes(V)
    }
}

/// Borrowed `&str` / byte buffers inside the shapes serde buffers through `deserialize_any` (untagged, internally tagged,
/// flatten) and in a plain struct: the value round-trips and the slices point into the input.
fn borrowed_buffered(g: &mut Gen, st: &mut Stats) -> CaseResult {
    #[derive(Debug, PartialEq, Serialize, Deserialize)] struct P<'a> { #[serde(borrow)] b: BB<'a>, #[serde(borrow)] s: &'a str, n: u8 }
    #[derive(Debug, PartialEq, Serialize, Deserialize)] #[serde(untagged)] enum U<'a> { #[serde(borrow)] B(BB<'a>), N(u8), #[serde(borrow)] S(&'a str) }
    #[derive(Debug, PartialEq, Serialize, Deserialize)] #[serde(tag = "t")] enum I<'a> { A { #[serde(borrow)] b: BB<'a>, #[serde(borrow)] s: &'a str }, Z }
    #[derive(Debug, PartialEq, Serialize, Deserialize)] struct In<'a> { #[serde(borrow)] b: BB<'a>, #[serde(borrow)] s: &'a str }
    #[derive(Debug, PartialEq, Serialize, Deserialize)] struct F<'a> { id: u8, #[serde(borrow, flatten)] inner: In<'a> }
    // keys that borrow: a flattened catch-all map with &str keys (the keys reach it through serde's buffer as identifiers),
    // a plain map with &str keys, an enum whose variant names are matched against borrowed identifiers
    #[derive(Debug, PartialEq, Serialize, Deserialize)] struct Rest<'a> { id: u8, #[serde(borrow, flatten)] rest: std::collections::BTreeMap<&'a str, u64> }
    #[derive(Debug, PartialEq, Serialize, Deserialize)] struct Keys<'a> { #[serde(borrow)] m: std::collections::BTreeMap<&'a str, &'a str> }
    st.eval();
    let sv = g.string(20);
    let bv = g.bytes(20);
    let (s, b) = (sv.as_str(), BB(&bv));
    fn inside(p: *const u8, n: usize, enc: &[u8]) -> bool { ((p as usize) >= enc.as_ptr() as usize && (p as usize) + n <= enc.as_ptr() as usize + enc.len()) }
    macro_rules! rt { ($label:expr, $t:ty, $v:expr, |$x:ident| $ptrs:expr) => {{
        let v: $t = $v;
        let enc = minicbor_serde::to_vec(&v).map_err(|e| vcore::Fail::new("serialize-failed", format!("{}: {}", $label, e)))?;
        let (r, pos) = from_slice_pos::<$t>(&enc);
        match r {
            Ok($x) => {
                ensure!($x == v, "borrowed-value", "{}: {} deserialised to {:?}, expected {:?}", $label, short_hex(&enc), $x, v);
                ensure!(pos == enc.len(), "borrowed-position", "{}: consumed {} of {}", $label, pos, enc.len());
                let ptrs: Vec<(*const u8, usize)> = $ptrs;
                ensure!(ptrs.iter().all(|(p, n)| inside(*p, *n, &enc)), "not-borrowed", "{}: borrowed fields of {:?} do not point into the input", $label, $x);
            }
            Err(e) => fail!("borrowed-rejected", "{}: {:?} serialised as {} but deserialising it as the same (borrowing) type failed: {}", $label, v, short_hex(&enc), e)
        }
        st.class($label);
    }}}
    scoped("borrowed-buffered", || {
        match g.below(8) {
            6 => { let ks: Vec<String> = (0 .. 1 + g.below(3)).map(|i| format!("k{}{}", i, g.string(6))).collect(); let m: std::collections::BTreeMap<&str, u64> = ks.iter().map(|k| (k.as_str(), g.u64())).collect();
                   rt!("borrowed/flattened catch-all map with &str keys", Rest, Rest { id: g.u8(), rest: m.clone() }, |x| x.rest.keys().map(|k| (k.as_ptr(), k.len())).collect()) }
            7 => { let ks: Vec<String> = (0 .. g.below(4)).map(|i| format!("{}{}", g.string(5), i)).collect(); let m: std::collections::BTreeMap<&str, &str> = ks.iter().map(|k| (k.as_str(), s)).collect();
                   rt!("borrowed/map with &str keys and values", Keys, Keys { m: m.clone() }, |x| x.m.iter().flat_map(|(k, v)| [(k.as_ptr(), k.len()), (v.as_ptr(), v.len())]).collect()) }
            0 => rt!("borrowed/plain struct", P, P { b, s, n: g.u8() }, |x| vec![(x.b.0.as_ptr(), x.b.0.len()), (x.s.as_ptr(), x.s.len())]),
            1 => rt!("borrowed/untagged bytes", U, U::B(b), |x| match x { U::B(b) => vec![(b.0.as_ptr(), b.0.len())], _ => vec![] }),
            2 => rt!("borrowed/untagged str", U, U::S(s), |x| match x { U::S(s) => vec![(s.as_ptr(), s.len())], _ => vec![] }),
            3 => rt!("borrowed/internally tagged", I, I::A { b, s }, |x| match x { I::A { b, s } => vec![(b.0.as_ptr(), b.0.len()), (s.as_ptr(), s.len())], _ => vec![] }),
            4 => rt!("borrowed/flatten", F, F { id: g.u8(), inner: In { b, s } }, |x| vec![(x.inner.b.0.as_ptr(), x.inner.b.0.len()), (x.inner.s.as_ptr(), x.inner.s.len())]),
            _ => rt!("borrowed/Vec of buffers", Vec<BB>, vec![b, BB(&[]), b], |x| x.iter().map(|b| (b.0.as_ptr(), b.0.len())).collect())
        }
        Ok(())
    })?;
    st.nontrivial(hash_of(&(&sv, &bv)));
    Ok(())
}

// ---- C18 -----------------------------------------------------------------------------------------

fn c18<T>(g: &mut Gen, st: &mut Stats, name: &'static str) -> CaseResult
where T: Encode<()> + for<'b> Decode<'b, ()> + Serialize + DeserializeOwned + Arb + Same + Debug
{
    let v = T::arb(g);
    c18_value(v, g, st, name)
}

fn c18_value<T>(v: T, g: &mut Gen, st: &mut Stats, name: &'static str) -> CaseResult
where T: Encode<()> + for<'b> Decode<'b, ()> + Serialize + DeserializeOwned + Same + Debug
{
    scoped(name, || {
        st.eval();
        let native = minicbor::to_vec(&v).map_err(|e| vcore::Fail::new("native-encode", e.to_string()))?;
        let bridge = minicbor_serde::to_vec(&v).map_err(|e| vcore::Fail::new("bridge-encode", e.to_string()))?;
        ensure!(native == bridge, "bytes-differ", "{:?}: native encoding {} but the serde bridge writes {}", v, short_hex(&native), short_hex(&bridge));
        // each side's bytes through the other side's decoder
        let via_bridge: Result<T, _> = minicbor_serde::from_slice(&native);
        match via_bridge { Ok(x) => ensure!(v.same(&x), "native-to-bridge", "native bytes {} of {:?} read by the bridge as {:?}", short_hex(&native), v, x), Err(e) => fail!("native-to-bridge", "native bytes {} of {:?} rejected by the bridge: {}", short_hex(&native), v, e) }
        let via_native: Result<T, _> = minicbor::decode(&bridge);
        match via_native { Ok(x) => ensure!(v.same(&x), "bridge-to-native", "bridge bytes {} of {:?} read natively as {:?}", short_hex(&bridge), v, x), Err(e) => fail!("bridge-to-native", "bridge bytes {} of {:?} rejected by the native decoder: {}", short_hex(&bridge), v, e) }
        // alternative encodings of the same item: never two different values
        if let Ok((item, _)) = parse(&native) {
            for round in 0 .. 2 {
                let alt = if round == 0 { reframe(g, &item, false, false, true) } else { reframe(g, &item, true, true, true) }.encode();
                let a: Result<T, _> = minicbor::decode(&alt);
                let b: Result<T, _> = minicbor_serde::from_slice(&alt);
                if let Ok(x) = &a { ensure!(v.same(x), "reframed-native-value", "{} (re-framed {}) decoded natively as {:?}, the item denotes {:?}", short_hex(&alt), short_hex(&native), x, v) }
                if let Ok(x) = &b { ensure!(v.same(x), "reframed-bridge-value", "{} (re-framed {}) read by the bridge as {:?}, the item denotes {:?}", short_hex(&alt), short_hex(&native), x, v) }
                if round == 0 {
                    ensure!(a.is_ok(), "wide-heads-native-rejected", "{} (wider heads) rejected natively", short_hex(&alt));
                    ensure!(b.is_ok(), "wide-heads-bridge-rejected", "{} (wider heads) rejected by the bridge: {}", short_hex(&alt), b.err().map(|e| e.to_string()).unwrap_or_default());
                }
                st.class(match (a.is_ok(), b.is_ok()) { (true, true) => "alt/both-accept", (true, false) => "alt/native-only", (false, true) => "alt/bridge-only", _ => "alt/both-refuse" });
            }
        }
        if native.len() >= 2 { st.nontrivial(hash_of(&(name, &native))) }
        st.class(name);
        st.sample(hash_of(&native), || format!("{}: {:?} = {}", name, v, short_hex(&native)));
        Ok(())
    })
}

/// Tuples above arity 12 have no `Debug` in std: wrap them, delegating all four codec traits (the arities 13-16 are the
/// last rows of the per-arity tables on both sides).
macro_rules! wide_tuple {
    ($w:ident, ($($t:ty),+), ($($i:tt),+)) => {
        #[derive(Clone)]
        struct $w(($($t,)+));
        impl Debug for $w { fn fmt(&self, f: &mut std::fmt::Formatter<'_>) -> std::fmt::Result { f.write_str("(")?; $( write!(f, "{:?}, ", (self.0).$i)?; )+ f.write_str(")") } }
        impl<C> Encode<C> for $w { fn encode<W: minicbor::encode::Write>(&self, e: &mut minicbor::Encoder<W>, ctx: &mut C) -> Result<(), minicbor::encode::Error<W::Error>> { self.0.encode(e, ctx) } }
        impl<'b, C> Decode<'b, C> for $w { fn decode(d: &mut minicbor::Decoder<'b>, ctx: &mut C) -> Result<Self, minicbor::decode::Error> { Ok($w(Decode::decode(d, ctx)?)) } }
        impl Serialize for $w { fn serialize<S: serde::Serializer>(&self, s: S) -> Result<S::Ok, S::Error> { self.0.serialize(s) } }
        impl<'de> Deserialize<'de> for $w { fn deserialize<D: serde::Deserializer<'de>>(d: D) -> Result<Self, D::Error> { Ok($w(Deserialize::deserialize(d)?)) } }
        impl Arb for $w { fn arb(g: &mut Gen) -> Self { $w(( $( <$t as Arb>::arb(g), )+ )) } }
        impl Same for $w { fn same(&self, o: &Self) -> bool { true $( && Same::same(&(self.0).$i, &(o.0).$i) )+ } }
    }
}
wide_tuple!(Tuple13, (u8, i8, u16, i16, u32, i32, u64, i64, bool, char, f32, String, Option<u8>), (0, 1, 2, 3, 4, 5, 6, 7, 8, 9, 10, 11, 12));
wide_tuple!(Tuple14, (u8, i8, u16, i16, u32, i32, u64, i64, bool, char, f32, String, Option<u8>, f64), (0, 1, 2, 3, 4, 5, 6, 7, 8, 9, 10, 11, 12, 13));
wide_tuple!(Tuple15, (u8, i8, u16, i16, u32, i32, u64, i64, bool, char, f32, String, Option<u8>, f64, Vec<u8>), (0, 1, 2, 3, 4, 5, 6, 7, 8, 9, 10, 11, 12, 13, 14));
wide_tuple!(Tuple16, (u8, i8, u16, i16, u32, i32, u64, i64, bool, char, f32, f64, String, Option<u8>, (), [u8; 2]), (0, 1, 2, 3, 4, 5, 6, 7, 8, 9, 10, 11, 12, 13, 14, 15));

macro_rules! c18_types {
    ($( $t:ty ),* $(,)?) => {
        fn c18_shared(g: &mut Gen, st: &mut Stats) -> CaseResult {
            let fns: &[fn(&mut Gen, &mut Stats) -> CaseResult] = &[ $( { fn f(g: &mut Gen, st: &mut Stats) -> CaseResult { c18::<$t>(g, st, stringify!($t)) } f } ),* ];
            fns[g.below(fns.len())](g, st)
        }
    }
}

c18_types!(
    u8, u16, u32, u64, usize, i8, i16, i32, i64, isize, bool, char, f32, f64, String, (),
    Option<u8>, Option<String>, Option<Vec<u8>>, Option<(u8, bool)>,
    Vec<u8>, Vec<u64>, Vec<String>, Vec<Option<(u8, String)>>, Vec<Vec<i32>>, Vec<f64>, Vec<()>, Vec<char>,
    [u8; 0], [u8; 1], [u16; 3], [Option<u16>; 3], [String; 2], [u8; 32], [u16; 23], [u16; 24], [i8; 25], [String; 24], [(u8, bool); 24],
    (u8, u8, u8, u8, u8, u8), (u8, i8, u16, i16, u32, i32, u64, i64, bool, char, String, f64), [[u8; 2]; 3],
    (u8,), (u8, String), (bool, i64, f32), (u64, Option<i8>, char, String), ((u8, u8), [i8; 2], Vec<bool>),
    (u8, String, bool, i32, Option<u16>), (u8, i8, u16, i16, bool, String, u32), (u64, i64, f32, char, bool, Option<i8>, String, u8), (u8, i8, u16, i16, u32, i32, bool, char, String),
    (u8, i8, u16, i16, u32, i32, u64, i64, bool, String), (u8, i8, u16, i16, u32, i32, u64, i64, bool, char, String), Tuple13, Tuple14, Tuple15, Tuple16,
    std::collections::BTreeMap<u8, u8>, std::collections::BTreeMap<String, Vec<i64>>, std::collections::BTreeMap<i32, Option<String>>,
    std::collections::VecDeque<i16>, std::collections::LinkedList<u32>, std::collections::BTreeSet<i64>,
    Box<u64>, Box<Vec<u16>>, std::num::Wrapping<u32>, std::num::NonZeroU8, std::num::NonZeroI64, std::marker::PhantomData<u8>,
);

/// Long documents in the shared model: cumulative effects need hundreds to thousands of elements to show.
fn c18_long(g: &mut Gen, st: &mut Stats) -> CaseResult {
    use std::collections::BTreeMap;
    let n = *g.pick(&[130usize, 300, 1000, 2500]) + g.below(7);
    match g.below(5) {
        0 => c18_value::<Vec<Option<u16>>>((0 .. n).map(|i| if g.chance(200) || i % 97 == 0 { None } else { Some(g.u16()) }).collect(), g, st, "long Vec<Option<u16>>"),
        1 => c18_value::<Vec<()>>(vec![(); n], g, st, "long Vec<()>"),
        2 => c18_value::<BTreeMap<u32, Option<String>>>((0 .. n as u32).map(|i| (i * 3, if g.chance(180) { None } else { Some(g.string(6)) })).collect(), g, st, "long BTreeMap<u32,Option<String>>"),
        3 => c18_value::<Vec<Vec<Option<bool>>>>((0 .. n / 8).map(|_| (0 .. 8).map(|_| if g.bool() { None } else { Some(g.bool()) }).collect()).collect(), g, st, "long Vec<Vec<Option<bool>>>"),
        _ => c18_value::<Vec<(u8, Option<String>, [u8; 2])>>((0 .. n / 2).map(|_| (g.u8(), if g.bool() { None } else { Some(g.string(4)) }, [g.byte(), g.byte()])).collect(), g, st, "long Vec<(u8,Option<String>,[u8;2])>")
    }
}

// ---- C12 through the bridge ------------------------------------------------------------------------

/// Every float bit pattern (signalling NaNs, payloads, subnormals, signed zeros) through the serde bridge: directly
/// and in the contexts serde buffers through `deserialize_any`; half-precision items read as f32 / f64; a wider item
/// is refused by a narrower target.
fn floats_through_bridge(g: &mut Gen, st: &mut Stats) -> CaseResult {
    use fam::{F32b, F64b};
    #[derive(Debug, PartialEq, Serialize, Deserialize)] #[serde(untagged)] enum U32 { I(i64), G(F32b), T(String) }
    #[derive(Debug, PartialEq, Serialize, Deserialize)] #[serde(untagged)] enum U64 { I(i64), G(F64b), T(String) }
    #[derive(Debug, PartialEq, Serialize, Deserialize)] #[serde(tag = "t")] enum Int32 { A { x: F32b, y: F64b }, B }
    #[derive(Debug, PartialEq, Serialize, Deserialize)] struct In { a: F32b, b: F64b }
    #[derive(Debug, PartialEq, Serialize, Deserialize)] struct Fl { id: u8, #[serde(flatten)] inner: In }
    st.eval();
    let special32: [u32; 10] = [0x7f80_0001, 0x7fa0_0000, 0xff92_3456, 0x7fc0_0000, 0xffc0_0001, 0x8000_0000, 0x0000_0001, 0x7f80_0000, 0xff80_0000, 0x007f_ffff];
    let special64: [u64; 8] = [0x7ff0_0000_0000_0001, 0x7ff4_0000_0000_0000, 0xfff8_0000_0000_0001, 0x8000_0000_0000_0000, 1, 0x7ff0_0000_0000_0000, 0x000f_ffff_ffff_ffff, 0x7ff8_0000_0000_0000];
    let a = F32b(f32::from_bits(if g.chance(100) { *g.pick(&special32) } else { g.f32_bits() }));
    let b = F64b(f64::from_bits(if g.chance(100) { *g.pick(&special64) } else { g.f64_bits() }));
    fn rt<T: Serialize + DeserializeOwned + PartialEq + Debug>(what: &str, v: &T) -> CaseResult {
        let bytes = minicbor_serde::to_vec(v).map_err(|e| vcore::Fail::new("serialize-failed", format!("{}: {:?}: {}", what, v, e)))?;
        match minicbor_serde::from_slice::<T>(&bytes) {
            Ok(back) => ensure!(&back == v, "float-bits", "{}: {:?} serialised as {} came back as {:?} (bit patterns differ)", what, v, short_hex(&bytes), back),
            Err(e) => fail!("float-rejected", "{}: {:?} serialised as {} was rejected: {}", what, v, short_hex(&bytes), e)
        }
        Ok(())
    }
    scoped("bridge-floats", || {
        rt("f32", &a)?; rt("f64", &b)?;
        rt("untagged f32", &U32::G(a))?; rt("untagged f64", &U64::G(b))?;
        rt("internally tagged", &Int32::A { x: a, y: b })?;
        rt("flattened", &Fl { id: g.u8(), inner: In { a, b } })?;
        rt("Vec<f32>", &vec![a, a])?; rt("Option<f64>", &Some(b))?;
        // the wire width is the width of the Rust type
        let e32 = minicbor_serde::to_vec(&a).unwrap(); let e64 = minicbor_serde::to_vec(&b).unwrap();
        ensure!(e32.len() == 5 && e32[0] == 0xfa && e32[1 ..] == a.0.to_bits().to_be_bytes(), "float-width", "f32 {:08x} serialised as {}", a.0.to_bits(), short_hex(&e32));
        ensure!(e64.len() == 9 && e64[0] == 0xfb && e64[1 ..] == b.0.to_bits().to_be_bytes(), "float-width", "f64 {:016x} serialised as {}", b.0.to_bits(), short_hex(&e64));
        // a wider item is never accepted by a narrower target; a narrower one widens exactly
        ensure!(minicbor_serde::from_slice::<f32>(&e64).is_err(), "wider-accepted", "the f64 item {} was accepted as f32", short_hex(&e64));
        if !a.0.is_nan() { match minicbor_serde::from_slice::<f64>(&e32) { Ok(x) => ensure!(x.to_bits() == (a.0 as f64).to_bits(), "widening", "f32 item {} read as f64 gave {:e}", short_hex(&e32), x), Err(e) => fail!("widening", "f32 item {} refused as f64: {}", short_hex(&e32), e) } }
        // half-precision items
        let h = g.f16_bits();
        let item = [0xf9, (h >> 8) as u8, h as u8];
        let want = vcore::half_ref::f16_bits_to_f64(h);
        for (name, got) in [("f32", minicbor_serde::from_slice::<f32>(&item).map(|x| x as f64)), ("f64", minicbor_serde::from_slice::<f64>(&item))] {
            match got { Ok(x) => ensure!(if want.is_nan() { x.is_nan() } else { x.to_bits() == want.to_bits() }, "half-value", "the half item f9{:04x} read as {} gave {:e}, it denotes {:e}", h, name, x, want), Err(e) => fail!("half-rejected", "the half item f9{:04x} was refused as {}: {}", h, name, e) }
        }
        Ok(())
    })?;
    st.class(if a.0.is_nan() || b.0.is_nan() { "bridge-floats/with NaN" } else { "bridge-floats/numeric" });
    st.nontrivial(hash_of(&(a.0.to_bits(), b.0.to_bits())));
    Ok(())
}

/// C05S (part of C05): the integer and `char` targets of the serde bridge over every head form. An integer item is a sign,
/// an argument and one of five head widths (the argument need not be minimal for its width); a target accepts it exactly
/// when the mathematical value is representable in the target type, and then returns that value - whatever the width.
fn ints_through_bridge(g: &mut Gen, st: &mut Stats) -> CaseResult {
    st.eval();
    let neg = g.bool();
    let width = g.below(5); // immediate, 1, 2, 4, 8 bytes
    let max: u64 = [23, 0xff, 0xffff, 0xffff_ffff, u64::MAX][width];
    let arg: u64 = match g.below(6) {
        0 => { let k = g.below(65); let base = if k == 64 { u64::MAX } else { (1u64 << k).wrapping_sub(1) }; base.wrapping_add(g.below(7) as u64).wrapping_sub(3) }
        1 => *g.pick(&[0u64, 1, 23, 24, 0x7f, 0x80, 0xff, 0x100, 0x7fff, 0x8000, 0xffff, 0x1_0000, 0xd7ff, 0xd800, 0xdfff, 0xe000, 0x10_ffff, 0x11_0000, 0x7fff_ffff, 0x8000_0000, 0xffff_ffff, 0x1_0000_0000, i64::MAX as u64, 1 << 63, u64::MAX]),
        2 => g.below(0x11_0800) as u64,
        _ => g.u64() >> g.below(64)
    }.min(max);
    let mut bytes = Vec::new();
    let major = if neg { 0x20u8 } else { 0x00 };
    match width { 0 => bytes.push(major | arg as u8), 1 => { bytes.push(major | 24); bytes.push(arg as u8) } 2 => { bytes.push(major | 25); bytes.extend_from_slice(&(arg as u16).to_be_bytes()) } 3 => { bytes.push(major | 26); bytes.extend_from_slice(&(arg as u32).to_be_bytes()) } _ => { bytes.push(major | 27); bytes.extend_from_slice(&arg.to_be_bytes()) } }
    let val: i128 = if neg { -1 - arg as i128 } else { arg as i128 };
    let minimal = match width { 0 => true, 1 => arg > 23, 2 => arg > 0xff, 3 => arg > 0xffff, _ => arg > 0xffff_ffff };
    // junk after the item: exact consumption is not at stake here, the item is offered alone and inside containers
    macro_rules! target { ($t:ty) => {{
        let want: Option<$t> = <$t>::try_from(val).ok();
        let got = minicbor_serde::from_slice::<$t>(&bytes);
        match (&want, &got) {
            (Some(w), Ok(x)) => ensure!(w == x, "wrong-value", "{} from {} ({}) = {} but the item denotes {}", stringify!($t), short_hex(&bytes), if minimal { "shortest head" } else { "wider head" }, x, val),
            (Some(w), Err(e)) => fail!("representable-rejected", "{} from {} ({}): the item denotes {} = {:?}, rejected: {}", stringify!($t), short_hex(&bytes), if minimal { "shortest head" } else { "wider head" }, val, w, e),
            (None, Ok(x)) => fail!("unrepresentable-accepted", "{} from {}: the item denotes {}, which {} cannot hold, but {} was returned", stringify!($t), short_hex(&bytes), val, stringify!($t), x),
            (None, Err(_)) => {}
        }
        // the same item as element / field / optional
        let mut arr = vec![0x82u8]; arr.extend_from_slice(&bytes); arr.extend_from_slice(&bytes);
        let got2 = minicbor_serde::from_slice::<($t, $t)>(&arr).ok();
        ensure!(got2 == want.map(|w| (w, w)), "in-tuple", "({0}, {0}) from {1} = {2:?}, the single item gives {3:?}", stringify!($t), short_hex(&arr), got2, want);
        let got3 = minicbor_serde::from_slice::<Option<$t>>(&bytes).ok();
        ensure!(got3 == want.map(Some), "in-option", "Option<{}> from {} = {:?}, the single item gives {:?}", stringify!($t), short_hex(&bytes), got3, want);
        want.is_some()
    }}}
    let mut accepted = 0;
    scoped("bridge-ints", || {
        for ok in [target!(u8), target!(u16), target!(u32), target!(u64), target!(i8), target!(i16), target!(i32), target!(i64)] { if ok { accepted += 1 } }
        // usize / isize are 64 bit here
        let _ = (target!(usize), target!(isize));
        // char: an unsigned item whose value is a Unicode scalar value
        let want: Option<char> = if !neg && arg <= u32::MAX as u64 { char::from_u32(arg as u32) } else { None };
        let got = minicbor_serde::from_slice::<char>(&bytes);
        match (&want, &got) {
            (Some(w), Ok(x)) => ensure!(w == x, "wrong-char", "char from {} = {:?}, expected {:?}", short_hex(&bytes), x, w),
            (Some(w), Err(e)) => fail!("char-rejected", "char from {} ({}): the item denotes the scalar value {:?}, rejected: {}", short_hex(&bytes), if minimal { "shortest head" } else { "wider head" }, w, e),
            (None, Ok(x)) => fail!("char-accepted", "char from {}: {} is not a scalar value but {:?} was returned", short_hex(&bytes), val, x),
            (None, Err(_)) => {}
        }
        let mut v2 = vec![0x81u8]; v2.extend_from_slice(&bytes);
        let gotv = minicbor_serde::from_slice::<Vec<char>>(&v2).ok();
        ensure!(gotv == want.map(|c| vec![c]), "char-in-vec", "Vec<char> from {} = {:?}, the single item gives {:?}", short_hex(&v2), gotv, want);
        if want.is_some() { st.class(if minimal { "bridge-ints/char, shortest head" } else { "bridge-ints/char, wider head" }) }
        // a self-describing target (deserialize_any with a visitor that takes any integer): what untagged / internally tagged
        // enums, flattened structs and generic value types see
        struct AnyInt(i128);
        impl<'de> Deserialize<'de> for AnyInt {
            fn deserialize<D: serde::Deserializer<'de>>(d: D) -> Result<Self, D::Error> {
                struct V;
                impl<'de> serde::de::Visitor<'de> for V {
                    type Value = AnyInt;
                    fn expecting(&self, f: &mut std::fmt::Formatter) -> std::fmt::Result { f.write_str("an integer") }
                    fn visit_u64<E: serde::de::Error>(self, v: u64) -> Result<AnyInt, E> { Ok(AnyInt(v as i128)) }
                    fn visit_i64<E: serde::de::Error>(self, v: i64) -> Result<AnyInt, E> { Ok(AnyInt(v as i128)) }
                    fn visit_u128<E: serde::de::Error>(self, v: u128) -> Result<AnyInt, E> { Ok(AnyInt(v as i128)) }
                    fn visit_i128<E: serde::de::Error>(self, v: i128) -> Result<AnyInt, E> { Ok(AnyInt(v)) }
                }
                d.deserialize_any(V)
            }
        }
        match minicbor_serde::from_slice::<AnyInt>(&bytes) {
            Ok(AnyInt(x)) => ensure!(x == val, "any-wrong-value", "deserialize_any on {} visited {} but the item denotes {}", short_hex(&bytes), x, val),
            // only an integer below i64::MIN has no serde 64-bit visitor method to go to
            Err(e) => ensure!(val < i64::MIN as i128, "any-rejected", "deserialize_any on {} ({}): the item denotes {}, which fits a 64-bit visitor method, rejected: {}", short_hex(&bytes), if minimal { "shortest head" } else { "wider head" }, val, e)
        }
        #[derive(Debug, PartialEq, Deserialize)] #[serde(untagged)] enum UInt { I(i64), U(u64) }
        let want_u = if let Ok(i) = i64::try_from(val) { Some(UInt::I(i)) } else if let Ok(u) = u64::try_from(val) { Some(UInt::U(u)) } else { None };
        let got_u = minicbor_serde::from_slice::<UInt>(&bytes).ok();
        ensure!(got_u == want_u, "untagged-int", "untagged {{ I(i64), U(u64) }} from {} = {:?}, the item denotes {}", short_hex(&bytes), got_u, val);
        Ok(())
    })?;
    st.class(&format!("bridge-ints/{} head of {} argument bytes{}", if neg { "negative" } else { "unsigned" }, [0, 1, 2, 4, 8][width], if minimal { "" } else { ", not shortest" }));
    if accepted > 0 && accepted < 8 { st.nontrivial(hash_of(&bytes)) }
    st.sample(hash_of(&bytes), || format!("{} denotes {}: accepted by {} of the 8 fixed-width integer targets", short_hex(&bytes), val, accepted));
    Ok(())
}

/// Both codecs on ONE stream: a `Serializer` hands out its `Encoder` (`encoder_mut`, `into_encoder`, `From<Encoder>`) and a
/// `Deserializer` its `Decoder` (`decoder_mut`, `into_decoder`, `From<Decoder>`), so a program may write one value through
/// serde and the next through the native traits. For shared types the stream is the concatenation of the values' encodings
/// whichever side writes which, and each side reads what the other wrote, in any interleaving, ending at the end.
fn interleaved(g: &mut Gen, st: &mut Stats) -> CaseResult {
    use serde::Deserialize as _;
    st.eval();
    #[derive(Debug, Clone, PartialEq)]
    enum V { U(u64), S(String), T((u8, bool, i32)), O(Option<String>), L(Vec<u16>), N(()) }
    let n = 1 + g.below(8);
    let vals: Vec<V> = (0 .. n).map(|_| match g.below(6) { 0 => V::U(g.u64()), 1 => V::S(g.string(12)), 2 => V::T((g.u8(), g.bool(), g.i32())), 3 => V::O(if g.bool() { None } else { Some(g.string(5)) }), 4 => V::L((0 .. g.below(5)).map(|_| g.u16()).collect()), _ => V::N(()) }).collect();
    let side_w: Vec<bool> = (0 .. n).map(|_| g.bool()).collect();
    let side_r: Vec<bool> = (0 .. n).map(|_| g.bool()).collect();
    // expected stream
    let mut want = Vec::new();
    for v in &vals { let b = match v { V::U(x) => minicbor::to_vec(x), V::S(x) => minicbor::to_vec(x), V::T(x) => minicbor::to_vec(x), V::O(x) => minicbor::to_vec(x), V::L(x) => minicbor::to_vec(x), V::N(x) => minicbor::to_vec(x) }.map_err(|e| vcore::Fail::new("native-encode", e.to_string()))?; want.extend_from_slice(&b) }
    scoped("interleaved", || {
        // writing: start from either wrapper
        let mut ser = if g.bool() { minicbor_serde::Serializer::new(Vec::new()) } else { minicbor_serde::Serializer::from(minicbor::Encoder::new(Vec::new())) };
        for (v, bridge) in vals.iter().zip(&side_w) {
            macro_rules! put { ($x:expr) => { if *bridge { $x.serialize(&mut ser).map_err(|e| vcore::Fail::new("bridge-encode", e.to_string()))?; } else { ser.encoder_mut().encode($x).map_err(|e| vcore::Fail::new("native-encode", e.to_string()))?; } } }
            match v { V::U(x) => put!(x), V::S(x) => put!(x), V::T(x) => put!(x), V::O(x) => put!(x), V::L(x) => put!(x), V::N(x) => put!(x) }
        }
        ensure!(ser.encoder().writer() == &want, "interleaved-bytes", "values {:?} written alternately (bridge: {:?}) give {}, the concatenation of their encodings is {}", vals, side_w, short_hex(ser.encoder().writer()), short_hex(&want));
        let out = ser.into_encoder().into_writer();
        ensure!(out == want, "interleaved-bytes", "into_encoder().into_writer() gives {}, expected {}", short_hex(&out), short_hex(&want));
        // reading
        let mut de = if g.bool() { minicbor_serde::Deserializer::new(&want) } else { minicbor_serde::Deserializer::from(minicbor::Decoder::new(&want)) };
        for (i, (v, bridge)) in vals.iter().zip(&side_r).enumerate() {
            macro_rules! get { ($t:ty, $mk:expr) => {{ let x: $t = if *bridge { <$t>::deserialize(&mut de).map_err(|e| vcore::Fail::new("interleaved-read", format!("value {} of {:?} through the bridge (sides {:?}) from {}: {}", i, vals, side_r, short_hex(&want), e)))? } else { de.decoder_mut().decode().map_err(|e| vcore::Fail::new("interleaved-read", format!("value {} of {:?} natively (sides {:?}) from {}: {}", i, vals, side_r, short_hex(&want), e)))? }; $mk(x) }} }
            let got = match v { V::U(_) => get!(u64, V::U), V::S(_) => get!(String, V::S), V::T(_) => get!((u8, bool, i32), V::T), V::O(_) => get!(Option<String>, V::O), V::L(_) => get!(Vec<u16>, V::L), V::N(_) => get!((), V::N) };
            ensure!(&got == v, "interleaved-value", "value {} read back as {:?}, written {:?} (stream {}, reading sides {:?})", i, got, v, short_hex(&want), side_r);
        }
        ensure!(de.decoder().position() == want.len(), "interleaved-position", "after reading all {} values the decoder stands at {} of {}", n, de.decoder().position(), want.len());
        // the same Deserializer on the next input (a long-lived reader swaps the decoder in place): nothing of the previous
        // input may be remembered - the second input holds the same values, re-framed where the types allow it
        {
            let mut second = Vec::new();
            for v in &vals {
                let b = match v { V::U(x) => minicbor::to_vec(x), V::S(x) => minicbor::to_vec(x), V::T(x) => minicbor::to_vec(x), V::O(x) => minicbor::to_vec(x), V::L(x) => minicbor::to_vec(x), V::N(x) => minicbor::to_vec(x) }.map_err(|e| vcore::Fail::new("native-encode", e.to_string()))?;
                match (v, parse(&b)) { (V::L(_), Ok((item, _))) => second.extend_from_slice(&reframe(g, &item, true, false, true).encode()), _ => second.extend_from_slice(&b) }
            }
            second.push(0xff); // a stray break behind the items: whoever looks for breaks in the wrong place will find this one
            *de.decoder_mut() = minicbor::Decoder::new(&second);
            for (i, (v, bridge)) in vals.iter().zip(&side_r).enumerate() {
                macro_rules! get2 { ($t:ty, $mk:expr) => {{ let x: Result<$t, String> = if *bridge { <$t>::deserialize(&mut de).map_err(|e| e.to_string()) } else { de.decoder_mut().decode().map_err(|e| e.to_string()) };
                    match x { Ok(x) => $mk(x), Err(e) => fail!("reused-deserializer", "second input {} on the same Deserializer (first input {}): value {} ({:?}, {}) rejected: {}", short_hex(&second), short_hex(&want), i, v, if *bridge { "bridge" } else { "native" }, e) } }} }
                let got = match v { V::U(_) => get2!(u64, V::U), V::S(_) => get2!(String, V::S), V::T(_) => get2!((u8, bool, i32), V::T), V::O(_) => get2!(Option<String>, V::O), V::L(_) => get2!(Vec<u16>, V::L), V::N(_) => get2!((), V::N) };
                ensure!(&got == v, "reused-deserializer", "second input {} on the same Deserializer (first input {}): value {} read as {:?}, it is {:?} ({})", short_hex(&second), short_hex(&want), i, got, v, if *bridge { "bridge" } else { "native" });
            }
            ensure!(de.decoder().position() == second.len() - 1, "reused-deserializer", "second input: the decoder stands at {} of {}", de.decoder().position(), second.len() - 1);
            de = minicbor_serde::Deserializer::from({ let mut d = minicbor::Decoder::new(&want); d.set_position(want.len()); d });
        }
        let d = de.into_decoder();
        ensure!(d.position() == want.len(), "interleaved-position", "into_decoder() stands at {} of {}", d.position(), want.len());
        Ok(())
    })?;
    if side_w.iter().any(|b| *b) && side_w.iter().any(|b| !*b) { st.nontrivial(hash_of(&(&want, &side_w, &side_r))); st.class("interleaved/both sides write") } else { st.class("interleaved/one side writes") }
    Ok(())
}

fn subs() -> Vec<Sub> {
    vec![
        Sub { prop: "C17", name: "family", rule: "value of one of 48 serde types (all primitives <= 64 bit, char, strings, serialize_bytes buffers, options, unit, unit/newtype/tuple/named structs, seqs, tuples, arrays, maps, externally/internally/adjacently/un-tagged enums, flatten, skip_serializing_if, renames, unknown-length seq/map, 25-field struct): bytes == independent model serializer (documented representation) and one well-formed item; from_slice == value with exact consumption (junk follows); wider heads -> same value; indefinite containers / chunked strings -> same value or error; unknown extra struct entry ignored; distinct by (type, bytes)",
              kind: Kind::Random { quick: 1_500_000, thorough: 10_000_000, tape: 1024, f: c17_family } },
        Sub { prop: "C17", name: "adjacent-reordered", rule: "adjacently tagged enums with the content entry placed before the tag entry deserialise to the same value",
              kind: Kind::Random { quick: 150_000, thorough: 600_000, tape: 128, f: adjacent_sub } },
        Sub { prop: "C17", name: "borrowed", rule: "&str and &[u8] fields deserialise from text / byte strings as slices of the input",
              kind: Kind::Random { quick: 100_000, thorough: 400_000, tape: 256, f: borrowed } },
        Sub { prop: "C17", name: "borrowed-buffered", rule: "zero-copy byte buffers (deserialisable only through visit_borrowed_bytes) and &str inside a plain struct, untagged and internally tagged enums, a flattened struct and a Vec: round trip, exact consumption, slices point into the input",
              kind: Kind::Random { quick: 150_000, thorough: 1_000_000, tape: 256, f: borrowed_buffered } },
        Sub { prop: "C12S", name: "bridge-floats", rule: "f32 / f64 bit patterns (boundary-dense, signalling NaNs and payloads included) through the serde bridge - top level, Vec, Option and the contexts serde buffers through deserialize_any (untagged, internally tagged, flatten): identical bit pattern back, wire width = width of the Rust type, f64 item refused by an f32 target, f32 item widens exactly, every half item read as f32 / f64 equals the reference value",
              kind: Kind::Random { quick: 300_000, thorough: 3_000_000, tape: 128, f: floats_through_bridge } },
        Sub { prop: "C05S", name: "bridge-ints", rule: "integer item = sign x head width (immediate, 1, 2, 4, 8 argument bytes; the argument need not be minimal for the width) x argument (2^k +- 3, type and surrogate boundaries, uniform): each of u8..u64, i8..i64, usize, isize through minicbor_serde::from_slice returns the value iff the mathematical value is representable (try_from over i128), else an error; char iff unsigned and a Unicode scalar value; the same verdict as element of a tuple / Vec and under Option; a deserialize_any visitor and an untagged enum see the value whenever it fits 64 bits; non-trivial = accepted by some but not all fixed-width integer targets",
              kind: Kind::Random { quick: 600_000, thorough: 6_000_000, tape: 64, f: ints_through_bridge } },
        Sub { prop: "C18", name: "interleaved", rule: "1-8 values of shared types written to ONE stream, each through the bridge or natively (Serializer::encoder_mut / into_encoder / From<Encoder>): the stream is the concatenation of the values' encodings; read back from one Deserializer, each value through the bridge or natively (decoder_mut / into_decoder / From<Decoder>): equal values, final position = end; non-trivial = both sides wrote",
              kind: Kind::Random { quick: 300_000, thorough: 3_000_000, tape: 256, f: interleaved } },
        Sub { prop: "C18", name: "long-documents", rule: "sequences / maps / nested sequences of 130-2500 elements (many None, unit, tuple and array elements) in the shared model: the same oracle as shared-model; cumulative effects (depth or element counters, budgets) need this many elements to show",
              kind: Kind::Random { quick: 3_000, thorough: 60_000, tape: 16384, f: c18_long } },
        Sub { prop: "C18", name: "shared-model", rule: "value of one of 52 types in the data model shared by both codecs: minicbor::to_vec == minicbor_serde::to_vec; each side's bytes decode through the other side to the value; re-framed encodings (wider heads: both must accept; indefinite containers / chunked strings) never yield two different values or a value different from the model's; distinct by (type, bytes)",
              kind: Kind::Random { quick: 1_500_000, thorough: 10_000_000, tape: 1024, f: c18_shared } },
    ]
}

fn assumptions(p: &str) -> Vec<String> {
    match p {
        "C17" => vec!["the model serializer (g_serde/src/modelser.rs) states the documented representation: struct = map keyed by field name, unit variant = text, other variants = one-entry map, None = null, unit = empty array, char = its scalar value (shared with the native codec), unknown length = indefinite".into(),
                      "floats in the family are generated non-NaN so that derived PartialEq is the equality relation".into(),
                      "Option directly inside Option is not generated (the documented exclusion)".into()],
        "C05S" => vec!["the bridge's integer targets are the serde primitives u8..u64, i8..i64, usize, isize (64 bit on this platform) and char; 128-bit targets are not part of the bridge".into()],
        _ => vec!["the shared model is the 52 listed std types; equality is bitwise for floats".into()]
    }
}

fn main() { vcore::engine::main(subs(), &assumptions) }
