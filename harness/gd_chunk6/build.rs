fn main() { schemagen::build_chunk(6, 8) }
