//! Probe: one source, built in six feature configurations of minicbor / minicbor-serde
//! ({none, alloc, std} x {half, no half}). Reads a corpus (one hex input per line), runs every
//! operation that exists in this configuration and prints, per input, one line
//!     <hex>|<op>:<verdict>;<op>:<verdict>;...
//! verdict = o<value digest>@<position>  |  e<error class>@<position>
//! The probe itself is a std program; only the libraries under test change configuration.

#[cfg(feature = "alloc")]
extern crate alloc;

use minicbor::data::{Int, Tag, Tagged};
use minicbor::decode::info::Size;
use minicbor::decode::Error;
use minicbor::{Decode, Decoder, Encode};
use std::fmt::{Debug, Write as _};
use std::io::{BufRead, Write as _};

fn fnv(s: &str) -> u32 { let mut h: u32 = 0x811c9dc5; for b in s.bytes() { h ^= b as u32; h = h.wrapping_mul(0x0100_0193) } h }

fn eclass(e: &Error) -> Cls { Cls(eclass0(e), e.position()) }

/// error class + the position the error itself reports (`-` if none)
struct Cls(&'static str, Option<usize>);

fn eclass0(e: &Error) -> &'static str {
    if e.is_end_of_input() { "eoi" }
    else if e.is_type_mismatch() { "type" }
    else if e.is_tag_mismatch() { "tag" }
    else if e.is_message() { "msg" }
    else if e.is_unknown_variant() { "unkvar" }
    else if e.is_missing_value() { "missing" }
    else {
        #[cfg(feature = "alloc")]
        { if e.is_custom() { return "custom" } }
        let mut s = String::new();
        let _ = write!(s, "{}", e);
        if s.starts_with("invalid char") { "char" } else if s.starts_with("invalid utf-8") { "utf8" } else if s.contains("overflows target type") { "overflow" } else { "other" }
    }
}

fn digest<T: Debug>(v: &T) -> u32 { let mut s = String::new(); let _ = write!(s, "{:?}", v); fnv(&s) }

struct Out { line: String }
impl Out {
    fn rec(&mut self, op: &str, r: Result<u32, Cls>, pos: usize) {
        match r {
            Ok(d) => { let _ = write!(self.line, "{}:o{:08x}@{};", op, d, pos); }
            Err(Cls(c, Some(at))) => { let _ = write!(self.line, "{}:e{}#{}@{};", op, c, at, pos); }
            Err(Cls(c, None)) => { let _ = write!(self.line, "{}:e{}#-@{};", op, c, pos); }
        }
    }
}

#[derive(Debug, Encode, Decode, minicbor::CborLen, PartialEq)]
struct DArr<'a> { #[n(0)] a: u8, #[b(1)] s: &'a str, #[n(3)] o: Option<i64>, #[cbor(n(4), tag(9))] t: Option<bool> }
#[derive(Debug, Encode, Decode, minicbor::CborLen, PartialEq)]
#[cbor(map)]
struct DMap { #[n(0)] a: Option<u8>, #[n(7)] k: u16, #[n(2)] e: Option<DPlain> }
#[derive(Debug, Encode, Decode, minicbor::CborLen, PartialEq, Clone, Copy)]
#[cbor(index_only)]
enum DPlain { #[n(0)] A, #[n(1)] B }
#[derive(Debug, Encode, Decode, minicbor::CborLen, PartialEq)]
enum DRich<'a> { #[n(0)] Unit, #[n(1)] Tup(#[n(0)] u32, #[b(1)] Option<&'a str>), #[n(2)] #[cbor(map)] Named { #[n(0)] x: i8, #[n(5)] y: Option<u8> } }

#[derive(Debug, serde::Serialize, serde::Deserialize, PartialEq)]
struct SPlain<'a> { a: u8, #[serde(borrow)] s: &'a str, o: Option<i32>, t: (u8, bool) }
#[derive(Debug, serde::Serialize, serde::Deserialize, PartialEq)]
enum SEnum { Unit, New(u16), Tup(u8, i8), Struct { x: u8 } }
/// Drives `deserialize_any` (works without alloc: no buffering through serde's Content type).
#[derive(Debug, PartialEq)]
enum SAny { N(u64), I(i64), F(u64), B(bool), S(u32), Y(u32), U, None, Seq(u32), Map(u32) }
impl<'de> serde::Deserialize<'de> for SAny {
    fn deserialize<D: serde::Deserializer<'de>>(d: D) -> Result<Self, D::Error> {
        struct V;
        impl<'de> serde::de::Visitor<'de> for V {
            type Value = SAny;
            fn expecting(&self, f: &mut core::fmt::Formatter) -> core::fmt::Result { f.write_str("anything") }
            fn visit_u64<E: serde::de::Error>(self, v: u64) -> Result<SAny, E> { Ok(SAny::N(v)) }
            fn visit_i64<E: serde::de::Error>(self, v: i64) -> Result<SAny, E> { Ok(SAny::I(v)) }
            fn visit_f64<E: serde::de::Error>(self, v: f64) -> Result<SAny, E> { Ok(SAny::F(v.to_bits())) }
            fn visit_f32<E: serde::de::Error>(self, v: f32) -> Result<SAny, E> { Ok(SAny::F(v.to_bits() as u64)) }
            fn visit_bool<E: serde::de::Error>(self, v: bool) -> Result<SAny, E> { Ok(SAny::B(v)) }
            fn visit_str<E: serde::de::Error>(self, v: &str) -> Result<SAny, E> { Ok(SAny::S(fnv(v))) }
            fn visit_bytes<E: serde::de::Error>(self, v: &[u8]) -> Result<SAny, E> { Ok(SAny::Y(fnv_bytes(v))) }
            fn visit_unit<E: serde::de::Error>(self) -> Result<SAny, E> { Ok(SAny::U) }
            fn visit_none<E: serde::de::Error>(self) -> Result<SAny, E> { Ok(SAny::None) }
            fn visit_seq<A: serde::de::SeqAccess<'de>>(self, mut a: A) -> Result<SAny, A::Error> { let mut n = 0; while a.next_element::<serde::de::IgnoredAny>()?.is_some() { n += 1 } Ok(SAny::Seq(n)) }
            fn visit_map<A: serde::de::MapAccess<'de>>(self, mut a: A) -> Result<SAny, A::Error> { let mut n = 0; while a.next_entry::<serde::de::IgnoredAny, serde::de::IgnoredAny>()?.is_some() { n += 1 } Ok(SAny::Map(n)) }
        }
        d.deserialize_any(V)
    }
}
/// A visitor that accepts two kinds of item only: everything else ends in serde's *provided* error constructors
/// (`invalid_type` here; `unknown_field`, `invalid_value`, `invalid_length` through the two types below).
#[derive(Debug, PartialEq)]
enum SPicky { N(u64), S(u32) }
impl<'de> serde::Deserialize<'de> for SPicky {
    fn deserialize<D: serde::Deserializer<'de>>(d: D) -> Result<Self, D::Error> {
        struct V;
        impl<'de> serde::de::Visitor<'de> for V {
            type Value = SPicky;
            fn expecting(&self, f: &mut core::fmt::Formatter) -> core::fmt::Result { f.write_str("a number or a name") }
            fn visit_u64<E: serde::de::Error>(self, v: u64) -> Result<SPicky, E> { Ok(SPicky::N(v)) }
            fn visit_borrowed_str<E: serde::de::Error>(self, v: &'de str) -> Result<SPicky, E> { Ok(SPicky::S(fnv(v))) }
        }
        d.deserialize_any(V)
    }
}
#[derive(Debug, serde::Deserialize, PartialEq)]
#[serde(deny_unknown_fields)]
struct SStrict { a: u8, o: Option<i32> }

/// Serialised through `collect_str` (Display).
struct Disp(u32);
impl core::fmt::Display for Disp { fn fmt(&self, f: &mut core::fmt::Formatter) -> core::fmt::Result { write!(f, "#{}", self.0) } }
impl serde::Serialize for Disp { fn serialize<S: serde::Serializer>(&self, s: S) -> Result<S::Ok, S::Error> { s.collect_str(self) } }

/// The input bytes read as a tape of choices (zeros after the end), for the value-driven operations.
struct Tp<'a>(&'a [u8], usize);
impl Tp<'_> {
    fn b(&mut self) -> u8 { let x = self.0.get(self.1).copied().unwrap_or(0); self.1 += 1; x }
    fn u16(&mut self) -> u16 { (self.b() as u16) << 8 | self.b() as u16 }
    fn u32(&mut self) -> u32 { (self.u16() as u32) << 16 | self.u16() as u32 }
    fn u64(&mut self) -> u64 { if self.b() % 4 == 0 { [0, 23, 24, 255, 256, u32::MAX as u64, u64::MAX][self.b() as usize % 7] } else { (self.u32() as u64) << 32 | self.u32() as u64 } }
    fn bound<T>(&mut self, x: T) -> core::ops::Bound<T> { match self.b() % 3 { 0 => core::ops::Bound::Included(x), 1 => core::ops::Bound::Excluded(x), _ => core::ops::Bound::Unbounded } }
    fn opt<T>(&mut self, x: T) -> Option<T> { if self.b() % 3 == 0 { None } else { Some(x) } }
}

/// C01 in every configuration: values of the types that exist without `alloc`, generated from the tape, encoded into a stack
/// buffer and decoded back. Verdict: `o<digest of the value>` or the stage that failed (enc / dec / neq).
fn roundtrips(input: &[u8], o: &mut Out) {
    use core::ops::Bound;
    let mut t = Tp(input, 0);
    macro_rules! rt { ($name:expr, $ty:ty, $v:expr) => {{
        let v: $ty = $v;
        let mut buf = [0u8; 384];
        let r: Result<(), &'static str> = (|| {
            let n = { let mut c = minicbor::encode::write::Cursor::new(&mut buf[..]); minicbor::encode(&v, &mut c).map_err(|_| "enc")?; c.position() };
            if minicbor::len(&v) != n { return Err("len") }
            let mut d = Decoder::new(&buf[.. n]);
            let back: $ty = d.decode().map_err(|_| "dec")?;
            if d.position() != n { return Err("pos") }
            if back == v { Ok(()) } else { Err("neq") }
        })();
        o.rec($name, r.map(|_| digest(&v)).map_err(|k| Cls(k, None)), 0)
    }} }
    let (a, b, c) = (t.b(), t.u16(), t.u64());
    rt!("RT:Bound<u32>", Bound<u32>, { let x = t.u32(); t.bound(x) });
    rt!("RT:(u8,Bound<i16>,Option<u8>)", (u8, Bound<i16>, Option<u8>), { let x = t.u16() as i16; let y = t.b(); (a, t.bound(x), t.opt(y)) });
    rt!("RT:[Bound<u8> x 3]", [Bound<u8>; 3], [t.bound(a), t.bound(1), t.bound(255)]);
    rt!("RT:Option<Bound<u64>>", Option<Bound<u64>>, { let x = t.bound(c); t.opt(x) });
    rt!("RT:Result<Bound<u8>,()>", Result<Bound<u8>, ()>, if t.b() % 2 == 0 { Ok(t.bound(a)) } else { Err(()) });
    rt!("RT:(Bound<()>,u8)", (Bound<()>, u8), (t.bound(()), a));
    rt!("RT:Bound<Bound<u8>>", Bound<Bound<u8>>, { let x = t.bound(a); t.bound(x) });
    rt!("RT:Bound<[u8 x 0]>", Bound<[u8; 0]>, t.bound([]));
    rt!("RT:(Range<u8>,RangeInclusive<i8>,())", (core::ops::Range<u8>, core::ops::RangeInclusive<i8>, ()), (a .. t.b(), (t.b() as i8) ..= (a as i8), ()));
    rt!("RT:(RangeFrom<u16>,RangeTo<u16>,RangeToInclusive<u8>)", (core::ops::RangeFrom<u16>, core::ops::RangeTo<u16>, core::ops::RangeToInclusive<u8>), (b .., .. t.u16(), ..= a));
    rt!("RT:[() x 2]", [(); 2], [(), ()]);
    rt!("RT:(Option<()>,[u8 x 0],Option<[u8 x 0]>,u8)", (Option<()>, [u8; 0], Option<[u8; 0]>, u8), (t.opt(()), [], t.opt([]), a));
    rt!("RT:Duration", core::time::Duration, core::time::Duration::new(c >> (t.b() % 64), t.u32() % 1_000_000_000));
    rt!("RT:ints", (u8, u16, u32, u64, i8, i16, i32, i64, bool, char), (a, b, t.u32(), c, t.b() as i8, t.u16() as i16, t.u32() as i32, t.u64() as i64, a % 2 == 0, char::from_u32(t.u32() % 0x11_0000).unwrap_or('x')));
    rt!("RT:nonzero", (core::num::NonZeroU8, core::num::NonZeroI64, core::num::Wrapping<u16>), (core::num::NonZeroU8::new(a | 1).unwrap(), core::num::NonZeroI64::new((c as i64) | 1).unwrap(), core::num::Wrapping(b)));
    rt!("RT:Int", Int, if t.b() % 2 == 0 { Int::from(c) } else { Int::try_from(-1i128 - c as i128).unwrap() });
    rt!("RT:Tagged<7,Bound<u8>>", Tagged<7, Bound<u8>>, Tagged::new(t.bound(a)));
    rt!("RT:ByteArray<4>", minicbor::bytes::ByteArray<4>, minicbor::bytes::ByteArray::from([a, t.b(), t.b(), t.b()]));
    rt!("RT:[Option<Bound<u8>> x 2]", [Option<Bound<u8>>; 2], { let x = t.bound(a); let y = t.bound(0); [t.opt(x), t.opt(y)] });
    rt!("RT:(u8,)x12", (u8, u8, u8, u8, u8, u8, u8, u8, u8, u8, u8, Bound<u8>), (a, 1, 2, 3, 4, 5, 6, 7, 8, 9, 10, t.bound(a)));
}

fn run(input: &[u8], o: &mut Out) {
    roundtrips(input, o);
    // ---- accessors -------------------------------------------------------------------------
    macro_rules! acc { ($name:expr, |$d:ident| $e:expr) => {{ let mut $d = Decoder::new(input); let r = $e; let p = $d.position(); o.rec($name, r.map(|v| digest(&v)).map_err(|e| eclass(&e)), p) }} }
    acc!("bool", |d| d.bool()); acc!("u8", |d| d.u8()); acc!("u16", |d| d.u16()); acc!("u32", |d| d.u32()); acc!("u64", |d| d.u64());
    acc!("i8", |d| d.i8()); acc!("i16", |d| d.i16()); acc!("i32", |d| d.i32()); acc!("i64", |d| d.i64()); acc!("int", |d| d.int());
    acc!("f32", |d| d.f32().map(|x| x.to_bits())); acc!("f64", |d| d.f64().map(|x| x.to_bits())); acc!("char", |d| d.char());
    #[cfg(feature = "half")]
    acc!("f16", |d| d.f16().map(|x| x.to_bits()));
    // float items: the raw bit patterns through every float entry point (accessors, Decode impls, serde bridge)
    if matches!(input.first(), Some(0xf9 ..= 0xfb)) {
        macro_rules! bits32 { ($name:expr, $d:ident, $mk:expr, $e:expr, $pos:expr, $cls:expr) => {{ let mut $d = $mk; let r = $e; let p = $pos(&$d); o.rec($name, r.map(|x: f32| x.to_bits()).map_err($cls), p) }} }
        macro_rules! bits64 { ($h:expr, $l:expr, $d:ident, $mk:expr, $e:expr, $pos:expr, $cls:expr) => {{
            let mut $d = $mk; let r = $e; let p = $pos(&$d);
            match r { Ok(x) => { let x: f64 = x; o.rec($h, Ok((x.to_bits() >> 32) as u32), p); o.rec($l, Ok(x.to_bits() as u32), p) } Err(e) => { let c = $cls(e); o.rec($h, Err(Cls(c.0, c.1)), p); o.rec($l, Err(c), p) } }
        }} }
        bits32!("X:f32", d, Decoder::new(input), d.f32(), |d: &Decoder| d.position(), |e: Error| eclass(&e));
        bits64!("X:f64h", "X:f64l", d, Decoder::new(input), d.f64(), |d: &Decoder| d.position(), |e: Error| eclass(&e));
        bits32!("XT:f32", d, Decoder::new(input), d.decode::<f32>(), |d: &Decoder| d.position(), |e: Error| eclass(&e));
        bits64!("XT:f64h", "XT:f64l", d, Decoder::new(input), d.decode::<f64>(), |d: &Decoder| d.position(), |e: Error| eclass(&e));
        bits32!("XS:f32", d, minicbor_serde::Deserializer::new(input), { let r: Result<f32, _> = serde::Deserialize::deserialize(&mut d); r }, |d: &minicbor_serde::Deserializer| d.decoder().position(), |e: minicbor_serde::error::DecodeError| sclass(&e));
        bits64!("XS:f64h", "XS:f64l", d, minicbor_serde::Deserializer::new(input), { let r: Result<f64, _> = serde::Deserialize::deserialize(&mut d); r }, |d: &minicbor_serde::Deserializer| d.decoder().position(), |e: minicbor_serde::error::DecodeError| sclass(&e));
        #[cfg(feature = "half")]
        { let mut d = Decoder::new(input); let r = d.f16(); let p = d.position(); o.rec("X:f16", r.map(|x| x.to_bits() as u32).map_err(|e| eclass(&e)), p) }
    }
    acc!("bytes", |d| d.bytes()); acc!("str", |d| d.str()); acc!("array", |d| d.array()); acc!("map", |d| d.map()); acc!("tag", |d| d.tag());
    acc!("null", |d| d.null()); acc!("undefined", |d| d.undefined()); acc!("simple", |d| d.simple()); acc!("datatype", |d| d.datatype());
    acc!("skip", |d| d.skip());
    acc!("skip-twice", |d| d.skip().and_then(|_| d.skip()));
    acc!("bytes_iter", |d| { let mut h = 0u32; let mut r = Ok(()); match d.bytes_iter() { Ok(it) => for c in it { match c { Ok(s) => h = h.wrapping_mul(31).wrapping_add(digest(&s)), Err(e) => { r = Err(e); break } } }, Err(e) => r = Err(e) } r.map(|_| h) });
    acc!("str_iter", |d| { let mut h = 0u32; let mut r = Ok(()); match d.str_iter() { Ok(it) => for c in it { match c { Ok(s) => h = h.wrapping_mul(31).wrapping_add(digest(&s)), Err(e) => { r = Err(e); break } } }, Err(e) => r = Err(e) } r.map(|_| h) });
    acc!("array_iter<i64>", |d| { let mut h = 0u32; let mut r = Ok(()); match d.array_iter::<i64>() { Ok(it) => for c in it { match c { Ok(s) => h = h.wrapping_mul(31).wrapping_add(digest(&s)), Err(e) => { r = Err(e); break } } }, Err(e) => r = Err(e) } r.map(|_| h) });
    acc!("map_iter<u8,&str>", |d| { let mut h = 0u32; let mut r = Ok(()); match d.map_iter::<u8, &str>() { Ok(it) => for c in it { match c { Ok(s) => h = h.wrapping_mul(31).wrapping_add(digest(&s)), Err(e) => { r = Err(e); break } } }, Err(e) => r = Err(e) } r.map(|_| h) });
    acc!("probe", |d| { let r = { let mut p = d.probe(); p.skip() }; r.map(|_| 0u8) });
    // size introspection (no decoder position)
    if let Some(b) = input.first() { o.rec("size_head", Size::head(*b).map(|n| n as u32).map_err(|e| eclass(&e)), 0); }
    o.rec("size_tail", Size::tail(input).map(|s| digest(&s)).map_err(|e| eclass(&e)), 0);

    // ---- typed decoding (types available without alloc) ------------------------------------
    macro_rules! ty { ($name:expr, $t:ty) => {{ let mut d = Decoder::new(input); let r: Result<$t, Error> = d.decode(); let p = d.position(); o.rec($name, r.map(|v| digest(&v)).map_err(|e| eclass(&e)), p) }} }
    ty!("T:u8", u8); ty!("T:i64", i64); ty!("T:usize", usize); ty!("T:bool", bool); ty!("T:char", char); ty!("T:Int", Int); ty!("T:Tag", Tag);
    ty!("T:&str", &str); ty!("T:&ByteSlice", &minicbor::bytes::ByteSlice); ty!("T:ByteArray<4>", minicbor::bytes::ByteArray<4>);
    ty!("T:Option<u8>", Option<u8>); ty!("T:(u8,bool)", (u8, bool)); ty!("T:[u16;3]", [u16; 3]); ty!("T:[Option<u8>;2]", [Option<u8>; 2]); ty!("T:Result<u8,bool>", Result<u8, bool>);
    ty!("T:Range<u8>", core::ops::Range<u8>); ty!("T:RangeFrom<i8>", core::ops::RangeFrom<i8>); ty!("T:Bound<i64>", core::ops::Bound<i64>); ty!("T:Duration", core::time::Duration);
    ty!("T:Tagged<7,u8>", Tagged<7, u8>); ty!("T:PhantomData", core::marker::PhantomData<u8>); ty!("T:()", ()); ty!("T:NonZeroU8", core::num::NonZeroU8);
    ty!("T:Wrapping<u32>", core::num::Wrapping<u32>); ty!("T:Cell<i16>", core::cell::Cell<i16>); ty!("T:&CStr", &core::ffi::CStr);
    { let mut d = Decoder::new(input); let r: Result<f32, Error> = d.decode(); let p = d.position(); o.rec("T:f32", r.map(|v| v.to_bits()).map_err(|e| eclass(&e)), p) }
    { let mut d = Decoder::new(input); let r: Result<f64, Error> = d.decode(); let p = d.position(); o.rec("T:f64", r.map(|v| (v.to_bits() >> 32) as u32 ^ v.to_bits() as u32).map_err(|e| eclass(&e)), p) }
    { let mut d = Decoder::new(input); let r: Result<core::sync::atomic::AtomicU32, Error> = d.decode(); let p = d.position(); o.rec("T:AtomicU32", r.map(|v| v.into_inner()).map_err(|e| eclass(&e)), p) }
    ty!("D:DArr", DArr); ty!("D:DMap", DMap); ty!("D:DPlain", DPlain); ty!("D:DRich", DRich);
    #[cfg(feature = "half")]
    {
        ty!("T:Token", minicbor::data::Token);
        let mut d = Decoder::new(input);
        let mut h = 0u32; let mut n = 0u32; let mut err = None;
        for t in d.tokens() { match t { Ok(t) => { h = h.wrapping_mul(31).wrapping_add(digest(&t)); n += 1 } Err(e) => { err = Some(eclass(&e)); break } } }
        let p = d.position();
        o.rec("tokens", match err { None => Ok(h ^ n), Some(c) => Err(c) }, p);
    }
    #[cfg(feature = "alloc")]
    {
        ty!("T:String", String); ty!("T:Vec<u8>", Vec<u8>); ty!("T:Vec<u64>", Vec<u64>); ty!("T:ByteVec", minicbor::bytes::ByteVec); ty!("T:Box<u8>", Box<u8>);
        ty!("T:BTreeMap<u8,String>", std::collections::BTreeMap<u8, String>); ty!("T:VecDeque<i16>", std::collections::VecDeque<i16>); ty!("T:BTreeSet<i64>", std::collections::BTreeSet<i64>);
        ty!("T:Cow<str>", std::borrow::Cow<str>); ty!("T:CString", std::ffi::CString); ty!("T:Vec<Option<(u8,String)>>", Vec<Option<(u8, String)>>); ty!("T:Box<str>", Box<str>);
    }
    #[cfg(all(feature = "alloc", feature = "half"))]
    {
        // diagnostic display (size-limited). Inline error *messages* differ between configurations by
        // design (static vs formatted), so the digest covers the rendering up to the first inline error marker.
        struct Lim(String);
        impl core::fmt::Write for Lim { fn write_str(&mut self, s: &str) -> core::fmt::Result { if self.0.len() + s.len() > 1 << 16 { return Err(core::fmt::Error) } self.0.push_str(s); Ok(()) } }
        let mut l = Lim(String::new());
        let r = write!(l, "{}", minicbor::display(input));
        let shown = match l.0.find(" !!! ") { Some(p) => &l.0[.. p + 5], None => &l.0[..] };
        o.rec("display", if r.is_ok() { Ok(fnv(shown)) } else { Err(Cls("fmt", None)) }, shown.len());
    }
    #[cfg(feature = "std")]
    {
        { let mut d = Decoder::new(input); let r: Result<std::collections::HashMap<u8, bool>, Error> = d.decode(); let p = d.position(); o.rec("T:HashMap<u8,bool>", r.map(|m| { let mut v: Vec<_> = m.into_iter().collect(); v.sort(); digest(&v) }).map_err(|e| eclass(&e)), p) }
        { let mut d = Decoder::new(input); let r: Result<std::collections::HashSet<u16>, Error> = d.decode(); let p = d.position(); o.rec("T:HashSet<u16>", r.map(|m| { let mut v: Vec<_> = m.into_iter().collect(); v.sort(); digest(&v) }).map_err(|e| eclass(&e)), p) }
        ty!("T:SystemTime", std::time::SystemTime); ty!("T:PathBuf", std::path::PathBuf); ty!("T:IpAddr", std::net::IpAddr); ty!("T:SocketAddr", std::net::SocketAddr);
    }

    // ---- length + encoding into a bounded slice (decode, then re-encode) ----------------------
    macro_rules! reenc { ($name:expr, $t:ty, $cap:expr) => {{
        if let Ok(v) = minicbor::decode::<$t>(input) {
            let n = minicbor::len(&v);
            let mut buf = [0u8; $cap];
            let r = minicbor::encode(&v, &mut buf[..]);
            match r { Ok(()) => o.rec($name, Ok(fnv_bytes(&buf[.. n.min($cap)]) ^ n as u32), n), Err(e) => o.rec($name, Err(Cls(if e.is_write() { "write" } else if e.is_message() { "msg" } else { "other" }, None)), n) }
        }
    }}}
    reenc!("E:i64", i64, 9); reenc!("E:i64/short", i64, 2); reenc!("E:&str", &str, 16); reenc!("E:[u16;3]", [u16; 3], 8); reenc!("E:Option<u8>", Option<u8>, 1);
    reenc!("E:Duration", core::time::Duration, 14); reenc!("E:Bound<i64>", core::ops::Bound<i64>, 11); reenc!("E:Int", Int, 9); reenc!("E:DArr", DArr, 24); reenc!("E:DMap", DMap, 12); reenc!("E:DRich", DRich, 16);
    #[cfg(feature = "half")]
    reenc!("E:Token", minicbor::data::Token, 12);
    #[cfg(feature = "alloc")]
    { reenc!("E:Vec<u64>", Vec<u64>, 32); reenc!("E:String", String, 16); reenc!("E:BTreeMap<u8,String>", std::collections::BTreeMap<u8, String>, 32); }

    // ---- serde bridge --------------------------------------------------------------------------
    macro_rules! sd { ($name:expr, $t:ty) => {{ let mut d = minicbor_serde::Deserializer::new(input); let r: Result<$t, _> = serde::Deserialize::deserialize(&mut d); let p = d.decoder().position(); o.rec($name, r.map(|v| digest(&v)).map_err(|e| sclass(&e)), p) }} }
    sd!("S:u8", u8); sd!("S:i64", i64); sd!("S:bool", bool); sd!("S:char", char); sd!("S:&str", &str); sd!("S:()", ()); sd!("S:Option<u16>", Option<u16>); sd!("S:(u8,bool)", (u8, bool)); sd!("S:[u8;3]", [u8; 3]);
    sd!("S:SPicky", SPicky); sd!("S:SStrict", SStrict); sd!("S:NonZeroU8", core::num::NonZeroU8); sd!("S:(u8,u8,u8)", (u8, u8, u8));
    sd!("S:SPlain", SPlain); sd!("S:SEnum", SEnum); sd!("S:SAny", SAny); sd!("S:IgnoredAny", serde::de::IgnoredAny);
    { let mut d = minicbor_serde::Deserializer::new(input); let r: Result<f32, _> = serde::Deserialize::deserialize(&mut d); let p = d.decoder().position(); o.rec("S:f32", r.map(|v| v.to_bits()).map_err(|e| sclass(&e)), p) }
    #[cfg(feature = "alloc")]
    { sd!("S:String", String); sd!("S:Vec<u16>", Vec<u16>); sd!("S:BTreeMap<String,u8>", std::collections::BTreeMap<String, u8>); sd!("S:Vec<Option<String>>", Vec<Option<String>>); }
    // serializer into a slice (re-serialise what was deserialised)
    macro_rules! ss { ($name:expr, $t:ty, $cap:expr) => {{
        if let Ok(v) = { let mut d = minicbor_serde::Deserializer::new(input); let r: Result<$t, _> = serde::Deserialize::deserialize(&mut d); r } {
            let mut buf = [0u8; $cap];
            let (r, left) = { let mut s: &mut [u8] = &mut buf[..]; let r = { let mut ser = minicbor_serde::Serializer::new(&mut s); serde::Serialize::serialize(&v, &mut ser).map(|_| ()) }; (r.is_ok(), s.len()) };
            let used = $cap - left;
            if r { o.rec($name, Ok(fnv_bytes(&buf[.. used])), used) } else { o.rec($name, Err(Cls("ser", None)), used) }
        }
    }}}
    ss!("Z:SPlain", SPlain, 48); ss!("Z:SEnum", SEnum, 16); ss!("Z:i64", i64, 9); ss!("Z:(u8,bool)", (u8, bool), 3); ss!("Z:Option<u16>", Option<u16>, 2);
    // collect_str: available with alloc only (documented difference)
    if let Ok(n) = minicbor::decode::<u32>(input) {
        let mut buf = [0u8; 16];
        let (ok, left) = { let mut s: &mut [u8] = &mut buf[..]; let r = { let mut ser = minicbor_serde::Serializer::new(&mut s); serde::Serialize::serialize(&Disp(n), &mut ser).map(|_| ()) }; (r.is_ok(), s.len()) };
        if ok { o.rec("Z:collect_str", Ok(fnv_bytes(&buf[.. 16 - left])), 16 - left) } else { o.rec("Z:collect_str", Err(Cls("ser", None)), 16 - left) }
    }
}

fn fnv_bytes(b: &[u8]) -> u32 { let mut h: u32 = 0x811c9dc5; for x in b { h ^= *x as u32; h = h.wrapping_mul(0x0100_0193) } h }

fn sclass(e: &minicbor_serde::error::DecodeError) -> Cls {
    // the bridge's error wraps a decode error; classify through the stable Display prefixes, and take the position it reports
    let mut s = String::new();
    let _ = write!(s, "{}", e);
    let at = s.find("at position ").and_then(|i| { let t = &s[i + 12 ..]; let n: String = t.chars().take_while(|c| c.is_ascii_digit()).collect(); n.parse::<usize>().ok() });
    Cls(sclass0(&s), at)
}

fn sclass0(s: &str) -> &'static str {
    if s.starts_with("end of input") { "eoi" } else if s.starts_with("unexpected type") { "type" } else if s.starts_with("unexpected tag") { "tag" }
    else if s.starts_with("invalid char") { "char" } else if s.starts_with("invalid utf-8") { "utf8" } else if s.contains("overflows target type") { "overflow" }
    else if s.starts_with("decode error") { "msg" } else { "other" }
}

fn unhex(s: &str) -> Vec<u8> { (0 .. s.len() / 2).map(|i| u8::from_str_radix(&s[2 * i .. 2 * i + 2], 16).unwrap_or(0)).collect() }

fn main() {
    let path = std::env::args().nth(1).expect("corpus file");
    let f = std::io::BufReader::new(std::fs::File::open(path).expect("open corpus"));
    let stdout = std::io::stdout();
    let mut w = std::io::BufWriter::new(stdout.lock());
    std::panic::set_hook(Box::new(|_| {}));
    for line in f.lines() {
        let line = line.unwrap();
        let hex = line.trim();
        let input = unhex(hex);
        let mut o = Out { line: String::with_capacity(4096) };
        let r = std::panic::catch_unwind(std::panic::AssertUnwindSafe(|| run(&input, &mut o)));
        if r.is_err() { o.line.push_str("PANIC:e@0;") }
        let _ = writeln!(w, "{}|{}", hex, o.line);
    }
}
