//! C20 — same behaviour in every feature configuration, up to documented differences
//! (and the no-alloc half of C06).
//!
//! One probe source (g_cfg/probe) is built six times — {none, alloc, std} x {half, no half} — each
//! build is fed the same generated corpus and the transcripts are compared line by line.

use std::collections::{BTreeMap, HashMap};
use std::path::PathBuf;
use std::process::Command;
use vcore::engine::{hash_of, CaseResult, Fail, Kind, Stats, Sub};
use vcore::gen::{item, mutate, small_structures, ItemCfg};
use vcore::item::{hex, Item};
use vcore::Gen;

const CONFIGS: [(&str, &str); 6] = [("none", ""), ("none-half", "half"), ("alloc", "alloc"), ("alloc-half", "alloc,half"), ("std", "std"), ("std-half", "std,half")];

fn has_alloc(c: usize) -> bool { c >= 2 }
fn has_half(c: usize) -> bool { c % 2 == 1 }

/// `chain`: Some(has an indefinite container inside a definite one) for the deep nesting chains, whose `Item` tree is
/// never built (recursion-free handling of 10^5 levels)
/// `prefix_nested`: for a strict prefix of a well-formed item, whether that item nests an indefinite container in a definite one
struct Entry { bytes: Vec<u8>, item: Option<Item>, kind: &'static str, chain: Option<bool>, prefix_nested: Option<bool> }

struct World { entries: Vec<Entry>, verdicts: Vec<[HashMap<String, String>; 6]>, lines: u64 }

fn harness_dir() -> PathBuf {
    // the probe lives next to this crate; the crate dir is fixed at build time
    // (the driver names the harness directory it runs from: a binary left in a shared target directory by a run from
    // another copy of /verif must not look for the probe in that copy)
    if let Ok(h) = std::env::var("VERIF_HARNESS_DIR") { let p = PathBuf::from(h).join("g_cfg"); if p.join("probe").is_dir() { return p } }
    PathBuf::from(env!("CARGO_MANIFEST_DIR"))
}

fn build_probes() -> Result<Vec<PathBuf>, String> {
    let probe = harness_dir().join("probe");
    let base = std::env::var("VERIF_TARGET_DIR").map(PathBuf::from).unwrap_or_else(|_| harness_dir().parent().unwrap().join("target"));
    let over = std::env::var("VERIF_REPO_OVERRIDE").ok();
    // the release leg of the driver builds the probes without debug assertions and overflow checks
    let noassert = std::env::var("VERIF_PROFILE").map(|p| p == "release").unwrap_or(false);
    let mut children = Vec::new();
    for (name, feats) in CONFIGS.iter() {
        let mut c = Command::new("cargo");
        c.current_dir(&probe).arg("build").arg(if noassert { "--profile=noassert" } else { "--release" }).arg("--no-default-features").arg("--features").arg(feats).arg("--target-dir").arg(base.join(format!("cfg-{}", name)));
        if let Some(r) = &over { c.arg("--config").arg(format!("paths=[\"{r}/minicbor\",\"{r}/minicbor-derive\",\"{r}/minicbor-serde\"]", r = r)); }
        c.env("CARGO_NET_OFFLINE", "true").stdout(std::process::Stdio::null()).stderr(std::process::Stdio::piped());
        children.push((name, c.spawn().map_err(|e| e.to_string())?));
    }
    let mut out = Vec::new();
    for (name, ch) in children {
        let o = ch.wait_with_output().map_err(|e| e.to_string())?;
        if !o.status.success() { return Err(format!("probe build for configuration `{}` failed:\n{}", name, String::from_utf8_lossy(&o.stderr).lines().rev().take(30).collect::<Vec<_>>().into_iter().rev().collect::<Vec<_>>().join("\n"))) }
        out.push(base.join(format!("cfg-{}", name)).join(if noassert { "noassert" } else { "release" }).join("gcfg_probe"));
    }
    Ok(out)
}

fn corpus(seed: u64, n: usize) -> Vec<Entry> {
    let mut out: Vec<Entry> = Vec::new();
    // deterministic pseudo-tape per entry (the corpus is a pure function of VERIF_SEED)
    let tape_for = |i: u64| -> Vec<u8> { let mut x = hash_of(&(seed, i, "cfg-corpus")) | 1; (0 .. 768).map(|_| { x ^= x << 13; x ^= x >> 7; x ^= x << 17; (x >> 32) as u8 }).collect() };
    // structural skip patterns: exhaustive small structures (well-formed, known nesting)
    for s in small_structures(4) { out.push(Entry { bytes: s.encode(), item: Some(s), kind: "structure", chain: None, prefix_nested: None }) }
    let shapes: Vec<Item> = vec![
        Item::array(vec![Item::uint(1), Item::uint(2)]), Item::array(vec![Item::uint(1), Item::True]), Item::array(vec![Item::uint(3), Item::uint(4), Item::uint(500)]),
        Item::array(vec![Item::uint(0), Item::uint(7)]), Item::array(vec![Item::uint(1), Item::False]), Item::array(vec![Item::uint(2), Item::array(vec![])]), Item::array(vec![Item::uint(2), Item::Array(vec![Item::Array(vec![], None)], Some(vcore::W::Imm))]),
        Item::tag(7, Item::uint(9)), Item::tag(8, Item::uint(9)), Item::bytes(&[1, 2, 3, 4]), Item::bytes(b"ab\0"), Item::text("hi"), Item::Null, Item::array(vec![]), Item::uint(0), Item::uint(300),
        Item::array(vec![Item::uint(5), Item::text("s"), Item::Null, Item::int(-3), Item::tag(9, Item::True)]), Item::array(vec![Item::uint(5), Item::text("s"), Item::Null, Item::int(-3), Item::Null, Item::Array(vec![Item::uint(1)], None)]),
        Item::map(vec![(Item::uint(0), Item::uint(1)), (Item::uint(7), Item::uint(2)), (Item::uint(2), Item::uint(1))]), Item::map(vec![(Item::uint(7), Item::uint(2)), (Item::uint(9), Item::Map(vec![], None))]),
        Item::array(vec![Item::uint(1), Item::array(vec![Item::uint(77), Item::text("x")])]), Item::array(vec![Item::uint(2), Item::map(vec![(Item::uint(0), Item::int(-1)), (Item::uint(5), Item::uint(3))])]), Item::array(vec![Item::uint(0), Item::array(vec![])]), Item::array(vec![Item::uint(9), Item::array(vec![])]),
        Item::map(vec![(Item::text("a"), Item::uint(1)), (Item::text("s"), Item::text("x")), (Item::text("o"), Item::Null), (Item::text("t"), Item::array(vec![Item::uint(1), Item::True]))]),
        Item::map(vec![(Item::text("a"), Item::uint(1)), (Item::text("zz"), Item::Array(vec![Item::Map(vec![], None)], Some(vcore::W::Imm))), (Item::text("s"), Item::text("x")), (Item::text("o"), Item::uint(4)), (Item::text("t"), Item::array(vec![Item::uint(1), Item::True]))]),
        Item::text("Unit"), Item::map(vec![(Item::text("New"), Item::uint(4))]), Item::map(vec![(Item::text("Tup"), Item::array(vec![Item::uint(1), Item::int(-1)]))]), Item::map(vec![(Item::text("Struct"), Item::map(vec![(Item::text("x"), Item::uint(1))]))]),
        Item::F16(0x3c00), Item::F32(0x3fc00000), Item::F64(0x3ff8000000000000), Item::array(vec![Item::F16(0x7e00), Item::uint(1)]), Item::TextIndef(vec![("a".into(), vcore::W::Imm), ("b".into(), vcore::W::Imm)]), Item::BytesIndef(vec![(vec![1], vcore::W::Imm)]),
        Item::array(vec![Item::uint(1), Item::uint(1_000_000_000)]), Item::array(vec![Item::uint(u64::MAX), Item::uint(999_999_999)]), Item::uint(65), Item::uint(0xd800), Item::uint(0x110000), Item::array(vec![Item::Null, Item::uint(3)]),
        Item::map(vec![(Item::uint(1), Item::text("a")), (Item::uint(2), Item::text("b"))]), Item::array(vec![Item::Null, Item::array(vec![Item::uint(1), Item::text("x")])]),
    ];
    for s in &shapes { out.push(Entry { bytes: s.encode(), item: Some(s.clone()), kind: "shape", chain: None, prefix_nested: None }) }
    let mut i = 0u64;
    let n = out.len() + n;
    while out.len() < n {
        i += 1;
        let tape = tape_for(i);
        let mut g = Gen::new(&tape);
        match g.below(10) {
            0 ..= 3 => { let it = if g.bool() { item(&mut g, &ItemCfg { max_nodes: 16, ..ItemCfg::FULL }) } else { let base = shapes[g.below(shapes.len())].clone(); vcore::gen::reframe(&mut g, &base, true, true, true) }; out.push(Entry { bytes: it.encode(), item: Some(it), kind: "well-formed", chain: None, prefix_nested: None }) }
            4 ..= 6 => { let base = if g.bool() { item(&mut g, &ItemCfg { max_nodes: 16, ..ItemCfg::FULL }) } else { shapes[g.below(shapes.len())].clone() }; let (b, _) = mutate(&mut g, &base.encode()); out.push(Entry { bytes: b, item: None, kind: "mutated", chain: None, prefix_nested: None }) }
            7 | 8 => { let base = if g.bool() { item(&mut g, &ItemCfg { max_nodes: 16, ..ItemCfg::FULL }) } else { shapes[g.below(shapes.len())].clone() }; let e = base.encode(); let c = g.below(e.len().max(1)); out.push(Entry { bytes: e[.. c].to_vec(), item: None, kind: "truncated", chain: None, prefix_nested: Some(base.has_indef_in_def()) }) }
            _ => { let n = g.below(24); out.push(Entry { bytes: (0 .. n).map(|_| g.byte()).collect(), item: None, kind: "random", chain: None, prefix_nested: None }) }
        }
    }
    // float items of all three widths: boundary-dense and uniform bit patterns (judged against absolute expectations by C12N)
    {
        let tape: Vec<u8> = (0 .. 64u64).flat_map(|k| tape_for(1_000_000 + k)).collect();
        let mut g = Gen::new(&tape);
        let s16: [u16; 14] = [0, 0x8000, 1, 0x03ff, 0x0400, 0x3c00, 0xbc00, 0x7bff, 0x7c00, 0xfc00, 0x7c01, 0x7e00, 0xfe01, 0x7dff];
        let s32: [u32; 14] = [0, 0x8000_0000, 1, 0x007f_ffff, 0x0080_0000, 0x3f80_0000, 0x7f7f_ffff, 0x7f80_0000, 0xff80_0000, 0x7f80_0001, 0x7fc0_0000, 0xffa5_5aa5, 0x3380_0000, 0x4770_0000];
        let s64: [u64; 10] = [0, 1 << 63, 1, 0x3ff0_0000_0000_0000, 0x7fef_ffff_ffff_ffff, 0x7ff0_0000_0000_0000, 0x7ff0_0000_0000_0001, 0x7ff8_0000_0000_0000, 0x36a0_0000_0000_0000, 0x47ef_ffff_e000_0000];
        for k in 0 .. 900usize {
            let it = match k % 3 {
                0 => Item::F16(if k / 3 < s16.len() { s16[k / 3] } else { g.u16() }),
                1 => Item::F32(if k / 3 < s32.len() { s32[k / 3] } else { g.f32_bits() }),
                _ => Item::F64(if k / 3 < s64.len() { s64[k / 3] } else { g.f64_bits() })
            };
            out.push(Entry { bytes: it.encode(), item: Some(it), kind: "float", chain: None, prefix_nested: None });
        }
    }
    for e in out.iter_mut() { if e.bytes.len() > 4000 { e.bytes.truncate(4000); e.item = None } }
    // deep nesting chains (after the truncation above: these stay whole), incl. more than 65535 open containers
    for kind in 0 .. vcore::gen::CHAIN_KINDS { for depth in [300usize, 5000, 66_000, 100_000] { let (b, _, nest) = vcore::gen::chain(kind, depth); out.push(Entry { bytes: b, item: None, kind: "deep-chain", chain: Some(nest), prefix_nested: None }) } }
    out
}

fn world() -> &'static Result<World, String> {
    static W: std::sync::OnceLock<Result<World, String>> = std::sync::OnceLock::new();
    W.get_or_init(|| {
        let seed: u64 = std::env::var("VERIF_SEED").ok().and_then(|s| s.trim().parse::<i128>().ok()).map(|v| v as u64).unwrap_or(0);
        let tier = std::env::var("VERIF_TIER").unwrap_or_else(|_| "quick".into());
        let n = if tier == "thorough" { 200_000 } else { 12_000 };
        let probes = build_probes()?;
        let entries = corpus(seed, n);
        let dir = std::env::temp_dir().join(format!("verif-cfg-{}", std::process::id()));
        std::fs::create_dir_all(&dir).map_err(|e| e.to_string())?;
        let cpath = dir.join("corpus.txt");
        let mut text = String::new();
        for e in &entries { text.push_str(&hex(&e.bytes)); text.push('\n') }
        std::fs::write(&cpath, text).map_err(|e| e.to_string())?;
        let mut children = Vec::new();
        for p in &probes { children.push(Command::new(p).arg(&cpath).stdout(std::process::Stdio::piped()).stderr(std::process::Stdio::null()).spawn().map_err(|e| format!("cannot run {}: {}", p.display(), e))?) }
        let mut verdicts: Vec<[HashMap<String, String>; 6]> = (0 .. entries.len()).map(|_| Default::default()).collect();
        let mut lines = 0u64;
        for (c, ch) in children.into_iter().enumerate() {
            let o = ch.wait_with_output().map_err(|e| e.to_string())?;
            if !o.status.success() { let _ = std::fs::remove_dir_all(&dir); return Err(format!("probe `{}` ended abnormally ({:?})", CONFIGS[c].0, o.status)) }
            let text = String::from_utf8_lossy(&o.stdout);
            for (i, line) in text.lines().enumerate() {
                if i >= entries.len() { break }
                let (_, rest) = line.split_once('|').unwrap_or(("", ""));
                for part in rest.split(';') { if let Some((op, v)) = part.rsplit_once(':') { verdicts[i][c].insert(op.to_string(), v.to_string()); lines += 1 } }
            }
        }
        let _ = std::fs::remove_dir_all(&dir);
        Ok(World { entries, verdicts, lines })
    })
}

const SKIP_FAMILY: [&str; 20] = ["skip", "skip-twice", "probe", "T:Range<u8>", "T:RangeFrom<i8>", "T:Bound<i64>", "T:Duration", "D:DArr", "D:DMap", "D:DRich", "S:IgnoredAny", "S:SPlain", "S:SEnum", "S:SAny",
                                 "E:Duration", "E:Bound<i64>", "E:DArr", "E:DMap", "E:DRich", "Z:SPlain"];

/// verdict of an error: e<class>#<position the error reports or ->@<decoder position>
fn is_err_class(v: &str, class: &str) -> bool { v.starts_with('e') && v[1 ..].split(|c| c == '#' || c == '@').next() == Some(class) }

fn compare(i: u64, st: &mut Stats) -> CaseResult {
    let w = match world() { Ok(w) => w, Err(e) => return Err(Fail::new("infrastructure", e.clone())) };
    let e = &w.entries[i as usize];
    let v = &w.verdicts[i as usize];
    let has_indef_container = e.bytes.iter().any(|b| *b == 0x9f || *b == 0xbf);
    let has_f9 = e.bytes.contains(&0xf9);
    let has_indef_string = e.bytes.iter().any(|b| *b == 0x5f || *b == 0x7f);
    let mut ops: BTreeMap<&str, ()> = BTreeMap::new();
    for c in 0 .. 6 { for k in v[c].keys() { ops.insert(k.as_str(), ()); } }
    for (op, _) in ops {
        let present: Vec<usize> = (0 .. 6).filter(|c| v[*c].contains_key(op)).collect();
        st.evals(present.len() as u64);
        if present.len() < 2 { continue }
        // reference: the richest configuration that has the line
        let r = *present.last().unwrap();
        let rv = &v[r][op];
        for &c in &present {
            let cv = &v[c][op];
            if cv == rv { continue }
            // documented differences, decided from what the input contains, never from the outcome alone
            let r1 = !has_alloc(c) && has_alloc(r) && has_indef_container && SKIP_FAMILY.contains(&op) && is_err_class(cv, "msg");
            let r2 = !has_half(c) && has_half(r) && has_f9 && is_err_class(cv, "type");
            let r3 = !has_alloc(c) && has_alloc(r) && (((op == "S:SAny" || op == "S:SPicky") && has_indef_string && is_err_class(cv, "type")) || (op == "Z:collect_str" && is_err_class(cv, "ser")));
            if r1 { st.class("documented/no-alloc skip refuses indefinite-in-definite"); continue }
            if r2 { st.class("documented/no half: f16 item is a type error"); continue }
            if r3 { st.class("documented/no-alloc bridge: indefinite string or collect_str"); continue }
            // every other difference to the richest configuration is a violation (the rules above are the only
            // documented ones and each is judged directly against the reference)
            return Err(Fail::new(format!("{}/{}-vs-{}", op, CONFIGS[c].0, CONFIGS[r].0),
                format!("operation `{}` on input {}{} ({}): configuration `{}` gives {} but `{}` gives {} (all: {})", op, hex(&e.bytes[.. e.bytes.len().min(200)]), if e.bytes.len() > 200 { format!(".. ({} bytes)", e.bytes.len()) } else { String::new() }, e.kind, CONFIGS[c].0, cv, CONFIGS[r].0, rv,
                        present.iter().map(|x| format!("{}={}", CONFIGS[*x].0, v[*x][op])).collect::<Vec<_>>().join(" "))))
        }
        if present.len() >= 3 && e.bytes.len() >= 2 { st.nontrivial(hash_of(&(op, &e.bytes))) }
    }
    st.class(&format!("input/{}", e.kind));
    if i % 997 == 0 { st.sample(i, || format!("{} ({}): {} operations compared across 6 configurations, e.g. skip -> {}", hex(&e.bytes[.. e.bytes.len().min(40)]), e.kind, v[5].len(), (0 .. 6).map(|c| format!("{}={}", CONFIGS[c].0, v[c].get("skip").cloned().unwrap_or_default())).collect::<Vec<_>>().join(" "))) }
    Ok(())
}

/// C06 in the no-alloc builds: same position as the reference parser, or the documented refusal
/// (only when an indefinite array/map has a definite array/map ancestor).
fn noalloc_skip(i: u64, st: &mut Stats) -> CaseResult {
    let w = match world() { Ok(w) => w, Err(e) => return Err(Fail::new("infrastructure", e.clone())) };
    let e = &w.entries[i as usize];
    // a strict prefix of a well-formed item: skip must fail, with the end-of-input class (or the documented refusal)
    if let Some(nested) = e.prefix_nested {
        for c in 0 .. 2 {
            st.eval();
            let v = match w.verdicts[i as usize][c].get("skip") { Some(v) => v, None => return Err(Fail::new("infrastructure", "no skip verdict".to_string())) };
            if is_err_class(v, "eoi") || (is_err_class(v, "msg") && nested) { continue }
            return Err(Fail::new(format!("noalloc-skip-prefix/{}", CONFIGS[c].0), format!("no-alloc skip() on {}, a strict prefix of a well-formed item, gave {} instead of an end-of-input error", hex(&e.bytes[.. e.bytes.len().min(200)]), v)))
        }
        st.class("no-alloc/strict prefix");
        if e.bytes.len() >= 2 { st.nontrivial(hash_of(&e.bytes)) }
        return Ok(())
    }
    let nested = match (&e.item, e.chain) { (Some(it), _) => it.has_indef_in_def(), (None, Some(n)) => n, (None, None) => return Ok(()) };
    let len = e.bytes.len();
    for c in 0 .. 2 {
        st.eval();
        let v = match w.verdicts[i as usize][c].get("skip") { Some(v) => v, None => return Err(Fail::new("infrastructure", "no skip verdict".to_string())) };
        let ok_here = v.starts_with('o') && v.rsplit('@').next() == Some(&len.to_string());
        if ok_here { st.class("no-alloc/skipped"); continue }
        if is_err_class(v, "msg") && nested { st.class("no-alloc/documented refusal"); continue }
        return Err(Fail::new(format!("noalloc-skip/{}", CONFIGS[c].0), format!("no-alloc skip() on the well-formed item {} = {} gave {} (item length {}; nesting of an indefinite container inside a definite one: {})", hex(&e.bytes[.. e.bytes.len().min(200)]), e.item.as_ref().map(|it| it.render()).unwrap_or_else(|| format!("a {}-byte nesting chain", e.bytes.len())), v, len, nested)))
    }
    if e.chain.is_some() { st.class("no-alloc/deep chain") }
    if e.chain.is_some() || e.item.as_ref().map(|it| it.has_container()).unwrap_or(false) { st.nontrivial(hash_of(&e.bytes)) }
    Ok(())
}

/// C12 in every feature configuration: the bit pattern a float item yields through each float entry point (accessors,
/// `Decode` impls, serde bridge) against absolute expectations - same width: identical bits; narrower item through a wider
/// entry point: the exact value; wider item through a narrower one: a type error; half items without the `half` feature:
/// a type error (documented).
fn floats_everywhere(i: u64, st: &mut Stats) -> CaseResult {
    let w = match world() { Ok(w) => w, Err(e) => return Err(Fail::new("infrastructure", e.clone())) };
    let e = &w.entries[i as usize];
    if e.kind != "float" { return Ok(()) }
    let len = e.bytes.len();
    // expected bits per target width: None = must be a type error
    let (want32, want64, want16): (Option<u32>, Option<u64>, Option<u16>) = match e.item.as_ref().unwrap() {
        Item::F16(h) => { let x = vcore::half_ref::f16_bits_to_f64(*h); (Some((x as f32).to_bits()), Some(x.to_bits()), Some(*h)) }
        Item::F32(b) => (Some(*b), Some((f32::from_bits(*b) as f64).to_bits()), None),
        Item::F64(b) => (None, Some(*b), None),
        _ => return Ok(())
    };
    let is_half_item = matches!(e.item, Some(Item::F16(_)));
    let item_nan = match e.item.as_ref().unwrap() { Item::F16(h) => vcore::half_ref::f16_is_nan(*h), Item::F32(b) => f32::from_bits(*b).is_nan(), Item::F64(b) => f64::from_bits(*b).is_nan(), _ => false };
    let same_width = |target: u8| matches!((e.item.as_ref().unwrap(), target), (Item::F16(_), 16) | (Item::F32(_), 32) | (Item::F64(_), 64));
    let parse = |v: &str| -> Option<(u32, usize)> { let v = v.strip_prefix('o')?; let (h, p) = v.split_once('@')?; Some((u32::from_str_radix(h, 16).ok()?, p.parse().ok()?)) };
    for c in 0 .. 6 {
        let v = &w.verdicts[i as usize][c];
        let get = |op: &str| -> Result<&String, Fail> { v.get(op).ok_or_else(|| Fail::new("infrastructure", format!("no `{}` verdict for {} in configuration {}", op, hex(&e.bytes), CONFIGS[c].0))) };
        let fail = |op: &str, what: String| Fail::new(format!("floats/{}/{}", op, if has_half(c) { "half" } else { "no-half" }), format!("configuration `{}`: `{}` on the item {} = {}: {}", CONFIGS[c].0, op, hex(&e.bytes), e.item.as_ref().unwrap().render(), what));
        for (pre, _) in [("X", 0), ("XT", 0), ("XS", 0)] {
            st.evals(2);
            // 32-bit target
            let op = format!("{}:f32", pre);
            let got = get(&op)?;
            let expect = if is_half_item && !has_half(c) { None } else { want32 };
            match (expect, parse(got)) {
                (Some(b), Some((x, p))) => {
                    let ok = if item_nan && !same_width(32) { f32::from_bits(x).is_nan() } else { x == b };
                    if !ok { return Err(fail(&op, format!("gave the bits {:08x}, the exact value has the bits {:08x}", x, b))) }
                    if p != len { return Err(fail(&op, format!("stopped at {} of {}", p, len))) }
                }
                (None, None) => if !is_err_class(got, "type") { return Err(fail(&op, format!("must be refused as a type mismatch, got {}", got))) },
                (Some(b), None) => return Err(fail(&op, format!("was refused ({}); the exact value has the bits {:08x}", got, b))),
                (None, Some((x, _))) => return Err(fail(&op, format!("must be refused as a type mismatch but gave the bits {:08x}", x)))
            }
            // 64-bit target
            let (oph, opl) = (format!("{}:f64h", pre), format!("{}:f64l", pre));
            let (gh, gl) = (get(&oph)?, get(&opl)?);
            let expect = if is_half_item && !has_half(c) { None } else { want64 };
            match (expect, parse(gh), parse(gl)) {
                (Some(b), Some((h, p)), Some((l, _))) => {
                    let x = (h as u64) << 32 | l as u64;
                    let ok = if item_nan && !same_width(64) { f64::from_bits(x).is_nan() } else { x == b };
                    if !ok { return Err(fail(&oph[.. oph.len() - 1], format!("gave the bits {:016x}, the exact value has the bits {:016x}", x, b))) }
                    if p != len { return Err(fail(&oph[.. oph.len() - 1], format!("stopped at {} of {}", p, len))) }
                }
                (None, None, None) => if !is_err_class(gh, "type") { return Err(fail(&oph[.. oph.len() - 1], format!("must be refused as a type mismatch, got {}", gh))) },
                (Some(b), _, _) => return Err(fail(&oph[.. oph.len() - 1], format!("was refused ({}); the exact value has the bits {:016x}", gh, b))),
                (None, _, _) => return Err(fail(&oph[.. oph.len() - 1], format!("must be refused as a type mismatch but gave {} / {}", gh, gl)))
            }
        }
        if has_half(c) {
            st.eval();
            let got = get("X:f16")?;
            // (Decoder::f16 returns the half item's value as an f32)
            match (want16.and(want32), parse(got)) {
                (Some(b), Some((x, p))) => { let ok = if item_nan { f32::from_bits(x).is_nan() } else { x == b }; if !ok || p != len { return Err(fail("X:f16", format!("gave the f32 bits {:08x}@{}, the item's exact value has the bits {:08x} and it ends at {}", x, p, b, len))) } }
                (None, None) => if !is_err_class(got, "type") { return Err(fail("X:f16", format!("a wider item must be refused as a type mismatch, got {}", got))) },
                (Some(_), None) => return Err(fail("X:f16", format!("was refused ({})", got))),
                (None, Some((x, _))) => return Err(fail("X:f16", format!("a wider item must be refused but gave {:08x}", x)))
            }
        }
    }
    st.class(match e.item.as_ref().unwrap() { Item::F16(_) => "floats/half item", Item::F32(_) => "floats/single item", _ => "floats/double item" });
    if item_nan { st.class("floats/NaN") }
    st.nontrivial(hash_of(&e.bytes));
    if i % 97 == 0 { st.sample(i, || format!("{} = {}: X:f32 -> {}", hex(&e.bytes), e.item.as_ref().unwrap().render(), (0 .. 6).map(|c| format!("{}={}", CONFIGS[c].0, w.verdicts[i as usize][c].get("X:f32").cloned().unwrap_or_default())).collect::<Vec<_>>().join(" "))) }
    Ok(())
}

/// C01 in every feature configuration: the value-driven round trips of the probe (types that exist without `alloc`; the
/// values are generated from the corpus entry read as a tape) must succeed in each of the six builds.
fn roundtrips_everywhere(i: u64, st: &mut Stats) -> CaseResult {
    let w = match world() { Ok(w) => w, Err(e) => return Err(Fail::new("infrastructure", e.clone())) };
    let e = &w.entries[i as usize];
    let mut seen = 0;
    for c in 0 .. 6 {
        for (op, v) in w.verdicts[i as usize][c].iter().filter(|(op, _)| op.starts_with("RT:")) {
            st.eval();
            seen += 1;
            if !v.starts_with('o') {
                let stage = match v.split(|c| c == '#' || c == '@').next().unwrap_or("") { "eenc" => "encoding failed", "elen" => "CborLen differs from the bytes written", "edec" => "decoding its own encoding failed", "epos" => "decoding stopped before the end of the encoding", "eneq" => "the decoded value differs", _ => "failed" };
                return Err(Fail::new(format!("{}/{}", op, if has_alloc(c) { "alloc" } else { "no-alloc" }), format!("configuration `{}`: round trip `{}` of the value generated from tape {}: {} ({}); the other configurations: {}", CONFIGS[c].0, op, hex(&e.bytes[.. e.bytes.len().min(40)]), stage, v,
                    (0 .. 6).map(|x| format!("{}={}", CONFIGS[x].0, w.verdicts[i as usize][x].get(op).cloned().unwrap_or_default())).collect::<Vec<_>>().join(" "))))
            }
        }
    }
    if seen == 0 { return Err(Fail::new("infrastructure", "no RT verdicts".to_string())) }
    if e.bytes.len() >= 4 { st.nontrivial(hash_of(&e.bytes[.. e.bytes.len().min(48)].to_vec())) }
    st.class("roundtrip/tape");
    Ok(())
}

fn subs() -> Vec<Sub> {
    let n = match world() { Ok(w) => w.entries.len() as u64, Err(_) => 1 };
    if let Ok(w) = world() { eprintln!("  six probe builds ran {} inputs; {} verdict lines collected", w.entries.len(), w.lines) }
    vec![
        Sub { prop: "C20", name: "transcripts", rule: "one generated corpus (all item trees <= 4 nodes over the structural leaf set, hand-picked shapes that the typed operations accept, grammar-generated and re-framed items, mutated / truncated / random inputs) through ~150 operations (accessors, iterators, skip, typed decodes incl. derived types, Size, len + encode into bounded slices, serde bridge deserialisers and a serializer into a slice) in six separately built configurations; every (operation, input) line present in >= 2 configurations must have the same verdict (value digest or error class, and position), except the documented differences decided from the input's content; evaluations = verdict lines; non-trivial = line present in >= 3 configurations and input >= 2 bytes",
              kind: Kind::Enumerate { quick: n, thorough: n, f: compare, complete_quick: false, complete_thorough: false } },
        Sub { prop: "C01N", name: "roundtrips-in-every-configuration", rule: "20 value-driven operations per corpus entry in each of the six feature configurations: a value of a type that exists without alloc (Bound in every position and nesting, ranges, unit and empty arrays, Option, Result, tuples to arity 12, Duration, all integer widths, char, NonZero, Wrapping, Int, Tagged, ByteArray), generated from the entry's bytes read as a tape, is encoded into a stack buffer and decoded back: encoding succeeds, len == bytes written, decoding consumes exactly those bytes and yields an equal value; evaluations = verdicts judged",
              kind: Kind::Enumerate { quick: n, thorough: n, f: roundtrips_everywhere, complete_quick: false, complete_thorough: false } },
        Sub { prop: "C12N", name: "floats-in-every-configuration", rule: "900 float items (half, single, double; boundary patterns - zeros, subnormals, extremes, infinities, quiet and signalling NaNs with payloads - and uniform bits) through Decoder::f32/f64/f16, Decode for f32/f64 and the serde bridge's f32/f64 in each of the six feature configurations, against absolute expectations: same width -> identical bits; narrower item -> the exact wider value (NaN stays NaN); wider item -> type mismatch; half item without the half feature -> type mismatch; position = end of the item; evaluations = verdicts judged",
              kind: Kind::Enumerate { quick: n, thorough: n, f: floats_everywhere, complete_quick: false, complete_thorough: false } },
        Sub { prop: "C04N", name: "noalloc-skip", rule: "the skip accessor in the two no-alloc builds (a different implementation from the alloc one): on well-formed corpus entries the position equals the item length (or the documented refusal), on strict prefixes of well-formed items it fails with the end-of-input class",
              kind: Kind::Enumerate { quick: n, thorough: n, f: noalloc_skip, complete_quick: false, complete_thorough: false } },
        Sub { prop: "C06N", name: "noalloc-skip", rule: "well-formed corpus entries through skip() of the two no-alloc builds: position == item length, or the documented refusal and the tree does contain an indefinite array/map below a definite one",
              kind: Kind::Enumerate { quick: n, thorough: n, f: noalloc_skip, complete_quick: false, complete_thorough: false } },
    ]
}

fn assumptions(_: &str) -> Vec<String> {
    vec![
        "six configurations on one 64-bit target; 32-bit usize / atomic branches are not built".into(),
        "values are compared through a digest of their Debug rendering, errors through the public predicates (and Display prefixes for the classes without a predicate); messages are never compared".into(),
        "documented differences are keyed on the input's content (contains an indefinite array/map head; contains an f9 byte; contains an indefinite string head), conservatively".into(),
    ]
}

fn main() {
    if let Err(e) = world() { eprintln!("{}", e); std::process::exit(2) }
    vcore::engine::main(subs(), &assumptions)
}
