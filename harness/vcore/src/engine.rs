//! Check engine: runs sub-checks (random tape-driven via proptest, or exhaustive index
//! enumeration), collects coverage statistics, handles known findings, writes replay
//! files and the evidence file, and implements the driver contract
//! (exit 0 / `VIOLATION property=<id> replay=<path>` + exit 1 / exit 2 = inconclusive).

use crate::gen::Gen;
use crate::item::{hex, unhex};
use proptest::strategy::{Strategy, ValueTree};
use proptest::test_runner::{Config, RngAlgorithm, TestCaseError, TestError, TestRng, TestRunner};
use serde_json::{json, Value};
use std::collections::{BTreeMap, HashSet};
use std::hash::{Hash, Hasher};
use std::path::{Path, PathBuf};
use std::sync::atomic::{AtomicBool, Ordering};
use std::sync::Mutex;
use std::time::Instant;

#[derive(Clone, Debug)]
pub struct Fail {
    /// Stable class of the failure (used to match known findings).
    pub sig: String,
    pub detail: String
}

impl Fail {
    pub fn new(sig: impl Into<String>, detail: impl Into<String>) -> Fail { Fail { sig: sig.into(), detail: detail.into() } }
}

pub type CaseResult = Result<(), Fail>;

#[macro_export]
macro_rules! fail {
    ($sig:expr, $($arg:tt)*) => { return Err($crate::engine::Fail::new($sig, format!($($arg)*))) };
}

#[macro_export]
macro_rules! ensure {
    ($cond:expr, $sig:expr, $($arg:tt)*) => { if !($cond) { return Err($crate::engine::Fail::new($sig, format!($($arg)*))) } };
}

pub fn hash_of<T: Hash>(t: &T) -> u64 {
    let mut h = Fnv(0xcbf29ce484222325);
    t.hash(&mut h);
    h.finish()
}

pub struct Fnv(pub u64);
impl Hasher for Fnv {
    fn finish(&self) -> u64 { self.0 ^ (self.0 >> 29) }
    fn write(&mut self, bytes: &[u8]) { for b in bytes { self.0 ^= *b as u64; self.0 = self.0.wrapping_mul(0x100000001b3) } }
}

const DISTINCT_CAP: usize = 4_000_000;
const MAX_SAMPLES: usize = 6;

#[derive(Default)]
pub struct Stats {
    pub evaluations: u64,
    pub nontrivial: HashSet<u64>,
    pub nontrivial_capped: bool,
    /// non-trivial cases that are distinct by construction (exhaustive enumerations)
    pub nontrivial_by_construction: u64,
    pub classes: BTreeMap<String, u64>,
    first_samples: Vec<String>,
    low_samples: BTreeMap<u64, String>,
    pub known_hits: BTreeMap<String, (u64, String)>,
    pub frozen: bool,
    /// set by a sub-check that had to cut an enumeration short (e.g. a capped schedule exploration)
    pub incomplete: bool
}

impl Stats {
    pub fn new() -> Stats { Stats::default() }

    /// One generated case / execution.
    pub fn eval(&mut self) { if !self.frozen { self.evaluations += 1 } }
    pub fn evals(&mut self, n: u64) { if !self.frozen { self.evaluations += n } }

    /// Record a non-trivial case identified by `h` (distinctness by hash).
    pub fn nontrivial(&mut self, h: u64) {
        if self.frozen { return }
        if self.nontrivial.len() < DISTINCT_CAP { self.nontrivial.insert(h); } else { self.nontrivial_capped = true }
    }

    /// Record `n` non-trivial cases that are distinct because the enumeration never repeats.
    pub fn nontrivial_enum(&mut self, n: u64) { if !self.frozen { self.nontrivial_by_construction += n } }

    pub fn class(&mut self, name: &str) {
        if self.frozen { return }
        *self.classes.entry(name.to_string()).or_insert(0) += 1
    }

    pub fn class_n(&mut self, name: &str, n: u64) {
        if self.frozen { return }
        *self.classes.entry(name.to_string()).or_insert(0) += n
    }

    /// Offer a sample; the closure is only evaluated if the sample is retained.
    pub fn sample(&mut self, key: u64, f: impl FnOnce() -> String) {
        if self.frozen { return }
        if self.first_samples.len() < 2 { self.first_samples.push(f()); return }
        let k = key.wrapping_mul(0x9e3779b97f4a7c15);
        if self.low_samples.len() < MAX_SAMPLES { self.low_samples.insert(k, f()); return }
        let worst = *self.low_samples.keys().next_back().unwrap();
        if k < worst { self.low_samples.remove(&worst); self.low_samples.insert(k, f()); }
    }

    pub fn mark_incomplete(&mut self) { self.incomplete = true }

    pub fn distinct_nontrivial(&self) -> u64 { self.nontrivial.len() as u64 + self.nontrivial_by_construction }

    pub fn samples(&self) -> Vec<String> {
        self.first_samples.iter().cloned().chain(self.low_samples.values().cloned()).collect()
    }

    pub fn merge(&mut self, o: Stats) {
        self.evaluations += o.evaluations;
        for h in o.nontrivial { if self.nontrivial.len() < DISTINCT_CAP { self.nontrivial.insert(h); } else { self.nontrivial_capped = true } }
        self.nontrivial_capped |= o.nontrivial_capped;
        self.incomplete |= o.incomplete;
        self.nontrivial_by_construction += o.nontrivial_by_construction;
        for (k, v) in o.classes { *self.classes.entry(k).or_insert(0) += v }
        for s in o.first_samples { if self.first_samples.len() < 2 { self.first_samples.push(s) } }
        for (k, s) in o.low_samples {
            self.low_samples.insert(k, s);
            while self.low_samples.len() > MAX_SAMPLES { let w = *self.low_samples.keys().next_back().unwrap(); self.low_samples.remove(&w); }
        }
        for (k, (n, ex)) in o.known_hits {
            let e = self.known_hits.entry(k).or_insert((0, ex));
            e.0 += n;
        }
    }
}

pub type RandomFn = fn(&mut Gen, &mut Stats) -> CaseResult;
pub type IndexFn = fn(u64, &mut Stats) -> CaseResult;

pub enum Kind {
    /// Random tape-driven search: case counts for quick / thorough, maximal tape length.
    Random { quick: u32, thorough: u32, tape: usize, f: RandomFn },
    /// Enumeration of indices `0..n` (n for quick / thorough); `complete` says the thorough (and
    /// quick, when equal) bound covers the whole finite space.
    Enumerate { quick: u64, thorough: u64, f: IndexFn, complete_quick: bool, complete_thorough: bool }
}

pub struct Sub {
    pub prop: &'static str,
    pub name: &'static str,
    pub rule: &'static str,
    pub kind: Kind
}

#[derive(Default)]
pub struct Known {
    /// (property, signature) pairs listed as known findings
    pub known: Vec<(String, String, String)>
}

impl Known {
    pub fn load(root: &Path) -> Known {
        let mut k = Known::default();
        if let Ok(s) = std::fs::read_to_string(root.join("known_findings.jsonl")) {
            for line in s.lines() {
                let line = line.trim();
                if line.is_empty() || line.starts_with('#') { continue }
                if let Ok(v) = serde_json::from_str::<Value>(line) {
                    if v["status"] == "known" {
                        k.known.push((v["property"].as_str().unwrap_or("").to_string(),
                                      v["signature"].as_str().unwrap_or("").to_string(),
                                      v["what"].as_str().unwrap_or("").to_string()));
                    }
                }
            }
        }
        k
    }

    pub fn matches(&self, prop: &str, sig: &str) -> bool {
        self.known.iter().any(|(p, s, _)| p == prop && s == sig)
    }
}

pub struct Violation {
    pub sub: String,
    pub fail: Fail,
    pub replay: Value
}

fn panic_message(p: Box<dyn std::any::Any + Send>) -> String {
    if let Some(s) = p.downcast_ref::<&str>() { s.to_string() }
    else if let Some(s) = p.downcast_ref::<String>() { s.clone() }
    else { "non-string panic payload".to_string() }
}

/// Run one case with panic containment.
fn guarded<F: FnOnce() -> CaseResult>(f: F) -> CaseResult {
    match std::panic::catch_unwind(std::panic::AssertUnwindSafe(f)) {
        Ok(r) => r,
        Err(p) => {
            let m = panic_message(p);
            if m.contains("step budget exceeded") {
                Err(Fail::new("step-budget", format!("work bound exceeded: {}", m)))
            } else {
                Err(Fail::new("panic", format!("panicked: {}", m)))
            }
        }
    }
}

fn run_random_case(prop: &str, known: &Known, f: RandomFn, tape: &[u8], stats: &mut Stats) -> CaseResult {
    let r = guarded(|| { let mut g = Gen::new(tape); f(&mut g, stats) });
    match r {
        Err(fl) if known.matches(prop, &fl.sig) => {
            if !stats.frozen {
                let e = stats.known_hits.entry(fl.sig.clone()).or_insert((0, format!("{} [tape {}]", fl.detail, hex(tape))));
                e.0 += 1;
            }
            Ok(())
        }
        other => other
    }
}

fn run_index_case(prop: &str, known: &Known, f: IndexFn, idx: u64, stats: &mut Stats) -> CaseResult {
    let r = guarded(|| f(idx, stats));
    match r {
        Err(fl) if known.matches(prop, &fl.sig) => {
            let e = stats.known_hits.entry(fl.sig.clone()).or_insert((0, format!("{} [index {}]", fl.detail, idx)));
            e.0 += 1;
            Ok(())
        }
        other => other
    }
}

pub fn threads() -> usize {
    std::env::var("VERIF_THREADS").ok().and_then(|s| s.parse().ok())
        .unwrap_or_else(|| std::thread::available_parallelism().map(|n| n.get()).unwrap_or(4).min(16))
}

fn seed_bytes(seed: u64, sub: &str, stream: u64) -> [u8; 32] {
    let mut out = [0u8; 32];
    let mut x = hash_of(&(seed, sub, stream));
    for c in out.chunks_mut(8) {
        x ^= x >> 12; x ^= x << 25; x ^= x >> 27;
        let v = x.wrapping_mul(0x2545F4914F6CDD1D);
        c.copy_from_slice(&v.to_le_bytes());
    }
    out
}

/// Run a random sub-check on `threads()` workers. Returns merged stats and the first (shrunk) violation.
pub fn run_random(sub: &Sub, f: RandomFn, cases: u32, tape: usize, seed: u64, known: &Known) -> (Stats, Option<Violation>) {
    let nthreads = threads().min((cases as usize / 64).max(1));
    let per = (cases as usize + nthreads - 1) / nthreads;
    let stop = AtomicBool::new(false);
    let result: Mutex<(Stats, Option<Violation>)> = Mutex::new((Stats::new(), None));
    std::thread::scope(|s| {
        for t in 0 .. nthreads {
            let stop = &stop;
            let result = &result;
            std::thread::Builder::new().stack_size(64 << 20).spawn_scoped(s, move || {
                let mut config = Config::default();
                config.cases = per as u32;
                config.failure_persistence = None;
                config.max_shrink_iters = 20_000;
                config.max_global_rejects = 0;
                config.verbose = 0;
                let rng = TestRng::from_seed(RngAlgorithm::ChaCha, &seed_bytes(seed, sub.name, t as u64));
                let mut runner = TestRunner::new_with_rng(config, rng);
                let strat = proptest::collection::vec(proptest::num::u8::ANY, 0 ..= tape);
                let stats = std::cell::RefCell::new(Stats::new());
                let last_fail: std::cell::RefCell<Option<Fail>> = std::cell::RefCell::new(None);
                let i_failed = std::cell::Cell::new(false);
                let r = runner.run(&strat, |tp| {
                    if !i_failed.get() && stop.load(Ordering::Relaxed) { return Ok(()) }
                    let mut st = stats.borrow_mut();
                    match run_random_case(sub.prop, known, f, &tp, &mut st) {
                        Ok(()) => Ok(()),
                        Err(fl) => {
                            // from now on we are shrinking: freeze the counters
                            st.frozen = true;
                            i_failed.set(true);
                            stop.store(true, Ordering::Relaxed);
                            let m = fl.detail.clone();
                            *last_fail.borrow_mut() = Some(fl);
                            Err(TestCaseError::fail(m))
                        }
                    }
                });
                let mut stats = stats.into_inner();
                let last_fail = last_fail.into_inner();
                stats.frozen = false;
                let viol = match r {
                    Ok(()) => None,
                    Err(TestError::Fail(_, tp)) => {
                        // re-run the minimal tape to get its own failure record
                        let mut scratch = Stats::new(); scratch.frozen = true;
                        let fl = match run_random_case(sub.prop, known, f, &tp, &mut scratch) {
                            Err(fl) => fl,
                            Ok(()) => last_fail.clone().unwrap_or_else(|| Fail::new("unstable", "failure did not reproduce on the shrunk tape"))
                        };
                        Some(Violation { sub: sub.name.to_string(), fail: fl, replay: json!({"sub": sub.name, "tape": hex(&tp)}) })
                    }
                    Err(TestError::Abort(r)) => Some(Violation { sub: sub.name.to_string(), fail: Fail::new("abort", format!("runner aborted: {}", r)), replay: json!({"sub": sub.name}) })
                };
                let mut g = result.lock().unwrap();
                g.0.merge(stats);
                if let Some(v) = viol {
                    let better = match &g.1 { None => true, Some(old) => replay_size(&v.replay) < replay_size(&old.replay) };
                    if better { g.1 = Some(v) }
                }
            }).expect("spawn");
        }
    });
    result.into_inner().unwrap()
}

fn replay_size(v: &Value) -> usize { v["tape"].as_str().map(|s| s.len()).unwrap_or(usize::MAX) }

/// Run an enumeration sub-check over `0..n`, sharded across threads. Reports the smallest failing index.
pub fn run_enumerate(sub: &Sub, f: IndexFn, n: u64, known: &Known) -> (Stats, Option<Violation>) {
    let nthreads = (threads() as u64).min(n.max(1));
    let result: Mutex<(Stats, Option<(u64, Fail)>)> = Mutex::new((Stats::new(), None));
    let stop = AtomicBool::new(false);
    std::thread::scope(|s| {
        for t in 0 .. nthreads {
            let result = &result;
            let stop = &stop;
            std::thread::Builder::new().stack_size(64 << 20).spawn_scoped(s, move || {
                // contiguous blocks, interleaved so that a stop still leaves a prefix explored
                let mut stats = Stats::new();
                let mut found: Option<(u64, Fail)> = None;
                let block = 4096u64;
                let mut start = t * block;
                'outer: while start < n {
                    if stop.load(Ordering::Relaxed) { break }
                    let end = (start + block).min(n);
                    for i in start .. end {
                        if let Err(fl) = run_index_case(sub.prop, known, f, i, &mut stats) {
                            found = Some((i, fl));
                            stop.store(true, Ordering::Relaxed);
                            break 'outer
                        }
                    }
                    start += nthreads * block;
                }
                let mut g = result.lock().unwrap();
                g.0.merge(stats);
                if let Some((i, fl)) = found {
                    let better = match &g.1 { None => true, Some((j, _)) => i < *j };
                    if better { g.1 = Some((i, fl)) }
                }
            }).expect("spawn");
        }
    });
    let (stats, found) = result.into_inner().unwrap();
    let v = found.map(|(i, fl)| Violation { sub: sub.name.to_string(), fail: fl, replay: json!({"sub": sub.name, "index": i}) });
    (stats, v)
}

pub fn verif_root() -> PathBuf {
    std::env::var("VERIF_ROOT").map(PathBuf::from).unwrap_or_else(|_| PathBuf::from("/verif"))
}

/// Where the committed inputs (known findings, promoted regression cases) live: always the checkout the
/// `check` script belongs to, even when evidence and replays are redirected with VERIF_OUT_ROOT.
pub fn input_root() -> PathBuf {
    std::env::var("VERIF_SRC_ROOT").map(PathBuf::from).unwrap_or_else(|_| verif_root())
}

fn replay_one(subs: &[Sub], prop: &str, known: &Known, v: &Value) -> Result<CaseResult, String> {
    let name = v["sub"].as_str().ok_or("replay file lacks `sub`")?;
    let sub = subs.iter().find(|s| s.prop == prop && s.name == name).ok_or_else(|| format!("unknown sub-check {}", name))?;
    let mut stats = Stats::new();
    match &sub.kind {
        Kind::Random { f, .. } => {
            let tape = unhex(v["tape"].as_str().ok_or("replay file lacks `tape`")?).ok_or("bad hex")?;
            Ok(run_random_case(prop, known, *f, &tape, &mut stats))
        }
        Kind::Enumerate { f, .. } => {
            let idx = v["index"].as_u64().ok_or("replay file lacks `index`")?;
            Ok(run_index_case(prop, known, *f, idx, &mut stats))
        }
    }
}

fn write_replay(root: &Path, prop: &str, tier: &str, seed: u64, v: &Violation) -> PathBuf {
    let dir = root.join("replays");
    let _ = std::fs::create_dir_all(&dir);
    let mut body = v.replay.clone();
    body["property"] = json!(prop);
    body["signature"] = json!(v.fail.sig);
    body["observed"] = json!(v.fail.detail);
    body["tier"] = json!(tier);
    body["seed"] = json!(seed);
    // the build profile the case failed under (the driver replays it with the same one)
    if let Ok(p) = std::env::var("VERIF_PROFILE") { body["profile"] = json!(p) }
    let h = hash_of(&body.to_string());
    let p = dir.join(format!("{}-{}-{:016x}.json", prop, v.sub, h));
    let _ = std::fs::write(&p, serde_json::to_string_pretty(&body).unwrap());
    p
}

/// Entry point of a group binary. `args`: `<PROP> <quick|thorough> [--replay <file>] [--only <sub>]`.
/// `level` is the MANIFEST level of the property; `assumptions` are copied into the evidence.
pub fn main(subs: Vec<Sub>, assumptions: &dyn Fn(&str) -> Vec<String>) -> ! {
    // keep harness output clean: panics inside cases are caught and reported as failures
    std::panic::set_hook(Box::new(|_| {}));
    let args: Vec<String> = std::env::args().collect();
    if args.len() == 3 && args[1] == "--list-random" {
        // order of the tape-driven sub-checks of a property (the libFuzzer `tape` target indexes into it)
        for s in subs.iter().filter(|s| s.prop == args[2]) { if let Kind::Random { .. } = s.kind { println!("{}", s.name) } }
        std::process::exit(0)
    }
    if args.len() < 3 {
        eprintln!("usage: {} <PROPERTY> <quick|thorough> [--replay FILE] [--only SUB]", args[0]);
        std::process::exit(2)
    }
    let prop = args[1].clone();
    let tier = args[2].clone();
    if tier != "quick" && tier != "thorough" { eprintln!("tier must be quick or thorough"); std::process::exit(2) }
    let mut replay: Option<String> = None;
    let mut only: Option<String> = None;
    let mut i = 3;
    while i < args.len() {
        match args[i].as_str() {
            "--replay" => { replay = args.get(i + 1).cloned(); i += 2 }
            "--only" => { only = args.get(i + 1).cloned(); i += 2 }
            _ => { i += 1 }
        }
    }
    let seed: u64 = std::env::var("VERIF_SEED").ok().and_then(|s| s.trim().parse::<i128>().ok()).map(|v| v as u64).unwrap_or(0);
    let root = verif_root();
    let known = Known::load(&input_root());
    let code = run_property(&subs, &prop, &tier, seed, &root, &known, replay.as_deref(), only.as_deref(), assumptions);
    std::process::exit(code)
}

#[allow(clippy::too_many_arguments)]
pub fn run_property(subs: &[Sub], prop: &str, tier: &str, seed: u64, root: &Path, known: &Known,
                    replay: Option<&str>, only: Option<&str>, assumptions: &dyn Fn(&str) -> Vec<String>) -> i32 {
    if !subs.iter().any(|s| s.prop == prop) {
        eprintln!("no sub-checks registered for {}", prop);
        return 2
    }
    // exit 3: this binary does not know the named sub-check (the driver then asks the other parts of a composite property)
    if let Some(o) = only { if !subs.iter().any(|s| s.prop == prop && s.name == o) { eprintln!("no sub-check `{}` for {} in this binary", o, prop); return 3 } }
    if let Some(file) = replay {
        let v: Value = match std::fs::read_to_string(file).ok().and_then(|s| serde_json::from_str(&s).ok()) {
            Some(v) => v, None => { eprintln!("cannot read replay file {}", file); return 2 }
        };
        if let Some(name) = v["sub"].as_str() { if !subs.iter().any(|s| s.prop == prop && s.name == name) { eprintln!("no sub-check `{}` for {} in this binary", name, prop); return 3 } }
        let report_as = std::env::var("VERIF_REPORT_AS").unwrap_or_else(|_| prop.to_string());
        return match replay_one(subs, prop, known, &v) {
            Ok(Ok(())) => { println!("replay {}: property holds on this case", file); 0 }
            Ok(Err(fl)) => { println!("replay {}: [{}] {}", file, fl.sig, fl.detail); println!("VIOLATION property={} replay={}", report_as, file); 1 }
            Err(e) => { eprintln!("replay error: {}", e); 2 }
        }
    }

    let t0 = Instant::now();
    let mut total = Stats::new();
    let mut violations: Vec<(PathBuf, Violation)> = Vec::new();
    let mut sub_reports = Vec::new();
    let mut rules = Vec::new();
    let mut all_complete = true;

    // 1. regression cases (shrunk failures promoted earlier), bypassing the generators
    let mut regress_n = 0u64;
    if only.is_none() {
        // (a part of a composite property finds its promoted cases in the directory of the property it reports as)
        let regress_dir = std::env::var("VERIF_REPORT_AS").unwrap_or_else(|_| prop.to_string());
        if let Ok(rd) = std::fs::read_dir(input_root().join("regress").join(regress_dir)) {
            let mut files: Vec<PathBuf> = rd.filter_map(|e| e.ok().map(|e| e.path())).filter(|p| p.extension().map(|e| e == "json").unwrap_or(false)).collect();
            files.sort();
            for p in files {
                let v: Value = match std::fs::read_to_string(&p).ok().and_then(|s| serde_json::from_str(&s).ok()) { Some(v) => v, None => continue };
                // cases of sub-checks that live in another binary of the same property are replayed there
                if let Some(name) = v["sub"].as_str() { if !subs.iter().any(|s| s.prop == prop && s.name == name) { continue } }
                regress_n += 1;
                match replay_one(subs, prop, known, &v) {
                    Ok(Ok(())) => {}
                    Ok(Err(fl)) => {
                        let viol = Violation { sub: v["sub"].as_str().unwrap_or("?").to_string(), fail: fl, replay: v.clone() };
                        violations.push((p.clone(), viol));
                    }
                    Err(e) => eprintln!("regress {}: {}", p.display(), e)
                }
            }
        }
    }

    // 2. generated search
    for sub in subs.iter().filter(|s| s.prop == prop) {
        if let Some(o) = only { if o != sub.name { continue } }
        let ts = Instant::now();
        let (stats, viol, complete, planned) = match &sub.kind {
            Kind::Random { quick, thorough, tape, f } => {
                let cases = if tier == "quick" { *quick } else { *thorough };
                let (s, v) = run_random(sub, *f, cases, *tape, seed, known);
                (s, v, false, cases as u64)
            }
            Kind::Enumerate { quick, thorough, f, complete_quick, complete_thorough } => {
                let (n, c) = if tier == "quick" { (*quick, *complete_quick) } else { (*thorough, *complete_thorough) };
                let (s, v) = run_enumerate(sub, *f, n, known);
                (s, v, c, n)
            }
        };
        let complete = complete && !stats.incomplete;
        all_complete &= complete && viol.is_none();
        rules.push(format!("[{}] {}", sub.name, sub.rule));
        sub_reports.push(json!({
            "sub": sub.name,
            "kind": match sub.kind { Kind::Random { .. } => "random-tape (proptest)", Kind::Enumerate { .. } => "enumeration" },
            "planned": planned,
            "evaluations": stats.evaluations,
            "distinct_nontrivial": stats.distinct_nontrivial(),
            "exhaustive": complete && viol.is_none(),
            "classes": stats.classes,
            "wall_s": ts.elapsed().as_secs_f64(),
        }));
        eprintln!("  [{} {}] evals={} nontrivial={} {:.1}s{}", prop, sub.name, stats.evaluations, stats.distinct_nontrivial(),
                  ts.elapsed().as_secs_f64(), if viol.is_some() { "  FAILED" } else { "" });
        total.merge(stats);
        if let Some(v) = viol {
            let p = write_replay(root, prop, tier, seed, &v);
            violations.push((p, v));
        }
    }

    // 3. report (a sub-property run on behalf of another property reports under that property's id)
    let report_as = std::env::var("VERIF_REPORT_AS").unwrap_or_else(|_| prop.to_string());
    let mut known_lines = Vec::new();
    for (sig, (n, ex)) in &total.known_hits {
        // the stdout line stays short; the evidence keeps the example with its full tape
        let short = ex.split(" [tape ").next().unwrap_or(ex);
        println!("KNOWN-FINDING: property={} {} (met {} times; e.g. {})", report_as, sig, n, short);
        known_lines.push(json!({"signature": sig, "count": n, "example": ex}));
    }
    for (p, v) in &violations {
        println!("  [{}] {}: {}", v.sub, v.fail.sig, v.fail.detail);
        println!("VIOLATION property={} replay={}", report_as, p.display());
    }
    let level = "exploration";
    let mut samples: Vec<Value> = total.samples().into_iter().map(Value::String).collect();
    if samples.is_empty() { samples.push(json!("(no sample retained)")) }
    let ev = json!({
        "property_id": prop,
        "tier": tier,
        "seed": seed as i64,
        "level": level,
        "coverage": {
            "evaluations": total.evaluations,
            "distinct_nontrivial": total.distinct_nontrivial(),
            "distinct_nontrivial_is_lower_bound": total.nontrivial_capped,
            "rule": rules.join(" | "),
            "samples": samples,
            "exhaustive": all_complete && only.is_none(),
            "classes": total.classes,
            "subchecks": sub_reports,
            "regression_cases_replayed": regress_n,
            "known_findings_met": known_lines,
        },
        "assumptions": assumptions(prop),
        "wall_s": t0.elapsed().as_secs_f64(),
        "violations": violations.len(),
    });
    if only.is_none() {
        let dir = root.join("evidence");
        let _ = std::fs::create_dir_all(&dir);
        let name = std::env::var("VERIF_EVIDENCE_NAME").unwrap_or_else(|_| prop.to_string());
        if let Err(e) = std::fs::write(dir.join(format!("{}.json", name)), serde_json::to_string_pretty(&ev).unwrap()) {
            eprintln!("cannot write evidence: {}", e);
            return 2
        }
    }
    eprintln!("{} {} seed={} evaluations={} distinct_nontrivial={} violations={} wall={:.1}s",
              prop, tier, seed, total.evaluations, total.distinct_nontrivial(), violations.len(), t0.elapsed().as_secs_f64());
    if violations.is_empty() { 0 } else { 1 }
}

// keep the unused-import lints quiet for items used only through macros / strategies
#[allow(dead_code)]
fn _unused<S: Strategy>(s: S, r: &mut TestRunner) -> Option<S::Value> { s.new_tree(r).ok().map(|t| t.current()) }
