//! Shared oracle library for the minicbor verification harness.
//! Contains no minicbor code: it is the independent reference.

pub mod item;
pub mod half_ref;
pub mod gen;
pub mod engine;

pub use engine::{CaseResult, Fail, Kind, Stats, Sub};
pub use gen::Gen;
pub use item::{Item, W};
