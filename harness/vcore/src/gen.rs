//! Tape-driven structured generation. Every value is built from a byte tape that the
//! property-testing library (or libFuzzer) owns; an exhausted tape yields zeros, so a
//! shorter / smaller tape is a simpler value and shrinking the tape shrinks the case.

use crate::item::{Item, W};

pub struct Gen<'a> {
    tape: &'a [u8],
    pos: usize
}

/// Values sitting on the width / sign boundaries of CBOR heads and Rust integer types.
pub const BOUNDARIES: [u64; 34] = [
    0, 1, 22, 23, 24, 25, 127, 128, 254, 255, 256, 257,
    32767, 32768, 65534, 65535, 65536, 65537,
    0x7fff_ffff, 0x8000_0000, 0xffff_fffe, 0xffff_ffff, 0x1_0000_0000, 0x1_0000_0001,
    0x7fff_ffff_ffff_fffe, 0x7fff_ffff_ffff_ffff, 0x8000_0000_0000_0000, 0x8000_0000_0000_0001,
    0xffff_ffff_ffff_fffe, 0xffff_ffff_ffff_ffff,
    0xd7ff, 0xd800, 0xdfff, 0x10ffff
];

impl<'a> Gen<'a> {
    pub fn new(tape: &'a [u8]) -> Self { Gen { tape, pos: 0 } }

    /// An independent reader over the same tape at the same position.
    pub fn fork(&self) -> Gen<'a> { Gen { tape: self.tape, pos: self.pos } }
    pub fn exhausted(&self) -> bool { self.pos >= self.tape.len() }
    pub fn consumed(&self) -> usize { self.pos }
    pub fn rest(&mut self) -> &'a [u8] { let r = &self.tape[self.pos.min(self.tape.len()) ..]; self.pos = self.tape.len(); r }

    pub fn byte(&mut self) -> u8 {
        let b = self.tape.get(self.pos).copied().unwrap_or(0);
        self.pos += 1;
        b
    }

    pub fn raw_u16(&mut self) -> u16 { u16::from_be_bytes([self.byte(), self.byte()]) }
    pub fn raw_u32(&mut self) -> u32 { ((self.raw_u16() as u32) << 16) | self.raw_u16() as u32 }
    pub fn raw_u64(&mut self) -> u64 { ((self.raw_u32() as u64) << 32) | self.raw_u32() as u64 }

    /// Uniform-ish choice in `0..n`, monotone in the tape bytes (n >= 1).
    pub fn below(&mut self, n: usize) -> usize {
        debug_assert!(n >= 1);
        if n <= 1 { return 0 }
        if n <= 256 { (self.byte() as usize * n) >> 8 }
        else if n <= 65536 { (self.raw_u16() as usize * n) >> 16 }
        else { ((self.raw_u32() as u64 * n as u64) >> 32) as usize }
    }

    pub fn range(&mut self, lo: usize, hi_incl: usize) -> usize { lo + self.below(hi_incl - lo + 1) }
    pub fn bool(&mut self) -> bool { self.byte() & 1 == 1 }
    /// true with probability ~ num/256
    pub fn chance(&mut self, num: u8) -> bool { self.byte() < num && num > 0 }
    pub fn pick<'t, T>(&mut self, xs: &'t [T]) -> &'t T { &xs[self.below(xs.len())] }

    /// Boundary-dense 64-bit value.
    pub fn u64(&mut self) -> u64 {
        let s = self.byte();
        match s {
            0 ..= 63 => self.byte() as u64,
            64 ..= 149 => {
                let k = self.below(65) as u32;
                let d = self.below(7) as i128 - 3;
                let base: i128 = if k == 64 { 1i128 << 64 } else { 1i128 << k };
                (base + d).clamp(0, u64::MAX as i128) as u64
            }
            150 ..= 199 => *self.pick(&BOUNDARIES),
            200 ..= 219 => self.raw_u16() as u64,
            220 ..= 235 => self.raw_u32() as u64,
            _ => self.raw_u64()
        }
    }

    pub fn u32(&mut self) -> u32 { let v = self.u64(); if v > u32::MAX as u64 { (v >> 32) as u32 ^ v as u32 } else { v as u32 } }
    pub fn u16(&mut self) -> u16 { let v = self.u64(); if v > u16::MAX as u64 { (v % 65536) as u16 } else { v as u16 } }
    pub fn u8(&mut self) -> u8 { let v = self.u64(); if v > 255 { (v % 256) as u8 } else { v as u8 } }

    /// Boundary-dense signed value: magnitude from `u64`, sign from the tape; covers MIN/MAX.
    pub fn i64(&mut self) -> i64 {
        let neg = self.bool();
        let m = self.u64();
        if neg {
            // -1 - n for n <= i64::MAX
            let n = if m > i64::MAX as u64 { m & (i64::MAX as u64) } else { m };
            -1 - n as i64
        } else if m > i64::MAX as u64 { (m & i64::MAX as u64) as i64 } else { m as i64 }
    }
    pub fn i32(&mut self) -> i32 {
        let neg = self.bool();
        let m = self.u32();
        let n = if m > i32::MAX as u32 { m & i32::MAX as u32 } else { m };
        if neg { -1 - n as i32 } else { n as i32 }
    }
    pub fn i16(&mut self) -> i16 {
        let neg = self.bool();
        let m = self.u16();
        let n = if m > i16::MAX as u16 { m & i16::MAX as u16 } else { m };
        if neg { -1 - n as i16 } else { n as i16 }
    }
    pub fn i8(&mut self) -> i8 {
        let neg = self.bool();
        let m = self.u8();
        let n = if m > i8::MAX as u8 { m & i8::MAX as u8 } else { m };
        if neg { -1 - n as i8 } else { n as i8 }
    }

    /// CBOR integer in [-2^64, 2^64-1] as (negative?, argument).
    pub fn cbor_int(&mut self) -> (bool, u64) { (self.bool(), self.u64()) }

    pub fn char(&mut self) -> char {
        match self.byte() {
            0 ..= 99 => (0x20 + self.below(0x5f)) as u8 as char,
            100 ..= 139 => *self.pick(&['\0', '\u{17}', '\u{18}', '\u{7f}', '\u{80}', '\u{ff}', '\u{100}', 'é', 'ß', '\u{7ff}', '\u{800}',
                                        '\u{d7ff}', '\u{e000}', '\u{ffff}', '\u{10000}', '😀', '\u{10ffff}', '"', '\\', '\'', '\n']),
            _ => {
                let v = self.raw_u32() % 0x11_0000;
                char::from_u32(v).unwrap_or('\u{fffd}')
            }
        }
    }

    /// A length, dense on head-width boundaries, capped at `max`.
    pub fn len(&mut self, max: usize) -> usize {
        let v = match self.byte() {
            0 ..= 139 => self.below(8),
            140 ..= 199 => self.below(40),
            200 ..= 229 => *self.pick(&[22usize, 23, 24, 25, 255, 256, 257]),
            230 ..= 249 => self.below(600),
            _ => *self.pick(&[65535usize, 65536, 65537, 1000, 4096])
        };
        v.min(max)
    }

    pub fn bytes(&mut self, max: usize) -> Vec<u8> {
        let n = self.len(max);
        let mode = self.byte();
        (0 .. n).map(|i| match mode { 0 ..= 79 => self.byte(), 80 ..= 159 => i as u8, 160 ..= 199 => 0xff, _ => 0 }).collect()
    }

    pub fn string(&mut self, max_chars: usize) -> String {
        let n = self.len(max_chars);
        let mode = self.byte();
        let mut s = String::new();
        for i in 0 .. n {
            match mode {
                0 ..= 99 => s.push(self.char()),
                100 ..= 199 => s.push((b'a' + (i % 26) as u8) as char),
                _ => s.push('é')
            }
        }
        s
    }

    /// Some width >= the minimal one for `v`; biased towards minimal.
    pub fn width_for(&mut self, v: u64) -> W {
        let ws = W::at_least(v);
        if self.chance(150) { ws[0] } else { *self.pick(ws) }
    }

    pub fn f32_bits(&mut self) -> u32 {
        match self.byte() {
            0 ..= 79 => *self.pick(&[0u32, 0x8000_0000, 0x3f80_0000, 0xbf80_0000, 0x7f80_0000, 0xff80_0000, 0x7fc0_0000, 0x7fa0_0000,
                                     0xffc0_0001, 0x0000_0001, 0x007f_ffff, 0x0080_0000, 0x7f7f_ffff, 0x477f_e000, 0x477f_f000, 0x3380_0000, 0x3300_0000, 0x7f80_0001]),
            80 ..= 139 => {
                // sign | exponent | mantissa pattern
                let s = (self.bool() as u32) << 31;
                let e = (self.byte() as u32) << 23;
                let m = match self.below(4) { 0 => 0, 1 => 0x7f_ffff, 2 => 1u32 << self.below(23), _ => self.raw_u32() & 0x7f_ffff };
                s | e | m
            }
            140 ..= 179 => (self.i16() as f32).to_bits(),
            _ => self.raw_u32()
        }
    }

    pub fn f64_bits(&mut self) -> u64 {
        match self.byte() {
            0 ..= 59 => *self.pick(&[0u64, 1 << 63, 0x3ff0_0000_0000_0000, 0x7ff0_0000_0000_0000, 0xfff0_0000_0000_0000, 0x7ff8_0000_0000_0000,
                                     0x7ff0_0000_0000_0001, 0xfff8_0000_dead_beef, 1, 0x000f_ffff_ffff_ffff, 0x0010_0000_0000_0000, 0x7fef_ffff_ffff_ffff]),
            60 ..= 119 => (f32::from_bits(self.f32_bits()) as f64).to_bits(),
            120 ..= 159 => {
                let s = (self.bool() as u64) << 63;
                let e = ((self.raw_u16() & 0x7ff) as u64) << 52;
                let m = match self.below(4) { 0 => 0, 1 => (1u64 << 52) - 1, 2 => 1u64 << self.below(52), _ => self.raw_u64() & ((1u64 << 52) - 1) };
                s | e | m
            }
            _ => self.raw_u64()
        }
    }

    pub fn f16_bits(&mut self) -> u16 {
        match self.byte() {
            0 ..= 79 => *self.pick(&[0u16, 0x8000, 0x3c00, 0xbc00, 0x7c00, 0xfc00, 0x7e00, 0x7d00, 0xfe01, 1, 0x03ff, 0x0400, 0x7bff]),
            _ => self.raw_u16()
        }
    }
}

#[derive(Clone, Copy, Debug)]
pub struct ItemCfg {
    pub max_depth: usize,
    pub max_nodes: usize,
    /// allow non-preferred head widths
    pub wide: bool,
    /// allow indefinite-length strings / arrays / maps
    pub indef: bool,
    pub tags: bool,
    pub floats: bool,
    pub simple: bool,
    pub f16: bool,
    pub max_str: usize,
}

impl ItemCfg {
    pub const FULL: ItemCfg = ItemCfg { max_depth: 8, max_nodes: 64, wide: true, indef: true, tags: true, floats: true, simple: true, f16: true, max_str: 300 };
    pub const PREFERRED: ItemCfg = ItemCfg { max_depth: 8, max_nodes: 64, wide: false, indef: false, tags: true, floats: true, simple: true, f16: true, max_str: 300 };
    pub const PREFERRED_HEADS: ItemCfg = ItemCfg { max_depth: 8, max_nodes: 64, wide: false, indef: true, tags: true, floats: true, simple: true, f16: true, max_str: 300 };
}

/// A random well-formed item.
pub fn item(g: &mut Gen, cfg: &ItemCfg) -> Item {
    let mut budget = cfg.max_nodes;
    item_at(g, cfg, 0, &mut budget)
}

fn width(g: &mut Gen, cfg: &ItemCfg, v: u64) -> W {
    if cfg.wide { g.width_for(v) } else { W::min_for(v) }
}

fn item_at(g: &mut Gen, cfg: &ItemCfg, depth: usize, budget: &mut usize) -> Item {
    *budget = budget.saturating_sub(1);
    let leaf_only = depth >= cfg.max_depth || *budget == 0;
    let k = g.below(if leaf_only { 10 } else { 16 });
    match k {
        0 | 1 => { let v = g.u64(); Item::UInt(v, width(g, cfg, v)) }
        2 => { let v = g.u64(); Item::NInt(v, width(g, cfg, v)) }
        3 => {
            if cfg.indef && g.chance(60) {
                let n = g.below(4);
                Item::BytesIndef((0 .. n).map(|_| { let b = g.bytes(40); let w = width(g, cfg, b.len() as u64); (b, w) }).collect())
            } else { let b = g.bytes(cfg.max_str); let w = width(g, cfg, b.len() as u64); Item::Bytes(b, w) }
        }
        4 | 5 => {
            if cfg.indef && g.chance(60) {
                let n = g.below(4);
                Item::TextIndef((0 .. n).map(|_| { let s = g.string(20); let w = width(g, cfg, s.len() as u64); (s, w) }).collect())
            } else { let s = g.string(cfg.max_str / 4 + 1); let w = width(g, cfg, s.len() as u64); Item::Text(s, w) }
        }
        6 => match g.below(4) { 0 => Item::False, 1 => Item::True, 2 => Item::Null, _ => if cfg.simple { Item::Undefined } else { Item::Null } },
        7 => {
            if !cfg.floats { return Item::uint(g.byte() as u64) }
            match g.below(3) {
                0 if cfg.f16 => Item::F16(g.f16_bits()),
                1 => Item::F32(g.f32_bits()),
                _ => Item::F64(g.f64_bits())
            }
        }
        8 => {
            if !cfg.simple { return Item::uint(g.byte() as u64) }
            let n = g.byte();
            match n { 20 ..= 31 => Item::Simple(n.wrapping_add(100)), _ => Item::Simple(n) }
        }
        9 => { let v = g.byte() as u64; Item::UInt(v, width(g, cfg, v)) }
        10 | 11 | 12 => {
            let n = g.len(24).min(*budget);
            let xs: Vec<Item> = (0 .. n).map(|_| item_at(g, cfg, depth + 1, budget)).collect();
            let f = if cfg.indef && g.chance(80) { None } else { Some(width(g, cfg, xs.len() as u64)) };
            Item::Array(xs, f)
        }
        13 | 14 => {
            let n = g.len(12).min(*budget / 2);
            let xs: Vec<(Item, Item)> = (0 .. n).map(|_| { let k = item_at(g, cfg, depth + 1, budget); let v = item_at(g, cfg, depth + 1, budget); (k, v) }).collect();
            let f = if cfg.indef && g.chance(80) { None } else { Some(width(g, cfg, xs.len() as u64)) };
            Item::Map(xs, f)
        }
        _ => {
            if !cfg.tags { return Item::Null }
            // boundary-dense numbers, and the registered tags that software singles out (self-described CBOR 55799,
            // date/time, bignums, embedded CBOR, typed arrays, ...)
            let t = if g.chance(80) { *g.pick(&[0u64, 1, 2, 3, 4, 5, 21, 22, 23, 24, 32, 33, 34, 35, 36, 37, 40, 41, 64, 87, 100, 256, 258, 1040, 55799, 55799, 55798, 55800, 15309736]) } else { g.u64() };
            let w = width(g, cfg, t);
            Item::Tag(t, w, Box::new(item_at(g, cfg, depth + 1, budget)))
        }
    }
}

/// Re-frame an item: same data-model value, different serialisation choices.
/// `indef_containers`: arrays/maps may become indefinite; `chunk`: strings may be chunked.
pub fn reframe(g: &mut Gen, it: &Item, indef_containers: bool, chunk: bool, wide: bool) -> Item {
    let w = |g: &mut Gen, v: u64| if wide { g.width_for(v) } else { W::min_for(v) };
    match it {
        Item::UInt(v, _) => Item::UInt(*v, w(g, *v)),
        Item::NInt(v, _) => Item::NInt(*v, w(g, *v)),
        Item::Bytes(b, _) => {
            if chunk && g.chance(90) {
                let cuts = split_points(g, b.len());
                Item::BytesIndef(cuts.windows(2).map(|c| { let s = b[c[0] .. c[1]].to_vec(); let ww = w(g, s.len() as u64); (s, ww) }).collect())
            } else { Item::Bytes(b.clone(), w(g, b.len() as u64)) }
        }
        Item::Text(s, _) => {
            if chunk && g.chance(90) {
                let mut cuts = split_points(g, s.len());
                for c in cuts.iter_mut() { while !s.is_char_boundary(*c) { *c -= 1 } }
                cuts.dedup();
                if cuts.len() < 2 { cuts = vec![0, s.len()] }
                Item::TextIndef(cuts.windows(2).map(|c| { let p = s[c[0] .. c[1]].to_string(); let ww = w(g, p.len() as u64); (p, ww) }).collect())
            } else { Item::Text(s.clone(), w(g, s.len() as u64)) }
        }
        Item::BytesIndef(cs) => Item::BytesIndef(cs.iter().map(|(c, _)| (c.clone(), w(g, c.len() as u64))).collect()),
        Item::TextIndef(cs) => Item::TextIndef(cs.iter().map(|(c, _)| (c.clone(), w(g, c.len() as u64))).collect()),
        Item::Array(xs, _) => {
            let v: Vec<Item> = xs.iter().map(|x| reframe(g, x, indef_containers, chunk, wide)).collect();
            let f = if indef_containers && g.chance(110) { None } else { Some(w(g, v.len() as u64)) };
            Item::Array(v, f)
        }
        Item::Map(xs, _) => {
            let v: Vec<(Item, Item)> = xs.iter().map(|(k, x)| (reframe(g, k, indef_containers, chunk, wide), reframe(g, x, indef_containers, chunk, wide))).collect();
            let f = if indef_containers && g.chance(110) { None } else { Some(w(g, v.len() as u64)) };
            Item::Map(v, f)
        }
        Item::Tag(t, _, x) => Item::Tag(*t, w(g, *t), Box::new(reframe(g, x, indef_containers, chunk, wide))),
        other => other.clone()
    }
}

/// Sorted cut points 0 = c0 <= c1 <= ... = n (may contain empty pieces; 0..=3 pieces for n == 0).
fn split_points(g: &mut Gen, n: usize) -> Vec<usize> {
    let k = g.below(4);
    let mut cuts = vec![0usize];
    for _ in 0 .. k { cuts.push(g.below(n + 1)) }
    cuts.push(n);
    cuts.sort_unstable();
    if n == 0 && g.bool() { return vec![0] } // zero chunks
    cuts
}

/// Structure-aware mutation of a (usually valid) encoding. Returns the mutated bytes and a label.
pub fn mutate(g: &mut Gen, bytes: &[u8]) -> (Vec<u8>, &'static str) {
    let mut out = bytes.to_vec();
    // Collect head offsets by walking the encoding leniently.
    let heads = head_offsets(bytes);
    let pick_head = |g: &mut Gen| -> usize { if heads.is_empty() { 0 } else { heads[g.below(heads.len())] } };
    match g.below(12) {
        0 => { let n = g.below(bytes.len() + 1); out.truncate(n); (out, "truncate") }
        1 => {
            if out.is_empty() { return (out, "noop") }
            let i = g.below(out.len()); out[i] ^= 1 << g.below(8); (out, "bitflip")
        }
        2 => {
            // set the argument of a head to an extreme value with a wide head
            if out.is_empty() { return (out, "noop") }
            let h = pick_head(g);
            let major = out[h] & 0xe0;
            let (ai, arg): (u8, Vec<u8>) = match g.below(6) {
                0 => (27, vec![0xff; 8]),
                1 => (27, vec![0x7f, 0xff, 0xff, 0xff, 0xff, 0xff, 0xff, 0xff]),
                2 => (26, vec![0xff; 4]),
                3 => (25, vec![0xff; 2]),
                4 => (27, vec![0, 0, 0, 1, 0, 0, 0, 0]),
                _ => (26, vec![0x00, 0x01, 0x86, 0xa0])
            };
            let hl = head_len_at(&out, h);
            out.splice(h .. (h + hl).min(out.len()), std::iter::once(major | ai).chain(arg));
            (out, "extreme-arg")
        }
        3 => {
            // inflate a declared length / count by a small amount
            if out.is_empty() { return (out, "noop") }
            let h = pick_head(g);
            let ai = out[h] & 0x1f;
            if ai < 23 { out[h] += 1 } else if ai == 24 && h + 1 < out.len() { out[h + 1] = out[h + 1].wrapping_add(1 + g.below(3) as u8) }
            (out, "inflate")
        }
        4 => {
            // swap the major type of a head
            if out.is_empty() { return (out, "noop") }
            let h = pick_head(g);
            out[h] = (out[h] & 0x1f) | ((g.below(8) as u8) << 5);
            (out, "swap-major")
        }
        5 => { let i = g.below(out.len() + 1); out.insert(i, 0xff); (out, "insert-break") }
        6 => {
            // duplicate a sub-range
            if out.is_empty() { return (out, "noop") }
            let a = pick_head(g); let b = (a + 1 + g.below(out.len() - a)).min(out.len());
            let piece = out[a .. b].to_vec();
            let at = g.below(out.len() + 1);
            out.splice(at .. at, piece);
            (out, "duplicate")
        }
        7 => {
            // make a head indefinite
            if out.is_empty() { return (out, "noop") }
            let h = pick_head(g);
            let hl = head_len_at(&out, h);
            let major = out[h] & 0xe0;
            out.splice(h .. (h + hl).min(out.len()), std::iter::once(major | 31));
            (out, "make-indefinite")
        }
        8 => {
            // reserved additional information
            if out.is_empty() { return (out, "noop") }
            let h = pick_head(g);
            out[h] = (out[h] & 0xe0) | (28 + g.below(3) as u8);
            (out, "reserved-ai")
        }
        9 => {
            // remove a byte
            if out.is_empty() { return (out, "noop") }
            let i = g.below(out.len()); out.remove(i); (out, "delete-byte")
        }
        10 => {
            // overwrite a byte with an arbitrary one
            if out.is_empty() { return (out, "noop") }
            let i = g.below(out.len()); out[i] = g.byte(); (out, "set-byte")
        }
        _ => {
            // append junk
            let n = 1 + g.below(8);
            for _ in 0 .. n { out.push(g.byte()) }
            (out, "append")
        }
    }
}

fn head_len_at(b: &[u8], h: usize) -> usize {
    match b.get(h).map(|x| x & 0x1f) { Some(24) => 2, Some(25) => 3, Some(26) => 5, Some(27) => 9, _ => 1 }
}

/// Offsets of item heads (lenient walk: stops at the first thing it cannot follow).
pub fn head_offsets(b: &[u8]) -> Vec<usize> {
    let mut out = Vec::new();
    let mut p = 0usize;
    while p < b.len() && out.len() < 4096 {
        out.push(p);
        let ib = b[p];
        let major = ib >> 5;
        let hl = head_len_at(b, p);
        let arg: u64 = match ib & 0x1f {
            n @ 0 ..= 23 => n as u64,
            24 => b.get(p + 1).copied().unwrap_or(0) as u64,
            25 => b.get(p + 1 .. p + 3).map(|x| u16::from_be_bytes([x[0], x[1]]) as u64).unwrap_or(0),
            26 => b.get(p + 1 .. p + 5).map(|x| u32::from_be_bytes([x[0], x[1], x[2], x[3]]) as u64).unwrap_or(0),
            27 => b.get(p + 1 .. p + 9).map(|x| u64::from_be_bytes([x[0], x[1], x[2], x[3], x[4], x[5], x[6], x[7]])).unwrap_or(0),
            _ => 0
        };
        p += hl;
        if (major == 2 || major == 3) && (ib & 0x1f) < 28 {
            p = p.saturating_add(arg.min(b.len() as u64) as usize);
        }
    }
    out
}

// ---------------------------------------------------------------------------------------------
// Exhaustive enumeration of small item trees.

fn leaf_reps() -> Vec<Item> {
    vec![
        Item::uint(0), Item::uint(23), Item::uint(24), Item::uint(255), Item::uint(256), Item::uint(65536), Item::uint(1 << 32), Item::uint(u64::MAX),
        Item::nint(0), Item::nint(23), Item::nint(24), Item::nint(127), Item::nint(128), Item::nint(255), Item::nint(32768), Item::nint(u64::MAX),
        Item::bytes(b""), Item::bytes(b"\x01"), Item::text(""), Item::text("a"), Item::text("é"),
        Item::BytesIndef(vec![]), Item::BytesIndef(vec![(b"\x01".to_vec(), W::Imm)]), Item::BytesIndef(vec![(vec![], W::Imm), (b"\x02\x03".to_vec(), W::Imm)]),
        Item::TextIndef(vec![]), Item::TextIndef(vec![("a".to_string(), W::Imm), ("é".to_string(), W::Imm)]),
        Item::False, Item::True, Item::Null, Item::Undefined, Item::Simple(0), Item::Simple(19), Item::Simple(32), Item::Simple(255),
        Item::F16(0x3c00), Item::F16(0x7e00), Item::F32(0x3fc0_0000), Item::F64(0x3ff8_0000_0000_0000),
    ]
}

/// All item trees with at most `k` nodes over the leaf representatives, arrays, maps (definite and
/// indefinite) and tags, in preferred head widths. `k <= 4` is practical.
pub fn small_shapes(k: usize) -> Vec<Item> {
    // by_size[n] = all trees with exactly n nodes
    let mut by_size: Vec<Vec<Item>> = vec![vec![]; k + 1];
    if k == 0 { return vec![] }
    let mut one = leaf_reps();
    one.push(Item::Array(vec![], Some(W::Imm)));
    one.push(Item::Array(vec![], None));
    one.push(Item::Map(vec![], Some(W::Imm)));
    one.push(Item::Map(vec![], None));
    by_size[1] = one;
    // sequences of trees with total node count n: all_seqs(n) -> Vec<Vec<Item>>
    fn seqs(by_size: &[Vec<Item>], n: usize, max_len: usize) -> Vec<Vec<Item>> {
        if n == 0 { return vec![vec![]] }
        if max_len == 0 { return vec![] }
        let mut out = Vec::new();
        for first in 1 ..= n {
            for head in &by_size[first] {
                for tail in seqs(by_size, n - first, max_len - 1) {
                    let mut v = Vec::with_capacity(tail.len() + 1);
                    v.push(head.clone());
                    v.extend(tail);
                    out.push(v);
                }
            }
        }
        out
    }
    for n in 2 ..= k {
        let mut cur = Vec::new();
        // tag over a tree with n-1 nodes (two tag numbers: immediate and one-byte)
        for x in &by_size[n - 1] { cur.push(Item::tag(1, x.clone())); }
        if n == 2 { for x in &by_size[1] { cur.push(Item::tag(55799, x.clone())); } }
        // arrays whose children have n-1 nodes in total
        for s in seqs(&by_size, n - 1, n - 1) {
            cur.push(Item::array(s.clone()));
            cur.push(Item::Array(s, None));
        }
        // maps: pairs; children total n-1 nodes, even count of children
        for s in seqs(&by_size, n - 1, n - 1) {
            if s.len() % 2 != 0 { continue }
            let pairs: Vec<(Item, Item)> = s.chunks(2).map(|c| (c[0].clone(), c[1].clone())).collect();
            cur.push(Item::map(pairs.clone()));
            cur.push(Item::Map(pairs, None));
        }
        by_size[n] = cur;
    }
    by_size.into_iter().flatten().collect()
}

/// Structural shapes only (few leaf kinds): for skip-style checks where leaves are interchangeable.
pub fn small_structures(k: usize) -> Vec<Item> {
    fn reduce(i: &Item) -> bool {
        // keep only trees whose leaves are from a tiny set
        match i {
            Item::UInt(v, _) => *v == 0 || *v == 24,
            Item::NInt(v, _) => *v == 255,
            Item::Bytes(b, _) => b.len() == 1,
            Item::Text(s, _) => s == "a",
            Item::BytesIndef(c) => c.len() == 2,
            Item::TextIndef(c) => c.len() == 2 || c.is_empty(),
            Item::Null | Item::F16(0x3c00) | Item::Simple(255) => true,
            Item::Array(xs, _) => xs.iter().all(reduce),
            Item::Map(xs, _) => xs.iter().all(|(k, v)| reduce(k) && reduce(v)),
            Item::Tag(t, _, x) => *t == 1 && reduce(x),
            _ => false
        }
    }
    // build with a reduced leaf set directly for larger k
    let mut by_size: Vec<Vec<Item>> = vec![vec![]; k + 1];
    if k == 0 { return vec![] }
    let mut one: Vec<Item> = leaf_reps().into_iter().filter(reduce).collect();
    one.push(Item::Array(vec![], Some(W::Imm)));
    one.push(Item::Array(vec![], None));
    one.push(Item::Map(vec![], Some(W::Imm)));
    one.push(Item::Map(vec![], None));
    by_size[1] = one;
    fn seqs(by_size: &[Vec<Item>], n: usize) -> Vec<Vec<Item>> {
        if n == 0 { return vec![vec![]] }
        let mut out = Vec::new();
        for first in 1 ..= n {
            for head in &by_size[first] {
                for tail in seqs(by_size, n - first) {
                    let mut v = Vec::with_capacity(tail.len() + 1);
                    v.push(head.clone());
                    v.extend(tail);
                    out.push(v);
                }
            }
        }
        out
    }
    for n in 2 ..= k {
        let mut cur = Vec::new();
        for x in &by_size[n - 1] { cur.push(Item::tag(1, x.clone())); }
        for s in seqs(&by_size, n - 1) {
            cur.push(Item::array(s.clone()));
            cur.push(Item::Array(s.clone(), None));
            if s.len() % 2 == 0 {
                let pairs: Vec<(Item, Item)> = s.chunks(2).map(|c| (c[0].clone(), c[1].clone())).collect();
                cur.push(Item::map(pairs.clone()));
                cur.push(Item::Map(pairs, None));
            }
        }
        by_size[n] = cur;
    }
    by_size.into_iter().flatten().collect()
}

fn head_arg(i: &Item) -> Option<u64> {
    match i {
        Item::UInt(v, _) | Item::NInt(v, _) => Some(*v),
        Item::Bytes(b, _) => Some(b.len() as u64),
        Item::Text(s, _) => Some(s.len() as u64),
        Item::Array(xs, Some(_)) => Some(xs.len() as u64),
        Item::Map(xs, Some(_)) => Some(xs.len() as u64),
        Item::Tag(t, _, _) => Some(*t),
        _ => None
    }
}

/// Number of head-width assignments of a tree (product over all heads of the admissible widths).
pub fn framing_count(i: &Item) -> u64 {
    let own = head_arg(i).map(|v| W::at_least(v).len() as u64).unwrap_or(1);
    let kids: u64 = match i {
        Item::BytesIndef(cs) => cs.iter().map(|(c, _)| W::at_least(c.len() as u64).len() as u64).product(),
        Item::TextIndef(cs) => cs.iter().map(|(c, _)| W::at_least(c.len() as u64).len() as u64).product(),
        Item::Array(xs, _) => xs.iter().map(framing_count).fold(1u64, |a, b| a.saturating_mul(b)),
        Item::Map(xs, _) => xs.iter().map(|(k, v)| framing_count(k).saturating_mul(framing_count(v))).fold(1u64, |a, b| a.saturating_mul(b)),
        Item::Tag(_, _, x) => framing_count(x),
        _ => 1
    };
    own.saturating_mul(kids)
}

/// The `idx`-th head-width assignment (mixed radix, pre-order).
pub fn apply_framing(i: &Item, idx: &mut u64) -> Item {
    let mut pick = |v: u64, idx: &mut u64| -> W { let ws = W::at_least(v); let w = ws[(*idx % ws.len() as u64) as usize]; *idx /= ws.len() as u64; w };
    match i {
        Item::UInt(v, _) => Item::UInt(*v, pick(*v, idx)),
        Item::NInt(v, _) => Item::NInt(*v, pick(*v, idx)),
        Item::Bytes(b, _) => Item::Bytes(b.clone(), pick(b.len() as u64, idx)),
        Item::Text(s, _) => Item::Text(s.clone(), pick(s.len() as u64, idx)),
        Item::BytesIndef(cs) => Item::BytesIndef(cs.iter().map(|(c, _)| (c.clone(), pick(c.len() as u64, idx))).collect()),
        Item::TextIndef(cs) => Item::TextIndef(cs.iter().map(|(c, _)| (c.clone(), pick(c.len() as u64, idx))).collect()),
        Item::Array(xs, f) => { let w = f.map(|_| pick(xs.len() as u64, idx)); Item::Array(xs.iter().map(|x| apply_framing(x, idx)).collect(), w) }
        Item::Map(xs, f) => { let w = f.map(|_| pick(xs.len() as u64, idx)); Item::Map(xs.iter().map(|(k, v)| { let kk = apply_framing(k, idx); let vv = apply_framing(v, idx); (kk, vv) }).collect(), w) }
        Item::Tag(t, _, x) => { let w = pick(*t, idx); Item::Tag(*t, w, Box::new(apply_framing(x, idx))) }
        o => o.clone()
    }
}

/// A lazily indexable space: all (shape, framing) pairs of `shapes`.
pub struct FramedSpace { pub shapes: Vec<Item>, prefix: Vec<u64> }

impl FramedSpace {
    pub fn new(shapes: Vec<Item>) -> Self {
        let mut prefix = Vec::with_capacity(shapes.len() + 1);
        let mut acc = 0u64;
        prefix.push(0);
        for s in &shapes { acc += framing_count(s); prefix.push(acc) }
        FramedSpace { shapes, prefix }
    }
    pub fn len(&self) -> u64 { *self.prefix.last().unwrap() }
    pub fn is_empty(&self) -> bool { self.len() == 0 }
    pub fn get(&self, i: u64) -> Item {
        let s = match self.prefix.binary_search(&i) { Ok(p) => p, Err(p) => p - 1 };
        let s = s.min(self.shapes.len() - 1);
        let mut idx = i - self.prefix[s];
        apply_framing(&self.shapes[s], &mut idx)
    }
}


/// Number of chain kinds understood by [`chain`].
pub const CHAIN_KINDS: usize = 9;

/// A nesting chain of `n` levels built directly as bytes (no recursion anywhere, so depths of 10^5 are fine):
/// returns the encoding, its diagnostic notation and whether an indefinite array/map sits inside a definite one.
/// kind 0: tags `6(6(..0..))`; 1: one-element arrays `[[..0..]]`; 2: indefinite arrays `[_ [_ ..0..]]`;
/// 3: arrays nested in first position `[[..0.., 1], 1]`; 4: maps nested in key position `{{..0..: 1}: 1}`;
/// 5: maps nested in value position `{0: {0: ..1..}}`; 6: tag + indefinite array `1([_ 1([_ ..0..])])`;
/// 7: indefinite maps in value position `{_ 0: {_ 0: ..1..}}`; 8: alternating indefinite / definite arrays `[_ [[_ [..0..]]]]`.
pub fn chain(kind: usize, n: usize) -> (Vec<u8>, String, bool) {
    let (open, core, close, ropen, rcore, rclose, indef_in_def): (&[u8], &[u8], &[u8], &str, &str, &str, bool) = match kind % CHAIN_KINDS {
        0 => (&[0xc6], &[0x00], &[], "6(", "0", ")", false),
        1 => (&[0x81], &[0x00], &[], "[", "0", "]", false),
        2 => (&[0x9f], &[0x00], &[0xff], "[_ ", "0", "]", false),
        3 => (&[0x82], &[0x00], &[0x01], "[", "0", ", 1]", false),
        4 => (&[0xa1], &[0x00], &[0x01], "{", "0", ": 1}", false),
        5 => (&[0xa1, 0x00], &[0x01], &[], "{0: ", "1", "}", false),
        6 => (&[0xc1, 0x9f], &[0x00], &[0xff], "1([_ ", "0", "])", false),
        7 => (&[0xbf, 0x00], &[0x01], &[0xff], "{_ 0: ", "1", "}", false),
        _ => (&[0x9f, 0x81], &[0x00], &[0xff], "[_ [", "0", "]]", n >= 2),
    };
    let mut b = Vec::with_capacity(n * (open.len() + close.len()) + core.len());
    let mut r = String::with_capacity(n * (ropen.len() + rclose.len()) + rcore.len());
    for _ in 0 .. n { b.extend_from_slice(open); r.push_str(ropen) }
    b.extend_from_slice(core); r.push_str(rcore);
    for _ in 0 .. n { b.extend_from_slice(close); r.push_str(rclose) }
    (b, r, indef_in_def)
}
