//! Independent CBOR (RFC 8949) data model, reference serialiser, well-formedness
//! parser and diagnostic renderer. Written from the RFC; shares no code with minicbor.

use crate::half_ref;

/// Width of a head argument: immediate (in the initial byte) or 1/2/4/8 following bytes.
#[derive(Clone, Copy, Debug, PartialEq, Eq, PartialOrd, Ord, Hash)]
pub enum W { Imm, W1, W2, W4, W8 }

impl W {
    pub const ALL: [W; 5] = [W::Imm, W::W1, W::W2, W::W4, W::W8];

    /// Minimal (preferred) width for an argument value.
    pub fn min_for(v: u64) -> W {
        if v < 24 { W::Imm }
        else if v <= 0xff { W::W1 }
        else if v <= 0xffff { W::W2 }
        else if v <= 0xffff_ffff { W::W4 }
        else { W::W8 }
    }

    pub fn head_len(self) -> usize {
        match self { W::Imm => 1, W::W1 => 2, W::W2 => 3, W::W4 => 5, W::W8 => 9 }
    }

    /// All widths able to carry `v`.
    pub fn at_least(v: u64) -> &'static [W] {
        let m = W::min_for(v);
        let i = W::ALL.iter().position(|w| *w == m).unwrap();
        &W::ALL[i ..]
    }

    pub fn index(self) -> usize {
        W::ALL.iter().position(|w| *w == self).unwrap()
    }
}

#[derive(Clone, Debug, PartialEq)]
pub enum Item {
    UInt(u64, W),
    /// Negative integer `-1 - n`.
    NInt(u64, W),
    Bytes(Vec<u8>, W),
    BytesIndef(Vec<(Vec<u8>, W)>),
    Text(String, W),
    TextIndef(Vec<(String, W)>),
    /// `None` = indefinite length.
    Array(Vec<Item>, Option<W>),
    Map(Vec<(Item, Item)>, Option<W>),
    Tag(u64, W, Box<Item>),
    /// Simple values other than false/true/null/undefined: 0..=19 and 32..=255.
    Simple(u8),
    False,
    True,
    Null,
    Undefined,
    F16(u16),
    F32(u32),
    F64(u64),
}

pub fn write_head(out: &mut Vec<u8>, major: u8, arg: u64, w: W) {
    let m = major << 5;
    match w {
        W::Imm => { debug_assert!(arg < 24); out.push(m | arg as u8) }
        W::W1  => { out.push(m | 24); out.push(arg as u8) }
        W::W2  => { out.push(m | 25); out.extend_from_slice(&(arg as u16).to_be_bytes()) }
        W::W4  => { out.push(m | 26); out.extend_from_slice(&(arg as u32).to_be_bytes()) }
        W::W8  => { out.push(m | 27); out.extend_from_slice(&arg.to_be_bytes()) }
    }
}

impl Item {
    pub fn uint(v: u64) -> Item { Item::UInt(v, W::min_for(v)) }
    pub fn nint(v: u64) -> Item { Item::NInt(v, W::min_for(v)) }
    /// Integer from a mathematical value in [-2^64, 2^64-1].
    pub fn int(v: i128) -> Item {
        if v >= 0 { Item::uint(v as u64) } else { Item::nint((-1 - v) as u64) }
    }
    pub fn bytes(b: &[u8]) -> Item { Item::Bytes(b.to_vec(), W::min_for(b.len() as u64)) }
    pub fn text(s: &str) -> Item { Item::Text(s.to_string(), W::min_for(s.len() as u64)) }
    pub fn array(v: Vec<Item>) -> Item { let w = W::min_for(v.len() as u64); Item::Array(v, Some(w)) }
    pub fn map(v: Vec<(Item, Item)>) -> Item { let w = W::min_for(v.len() as u64); Item::Map(v, Some(w)) }
    pub fn tag(t: u64, i: Item) -> Item { Item::Tag(t, W::min_for(t), Box::new(i)) }
    pub fn bool(b: bool) -> Item { if b { Item::True } else { Item::False } }

    /// Serialise honouring the framing recorded in the tree.
    pub fn encode(&self) -> Vec<u8> {
        let mut out = Vec::new();
        self.encode_into(&mut out);
        out
    }

    pub fn encode_into(&self, out: &mut Vec<u8>) {
        match self {
            Item::UInt(v, w) => write_head(out, 0, *v, *w),
            Item::NInt(v, w) => write_head(out, 1, *v, *w),
            Item::Bytes(b, w) => { write_head(out, 2, b.len() as u64, *w); out.extend_from_slice(b) }
            Item::BytesIndef(chunks) => {
                out.push(0x5f);
                for (b, w) in chunks { write_head(out, 2, b.len() as u64, *w); out.extend_from_slice(b) }
                out.push(0xff)
            }
            Item::Text(s, w) => { write_head(out, 3, s.len() as u64, *w); out.extend_from_slice(s.as_bytes()) }
            Item::TextIndef(chunks) => {
                out.push(0x7f);
                for (s, w) in chunks { write_head(out, 3, s.len() as u64, *w); out.extend_from_slice(s.as_bytes()) }
                out.push(0xff)
            }
            Item::Array(xs, Some(w)) => { write_head(out, 4, xs.len() as u64, *w); for x in xs { x.encode_into(out) } }
            Item::Array(xs, None) => { out.push(0x9f); for x in xs { x.encode_into(out) } out.push(0xff) }
            Item::Map(xs, Some(w)) => {
                write_head(out, 5, xs.len() as u64, *w);
                for (k, v) in xs { k.encode_into(out); v.encode_into(out) }
            }
            Item::Map(xs, None) => {
                out.push(0xbf);
                for (k, v) in xs { k.encode_into(out); v.encode_into(out) }
                out.push(0xff)
            }
            Item::Tag(t, w, x) => { write_head(out, 6, *t, *w); x.encode_into(out) }
            Item::Simple(n) => {
                if *n < 24 { out.push(0xe0 | *n) } else { out.push(0xf8); out.push(*n) }
            }
            Item::False => out.push(0xf4),
            Item::True => out.push(0xf5),
            Item::Null => out.push(0xf6),
            Item::Undefined => out.push(0xf7),
            Item::F16(b) => { out.push(0xf9); out.extend_from_slice(&b.to_be_bytes()) }
            Item::F32(b) => { out.push(0xfa); out.extend_from_slice(&b.to_be_bytes()) }
            Item::F64(b) => { out.push(0xfb); out.extend_from_slice(&b.to_be_bytes()) }
        }
    }

    /// The same data-model value in preferred, definite-length serialisation
    /// (RFC 8949 §4.2.1 for heads; floats keep their width).
    pub fn preferred(&self) -> Item {
        match self {
            Item::UInt(v, _) => Item::uint(*v),
            Item::NInt(v, _) => Item::nint(*v),
            Item::Bytes(b, _) => Item::bytes(b),
            Item::BytesIndef(cs) => {
                let mut all = Vec::new();
                for (c, _) in cs { all.extend_from_slice(c) }
                Item::bytes(&all)
            }
            Item::Text(s, _) => Item::text(s),
            Item::TextIndef(cs) => {
                let mut all = String::new();
                for (c, _) in cs { all.push_str(c) }
                Item::text(&all)
            }
            Item::Array(xs, _) => Item::array(xs.iter().map(|x| x.preferred()).collect()),
            Item::Map(xs, _) => Item::map(xs.iter().map(|(k, v)| (k.preferred(), v.preferred())).collect()),
            Item::Tag(t, _, x) => Item::tag(*t, x.preferred()),
            other => other.clone()
        }
    }

    /// Shorten head arguments only; keep definite/indefinite structure and chunking.
    pub fn preferred_heads(&self) -> Item {
        match self {
            Item::UInt(v, _) => Item::uint(*v),
            Item::NInt(v, _) => Item::nint(*v),
            Item::Bytes(b, _) => Item::bytes(b),
            Item::BytesIndef(cs) => Item::BytesIndef(cs.iter().map(|(c, _)| (c.clone(), W::min_for(c.len() as u64))).collect()),
            Item::Text(s, _) => Item::text(s),
            Item::TextIndef(cs) => Item::TextIndef(cs.iter().map(|(c, _)| (c.clone(), W::min_for(c.len() as u64))).collect()),
            Item::Array(xs, f) => {
                let v: Vec<Item> = xs.iter().map(|x| x.preferred_heads()).collect();
                let w = f.map(|_| W::min_for(v.len() as u64));
                Item::Array(v, w)
            }
            Item::Map(xs, f) => {
                let v: Vec<(Item, Item)> = xs.iter().map(|(k, v)| (k.preferred_heads(), v.preferred_heads())).collect();
                let w = f.map(|_| W::min_for(v.len() as u64));
                Item::Map(v, w)
            }
            Item::Tag(t, _, x) => Item::tag(*t, x.preferred_heads()),
            other => other.clone()
        }
    }

    /// Data-model equality (framing ignored).
    pub fn value_eq(&self, other: &Item) -> bool {
        self.preferred() == other.preferred()
    }

    pub fn is_preferred(&self) -> bool {
        *self == self.preferred()
    }

    pub fn is_preferred_heads(&self) -> bool {
        *self == self.preferred_heads()
    }

    pub fn node_count(&self) -> usize {
        match self {
            Item::Array(xs, _) => 1 + xs.iter().map(|x| x.node_count()).sum::<usize>(),
            Item::Map(xs, _) => 1 + xs.iter().map(|(k, v)| k.node_count() + v.node_count()).sum::<usize>(),
            Item::Tag(_, _, x) => 1 + x.node_count(),
            _ => 1
        }
    }

    pub fn depth(&self) -> usize {
        match self {
            Item::Array(xs, _) => 1 + xs.iter().map(|x| x.depth()).max().unwrap_or(0),
            Item::Map(xs, _) => 1 + xs.iter().map(|(k, v)| k.depth().max(v.depth())).max().unwrap_or(0),
            Item::Tag(_, _, x) => 1 + x.depth(),
            _ => 1
        }
    }

    pub fn has_container(&self) -> bool {
        matches!(self, Item::Array(..) | Item::Map(..) | Item::Tag(..) | Item::BytesIndef(_) | Item::TextIndef(_))
    }

    /// Does the tree contain an indefinite array/map that has a *definite* array/map ancestor?
    /// (The nesting the no-alloc `skip` is documented not to support.)
    pub fn has_indef_in_def(&self) -> bool {
        fn go(i: &Item, under_def: bool) -> bool {
            match i {
                Item::Array(xs, f) => {
                    if f.is_none() && under_def { return true }
                    let u = under_def || f.is_some();
                    xs.iter().any(|x| go(x, u))
                }
                Item::Map(xs, f) => {
                    if f.is_none() && under_def { return true }
                    let u = under_def || f.is_some();
                    xs.iter().any(|(k, v)| go(k, u) || go(v, u))
                }
                Item::Tag(_, _, x) => go(x, under_def),
                _ => false
            }
        }
        go(self, false)
    }

    pub fn has_indefinite(&self) -> bool {
        match self {
            Item::BytesIndef(_) | Item::TextIndef(_) => true,
            Item::Array(xs, f) => f.is_none() || xs.iter().any(|x| x.has_indefinite()),
            Item::Map(xs, f) => f.is_none() || xs.iter().any(|(k, v)| k.has_indefinite() || v.has_indefinite()),
            Item::Tag(_, _, x) => x.has_indefinite(),
            _ => false
        }
    }

    pub fn has_f16(&self) -> bool {
        match self {
            Item::F16(_) => true,
            Item::Array(xs, _) => xs.iter().any(|x| x.has_f16()),
            Item::Map(xs, _) => xs.iter().any(|(k, v)| k.has_f16() || v.has_f16()),
            Item::Tag(_, _, x) => x.has_f16(),
            _ => false
        }
    }

    /// Mathematical value of an integer item.
    pub fn as_int(&self) -> Option<i128> {
        match self {
            Item::UInt(v, _) => Some(*v as i128),
            Item::NInt(v, _) => Some(-1 - (*v as i128)),
            _ => None
        }
    }

    /// Diagnostic notation as documented for `minicbor::display` (lib.rs) and
    /// `Token`'s `Display` (scalars use Rust's `{}` / `{:e}`).
    pub fn render(&self) -> String {
        let mut s = String::new();
        self.render_into(&mut s);
        s
    }

    fn render_into(&self, s: &mut String) {
        use std::fmt::Write;
        fn hex(s: &mut String, b: &[u8]) {
            s.push_str("h'");
            for (i, x) in b.iter().enumerate() {
                if i > 0 { s.push(' ') }
                let _ = write!(s, "{:02x}", x);
            }
            s.push('\'');
        }
        match self {
            Item::UInt(v, _) => { let _ = write!(s, "{}", v); }
            Item::NInt(v, _) => { let _ = write!(s, "{}", -1 - (*v as i128)); }
            Item::Bytes(b, _) => hex(s, b),
            Item::BytesIndef(cs) => {
                if cs.is_empty() { s.push_str("''_") } else {
                    s.push_str("(_ ");
                    for (i, (c, _)) in cs.iter().enumerate() {
                        if i > 0 { s.push_str(", ") }
                        hex(s, c)
                    }
                    s.push(')')
                }
            }
            Item::Text(t, _) => { s.push('"'); s.push_str(t); s.push('"') }
            Item::TextIndef(cs) => {
                if cs.is_empty() { s.push_str("\"\"_") } else {
                    s.push_str("(_ ");
                    for (i, (c, _)) in cs.iter().enumerate() {
                        if i > 0 { s.push_str(", ") }
                        s.push('"'); s.push_str(c); s.push('"')
                    }
                    s.push(')')
                }
            }
            Item::Array(xs, f) => {
                s.push_str(if f.is_some() { "[" } else { "[_ " });
                for (i, x) in xs.iter().enumerate() {
                    if i > 0 { s.push_str(", ") }
                    x.render_into(s)
                }
                s.push(']')
            }
            Item::Map(xs, f) => {
                s.push_str(if f.is_some() { "{" } else { "{_ " });
                for (i, (k, v)) in xs.iter().enumerate() {
                    if i > 0 { s.push_str(", ") }
                    k.render_into(s);
                    s.push_str(": ");
                    v.render_into(s)
                }
                s.push('}')
            }
            Item::Tag(t, _, x) => { let _ = write!(s, "{}(", t); x.render_into(s); s.push(')') }
            Item::Simple(n) => { let _ = write!(s, "simple({})", n); }
            Item::False => s.push_str("false"),
            Item::True => s.push_str("true"),
            Item::Null => s.push_str("null"),
            Item::Undefined => s.push_str("undefined"),
            Item::F16(b) => { let _ = write!(s, "{:e}", half_ref::f16_bits_to_f64(*b) as f32); }
            Item::F32(b) => { let _ = write!(s, "{:e}", f32::from_bits(*b)); }
            Item::F64(b) => { let _ = write!(s, "{:e}", f64::from_bits(*b)); }
        }
    }
}

#[derive(Clone, Debug, PartialEq, Eq)]
pub enum WfErr {
    /// The input ends before the item is complete.
    Truncated,
    /// The bytes are not well-formed CBOR (reason, offset).
    IllFormed(&'static str, usize),
    /// Nesting deeper than the tree builder supports (not an ill-formedness verdict).
    TooDeep
}

/// Read a head at `pos`. Returns (major, additional info, argument, width, head length).
/// For ai == 31 the argument is 0 and the width `Imm`.
pub fn read_head(b: &[u8], pos: usize) -> Result<(u8, u8, u64, W, usize), WfErr> {
    let ib = *b.get(pos).ok_or(WfErr::Truncated)?;
    let major = ib >> 5;
    let ai = ib & 0x1f;
    let need = |n: usize| -> Result<&[u8], WfErr> {
        b.get(pos + 1 .. pos + 1 + n).ok_or(WfErr::Truncated)
    };
    match ai {
        0 ..= 23 => Ok((major, ai, ai as u64, W::Imm, 1)),
        24 => { let x = need(1)?; Ok((major, ai, x[0] as u64, W::W1, 2)) }
        25 => { let x = need(2)?; Ok((major, ai, u16::from_be_bytes([x[0], x[1]]) as u64, W::W2, 3)) }
        26 => { let x = need(4)?; Ok((major, ai, u32::from_be_bytes([x[0], x[1], x[2], x[3]]) as u64, W::W4, 5)) }
        27 => { let x = need(8)?; Ok((major, ai, u64::from_be_bytes([x[0], x[1], x[2], x[3], x[4], x[5], x[6], x[7]]), W::W8, 9)) }
        28 ..= 30 => Err(WfErr::IllFormed("reserved additional information 28..30", pos)),
        _ => Ok((major, 31, 0, W::Imm, 1))
    }
}

/// Iterative RFC 8949 Appendix C well-formedness check of one item at the start of `b`.
/// Returns the item's encoded length. Safe for arbitrarily deep nesting.
pub fn wellformed(b: &[u8]) -> Result<usize, WfErr> {
    // stack of open containers: Some(n) = n items still expected, None = indefinite array/map
    // (for maps, n counts keys and values; an indefinite map tracks parity separately).
    enum Open { Count(u64), IndefArray, IndefMap(bool /* expecting value */), Tag }
    let mut stack: Vec<Open> = Vec::new();
    let mut pos = 0usize;
    loop {
        // A break closes the innermost indefinite container.
        if let Some(&0xff) = b.get(pos) {
            match stack.last() {
                Some(Open::IndefArray) => { stack.pop(); pos += 1; }
                Some(Open::IndefMap(false)) => { stack.pop(); pos += 1; }
                Some(Open::IndefMap(true)) => return Err(WfErr::IllFormed("break after map key (odd number of items)", pos)),
                _ => return Err(WfErr::IllFormed("unexpected break", pos))
            }
        } else {
            let (major, ai, arg, _w, hl) = read_head(b, pos)?;
            match major {
                0 | 1 => {
                    if ai == 31 { return Err(WfErr::IllFormed("indefinite length on integer", pos)) }
                    pos += hl
                }
                2 | 3 => {
                    if ai == 31 {
                        let mut p = pos + 1;
                        loop {
                            match b.get(p) {
                                None => return Err(WfErr::Truncated),
                                Some(0xff) => { p += 1; break }
                                Some(_) => {
                                    let (m2, ai2, n, _, hl2) = read_head(b, p)?;
                                    if m2 != major { return Err(WfErr::IllFormed("chunk of wrong major type", p)) }
                                    if ai2 == 31 { return Err(WfErr::IllFormed("nested indefinite chunk", p)) }
                                    let n = usize::try_from(n).map_err(|_| WfErr::Truncated)?;
                                    let end = (p + hl2).checked_add(n).ok_or(WfErr::Truncated)?;
                                    let body = b.get(p + hl2 .. end).ok_or(WfErr::Truncated)?;
                                    if major == 3 && std::str::from_utf8(body).is_err() {
                                        return Err(WfErr::IllFormed("invalid utf-8 in text chunk", p))
                                    }
                                    p = end
                                }
                            }
                        }
                        pos = p
                    } else {
                        let n = usize::try_from(arg).map_err(|_| WfErr::Truncated)?;
                        let end = (pos + hl).checked_add(n).ok_or(WfErr::Truncated)?;
                        let body = b.get(pos + hl .. end).ok_or(WfErr::Truncated)?;
                        if major == 3 && std::str::from_utf8(body).is_err() {
                            return Err(WfErr::IllFormed("invalid utf-8 in text", pos))
                        }
                        pos = end
                    }
                }
                4 => {
                    pos += hl;
                    if ai == 31 { stack.push(Open::IndefArray); continue }
                    if arg > 0 { stack.push(Open::Count(arg)); continue }
                }
                5 => {
                    pos += hl;
                    if ai == 31 { stack.push(Open::IndefMap(false)); continue }
                    if arg > 0 {
                        // 2*arg items; arg can be up to 2^64-1, saturate (such input is truncated anyway)
                        stack.push(Open::Count(arg.saturating_mul(2)));
                        continue
                    }
                }
                6 => {
                    if ai == 31 { return Err(WfErr::IllFormed("indefinite length on tag", pos)) }
                    pos += hl;
                    stack.push(Open::Tag);
                    continue
                }
                _ => {
                    match ai {
                        0 ..= 23 => pos += 1,
                        24 => {
                            if arg < 32 { return Err(WfErr::IllFormed("two-byte simple value < 32", pos)) }
                            pos += 2
                        }
                        25 | 26 | 27 => pos += hl,
                        _ => unreachable!("break handled above")
                    }
                }
            }
        }
        // one item completed: propagate upwards
        loop {
            match stack.last_mut() {
                None => return Ok(pos),
                Some(Open::Tag) => { stack.pop(); }
                Some(Open::Count(n)) => {
                    *n -= 1;
                    if *n == 0 { stack.pop(); } else { break }
                }
                Some(Open::IndefArray) => break,
                Some(Open::IndefMap(v)) => { *v = !*v; break }
            }
        }
    }
}

const MAX_DEPTH: usize = 200;

/// Parse one well-formed item into a tree (recursive, depth-limited).
pub fn parse(b: &[u8]) -> Result<(Item, usize), WfErr> {
    parse_at(b, 0, 0)
}

fn parse_at(b: &[u8], pos: usize, depth: usize) -> Result<(Item, usize), WfErr> {
    if depth > MAX_DEPTH { return Err(WfErr::TooDeep) }
    let (major, ai, arg, w, hl) = read_head(b, pos)?;
    match major {
        0 | 1 => {
            if ai == 31 { return Err(WfErr::IllFormed("indefinite length on integer", pos)) }
            Ok((if major == 0 { Item::UInt(arg, w) } else { Item::NInt(arg, w) }, pos + hl))
        }
        2 | 3 => {
            let one = |p: usize, n: u64, hl: usize| -> Result<(&[u8], usize), WfErr> {
                let n = usize::try_from(n).map_err(|_| WfErr::Truncated)?;
                let end = (p + hl).checked_add(n).ok_or(WfErr::Truncated)?;
                let body = b.get(p + hl .. end).ok_or(WfErr::Truncated)?;
                Ok((body, end))
            };
            if ai == 31 {
                let mut p = pos + 1;
                let mut bchunks = Vec::new();
                let mut tchunks = Vec::new();
                loop {
                    match b.get(p) {
                        None => return Err(WfErr::Truncated),
                        Some(0xff) => { p += 1; break }
                        Some(_) => {
                            let (m2, ai2, n, w2, hl2) = read_head(b, p)?;
                            if m2 != major { return Err(WfErr::IllFormed("chunk of wrong major type", p)) }
                            if ai2 == 31 { return Err(WfErr::IllFormed("nested indefinite chunk", p)) }
                            let (body, end) = one(p, n, hl2)?;
                            if major == 3 {
                                let s = std::str::from_utf8(body).map_err(|_| WfErr::IllFormed("invalid utf-8 in text chunk", p))?;
                                tchunks.push((s.to_string(), w2))
                            } else {
                                bchunks.push((body.to_vec(), w2))
                            }
                            p = end
                        }
                    }
                }
                Ok((if major == 2 { Item::BytesIndef(bchunks) } else { Item::TextIndef(tchunks) }, p))
            } else {
                let (body, end) = one(pos, arg, hl)?;
                if major == 3 {
                    let s = std::str::from_utf8(body).map_err(|_| WfErr::IllFormed("invalid utf-8 in text", pos))?;
                    Ok((Item::Text(s.to_string(), w), end))
                } else {
                    Ok((Item::Bytes(body.to_vec(), w), end))
                }
            }
        }
        4 => {
            let mut p = pos + hl;
            let mut xs = Vec::new();
            if ai == 31 {
                loop {
                    match b.get(p) {
                        None => return Err(WfErr::Truncated),
                        Some(0xff) => { p += 1; break }
                        Some(_) => { let (x, e) = parse_at(b, p, depth + 1)?; xs.push(x); p = e }
                    }
                }
                Ok((Item::Array(xs, None), p))
            } else {
                for _ in 0 .. arg {
                    let (x, e) = parse_at(b, p, depth + 1)?; xs.push(x); p = e
                }
                Ok((Item::Array(xs, Some(w)), p))
            }
        }
        5 => {
            let mut p = pos + hl;
            let mut xs = Vec::new();
            if ai == 31 {
                loop {
                    match b.get(p) {
                        None => return Err(WfErr::Truncated),
                        Some(0xff) => { p += 1; break }
                        Some(_) => {
                            let (k, e) = parse_at(b, p, depth + 1)?;
                            if let Some(0xff) = b.get(e) {
                                return Err(WfErr::IllFormed("break after map key (odd number of items)", e))
                            }
                            let (v, e) = parse_at(b, e, depth + 1)?;
                            xs.push((k, v)); p = e
                        }
                    }
                }
                Ok((Item::Map(xs, None), p))
            } else {
                for _ in 0 .. arg {
                    let (k, e) = parse_at(b, p, depth + 1)?;
                    let (v, e) = parse_at(b, e, depth + 1)?;
                    xs.push((k, v)); p = e
                }
                Ok((Item::Map(xs, Some(w)), p))
            }
        }
        6 => {
            if ai == 31 { return Err(WfErr::IllFormed("indefinite length on tag", pos)) }
            let (x, e) = parse_at(b, pos + hl, depth + 1)?;
            Ok((Item::Tag(arg, w, Box::new(x)), e))
        }
        _ => {
            match ai {
                20 => Ok((Item::False, pos + 1)),
                21 => Ok((Item::True, pos + 1)),
                22 => Ok((Item::Null, pos + 1)),
                23 => Ok((Item::Undefined, pos + 1)),
                0 ..= 19 => Ok((Item::Simple(ai), pos + 1)),
                24 => {
                    if arg < 32 { return Err(WfErr::IllFormed("two-byte simple value < 32", pos)) }
                    Ok((Item::Simple(arg as u8), pos + 2))
                }
                25 => Ok((Item::F16(arg as u16), pos + 3)),
                26 => Ok((Item::F32(arg as u32), pos + 5)),
                27 => Ok((Item::F64(arg), pos + 9)),
                _ => Err(WfErr::IllFormed("unexpected break", pos))
            }
        }
    }
}

/// Parse a sequence of items covering the whole input.
pub fn parse_seq(b: &[u8]) -> Result<Vec<Item>, WfErr> {
    let mut out = Vec::new();
    let mut p = 0;
    while p < b.len() {
        let (x, n) = parse(&b[p ..])?;
        out.push(x);
        p += n;
    }
    Ok(out)
}

pub fn hex(b: &[u8]) -> String {
    let mut s = String::with_capacity(b.len() * 2);
    for x in b { s.push_str(&format!("{:02x}", x)) }
    s
}

pub fn unhex(s: &str) -> Option<Vec<u8>> {
    let s: Vec<u8> = s.bytes().filter(|c| !c.is_ascii_whitespace()).collect();
    if s.len() % 2 != 0 { return None }
    let mut out = Vec::with_capacity(s.len() / 2);
    for p in s.chunks(2) {
        let h = (p[0] as char).to_digit(16)?;
        let l = (p[1] as char).to_digit(16)?;
        out.push((h * 16 + l) as u8);
    }
    Some(out)
}

#[cfg(test)]
mod tests {
    use super::*;

    #[test]
    fn rfc_examples() {
        // RFC 8949 Appendix A samples: (hex, diagnostic in minicbor's dialect)
        let cases: &[(&str, &str)] = &[
            ("00", "0"), ("17", "23"), ("1818", "24"), ("1903e8", "1000"),
            ("1bffffffffffffffff", "18446744073709551615"),
            ("3bffffffffffffffff", "-18446744073709551616"),
            ("20", "-1"), ("3863", "-100"),
            ("f4", "false"), ("f6", "null"), ("f7", "undefined"), ("f0", "simple(16)"), ("f8ff", "simple(255)"),
            ("c074323031332d30332d32315432303a30343a30305a", "0(\"2013-03-21T20:04:00Z\")"),
            ("4401020304", "h'01 02 03 04'"), ("40", "h''"),
            ("80", "[]"), ("83010203", "[1, 2, 3]"), ("8301820203820405", "[1, [2, 3], [4, 5]]"),
            ("a201020304", "{1: 2, 3: 4}"),
            ("5f42010243030405ff", "(_ h'01 02', h'03 04 05')"),
            ("7f657374726561646d696e67ff", "(_ \"strea\", \"ming\")"),
            ("9fff", "[_ ]"), ("9f018202039f0405ffff", "[_ 1, [2, 3], [_ 4, 5]]"),
            ("bf61610161629f0203ffff", "{_ \"a\": 1, \"b\": [_ 2, 3]}"),
        ];
        for (h, d) in cases {
            let b = unhex(h).unwrap();
            assert_eq!(wellformed(&b), Ok(b.len()), "{}", h);
            let (it, n) = parse(&b).unwrap();
            assert_eq!(n, b.len());
            assert_eq!(it.encode(), b, "{}", h);
            assert_eq!(&it.render(), d, "{}", h);
        }
        for bad in ["ff", "f800", "f81f", "1c", "5f00ff", "7f41ffff", "bf00ff", "9f", "81", "5fff00", "62c328", "dfff", "1f"] {
            let b = unhex(bad).unwrap();
            let r = wellformed(&b);
            assert!(!matches!(r, Ok(n) if n == b.len()), "{} -> {:?}", bad, r);
            assert_eq!(parse(&b).map(|x| x.1).map_err(|e| matches!(e, WfErr::Truncated)),
                       r.map_err(|e| matches!(e, WfErr::Truncated)), "{}", bad);
        }
    }
}
