//! Integer-only reference arithmetic for IEEE 754 binary16 <-> binary32/64.
//! Does not use the `half` crate.

/// Exact value of a half-precision bit pattern as f64 (NaN patterns give some NaN).
pub fn f16_bits_to_f64(b: u16) -> f64 {
    let sign = if b & 0x8000 != 0 { -1.0f64 } else { 1.0 };
    let exp = ((b >> 10) & 0x1f) as i32;
    let man = (b & 0x3ff) as f64;
    if exp == 0 {
        sign * man * 2f64.powi(-24)
    } else if exp == 31 {
        if man == 0.0 { sign * f64::INFINITY } else { f64::NAN }
    } else {
        sign * (1024.0 + man) * 2f64.powi(exp - 25)
    }
}

pub fn f16_is_nan(b: u16) -> bool { (b & 0x7c00) == 0x7c00 && (b & 0x3ff) != 0 }

/// Signalling NaN: exponent all ones, quiet bit (msb of mantissa) clear, mantissa non-zero.
pub fn f16_is_snan(b: u16) -> bool { f16_is_nan(b) && (b & 0x0200) == 0 }

/// binary32 -> binary16, round to nearest, ties to even; overflow -> infinity; NaN -> a quiet NaN.
pub fn f32_bits_to_f16_rne(x: u32) -> u16 {
    let sign = ((x >> 16) & 0x8000) as u16;
    let exp = ((x >> 23) & 0xff) as i32;
    let man = x & 0x7f_ffff;
    if exp == 0xff {
        return if man == 0 { sign | 0x7c00 } else { sign | 0x7e00 }
    }
    let (m, e): (u64, i32) = if exp == 0 { (man as u64, -126 - 23) } else { ((man | 0x80_0000) as u64, exp - 127 - 23) };
    if m == 0 { return sign }
    let msb = 63 - m.leading_zeros() as i32;
    let log2 = msb + e;
    let ulp = core::cmp::max(log2 - 10, -24);
    let shift = e - ulp;
    let mut q: u64 = if shift >= 0 {
        m << shift
    } else {
        let s = (-shift) as u32;
        if s >= 64 { 0 } else {
            let fl = m >> s;
            let rem = m & ((1u64 << s) - 1);
            let half = 1u64 << (s - 1);
            if rem > half || (rem == half && (fl & 1) == 1) { fl + 1 } else { fl }
        }
    };
    let mut ulp = ulp;
    if ulp == -24 {
        // subnormal range (q == 1024 is exactly the smallest normal, same bit layout)
        return sign | (q as u16)
    }
    if q == 2048 { q = 1024; ulp += 1 }
    let biased = ulp + 25;
    if biased >= 31 { return sign | 0x7c00 }
    sign | ((biased as u16) << 10) | ((q - 1024) as u16)
}

#[cfg(test)]
mod tests {
    use super::*;
    #[test]
    fn spot() {
        assert_eq!(f16_bits_to_f64(0x3c00), 1.0);
        assert_eq!(f16_bits_to_f64(0x7bff), 65504.0);
        assert_eq!(f16_bits_to_f64(0x0001), 5.960464477539063e-8);
        assert_eq!(f16_bits_to_f64(0xc400), -4.0);
        assert_eq!(f32_bits_to_f16_rne(1.0f32.to_bits()), 0x3c00);
        assert_eq!(f32_bits_to_f16_rne(65504.0f32.to_bits()), 0x7bff);
        assert_eq!(f32_bits_to_f16_rne(65519.99f32.to_bits()), 0x7bff);
        assert_eq!(f32_bits_to_f16_rne(65520.0f32.to_bits()), 0x7c00);
        assert_eq!(f32_bits_to_f16_rne(1e-10f32.to_bits()), 0x0000);
        assert_eq!(f32_bits_to_f16_rne((-0.0f32).to_bits()), 0x8000);
        // every half value converts back exactly
        for b in 0u16 ..= 0xffff {
            if f16_is_nan(b) { continue }
            let v = f16_bits_to_f64(b) as f32;
            assert_eq!(f32_bits_to_f16_rne(v.to_bits()), b, "{:04x}", b);
        }
        // ties: halfway between 1.0 (0x3c00, even) and next (0x3c01) rounds to even
        let a = f16_bits_to_f64(0x3c00); let c = f16_bits_to_f64(0x3c01);
        assert_eq!(f32_bits_to_f16_rne((((a + c) / 2.0) as f32).to_bits()), 0x3c00);
        let a = f16_bits_to_f64(0x3c01); let c = f16_bits_to_f64(0x3c02);
        assert_eq!(f32_bits_to_f16_rne((((a + c) / 2.0) as f32).to_bits()), 0x3c02);
        // smallest subnormal tie: 2^-25 is halfway between 0 and 2^-24 -> 0 (even)
        assert_eq!(f32_bits_to_f16_rne((2f32.powi(-25)).to_bits()), 0);
        assert_eq!(f32_bits_to_f16_rne((2f32.powi(-25) * 1.0001).to_bits()), 1);
    }
}
