use minicbor::decode::Error;
use vcore::engine::{CaseResult, Fail};

/// Stable error class of a decode error, from the public predicates and, for the classes
/// without a predicate, the documented `Display` prefix.
pub fn eclass(e: &Error) -> &'static str {
    if e.is_end_of_input() { "end_of_input" }
    else if e.is_type_mismatch() { "type_mismatch" }
    else if e.is_tag_mismatch() { "tag_mismatch" }
    else if e.is_message() { "message" }
    else if e.is_custom() { "custom" }
    else if e.is_unknown_variant() { "unknown_variant" }
    else if e.is_missing_value() { "missing_value" }
    else {
        let s = e.to_string();
        if s.starts_with("invalid char") { "invalid_char" }
        else if s.starts_with("invalid utf-8") { "utf8" }
        else if s.contains("overflows target type") { "overflow" }
        else { "other" }
    }
}

/// Run `f`, containing panics, and prefix every failure signature with `name`.
pub fn scoped<F: FnOnce() -> CaseResult>(name: &str, f: F) -> CaseResult {
    match std::panic::catch_unwind(std::panic::AssertUnwindSafe(f)) {
        Ok(Ok(())) => Ok(()),
        Ok(Err(fl)) => Err(Fail::new(format!("{}/{}", name, fl.sig), format!("{}: {}", name, fl.detail))),
        Err(p) => {
            let m = if let Some(s) = p.downcast_ref::<&str>() { s.to_string() } else if let Some(s) = p.downcast_ref::<String>() { s.clone() } else { "?".into() };
            let sig = if m.contains("step budget exceeded") { "step-budget" } else { "panic" };
            Err(Fail::new(format!("{}/{}", name, sig), format!("{}: panicked: {}", name, m)))
        }
    }
}

pub fn short_hex(b: &[u8]) -> String {
    if b.len() <= 48 { vcore::item::hex(b) } else { format!("{}..({} bytes)", vcore::item::hex(&b[.. 48]), b.len()) }
}
