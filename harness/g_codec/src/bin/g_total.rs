//! C02 — decoding untrusted bytes is total.

use g_codec::registry::Entry;
use g_codec::total::{self, drop_check, entry_points, exec, start_positions, EntryPoint};
use g_codec::util::short_hex;
use vcore::engine::{hash_of, CaseResult, Kind, RandomFn, Stats, Sub};
use vcore::gen::{item, mutate, ItemCfg};
use vcore::{Gen, Item};

#[global_allocator]
static ALLOC: total::Counting = total::Counting;

fn eps() -> &'static Vec<EntryPoint> {
    static T: std::sync::OnceLock<Vec<EntryPoint>> = std::sync::OnceLock::new();
    T.get_or_init(entry_points)
}

fn record(st: &mut Stats, ep: &EntryPoint, ok: bool, input: &[u8]) {
    if st.frozen { return }
    let k = if ok { "ok" } else { "err" };
    st.class(&format!("{}/{}", ep.family, k));
    let _ = input;
}

fn run_all(input: &[u8], start: usize, st: &mut Stats) -> Result<usize, vcore::Fail> {
    let mut oks = 0;
    for ep in eps() {
        let ok = exec(ep, input, start)?;
        st.evals(1);
        record(st, ep, ok, input);
        if ok { oks += 1 }
    }
    Ok(oks)
}

fn short_inputs(i: u64, st: &mut Stats) -> CaseResult {
    let (len, v) = if i == 0 { (0, 0) } else if i <= 256 { (1, i - 1) } else if i <= 256 + 65536 { (2, i - 257) } else { (3, i - 257 - 65536) };
    let bytes = [(v >> 16) as u8, (v >> 8) as u8, v as u8];
    let input = &bytes[3 - len ..];
    run_all(input, 0, st)?;
    if len <= 1 { for s in &start_positions(len)[1 ..] { run_all(input, *s, st)?; } }
    if len >= 1 { st.nontrivial_enum(1) }
    if i % 9973 == 0 { st.sample(i, || format!("{} through {} entry points", short_hex(input), eps().len())) }
    Ok(())
}

fn heads(i: u64, st: &mut Stats) -> CaseResult {
    let ib = (i & 0xff) as u8;
    let arg_sel = ((i >> 8) % 8) as usize;
    let tail_sel = ((i >> 8) / 8) as usize % 5;
    let w = match ib & 0x1f { 24 => 1, 25 => 2, 26 => 4, 27 => 8, _ => 0 };
    let arg: Vec<u8> = match arg_sel {
        0 => vec![0x00; w], 1 => vec![0xff; w], 2 => { let mut a = vec![0xff; w]; if w > 0 { a[0] = 0x7f } a }
        3 => { let mut a = vec![0x00; w]; if w > 0 { a[w - 1] = 1 } a }
        4 => { let mut a = vec![0x00; w]; if w > 0 { a[0] = 0x80 } a }
        5 => { let mut a = vec![0x00; w]; if w > 0 { a[w - 1] = 0x18 } a }
        6 => { let mut a = vec![0x00; w]; if w > 1 { a[w - 2] = 1 } a }
        _ => { let mut a = vec![0x00; w]; if w >= 4 { a[w - 4 ..].copy_from_slice(&[0x00, 0x01, 0x86, 0xa0]) } a }
    };
    let tail: &[u8] = match tail_sel { 0 => &[], 1 => &[0x00], 2 => &[0x61, 0x61, 0x01, 0xff, 0x82, 0x01, 0x02, 0xf6], 3 => &[0x1b, 0xff, 0xff, 0xff, 0xff, 0x3b, 0x9a, 0xca, 0x00, 0x1a, 0x3b, 0x9a, 0xca, 0x00], _ => &[0x9f, 0x9f, 0xff, 0xff, 0x40, 0x60, 0x80, 0xa0] };
    let mut input = vec![ib];
    input.extend_from_slice(&arg);
    input.extend_from_slice(tail);
    run_all(&input, 0, st)?;
    st.nontrivial_enum(1);
    if i % 1013 == 0 { st.sample(i, || format!("{} through {} entry points", short_hex(&input), eps().len())) }
    Ok(())
}

/// The standard tagged representations a decoder might grow support for (RFC 8949 section 3.4: date/time strings, epoch
/// times, bignums, decimal fractions, bigfloats, encoded-CBOR, URIs ..; RFC 8746 typed arrays; self-describe): each registered
/// tag around each of ~180 payloads - integers and floats of every width at the boundaries of the integer and float types
/// (2^63, 2^64, f32::MAX, f64::MAX, subnormals, NaNs, infinities), short and empty strings, small arrays - through every entry
/// point. Magnitudes that overflow a conversion (seconds into a Duration, a bignum into an integer) must be errors.
fn tagged_numbers(i: u64, st: &mut Stats) -> CaseResult {
    const TAGS: [u64; 26] = [0, 1, 2, 3, 4, 5, 21, 22, 23, 24, 32, 33, 34, 35, 36, 37, 64, 77, 86, 100, 258, 1001, 1004, 55799, 55800, u64::MAX];
    fn payloads() -> &'static Vec<Vec<u8>> {
        static P: std::sync::OnceLock<Vec<Vec<u8>>> = std::sync::OnceLock::new();
        P.get_or_init(|| {
            use vcore::item::{Item, W};
            let mut v: Vec<Item> = Vec::new();
            for k in [0u64, 1, 23, 24, 255, 256, 65535, 65536, 0x7fff_ffff, 0x8000_0000, 0xffff_ffff, 0x1_0000_0000, 999_999_999, 1_000_000_000, 253_402_300_799, 253_402_300_800, i64::MAX as u64, 1 << 63, u64::MAX - 1, u64::MAX] {
                v.push(Item::UInt(k, W::min_for(k))); v.push(Item::NInt(k, W::min_for(k))); v.push(Item::UInt(k, W::W8));
            }
            for b in [0u32, 0x8000_0000, 1, 0x3f80_0000, 0xbf80_0000, 0x4f00_0000, 0x4f80_0000, 0x5f00_0000, 0x5f80_0000, 0xdf80_0000, 0x5f80_0001, 0x7f7f_ffff, 0xff7f_ffff, 0x7f80_0000, 0xff80_0000, 0x7fc0_0000, 0x7f80_0001, 0x3000_0000, 0x4e6e_6b28] { v.push(Item::F32(b)) }
            for b in [0u64, 1 << 63, 1, 0x3ff0_0000_0000_0000, 0x41df_ffff_ffc0_0000, 0x41e0_0000_0000_0000, 0x43e0_0000_0000_0000, 0x43f0_0000_0000_0000, 0xc3f0_0000_0000_0000, 0x43f0_0000_0000_0001, 0x4415_af1d_78b5_8c40, 0x7fef_ffff_ffff_ffff, 0xffef_ffff_ffff_ffff,
                      0x7ff0_0000_0000_0000, 0xfff0_0000_0000_0000, 0x7ff8_0000_0000_0000, 0x7ff0_0000_0000_0001, 0x3e11_2e0b_e826_d695, 0x4202_a05f_2000_0000, 0x3fef_ffff_ffff_ffff] { v.push(Item::F64(b)) }
            for h in [0u16, 0x3c00, 0x7bff, 0xfbff, 0x7c00, 0x7e00, 0x0001] { v.push(Item::F16(h)) }
            v.push(Item::text("")); v.push(Item::text("2013-03-21T20:04:00Z")); v.push(Item::text("1e400")); v.push(Item::bytes(&[])); v.push(Item::bytes(&[0xff; 9])); v.push(Item::bytes(&[0x01, 0, 0, 0, 0, 0, 0, 0, 0]));
            v.push(Item::array(vec![])); v.push(Item::array(vec![Item::int(-2), Item::uint(27315)])); v.push(Item::array(vec![Item::uint(u64::MAX), Item::uint(u64::MAX)])); v.push(Item::array(vec![Item::int(-1), Item::F64(0x7fef_ffff_ffff_ffff)]));
            v.push(Item::Null); v.push(Item::map(vec![]));
            v.iter().map(|i| i.encode()).collect()
        })
    }
    let ps = payloads();
    let t = TAGS[(i as usize / ps.len()) % TAGS.len()];
    let p = &ps[i as usize % ps.len()];
    let mut input = Vec::new();
    vcore::item::write_head(&mut input, 6, t, vcore::item::W::min_for(t));
    input.extend_from_slice(p);
    run_all(&input, 0, st)?;
    // the same inside the containers typed decoders look into: first element of an array, value of a map entry
    let mut a = vec![0x82]; a.extend_from_slice(&input); a.push(0x00);
    run_all(&a, 0, st)?;
    st.nontrivial_enum(1);
    if i % 499 == 0 { st.sample(i, || format!("{} through {} entry points", short_hex(&input), eps().len())) }
    Ok(())
}
fn tagged_numbers_count() -> u64 { 26 * 118 }

/// A valid encoding of a value of registry type `E`, pushed through structure-aware mutations,
/// decoded as `E` (by index) and as a handful of other entry points.
fn directed<E: Entry>(g: &mut Gen, st: &mut Stats) -> CaseResult {
    let seed = E::seed(g);
    let v = E::view(&seed);
    let mut bytes = match minicbor::to_vec(&v) { Ok(b) => b, Err(_) => return Ok(()) };
    drop(v);
    let rounds = 1 + g.below(3);
    let mut labels = String::new();
    for _ in 0 .. rounds { let (b, l) = mutate(g, &bytes); bytes = b; labels.push_str(l); labels.push(' ') }
    if bytes.len() > 65536 { bytes.truncate(65536) }
    let all = eps();
    let own = all.iter().position(|e| e.name == E::NAME && e.family == "typed").expect("typed entry");
    let start = if g.chance(30) { *g.pick(&start_positions(bytes.len())) } else { 0 };
    let mut consumed_err = false;
    let ok = exec(&all[own], &bytes, start)?;
    st.evals(1);
    record(st, &all[own], ok, &bytes);
    if !ok { consumed_err = true }
    for _ in 0 .. 8 {
        let ep = &all[g.below(all.len())];
        let ok = exec(ep, &bytes, start)?;
        st.evals(1);
        record(st, ep, ok, &bytes);
    }
    if consumed_err && bytes.len() >= 2 { st.nontrivial(g_codec::registry::stable_hash::<E>(&bytes)) }
    st.sample(hash_of(&bytes), || format!("{} encoding mutated by [{}] -> {}", E::NAME, labels.trim_end(), short_hex(&bytes)));
    Ok(())
}

macro_rules! dir_row { ($e:ident) => { directed::<$e> as RandomFn } }

fn type_directed(g: &mut Gen, st: &mut Stats) -> CaseResult {
    static T: std::sync::OnceLock<Vec<RandomFn>> = std::sync::OnceLock::new();
    let t = T.get_or_init(|| g_codec::for_each_core_entry!(dir_row));
    t[g.below(t.len())](g, st)
}

/// Mutated well-formed trees / random bytes through every entry point.
fn mutated_trees(g: &mut Gen, st: &mut Stats) -> CaseResult {
    let input: Vec<u8> = match g.below(4) {
        0 => { let n = g.below(40); (0 .. n).map(|_| g.byte()).collect() }
        1 => item(g, &ItemCfg::FULL).encode(),
        _ => { let it = item(g, &ItemCfg::FULL); let (mut b, _) = mutate(g, &it.encode()); if g.bool() { b = mutate(g, &b).0 } b }
    };
    let oks = run_all(&input, 0, st)?;
    if oks < eps().len() && input.len() >= 2 { st.nontrivial(hash_of(&input)) }
    Ok(())
}

/// Short histories of calls on one decoder, with arbitrary set_position in between.
fn histories(g: &mut Gen, st: &mut Stats) -> CaseResult {
    let it = item(g, &ItemCfg { max_nodes: 16, ..ItemCfg::FULL });
    let mut input = it.encode();
    if g.bool() { input = mutate(g, &input).0 }
    let n = 1 + g.below(8);
    let all = eps();
    let mut pos = 0usize;
    let mut log = String::new();
    for _ in 0 .. n {
        if g.chance(70) { pos = *g.pick(&start_positions(input.len())); log.push_str(&format!("set_position({}) ", pos)) }
        let ep = &all[g.below(all.len())];
        log.push_str(ep.name); log.push(' ');
        // `exec` builds a fresh decoder at `pos`; the position it ends at is carried over to the next call
        let mut d = minicbor::Decoder::new(&input);
        d.set_position(pos);
        total::set_case(ep.name, &input);
        let mark = total::mem_mark();
        minicbor::decode::verif::arm(64 * input.len() as u64 + 1024);
        let r = std::panic::catch_unwind(std::panic::AssertUnwindSafe(|| (ep.run)(&mut d, &input)));
        minicbor::decode::verif::disarm();
        let peak = total::mem_peak_since(mark);
        total::clear_case();
        st.evals(1);
        match r {
            Err(p) => {
                let m = if let Some(s) = p.downcast_ref::<&str>() { s.to_string() } else if let Some(s) = p.downcast_ref::<String>() { s.clone() } else { "?".into() };
                let kind = if m.contains("step budget exceeded") { "work-bound" } else { "panic" };
                return Err(vcore::Fail::new(format!("{}/{}", ep.name, kind), format!("history [{}] on {}: {}", log.trim_end(), short_hex(&input), m)))
            }
            Ok(Err(m)) => return Err(vcore::Fail::new(format!("{}/oracle", ep.name), format!("history [{}] on {}: {}", log.trim_end(), short_hex(&input), m))),
            Ok(Ok(_)) => {}
        }
        if d.position() > input.len().max(pos) {
            return Err(vcore::Fail::new(format!("{}/position", ep.name), format!("history [{}] on {}: position moved from {} to {} (input length {})", log.trim_end(), short_hex(&input), pos, d.position(), input.len())))
        }
        if peak > 4096 + ep.size + 128 * input.len() {
            return Err(vcore::Fail::new(format!("{}/memory", ep.name), format!("history [{}] on {}: peak allocation {}", log.trim_end(), short_hex(&input), peak)))
        }
        pos = d.position();
    }
    if n >= 2 { st.nontrivial(hash_of(&(&input, &log))) }
    st.sample(hash_of(&log), || format!("[{}] on {}", log.trim_end(), short_hex(&input)));
    Ok(())
}

/// Arrays / maps of small integers with planted defects, decoded as drop-counting shapes.
fn drops(g: &mut Gen, st: &mut Stats) -> CaseResult {
    st.eval();
    let n = g.below(20);
    let mut xs: Vec<Item> = (0 .. n).map(|_| Item::uint(g.byte() as u64)).collect();
    let defect = g.below(6);
    match defect {
        0 => {}
        1 if n > 0 => { let k = g.below(n); xs[k] = Item::text("x") }
        2 if n > 0 => { let k = g.below(n); xs[k] = Item::uint(256 + g.byte() as u64) }
        3 if n > 0 => { let k = g.below(n); xs[k] = Item::array(vec![Item::uint(1), Item::uint(2)]) }
        4 if n > 0 => { let k = g.below(n); xs[k] = Item::Null }
        _ => {}
    }
    let shape = g.below(5);
    let top = match shape {
        0 => Item::array(xs),
        1 => Item::Array(xs, None),
        2 => Item::map(xs.chunks(2).filter(|c| c.len() == 2).map(|c| (c[0].clone(), c[1].clone())).collect()),
        3 => Item::array(xs.chunks(2).map(|c| Item::array(c.to_vec())).collect()),
        _ => Item::array(vec![Item::uint(g.below(3) as u64), Item::array(xs)])
    };
    let mut enc = top.encode();
    let trunc = g.chance(60);
    if trunc && !enc.is_empty() { let c = g.below(enc.len()); enc.truncate(c) }
    if g.chance(30) { enc = mutate(g, &enc).0 }
    drop_check(&enc)?;
    st.class(match defect { 0 | 5 => "drop/clean", 1 => "drop/element-is-text", 2 => "drop/element-overflows-u8", 3 => "drop/element-is-array", _ => "drop/element-is-null" });
    if trunc { st.class("drop/truncated") }
    if n >= 2 { st.nontrivial(hash_of(&enc)) }
    st.sample(hash_of(&enc), || format!("{} as 21 Counted-bearing shapes", short_hex(&enc)));
    Ok(())
}

/// Nesting chains of nine shapes, 500 to 100 000 levels deep, complete and cut short, through every entry point:
/// the depth of the input may not become depth of the call stack (a stack overflow ends the child process and is
/// reported by the supervisor), nor super-linear work or memory.
fn deep_chains(i: u64, st: &mut Stats) -> CaseResult {
    const DEPTHS: [usize; 4] = [500, 5000, 20_000, 100_000];
    let kind = i as usize % vcore::gen::CHAIN_KINDS;
    let depth = DEPTHS[(i as usize / vcore::gen::CHAIN_KINDS) % DEPTHS.len()];
    let cut = (i as usize / (vcore::gen::CHAIN_KINDS * DEPTHS.len())) % 3;
    let (mut input, _, _) = vcore::gen::chain(kind, depth);
    match cut { 1 => { let n = input.len() / 2; input.truncate(n) } 2 => { let n = input.len() - 1; input.truncate(n) } _ => {} }
    total::on_default_stack(|| run_all(&input, 0, st))?;
    st.nontrivial_enum(1);
    st.class(match depth { 500 => "chain/depth 500", 5000 => "chain/depth 5000", 20_000 => "chain/depth 20000", _ => "chain/depth 100000" });
    if depth == 500 && cut == 0 { st.sample(i, || format!("chain kind {} depth {}: {} through {} entry points", kind, depth, short_hex(&input), eps().len())) }
    Ok(())
}

/// The raw entry: first tape byte selects the start position, the rest is the input.
/// (Also the layout of the libFuzzer target `total` and of oversize replays.)
fn raw_input(g: &mut Gen, st: &mut Stats) -> CaseResult {
    let sel = g.byte() as usize % 6;
    let input = g.rest().to_vec();
    let start = start_positions(input.len())[sel];
    let oks = if input.len() > 400 { total::on_default_stack(|| run_all(&input, start, st))? } else { run_all(&input, start, st)? };
    drop_check(&input)?;
    if oks < eps().len() && input.len() >= 2 { st.nontrivial(hash_of(&input)) }
    Ok(())
}

fn all_subs() -> Vec<Sub> {
    vec![
        Sub { prop: "C02", name: "raw-input", rule: "uniformly random tapes: first byte selects the start position, the rest is the input, through every entry point (same layout as the libFuzzer target and oversize replays)",
              kind: Kind::Random { quick: 20_000, thorough: 200_000, tape: 96, f: raw_input } },
        Sub { prop: "C02", name: "deep-chains", rule: "nesting chains of nine shapes (tags, definite / indefinite arrays and maps in every position) x depths 500 / 5000 / 20 000 / 100 000 x {complete, cut in the middle, last byte missing} through every entry point: run on a thread with the default 2 MiB stack: no panic, no stack overflow (reported through the supervisor), step budget 64*len+1024, memory 4 KiB + size_of::<T>() + 128*len",
              kind: Kind::Enumerate { quick: 9 * 4 * 3, thorough: 9 * 4 * 3, f: deep_chains, complete_quick: true, complete_thorough: true } },
        Sub { prop: "C02", name: "short-inputs", rule: "every input of length <= 2 (thorough: <= 3) x every entry point (typed decode of ~120 registry types + 6 derived types, every accessor, iterators, skip, tokens, tokenizer past its end, datatype, probe, Size) ; for length <= 1 also from set_position in {mid, len, len+1, MAX-1, MAX}. Oracle per call: no panic, steps <= 64*len+1024, peak heap <= 4KiB + size_of::<T> + 128*len, position <= max(len, start), borrowed results inside the input; evaluations count calls; non-trivial = input non-empty",
              kind: Kind::Enumerate { quick: 1 + 256 + 65536, thorough: 1 + 256 + 65536 + (1 << 24), f: short_inputs, complete_quick: true, complete_thorough: true } },
        Sub { prop: "C02", name: "heads", rule: "all 256 initial bytes x 8 argument patterns at the width the byte announces (zeros, ones, 7f.., 1, 80.., 24, 256, 100000) x 5 tails x every entry point",
              kind: Kind::Enumerate { quick: 256 * 8 * 5, thorough: 256 * 8 * 5, f: heads, complete_quick: true, complete_thorough: true } },
        Sub { prop: "C02", name: "tagged-numbers", rule: "26 tag numbers (the RFC 8949 / 8746 registered ones a decoder might understand - date/time, epoch, bignums, fractions, URIs, typed arrays, self-describe - and boundaries) x ~180 payloads (integers and floats of every width at the boundaries of the integer, float and time types incl. >= 2^63, >= 2^64, f32::MAX, f64::MAX, NaNs, infinities; strings; small arrays), bare and as element of an array, through every entry point: no panic, bounded work and memory, position in bounds",
              kind: Kind::Enumerate { quick: tagged_numbers_count(), thorough: tagged_numbers_count(), f: tagged_numbers, complete_quick: true, complete_thorough: true } },
        Sub { prop: "C02", name: "type-directed", rule: "valid encoding of a generated value of a registry type, 1-3 structure-aware mutations (truncate, bit flip, extreme/inflated head argument, major swap, inserted break, duplicate, indefinite, reserved ai, ...), decoded as that type and 8 random other entry points, sometimes from an arbitrary position; non-trivial = the own type rejects the mutant and it is >= 2 bytes; distinct by (type, bytes)",
              kind: Kind::Random { quick: 1_500_000, thorough: 10_000_000, tape: 1024, f: type_directed } },
        Sub { prop: "C02", name: "mutated-trees", rule: "random bytes, well-formed trees and mutated trees through every entry point; non-trivial = some entry rejects",
              kind: Kind::Random { quick: 30_000, thorough: 300_000, tape: 1024, f: mutated_trees } },
        Sub { prop: "C02", name: "histories", rule: "1-8 decoder calls on one buffer with set_position to {0, mid, len, len+1, MAX-1, MAX} interleaved: each call may not move the position beyond max(len, position before)",
              kind: Kind::Random { quick: 500_000, thorough: 5_000_000, tape: 1024, f: histories } },
        Sub { prop: "C02", name: "drops", rule: "arrays/maps of u8 with a planted non-u8 element, wrong length, truncation or mutation, definite and indefinite, decoded as 21 shapes of a drop-counting element ([T;N], nested arrays, Vec, VecDeque, LinkedList, heap, sets, maps, tuples, Option, Result, Range, derived struct): live set empty and no double drop afterwards",
              kind: Kind::Random { quick: 500_000, thorough: 5_000_000, tape: 256, f: drops } },
    ]
}

fn assumptions(_: &str) -> Vec<String> {
    vec![
        "work bound 64*len+1024 decoder steps and memory bound 4 KiB + size_of::<T>() + 128*len bytes are constants chosen by the harness from element sizes (Vec doubling of 32-byte tokens, hash-table rehash), on inputs <= 64 KiB".into(),
        "a single allocation request above 64 MiB terminates the child process with a marker that the parent turns into a violation".into(),
        "memory is counted per thread from requested sizes (allocator overhead not included)".into(),
    ]
}

fn main() {
    total::supervise("raw-input", || vcore::engine::main(all_subs(), &assumptions))
}
