fn main() {
    vcore::engine::main(g_codec::all_subs(), &g_codec::assumptions)
}
