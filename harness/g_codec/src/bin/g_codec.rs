fn main() {
    // run as a supervised child: a stack overflow or another fatal signal inside a check is reported with the case
    // that was running, reproduced in a fresh process and only then turned into a VIOLATION line
    g_codec::total::supervise("raw-input", || vcore::engine::main(g_codec::all_subs(), &g_codec::assumptions))
}
