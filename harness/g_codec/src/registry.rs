//! The registry of concrete instantiations of minicbor's built-in codec impls (property C01's
//! "~90 types"), shared by C01, C02, C03, C04, C07 and C13.

use crate::model::{Arb, Model, Same};
use minicbor::bytes::{ByteArray, ByteSlice, ByteVec};
use minicbor::data::{Int, Tag, Tagged, Token};
use minicbor::{CborLen, Decode, Encode};
use std::borrow::Cow;
use std::collections::{BTreeMap, BTreeSet, BinaryHeap, HashMap, HashSet, LinkedList, VecDeque};
use std::fmt::Debug;
use vcore::{Gen, Item};

pub trait Entry {
    const NAME: &'static str;
    /// wire order of elements is the collection's iteration order: compare models as multisets
    const UNORDERED: bool = false;
    /// every array/map in this type's encoding is decoded through the iterator API that is
    /// documented to accept indefinite length as well
    const INDEF_OK: bool = false;
    type Seed;
    type Val<'a>: Encode<()> + Decode<'a, ()> + CborLen<()> + Debug where Self: 'a;
    fn seed(g: &mut Gen) -> Self::Seed;
    fn view<'a>(s: &'a Self::Seed) -> Self::Val<'a>;
    fn same<'a, 'b>(a: &Self::Val<'a>, b: &Self::Val<'b>) -> bool;
    fn model<'a>(v: &Self::Val<'a>) -> Option<Item>;
    /// For borrowing types: does the decoded value point into `input`?
    fn borrows_from<'a>(_v: &Self::Val<'a>, _input: &'a [u8]) -> bool { true }
    /// A class label for representation-dependent values (physical layout that `==` does not see).
    fn repr_class<'a>(_v: &Self::Val<'a>) -> Option<&'static str> { None }
}

/// Hash of an encoding for the distinct-case count; hash-randomised collections serialise in a per-process
/// order, so their bytes are hashed order-independently (keeps the evidence a function of the seed).
pub fn stable_hash<E: Entry>(bytes: &[u8]) -> u64 {
    if E::UNORDERED { let mut s = bytes.to_vec(); s.sort_unstable(); vcore::engine::hash_of(&(E::NAME, s)) } else { vcore::engine::hash_of(&(E::NAME, bytes)) }
}

pub fn within(p: *const u8, len: usize, input: &[u8]) -> bool {
    // an empty slice still has an address: it must lie inside the input (or one past its end), not in a static
    let a = input.as_ptr() as usize;
    let s = p as usize;
    s >= a && s + len <= a + input.len()
}

macro_rules! owned {
    ($id:ident, $name:expr, $t:ty $(, $k:ident = $v:expr)*) => {
        pub struct $id;
        impl Entry for $id {
            const NAME: &'static str = $name;
            $(const $k: bool = $v;)*
            type Seed = $t;
            type Val<'a> = $t;
            fn seed(g: &mut Gen) -> $t { <$t as Arb>::arb(g) }
            fn view<'a>(s: &'a $t) -> $t { s.clone() }
            fn same<'a, 'b>(a: &$t, b: &$t) -> bool { Same::same(a, b) }
            fn model<'a>(v: &$t) -> Option<Item> { Model::model(v) }
        }
    }
}

macro_rules! atomic_entry {
    ($id:ident, $name:expr, $t:ty, $p:ty) => {
        pub struct $id;
        impl Entry for $id {
            const NAME: &'static str = $name;
            type Seed = $p;
            type Val<'a> = $t;
            fn seed(g: &mut Gen) -> $p { <$p as Arb>::arb(g) }
            fn view<'a>(s: &'a $p) -> $t { <$t>::new(*s) }
            fn same<'a, 'b>(a: &$t, b: &$t) -> bool { Same::same(a, b) }
            fn model<'a>(v: &$t) -> Option<Item> { Model::model(v) }
        }
    }
}

owned!(EU8, "u8", u8);
owned!(EU16, "u16", u16);
owned!(EU32, "u32", u32);
owned!(EU64, "u64", u64);
owned!(EUsize, "usize", usize);
owned!(EI8, "i8", i8);
owned!(EI16, "i16", i16);
owned!(EI32, "i32", i32);
owned!(EI64, "i64", i64);
owned!(EIsize, "isize", isize);
owned!(EBool, "bool", bool);
owned!(EChar, "char", char);
owned!(EF32, "f32", f32);
owned!(EF64, "f64", f64);
owned!(ENzU8, "NonZeroU8", std::num::NonZeroU8);
owned!(ENzU16, "NonZeroU16", std::num::NonZeroU16);
owned!(ENzU32, "NonZeroU32", std::num::NonZeroU32);
owned!(ENzU64, "NonZeroU64", std::num::NonZeroU64);
owned!(ENzUsize, "NonZeroUsize", std::num::NonZeroUsize);
owned!(ENzI8, "NonZeroI8", std::num::NonZeroI8);
owned!(ENzI16, "NonZeroI16", std::num::NonZeroI16);
owned!(ENzI32, "NonZeroI32", std::num::NonZeroI32);
owned!(ENzI64, "NonZeroI64", std::num::NonZeroI64);
owned!(ENzIsize, "NonZeroIsize", std::num::NonZeroIsize);
owned!(EWrapU32, "Wrapping<u32>", std::num::Wrapping<u32>);
owned!(EWrapI16, "Wrapping<i16>", std::num::Wrapping<i16>);
owned!(ECellI16, "Cell<i16>", std::cell::Cell<i16>);
owned!(ECellU64, "Cell<u64>", std::cell::Cell<u64>);
owned!(ERefCellString, "RefCell<String>", std::cell::RefCell<String>);
atomic_entry!(EABool, "AtomicBool", std::sync::atomic::AtomicBool, bool);
atomic_entry!(EAU8, "AtomicU8", std::sync::atomic::AtomicU8, u8);
atomic_entry!(EAU16, "AtomicU16", std::sync::atomic::AtomicU16, u16);
atomic_entry!(EAU32, "AtomicU32", std::sync::atomic::AtomicU32, u32);
atomic_entry!(EAU64, "AtomicU64", std::sync::atomic::AtomicU64, u64);
atomic_entry!(EAUsize, "AtomicUsize", std::sync::atomic::AtomicUsize, usize);
atomic_entry!(EAI8, "AtomicI8", std::sync::atomic::AtomicI8, i8);
atomic_entry!(EAI16, "AtomicI16", std::sync::atomic::AtomicI16, i16);
atomic_entry!(EAI32, "AtomicI32", std::sync::atomic::AtomicI32, i32);
atomic_entry!(EAI64, "AtomicI64", std::sync::atomic::AtomicI64, i64);
atomic_entry!(EAIsize, "AtomicIsize", std::sync::atomic::AtomicIsize, isize);
owned!(EString, "String", String);
owned!(EBoxStr, "Box<str>", Box<str>);
owned!(EByteVec, "ByteVec", ByteVec);
owned!(EByteArray0, "ByteArray<0>", ByteArray<0>);
owned!(EByteArray4, "ByteArray<4>", ByteArray<4>);
owned!(EByteArray32, "ByteArray<32>", ByteArray<32>);
owned!(ECString, "CString", std::ffi::CString);
owned!(EPathBuf, "PathBuf", std::path::PathBuf);
owned!(EBoxPath, "Box<Path>", Box<std::path::Path>);
owned!(EOptU8, "Option<u8>", Option<u8>);
owned!(EOptString, "Option<String>", Option<String>);
owned!(EOptVecU8, "Option<Vec<u8>>", Option<Vec<u8>>, INDEF_OK = true);
owned!(EOptTuple, "Option<(u8,bool)>", Option<(u8, bool)>);
owned!(EResU8String, "Result<u8,String>", Result<u8, String>);
owned!(EResIntByteVec, "Result<Int,ByteVec>", Result<Int, ByteVec>);
owned!(EBoxU64, "Box<u64>", Box<u64>);
owned!(EBoxVecU16, "Box<Vec<u16>>", Box<Vec<u16>>, INDEF_OK = true);
owned!(EUnit, "()", ());
owned!(EPhantom, "PhantomData<u8>", std::marker::PhantomData<u8>);
owned!(ETuple1, "(u8,)", (u8,));
owned!(ETuple2, "(u8,String)", (u8, String));
owned!(ETuple3, "(bool,i64,f32)", (bool, i64, f32));
owned!(ETuple4, "(u64,Option<i8>,char,ByteVec)", (u64, Option<i8>, char, ByteVec));
owned!(ETuple12, "12-tuple", (u8, i8, u16, i16, u32, i32, u64, i64, bool, char, f32, Option<u8>));

/// Tuples above arity 12 have no `Debug` impl in std; wrap them to provide one while delegating the codec traits.
macro_rules! big_tuple {
    ($entry:ident, $wrap:ident, $alias:ident, $name:expr, ($($t:ty),+), ($($i:tt),+)) => {
        pub type $alias = ($($t,)+);
        #[derive(Clone)]
        pub struct $wrap(pub $alias);
        impl Debug for $wrap {
            fn fmt(&self, f: &mut std::fmt::Formatter<'_>) -> std::fmt::Result {
                f.write_str("(")?;
                $( write!(f, "{:?}, ", self.0.$i)?; )+
                f.write_str(")")
            }
        }
        impl<C> Encode<C> for $wrap {
            fn encode<W: minicbor::encode::Write>(&self, e: &mut minicbor::Encoder<W>, ctx: &mut C) -> Result<(), minicbor::encode::Error<W::Error>> { self.0.encode(e, ctx) }
        }
        impl<'b, C> Decode<'b, C> for $wrap {
            fn decode(d: &mut minicbor::Decoder<'b>, ctx: &mut C) -> Result<Self, minicbor::decode::Error> { Ok($wrap(Decode::decode(d, ctx)?)) }
        }
        impl<C> CborLen<C> for $wrap { fn cbor_len(&self, ctx: &mut C) -> usize { self.0.cbor_len(ctx) } }
        pub struct $entry;
        impl Entry for $entry {
            const NAME: &'static str = $name;
            type Seed = $alias;
            type Val<'a> = $wrap;
            fn seed(g: &mut Gen) -> $alias { <$alias>::arb(g) }
            fn view<'a>(s: &'a $alias) -> $wrap { $wrap(s.clone()) }
            fn same<'a, 'b>(a: &$wrap, b: &$wrap) -> bool { Same::same(&a.0, &b.0) }
            fn model<'a>(v: &$wrap) -> Option<Item> { Model::model(&v.0) }
        }
    }
}
// every position gets its own type, so that a field written twice or two fields swapped cannot go unnoticed
big_tuple!(ETuple13, T13, Tup13, "13-tuple", (u8, i8, u16, i16, u32, i32, u64, i64, bool, char, f32, String, Option<u8>), (0, 1, 2, 3, 4, 5, 6, 7, 8, 9, 10, 11, 12));
big_tuple!(ETuple14, T14, Tup14, "14-tuple", (u8, i8, u16, i16, u32, i32, u64, i64, bool, char, f32, String, Option<u8>, Int), (0, 1, 2, 3, 4, 5, 6, 7, 8, 9, 10, 11, 12, 13));
big_tuple!(ETuple15, T15, Tup15, "15-tuple", (u8, i8, u16, i16, u32, i32, u64, i64, bool, char, f32, String, Option<u8>, Int, ByteVec), (0, 1, 2, 3, 4, 5, 6, 7, 8, 9, 10, 11, 12, 13, 14));
big_tuple!(ETuple16, T16, Tup16, "16-tuple", (u8, i8, u16, i16, u32, i32, u64, i64, bool, char, f32, f64, String, Option<u8>, (), Int), (0, 1, 2, 3, 4, 5, 6, 7, 8, 9, 10, 11, 12, 13, 14, 15));
owned!(ETuple5, "5-tuple", (u8, String, bool, i32, Option<u16>));
owned!(ETuple6, "6-tuple", (i8, u16, char, ByteVec, f64, u64));
owned!(ETuple7, "7-tuple", (u8, i8, u16, i16, bool, String, u32));
owned!(ETuple8, "8-tuple", (u64, i64, f32, char, bool, Option<i8>, String, u8));
owned!(ETuple9, "9-tuple", (u8, i8, u16, i16, u32, i32, bool, char, String));
owned!(ETuple10, "10-tuple", (u8, i8, u16, i16, u32, i32, u64, i64, bool, String));
owned!(ETuple11, "11-tuple", (u8, i8, u16, i16, u32, i32, u64, i64, bool, char, String));
owned!(EArr0, "[u8;0]", [u8; 0], INDEF_OK = true);
owned!(EArr1, "[u8;1]", [u8; 1], INDEF_OK = true);
owned!(EArr3, "[u16;3]", [u16; 3], INDEF_OK = true);
owned!(EArrOpt3, "[Option<u16>;3]", [Option<u16>; 3], INDEF_OK = true);
owned!(EArrStr2, "[String;2]", [String; 2], INDEF_OK = true);
owned!(EArr32, "[u8;32]", [u8; 32], INDEF_OK = true);
owned!(EArrVec2, "[Vec<u8>;2]", [Vec<u8>; 2], INDEF_OK = true);
owned!(EArr23, "[u16;23]", [u16; 23], INDEF_OK = true);
owned!(EArr24, "[bool;24]", [bool; 24], INDEF_OK = true);
owned!(EArr25, "[String;25]", [String; 25], INDEF_OK = true);
owned!(EArr256, "[u8;256]", [u8; 256], INDEF_OK = true);
owned!(EVecU8, "Vec<u8>", Vec<u8>, INDEF_OK = true);
owned!(EVecU64, "Vec<u64>", Vec<u64>, INDEF_OK = true);
owned!(EVecString, "Vec<String>", Vec<String>, INDEF_OK = true);
owned!(EVecOptTuple, "Vec<Option<(u8,String)>>", Vec<Option<(u8, String)>>);
owned!(EVecVecI32, "Vec<Vec<i32>>", Vec<Vec<i32>>, INDEF_OK = true);
owned!(EVecF64, "Vec<f64>", Vec<f64>, INDEF_OK = true);
// zero-sized element types
owned!(EVecUnit, "Vec<()>", Vec<()>);
owned!(EVecArr0, "Vec<[u8;0]>", Vec<[u8; 0]>, INDEF_OK = true);
owned!(EVecPhantom, "Vec<PhantomData<u8>>", Vec<std::marker::PhantomData<u8>>);
owned!(ELinkedUnit, "LinkedList<()>", LinkedList<()>);

/// Build a deque holding `xs` in order with a chosen *physical* layout of the ring buffer (`Clone` and `collect`
/// always yield a contiguous buffer, which would leave the wrapped-around case of the Encode impl unexercised).
/// mode 0: contiguous; 1: `xs[k..]` pushed at the back, then `xs[..k]` pushed at the front (head wraps to the end of
/// the allocation); 2: sliding window (`k` place-holders popped from the front of a full buffer, the last `k`
/// elements pushed behind the physical end).
pub fn deque_with_layout<T: Clone>(xs: &[T], k: usize, mode: u8) -> VecDeque<T> {
    let n = xs.len();
    let k = k.min(n);
    match mode {
        1 => { let mut d = VecDeque::new(); for x in &xs[k ..] { d.push_back(x.clone()) } for x in xs[.. k].iter().rev() { d.push_front(x.clone()) } d }
        2 if n > 0 => {
            let mut d = VecDeque::with_capacity(n);
            for _ in 0 .. k { d.push_back(xs[0].clone()) }
            for x in &xs[.. n - k] { d.push_back(x.clone()) }
            for _ in 0 .. k { d.pop_front(); }
            for x in &xs[n - k ..] { d.push_back(x.clone()) }
            d
        }
        _ => xs.iter().cloned().collect()
    }
}

macro_rules! deque_entry {
    ($id:ident, $name:expr, $t:ty) => { deque_entry!($id, $name, $t, true); };
    ($id:ident, $name:expr, $t:ty, $indef:expr) => {
        pub struct $id;
        impl Entry for $id {
            const NAME: &'static str = $name;
            const INDEF_OK: bool = $indef;
            type Seed = (Vec<$t>, usize, u8);
            type Val<'a> = VecDeque<$t>;
            fn seed(g: &mut Gen) -> Self::Seed { let v = <Vec<$t> as Arb>::arb(g); let k = g.below(v.len() + 1); (v, k, g.below(3) as u8) }
            fn view<'a>(s: &'a Self::Seed) -> VecDeque<$t> { deque_with_layout(&s.0, s.1, s.2) }
            fn same<'a, 'b>(a: &VecDeque<$t>, b: &VecDeque<$t>) -> bool { Same::same(a, b) }
            fn model<'a>(v: &VecDeque<$t>) -> Option<Item> { Model::model(v) }
            fn repr_class<'a>(v: &VecDeque<$t>) -> Option<&'static str> { Some(if v.as_slices().1.is_empty() { concat!($name, "/contiguous") } else { concat!($name, "/wrapped") }) }
        }
    }
}
deque_entry!(EVecDequeI16, "VecDeque<i16>", i16);
deque_entry!(EVecDequeString, "VecDeque<String>", String);
// (unit is the *definite* empty array: not re-framed as indefinite)
deque_entry!(EVecDequeUnit, "VecDeque<()>", (), false);
owned!(ELinkedListU32, "LinkedList<u32>", LinkedList<u32>, INDEF_OK = true);
owned!(EBinaryHeapU16, "BinaryHeap<u16>", BinaryHeap<u16>, UNORDERED = true, INDEF_OK = true);
owned!(EBTreeSetI64, "BTreeSet<i64>", BTreeSet<i64>, INDEF_OK = true);
owned!(EHashSetU16, "HashSet<u16>", HashSet<u16>, UNORDERED = true, INDEF_OK = true);
owned!(EHashSetString, "HashSet<String>", HashSet<String>, UNORDERED = true, INDEF_OK = true);
owned!(EBTreeMapU8U8, "BTreeMap<u8,u8>", BTreeMap<u8, u8>, INDEF_OK = true);
owned!(EBTreeMapStrVec, "BTreeMap<String,Vec<i64>>", BTreeMap<String, Vec<i64>>, INDEF_OK = true);
owned!(EHashMapU32Str, "HashMap<u32,String>", HashMap<u32, String>, UNORDERED = true, INDEF_OK = true);
owned!(EHashMapStrOptBool, "HashMap<String,Option<bool>>", HashMap<String, Option<bool>>, UNORDERED = true, INDEF_OK = true);
owned!(ERange, "Range<u8>", std::ops::Range<u8>);
owned!(ERangeFrom, "RangeFrom<i32>", std::ops::RangeFrom<i32>);
owned!(ERangeTo, "RangeTo<u64>", std::ops::RangeTo<u64>);
owned!(ERangeToIncl, "RangeToInclusive<u16>", std::ops::RangeToInclusive<u16>);
owned!(ERangeIncl, "RangeInclusive<u8>", std::ops::RangeInclusive<u8>);
owned!(EBound, "Bound<i64>", std::ops::Bound<i64>);
owned!(EDuration, "Duration", std::time::Duration);
owned!(ESystemTime, "SystemTime", std::time::SystemTime);
owned!(EIpAddr, "IpAddr", std::net::IpAddr);
owned!(EIpv4, "Ipv4Addr", std::net::Ipv4Addr);
owned!(EIpv6, "Ipv6Addr", std::net::Ipv6Addr);
owned!(ESockAddr, "SocketAddr", std::net::SocketAddr);
owned!(ESockAddrV4, "SocketAddrV4", std::net::SocketAddrV4);
owned!(ESockAddrV6, "SocketAddrV6", std::net::SocketAddrV6);
owned!(EInt, "Int", Int);
owned!(ETag, "Tag", Tag);
owned!(ETagged0Str, "Tagged<0,String>", Tagged<0, String>);
owned!(ETagged55799, "Tagged<55799,(bool,char)>", Tagged<55799, (bool, char)>);
owned!(ETagged24Bytes, "Tagged<24,ByteVec>", Tagged<24, ByteVec>);
owned!(ETaggedBigU8, "Tagged<2^32,u8>", Tagged<4294967296, u8>);
owned!(ETaggedOptU8, "Tagged<7,Option<u8>>", Tagged<7, Option<u8>>);
owned!(ETaggedOptStr, "Tagged<256,Option<String>>", Tagged<256, Option<String>>);
owned!(ETaggedMaxVec, "Tagged<u64::MAX,Vec<u8>>", Tagged<18446744073709551615, Vec<u8>>, INDEF_OK = true);

// ---- borrowing types -------------------------------------------------------------------

pub struct ERefStr;
impl Entry for ERefStr {
    const NAME: &'static str = "&str";
    type Seed = String;
    type Val<'a> = &'a str;
    fn seed(g: &mut Gen) -> String { g.string(80) }
    fn view<'a>(s: &'a String) -> &'a str { s.as_str() }
    fn same<'a, 'b>(a: &&'a str, b: &&'b str) -> bool { *a == *b }
    fn model<'a>(v: &&'a str) -> Option<Item> { Some(Item::text(v)) }
    fn borrows_from<'a>(v: &&'a str, input: &'a [u8]) -> bool { within(v.as_ptr(), v.len(), input) }
}

pub struct ECowStr;
impl Entry for ECowStr {
    const NAME: &'static str = "Cow<str>";
    type Seed = (String, bool);
    type Val<'a> = Cow<'a, str>;
    fn seed(g: &mut Gen) -> (String, bool) { (g.string(80), g.bool()) }
    fn view<'a>(s: &'a (String, bool)) -> Cow<'a, str> { if s.1 { Cow::Owned(s.0.clone()) } else { Cow::Borrowed(s.0.as_str()) } }
    fn same<'a, 'b>(a: &Cow<'a, str>, b: &Cow<'b, str>) -> bool { a.as_ref() == b.as_ref() }
    fn model<'a>(v: &Cow<'a, str>) -> Option<Item> { Some(Item::text(v)) }
}

pub struct ERefByteSlice;
impl Entry for ERefByteSlice {
    const NAME: &'static str = "&ByteSlice";
    type Seed = Vec<u8>;
    type Val<'a> = &'a ByteSlice;
    fn seed(g: &mut Gen) -> Vec<u8> { g.bytes(300) }
    fn view<'a>(s: &'a Vec<u8>) -> &'a ByteSlice { <&ByteSlice>::from(s.as_slice()) }
    fn same<'a, 'b>(a: &&'a ByteSlice, b: &&'b ByteSlice) -> bool { a[..] == b[..] }
    fn model<'a>(v: &&'a ByteSlice) -> Option<Item> { Some(Item::bytes(v)) }
    fn borrows_from<'a>(v: &&'a ByteSlice, input: &'a [u8]) -> bool { within(v.as_ptr(), v.len(), input) }
}

pub struct ECowByteSlice;
impl Entry for ECowByteSlice {
    const NAME: &'static str = "Cow<ByteSlice>";
    type Seed = (Vec<u8>, bool);
    type Val<'a> = Cow<'a, ByteSlice>;
    fn seed(g: &mut Gen) -> (Vec<u8>, bool) { (g.bytes(300), g.bool()) }
    fn view<'a>(s: &'a (Vec<u8>, bool)) -> Cow<'a, ByteSlice> { if s.1 { Cow::Owned(ByteVec::from(s.0.clone())) } else { Cow::Borrowed(<&ByteSlice>::from(s.0.as_slice())) } }
    fn same<'a, 'b>(a: &Cow<'a, ByteSlice>, b: &Cow<'b, ByteSlice>) -> bool { a.as_ref()[..] == b.as_ref()[..] }
    fn model<'a>(v: &Cow<'a, ByteSlice>) -> Option<Item> { Some(Item::bytes(v.as_ref())) }
}

pub struct ERefCStr;
impl Entry for ERefCStr {
    const NAME: &'static str = "&CStr";
    type Seed = std::ffi::CString;
    type Val<'a> = &'a std::ffi::CStr;
    fn seed(g: &mut Gen) -> std::ffi::CString { std::ffi::CString::arb(g) }
    fn view<'a>(s: &'a std::ffi::CString) -> &'a std::ffi::CStr { s.as_c_str() }
    fn same<'a, 'b>(a: &&'a std::ffi::CStr, b: &&'b std::ffi::CStr) -> bool { *a == *b }
    fn model<'a>(v: &&'a std::ffi::CStr) -> Option<Item> { Some(Item::bytes(v.to_bytes_with_nul())) }
    fn borrows_from<'a>(v: &&'a std::ffi::CStr, input: &'a [u8]) -> bool { let b = v.to_bytes_with_nul(); within(b.as_ptr(), b.len(), input) }
}

pub struct ERefPath;
impl Entry for ERefPath {
    const NAME: &'static str = "&Path";
    type Seed = String;
    type Val<'a> = &'a std::path::Path;
    fn seed(g: &mut Gen) -> String { g.string(40) }
    fn view<'a>(s: &'a String) -> &'a std::path::Path { std::path::Path::new(s.as_str()) }
    fn same<'a, 'b>(a: &&'a std::path::Path, b: &&'b std::path::Path) -> bool { *a == *b }
    fn model<'a>(v: &&'a std::path::Path) -> Option<Item> { v.to_str().map(Item::text) }
    fn borrows_from<'a>(v: &&'a std::path::Path, input: &'a [u8]) -> bool { let b = v.as_os_str().as_encoded_bytes(); within(b.as_ptr(), b.len(), input) }
}

pub struct EOptRefStr;
impl Entry for EOptRefStr {
    const NAME: &'static str = "Option<&str>";
    type Seed = Option<String>;
    type Val<'a> = Option<&'a str>;
    fn seed(g: &mut Gen) -> Option<String> { Option::<String>::arb(g) }
    fn view<'a>(s: &'a Option<String>) -> Option<&'a str> { s.as_deref() }
    fn same<'a, 'b>(a: &Option<&'a str>, b: &Option<&'b str>) -> bool { *a == *b }
    fn model<'a>(v: &Option<&'a str>) -> Option<Item> { Some(match v { None => Item::Null, Some(s) => Item::text(s) }) }
    fn borrows_from<'a>(v: &Option<&'a str>, input: &'a [u8]) -> bool { v.map(|s| within(s.as_ptr(), s.len(), input)).unwrap_or(true) }
}

/// `Token` (like `Tag`) encodes a single head, not always a complete item.
pub fn head_only<E: Entry>() -> bool { E::NAME == "Tag" || E::NAME.contains("Token") || E::NAME.contains("<Tag") || E::NAME.contains("(Tag") || E::NAME.contains("[Tag") || E::NAME.contains(",Tag") }

pub fn token_int(t: &Token<'_>) -> Option<i128> {
    Some(match t {
        Token::U8(n) => *n as i128, Token::U16(n) => *n as i128, Token::U32(n) => *n as i128, Token::U64(n) => *n as i128,
        Token::I8(n) => *n as i128, Token::I16(n) => *n as i128, Token::I32(n) => *n as i128, Token::I64(n) => *n as i128,
        Token::Int(n) => i128::from(*n),
        _ => return None
    })
}

/// Every `Token` variant; byte and text payloads borrow from the seed.
pub struct ETok;
impl Entry for ETok {
    const NAME: &'static str = "Token";
    type Seed = (Vec<u8>, String, Token<'static>);
    type Val<'a> = Token<'a>;
    fn seed(g: &mut Gen) -> Self::Seed {
        let b = g.bytes(300);
        let s = g.string(80);
        let t = crate::checks::c07::gen_token(g, &[], "", false);
        (b, s, t)
    }
    fn view<'a>(s: &'a Self::Seed) -> Token<'a> {
        match s.2 { Token::Bytes(_) => Token::Bytes(&s.0), Token::String(_) => Token::String(&s.1), t => t }
    }
    fn same<'a, 'b>(a: &Token<'a>, b: &Token<'b>) -> bool {
        match (a, b) {
            (Token::F16(x), Token::F16(y)) => x.to_bits() == y.to_bits() || (x.is_nan() && y.is_nan()),
            (Token::F32(x), Token::F32(y)) => x.to_bits() == y.to_bits(),
            (Token::F64(x), Token::F64(y)) => x.to_bits() == y.to_bits(),
            (Token::Bytes(x), Token::Bytes(y)) => x == y,
            (Token::String(x), Token::String(y)) => x == y,
            _ => match (token_int(a), token_int(b)) {
                (Some(x), Some(y)) => x == y,
                (None, None) => format!("{:?}", a) == format!("{:?}", b),
                _ => false
            }
        }
    }
    fn model<'a>(v: &Token<'a>) -> Option<Item> {
        if let Some(n) = token_int(v) { return Some(Item::int(n)) }
        Some(match v {
            Token::Bool(b) => Item::bool(*b), Token::Null => Item::Null, Token::Undefined => Item::Undefined,
            Token::Simple(n) if *n < 20 || *n >= 32 => Item::Simple(*n),
            Token::F32(x) => Item::F32(x.to_bits()), Token::F64(x) => Item::F64(x.to_bits()),
            Token::Bytes(b) => Item::bytes(b), Token::String(s) => Item::text(s),
            _ => return None
        })
    }
    fn borrows_from<'a>(v: &Token<'a>, input: &'a [u8]) -> bool {
        match v { Token::Bytes(b) => within(b.as_ptr(), b.len(), input), Token::String(s) => within(s.as_ptr(), s.len(), input), _ => true }
    }
}

/// `Option<Token>`: every token except `Null` (whose encoding is the one `None` uses - lossy by construction).
pub struct EOptTok;
impl Entry for EOptTok {
    const NAME: &'static str = "Option<Token>";
    type Seed = Option<<ETok as Entry>::Seed>;
    type Val<'a> = Option<Token<'a>>;
    fn seed(g: &mut Gen) -> Self::Seed {
        if g.chance(40) { return None }
        let mut s = ETok::seed(g);
        if matches!(s.2, Token::Null) { s.2 = Token::Undefined }
        Some(s)
    }
    fn view<'a>(s: &'a Self::Seed) -> Option<Token<'a>> { s.as_ref().map(ETok::view) }
    fn same<'a, 'b>(a: &Option<Token<'a>>, b: &Option<Token<'b>>) -> bool { match (a, b) { (None, None) => true, (Some(x), Some(y)) => ETok::same(x, y), _ => false } }
    fn model<'a>(v: &Option<Token<'a>>) -> Option<Item> { match v { None => Some(Item::Null), Some(t) => ETok::model(t) } }
    fn borrows_from<'a>(v: &Option<Token<'a>>, input: &'a [u8]) -> bool { v.as_ref().map(|t| ETok::borrows_from(t, input)).unwrap_or(true) }
}

pub struct EVecRefStr;
impl Entry for EVecRefStr {
    const NAME: &'static str = "Vec<&str>";
    const INDEF_OK: bool = true;
    type Seed = Vec<String>;
    type Val<'a> = Vec<&'a str>;
    fn seed(g: &mut Gen) -> Vec<String> { let n = g.len(40); (0 .. n).map(|_| g.string(12)).collect() }
    fn view<'a>(s: &'a Vec<String>) -> Vec<&'a str> { s.iter().map(|x| x.as_str()).collect() }
    fn same<'a, 'b>(a: &Vec<&'a str>, b: &Vec<&'b str>) -> bool { a == b }
    fn model<'a>(v: &Vec<&'a str>) -> Option<Item> { Some(Item::array(v.iter().map(|s| Item::text(s)).collect())) }
    fn borrows_from<'a>(v: &Vec<&'a str>, input: &'a [u8]) -> bool { v.iter().all(|s| within(s.as_ptr(), s.len(), input)) }
}

// ---- containers over other entries -------------------------------------------------------------------------------
// The container impls look at the next byte before handing over to the element's impl (null for `Option`, break for the
// iterators, the tag of `Tagged`), so whether a container is right depends on what its element's encoding starts with.
// The matrix below puts the elements with distinctive first bytes (Token - any byte including break and null -, Option,
// unit, Tag, Tagged, byte strings, borrowed strings, floats, nested arrays) under every container shape.

macro_rules! seq_of {
    ($id:ident, $name:expr, $e:ty, $c:ident, $indef:expr) => {
        pub struct $id;
        impl Entry for $id {
            const NAME: &'static str = $name;
            const INDEF_OK: bool = $indef;
            type Seed = Vec<<$e as Entry>::Seed>;
            type Val<'a> = $c<<$e as Entry>::Val<'a>>;
            fn seed(g: &mut Gen) -> Self::Seed { let n = g.len(7); (0 .. n).map(|_| <$e as Entry>::seed(g)).collect() }
            fn view<'a>(s: &'a Self::Seed) -> Self::Val<'a> { s.iter().map(|x| <$e as Entry>::view(x)).collect() }
            fn same<'a, 'b>(a: &Self::Val<'a>, b: &Self::Val<'b>) -> bool { a.len() == b.len() && a.iter().zip(b.iter()).all(|(x, y)| <$e as Entry>::same(x, y)) }
            fn model<'a>(v: &Self::Val<'a>) -> Option<Item> { Some(Item::array(v.iter().map(|x| <$e as Entry>::model(x)).collect::<Option<Vec<_>>>()?)) }
            fn borrows_from<'a>(v: &Self::Val<'a>, input: &'a [u8]) -> bool { v.iter().all(|x| <$e as Entry>::borrows_from(x, input)) }
        }
    }
}

macro_rules! arr2_of {
    ($id:ident, $name:expr, $e:ty, $indef:expr) => {
        pub struct $id;
        impl Entry for $id {
            const NAME: &'static str = $name;
            const INDEF_OK: bool = $indef;
            type Seed = [<$e as Entry>::Seed; 2];
            type Val<'a> = [<$e as Entry>::Val<'a>; 2];
            fn seed(g: &mut Gen) -> Self::Seed { [<$e as Entry>::seed(g), <$e as Entry>::seed(g)] }
            fn view<'a>(s: &'a Self::Seed) -> Self::Val<'a> { [<$e as Entry>::view(&s[0]), <$e as Entry>::view(&s[1])] }
            fn same<'a, 'b>(a: &Self::Val<'a>, b: &Self::Val<'b>) -> bool { <$e as Entry>::same(&a[0], &b[0]) && <$e as Entry>::same(&a[1], &b[1]) }
            fn model<'a>(v: &Self::Val<'a>) -> Option<Item> { Some(Item::array(vec![<$e as Entry>::model(&v[0])?, <$e as Entry>::model(&v[1])?])) }
            fn borrows_from<'a>(v: &Self::Val<'a>, input: &'a [u8]) -> bool { v.iter().all(|x| <$e as Entry>::borrows_from(x, input)) }
        }
    }
}

/// `Option<E>` for elements that never encode as null themselves, `Box<E>`.
macro_rules! opt_of {
    ($id:ident, $name:expr, $e:ty, $indef:expr) => {
        pub struct $id;
        impl Entry for $id {
            const NAME: &'static str = $name;
            const INDEF_OK: bool = $indef;
            type Seed = Option<<$e as Entry>::Seed>;
            type Val<'a> = Option<<$e as Entry>::Val<'a>>;
            fn seed(g: &mut Gen) -> Self::Seed { if g.chance(64) { None } else { Some(<$e as Entry>::seed(g)) } }
            fn view<'a>(s: &'a Self::Seed) -> Self::Val<'a> { s.as_ref().map(|x| <$e as Entry>::view(x)) }
            fn same<'a, 'b>(a: &Self::Val<'a>, b: &Self::Val<'b>) -> bool { match (a, b) { (None, None) => true, (Some(x), Some(y)) => <$e as Entry>::same(x, y), _ => false } }
            fn model<'a>(v: &Self::Val<'a>) -> Option<Item> { match v { None => Some(Item::Null), Some(x) => <$e as Entry>::model(x) } }
            fn borrows_from<'a>(v: &Self::Val<'a>, input: &'a [u8]) -> bool { v.as_ref().map(|x| <$e as Entry>::borrows_from(x, input)).unwrap_or(true) }
        }
    }
}

macro_rules! box_of {
    ($id:ident, $name:expr, $e:ty, $indef:expr) => {
        pub struct $id;
        impl Entry for $id {
            const NAME: &'static str = $name;
            const INDEF_OK: bool = $indef;
            type Seed = <$e as Entry>::Seed;
            type Val<'a> = Box<<$e as Entry>::Val<'a>>;
            fn seed(g: &mut Gen) -> Self::Seed { <$e as Entry>::seed(g) }
            fn view<'a>(s: &'a Self::Seed) -> Self::Val<'a> { Box::new(<$e as Entry>::view(s)) }
            fn same<'a, 'b>(a: &Self::Val<'a>, b: &Self::Val<'b>) -> bool { <$e as Entry>::same(a, b) }
            fn model<'a>(v: &Self::Val<'a>) -> Option<Item> { <$e as Entry>::model(v) }
            fn borrows_from<'a>(v: &Self::Val<'a>, input: &'a [u8]) -> bool { <$e as Entry>::borrows_from(v, input) }
        }
    }
}

/// `(E, u8, E)`: an element in first and in last position of a fixed-arity array.
macro_rules! tup_of {
    ($id:ident, $name:expr, $e:ty, $indef:expr) => {
        pub struct $id;
        impl Entry for $id {
            const NAME: &'static str = $name;
            const INDEF_OK: bool = $indef;
            type Seed = (<$e as Entry>::Seed, u8, <$e as Entry>::Seed);
            type Val<'a> = (<$e as Entry>::Val<'a>, u8, <$e as Entry>::Val<'a>);
            fn seed(g: &mut Gen) -> Self::Seed { (<$e as Entry>::seed(g), g.byte(), <$e as Entry>::seed(g)) }
            fn view<'a>(s: &'a Self::Seed) -> Self::Val<'a> { (<$e as Entry>::view(&s.0), s.1, <$e as Entry>::view(&s.2)) }
            fn same<'a, 'b>(a: &Self::Val<'a>, b: &Self::Val<'b>) -> bool { <$e as Entry>::same(&a.0, &b.0) && a.1 == b.1 && <$e as Entry>::same(&a.2, &b.2) }
            fn model<'a>(v: &Self::Val<'a>) -> Option<Item> { Some(Item::array(vec![<$e as Entry>::model(&v.0)?, Item::uint(v.1 as u64), <$e as Entry>::model(&v.2)?])) }
            fn borrows_from<'a>(v: &Self::Val<'a>, input: &'a [u8]) -> bool { <$e as Entry>::borrows_from(&v.0, input) && <$e as Entry>::borrows_from(&v.2, input) }
        }
    }
}

/// `BTreeMap<u16, E>`: an element in value position of the map iterator.
macro_rules! mapval_of {
    ($id:ident, $name:expr, $e:ty, $indef:expr) => {
        pub struct $id;
        impl Entry for $id {
            const NAME: &'static str = $name;
            const INDEF_OK: bool = $indef;
            type Seed = BTreeMap<u16, <$e as Entry>::Seed>;
            type Val<'a> = BTreeMap<u16, <$e as Entry>::Val<'a>>;
            fn seed(g: &mut Gen) -> Self::Seed { let n = g.len(6); (0 .. n).map(|_| (g.u16(), <$e as Entry>::seed(g))).collect() }
            fn view<'a>(s: &'a Self::Seed) -> Self::Val<'a> { s.iter().map(|(k, x)| (*k, <$e as Entry>::view(x))).collect() }
            fn same<'a, 'b>(a: &Self::Val<'a>, b: &Self::Val<'b>) -> bool { a.len() == b.len() && a.iter().zip(b.iter()).all(|((k, x), (l, y))| k == l && <$e as Entry>::same(x, y)) }
            fn model<'a>(v: &Self::Val<'a>) -> Option<Item> { Some(Item::map(v.iter().map(|(k, x)| Some((Item::uint(*k as u64), <$e as Entry>::model(x)?))).collect::<Option<Vec<_>>>()?)) }
            fn borrows_from<'a>(v: &Self::Val<'a>, input: &'a [u8]) -> bool { v.values().all(|x| <$e as Entry>::borrows_from(x, input)) }
        }
    }
}

/// `Result<E, E>` and `Bound<E>`: "[variant, payload]" encodings (no independent model, see above).
macro_rules! res_of {
    ($id:ident, $name:expr, $e:ty) => {
        pub struct $id;
        impl Entry for $id {
            const NAME: &'static str = $name;
            type Seed = Result<<$e as Entry>::Seed, <$e as Entry>::Seed>;
            type Val<'a> = Result<<$e as Entry>::Val<'a>, <$e as Entry>::Val<'a>>;
            fn seed(g: &mut Gen) -> Self::Seed { if g.bool() { Ok(<$e as Entry>::seed(g)) } else { Err(<$e as Entry>::seed(g)) } }
            fn view<'a>(s: &'a Self::Seed) -> Self::Val<'a> { match s { Ok(x) => Ok(<$e as Entry>::view(x)), Err(x) => Err(<$e as Entry>::view(x)) } }
            fn same<'a, 'b>(a: &Self::Val<'a>, b: &Self::Val<'b>) -> bool { match (a, b) { (Ok(x), Ok(y)) | (Err(x), Err(y)) => <$e as Entry>::same(x, y), _ => false } }
            fn model<'a>(_: &Self::Val<'a>) -> Option<Item> { None }
            fn borrows_from<'a>(v: &Self::Val<'a>, input: &'a [u8]) -> bool { match v { Ok(x) | Err(x) => <$e as Entry>::borrows_from(x, input) } }
        }
    }
}

macro_rules! bound_of {
    ($id:ident, $name:expr, $e:ty) => {
        pub struct $id;
        impl Entry for $id {
            const NAME: &'static str = $name;
            type Seed = std::ops::Bound<<$e as Entry>::Seed>;
            type Val<'a> = std::ops::Bound<<$e as Entry>::Val<'a>>;
            fn seed(g: &mut Gen) -> Self::Seed { use std::ops::Bound::*; match g.below(3) { 0 => Included(<$e as Entry>::seed(g)), 1 => Excluded(<$e as Entry>::seed(g)), _ => Unbounded } }
            fn view<'a>(s: &'a Self::Seed) -> Self::Val<'a> { use std::ops::Bound::*; match s { Included(x) => Included(<$e as Entry>::view(x)), Excluded(x) => Excluded(<$e as Entry>::view(x)), Unbounded => Unbounded } }
            fn same<'a, 'b>(a: &Self::Val<'a>, b: &Self::Val<'b>) -> bool { use std::ops::Bound::*; match (a, b) { (Included(x), Included(y)) | (Excluded(x), Excluded(y)) => <$e as Entry>::same(x, y), (Unbounded, Unbounded) => true, _ => false } }
            fn model<'a>(_: &Self::Val<'a>) -> Option<Item> { None }
            fn borrows_from<'a>(v: &Self::Val<'a>, input: &'a [u8]) -> bool { use std::ops::Bound::*; match v { Included(x) | Excluded(x) => <$e as Entry>::borrows_from(x, input), Unbounded => true } }
        }
    }
}

/// Every container shape over one element entry. `$nil`: the element can encode as null (no `Option` over it);
/// `$indef`: the element's own arrays/maps (if any) go through the iterator API.
macro_rules! matrix_row {
    ($name:expr, $e:ty, $indef:expr, [$v:ident $d:ident $l:ident $a:ident $b:ident $t:ident $m:ident $r:ident $bo:ident] $(, opt = $o:ident)?) => {
        seq_of!($v, concat!("Vec<", $name, ">"), $e, Vec, $indef);
        seq_of!($d, concat!("VecDeque<", $name, ">"), $e, VecDeque, $indef);
        seq_of!($l, concat!("LinkedList<", $name, ">"), $e, LinkedList, $indef);
        arr2_of!($a, concat!("[", $name, ";2]"), $e, $indef);
        box_of!($b, concat!("Box<", $name, ">"), $e, $indef);
        tup_of!($t, concat!("(", $name, ",u8,", $name, ")"), $e, false);
        mapval_of!($m, concat!("BTreeMap<u16,", $name, ">"), $e, $indef);
        res_of!($r, concat!("Result<", $name, ",", $name, ">"), $e);
        bound_of!($bo, concat!("Bound<", $name, ">"), $e);
        $(opt_of!($o, concat!("Option<", $name, ">"), $e, $indef);)?
    }
}

matrix_row!("Token", ETok, true, [MVecTok MDqTok MLlTok MArrTok MBoxTok MTupTok MMapTok MResTok MBndTok]);
matrix_row!("Option<u8>", EOptU8, true, [MVecOptU8 MDqOptU8 MLlOptU8 MArrOptU8 MBoxOptU8 MTupOptU8 MMapOptU8 MResOptU8 MBndOptU8]);
matrix_row!("()", EUnit, false, [MVecUnit2 MDqUnit2 MLlUnit2 MArrUnit MBoxUnit MTupUnit MMapUnit MResUnit MBndUnit], opt = MOptUnit);
matrix_row!("Tag", ETag, true, [MVecTag MDqTag MLlTag MArrTag MBoxTag MTupTag MMapTag MResTag MBndTag], opt = MOptTag);
matrix_row!("Tagged<0,&str>", ETagged0Str, true, [MVecTgd MDqTgd MLlTgd MArrTgd MBoxTgd MTupTgd MMapTgd MResTgd MBndTgd], opt = MOptTgd);
matrix_row!("ByteVec", EByteVec, true, [MVecBv MDqBv MLlBv MArrBv MBoxBv MTupBv MMapBv MResBv MBndBv], opt = MOptBv);
matrix_row!("&ByteSlice", ERefByteSlice, true, [MVecBs MDqBs MLlBs MArrBs MBoxBs MTupBs MMapBs MResBs MBndBs], opt = MOptBs);
matrix_row!("&str", ERefStr, true, [MVecRs MDqRs MLlRs MArrRs MBoxRs MTupRs MMapRs MResRs MBndRs]);
matrix_row!("Cow<str>", ECowStr, true, [MVecCow MDqCow MLlCow MArrCow MBoxCow MTupCow MMapCow MResCow MBndCow], opt = MOptCow);
matrix_row!("f64", EF64, true, [MVecF MDqF MLlF MArrF MBoxF MTupF MMapF MResF MBndF], opt = MOptF);
matrix_row!("Int", EInt, true, [MVecInt MDqInt MLlInt MArrInt MBoxInt MTupInt MMapInt MResInt MBndInt], opt = MOptInt);
matrix_row!("Vec<u8>", EVecU8, true, [MVecVec MDqVec MLlVec MArrVec MBoxVec MTupVec MMapVec MResVec MBndVec], opt = MOptVec);
matrix_row!("(u8,String)", ETuple2, false, [MVecTup MDqTup MLlTup MArrTup MBoxTup MTupTup MMapTup MResTup MBndTup], opt = MOptTup);
matrix_row!("Bound<i64>", EBound, false, [MVecBnd MDqBnd MLlBnd MArrBnd MBoxBnd MTupBnd MMapBnd MResBnd MBndBnd], opt = MOptBnd);
matrix_row!("IpAddr", EIpAddr, false, [MVecIp MDqIp MLlIp MArrIp MBoxIp MTupIp MMapIp MResIp MBndIp], opt = MOptIp);
matrix_row!("bool", EBool, true, [MVecBool MDqBool MLlBool MArrBool MBoxBool MTupBool MMapBool MResBool MBndBool], opt = MOptBool);
/// `Range<E>` / `RangeInclusive<E>` wrapped in a tuple: the positional-field decoders (`[start, end]`) over any element.
macro_rules! range_of {
    ($id:ident, $name:expr, $e:ty) => {
        pub struct $id;
        impl Entry for $id {
            const NAME: &'static str = $name;
            type Seed = [<$e as Entry>::Seed; 4];
            type Val<'a> = (std::ops::Range<<$e as Entry>::Val<'a>>, std::ops::RangeInclusive<<$e as Entry>::Val<'a>>);
            fn seed(g: &mut Gen) -> Self::Seed { [<$e as Entry>::seed(g), <$e as Entry>::seed(g), <$e as Entry>::seed(g), <$e as Entry>::seed(g)] }
            fn view<'a>(s: &'a Self::Seed) -> Self::Val<'a> { (<$e as Entry>::view(&s[0]) .. <$e as Entry>::view(&s[1]), <$e as Entry>::view(&s[2]) ..= <$e as Entry>::view(&s[3])) }
            fn same<'a, 'b>(a: &Self::Val<'a>, b: &Self::Val<'b>) -> bool { <$e as Entry>::same(&a.0.start, &b.0.start) && <$e as Entry>::same(&a.0.end, &b.0.end) && <$e as Entry>::same(a.1.start(), b.1.start()) && <$e as Entry>::same(a.1.end(), b.1.end()) }
            fn model<'a>(v: &Self::Val<'a>) -> Option<Item> { Some(Item::array(vec![Item::array(vec![<$e as Entry>::model(&v.0.start)?, <$e as Entry>::model(&v.0.end)?]), Item::array(vec![<$e as Entry>::model(v.1.start())?, <$e as Entry>::model(v.1.end())?])])) }
            fn borrows_from<'a>(v: &Self::Val<'a>, input: &'a [u8]) -> bool { <$e as Entry>::borrows_from(&v.0.start, input) && <$e as Entry>::borrows_from(&v.0.end, input) && <$e as Entry>::borrows_from(v.1.start(), input) && <$e as Entry>::borrows_from(v.1.end(), input) }
        }
    }
}
owned!(EBoxOptU8, "Box<Option<u8>>", Box<Option<u8>>);
owned!(ECellOptU8, "Cell<Option<u8>>", std::cell::Cell<Option<u8>>);
range_of!(MRngTok, "(Range<Token>,RangeInclusive<Token>)", ETok);
range_of!(MRngOptU8, "(Range<Option<u8>>,RangeInclusive<Option<u8>>)", EOptU8);
range_of!(MRngBoxOpt, "(Range<Box<Option<u8>>>,RangeInclusive<Box<Option<u8>>>)", EBoxOptU8);
range_of!(MRngCellOpt, "(Range<Cell<Option<u8>>>,RangeInclusive<Cell<Option<u8>>>)", ECellOptU8);
range_of!(MRngUnit, "(Range<()>,RangeInclusive<()>)", EUnit);
range_of!(MRngBv, "(Range<ByteVec>,RangeInclusive<ByteVec>)", EByteVec);
range_of!(MRngRs, "(Range<&str>,RangeInclusive<&str>)", ERefStr);
range_of!(MRngF, "(Range<f64>,RangeInclusive<f64>)", EF64);
range_of!(MRngVec, "(Range<Vec<u8>>,RangeInclusive<Vec<u8>>)", EVecU8);
range_of!(MRngTgd, "(Range<Tagged<0,&str>>,RangeInclusive<Tagged<0,&str>>)", ETagged0Str);
matrix_row!("Box<Option<u8>>", EBoxOptU8, true, [MVecBo MDqBo MLlBo MArrBo MBoxBo MTupBo MMapBo MResBo MBndBo]);


/// Invoke `$mac!(EntryType)` for every hand-written registry entry, collecting the results in a `Vec`.
#[macro_export]
macro_rules! for_each_core_entry {
    ($mac:ident) => {{
        use $crate::registry::*;
        vec![
            $mac!(EU8), $mac!(EU16), $mac!(EU32), $mac!(EU64), $mac!(EUsize), $mac!(EI8), $mac!(EI16), $mac!(EI32), $mac!(EI64), $mac!(EIsize),
            $mac!(EBool), $mac!(EChar), $mac!(EF32), $mac!(EF64),
            $mac!(ENzU8), $mac!(ENzU16), $mac!(ENzU32), $mac!(ENzU64), $mac!(ENzUsize), $mac!(ENzI8), $mac!(ENzI16), $mac!(ENzI32), $mac!(ENzI64), $mac!(ENzIsize),
            $mac!(EWrapU32), $mac!(EWrapI16), $mac!(ECellI16), $mac!(ECellU64), $mac!(ERefCellString),
            $mac!(EABool), $mac!(EAU8), $mac!(EAU16), $mac!(EAU32), $mac!(EAU64), $mac!(EAUsize), $mac!(EAI8), $mac!(EAI16), $mac!(EAI32), $mac!(EAI64), $mac!(EAIsize),
            $mac!(EString), $mac!(EBoxStr), $mac!(ERefStr), $mac!(ECowStr), $mac!(EOptRefStr), $mac!(EVecRefStr),
            $mac!(EByteVec), $mac!(ERefByteSlice), $mac!(ECowByteSlice), $mac!(EByteArray0), $mac!(EByteArray4), $mac!(EByteArray32),
            $mac!(ECString), $mac!(ERefCStr), $mac!(EPathBuf), $mac!(ERefPath), $mac!(EBoxPath),
            $mac!(EOptU8), $mac!(EOptString), $mac!(EOptVecU8), $mac!(EOptTuple), $mac!(EResU8String), $mac!(EResIntByteVec), $mac!(EBoxU64), $mac!(EBoxVecU16),
            $mac!(EUnit), $mac!(EPhantom), $mac!(ETuple1), $mac!(ETuple2), $mac!(ETuple3), $mac!(ETuple4), $mac!(ETuple5), $mac!(ETuple6), $mac!(ETuple7), $mac!(ETuple8), $mac!(ETuple9), $mac!(ETuple10), $mac!(ETuple11), $mac!(ETuple12), $mac!(ETuple13), $mac!(ETuple14), $mac!(ETuple15), $mac!(ETuple16),
            $mac!(EArr0), $mac!(EArr1), $mac!(EArr3), $mac!(EArrOpt3), $mac!(EArrStr2), $mac!(EArr32), $mac!(EArrVec2), $mac!(EArr23), $mac!(EArr24), $mac!(EArr25), $mac!(EArr256),
            $mac!(EVecU8), $mac!(EVecU64), $mac!(EVecString), $mac!(EVecOptTuple), $mac!(EVecVecI32), $mac!(EVecF64), $mac!(EVecUnit), $mac!(EVecArr0), $mac!(EVecPhantom), $mac!(ELinkedUnit), $mac!(EVecDequeUnit),
            $mac!(EVecDequeI16), $mac!(EVecDequeString), $mac!(ELinkedListU32), $mac!(EBinaryHeapU16), $mac!(EBTreeSetI64), $mac!(EHashSetU16), $mac!(EHashSetString),
            $mac!(EBTreeMapU8U8), $mac!(EBTreeMapStrVec), $mac!(EHashMapU32Str), $mac!(EHashMapStrOptBool),
            $mac!(ERange), $mac!(ERangeFrom), $mac!(ERangeTo), $mac!(ERangeToIncl), $mac!(ERangeIncl), $mac!(EBound),
            $mac!(EDuration), $mac!(ESystemTime), $mac!(EIpAddr), $mac!(EIpv4), $mac!(EIpv6), $mac!(ESockAddr), $mac!(ESockAddrV4), $mac!(ESockAddrV6),
            $mac!(EInt), $mac!(ETag), $mac!(ETok), $mac!(EOptTok), $mac!(ETaggedOptU8), $mac!(ETaggedOptStr), $mac!(ETagged0Str), $mac!(ETagged55799), $mac!(ETagged24Bytes), $mac!(ETaggedBigU8), $mac!(ETaggedMaxVec),
        ]
    }}
}

/// The container x element matrix (see above).
#[macro_export]
macro_rules! for_each_matrix_entry {
    ($mac:ident) => {{
        use $crate::registry::*;
        vec![
            $mac!(MRngTok), $mac!(MRngOptU8), $mac!(MRngBoxOpt), $mac!(MRngCellOpt), $mac!(MRngUnit), $mac!(MRngBv), $mac!(MRngRs), $mac!(MRngF), $mac!(MRngVec), $mac!(MRngTgd), $mac!(MVecBo), $mac!(MDqBo), $mac!(MLlBo), $mac!(MArrBo), $mac!(MBoxBo), $mac!(MTupBo), $mac!(MMapBo), $mac!(MResBo), $mac!(MBndBo), $mac!(EBoxOptU8), $mac!(ECellOptU8), $mac!(MVecTok), $mac!(MDqTok), $mac!(MLlTok), $mac!(MArrTok), $mac!(MBoxTok), $mac!(MTupTok), $mac!(MMapTok), $mac!(MResTok), $mac!(MBndTok), $mac!(MVecOptU8), $mac!(MDqOptU8), $mac!(MLlOptU8), $mac!(MArrOptU8), $mac!(MBoxOptU8), $mac!(MTupOptU8), $mac!(MMapOptU8), $mac!(MResOptU8), $mac!(MBndOptU8), $mac!(MVecUnit2), $mac!(MDqUnit2), $mac!(MLlUnit2), $mac!(MArrUnit), $mac!(MBoxUnit), $mac!(MTupUnit), $mac!(MMapUnit), $mac!(MResUnit), $mac!(MBndUnit), $mac!(MOptUnit), $mac!(MVecTag), $mac!(MDqTag), $mac!(MLlTag), $mac!(MArrTag), $mac!(MBoxTag), $mac!(MTupTag), $mac!(MMapTag), $mac!(MResTag), $mac!(MBndTag), $mac!(MOptTag), $mac!(MVecTgd), $mac!(MDqTgd), $mac!(MLlTgd), $mac!(MArrTgd), $mac!(MBoxTgd), $mac!(MTupTgd), $mac!(MMapTgd), $mac!(MResTgd), $mac!(MBndTgd), $mac!(MOptTgd), $mac!(MVecBv), $mac!(MDqBv), $mac!(MLlBv), $mac!(MArrBv), $mac!(MBoxBv), $mac!(MTupBv), $mac!(MMapBv), $mac!(MResBv), $mac!(MBndBv), $mac!(MOptBv), $mac!(MVecBs), $mac!(MDqBs), $mac!(MLlBs), $mac!(MArrBs), $mac!(MBoxBs), $mac!(MTupBs), $mac!(MMapBs), $mac!(MResBs), $mac!(MBndBs), $mac!(MOptBs), $mac!(MVecRs), $mac!(MDqRs), $mac!(MLlRs), $mac!(MArrRs), $mac!(MBoxRs), $mac!(MTupRs), $mac!(MMapRs), $mac!(MResRs), $mac!(MBndRs), $mac!(MVecCow), $mac!(MDqCow), $mac!(MLlCow), $mac!(MArrCow), $mac!(MBoxCow), $mac!(MTupCow), $mac!(MMapCow), $mac!(MResCow), $mac!(MBndCow), $mac!(MOptCow), $mac!(MVecF), $mac!(MDqF), $mac!(MLlF), $mac!(MArrF), $mac!(MBoxF), $mac!(MTupF), $mac!(MMapF), $mac!(MResF), $mac!(MBndF), $mac!(MOptF), $mac!(MVecInt), $mac!(MDqInt), $mac!(MLlInt), $mac!(MArrInt), $mac!(MBoxInt), $mac!(MTupInt), $mac!(MMapInt), $mac!(MResInt), $mac!(MBndInt), $mac!(MOptInt), $mac!(MVecVec), $mac!(MDqVec), $mac!(MLlVec), $mac!(MArrVec), $mac!(MBoxVec), $mac!(MTupVec), $mac!(MMapVec), $mac!(MResVec), $mac!(MBndVec), $mac!(MOptVec), $mac!(MVecTup), $mac!(MDqTup), $mac!(MLlTup), $mac!(MArrTup), $mac!(MBoxTup), $mac!(MTupTup), $mac!(MMapTup), $mac!(MResTup), $mac!(MBndTup), $mac!(MOptTup), $mac!(MVecBnd), $mac!(MDqBnd), $mac!(MLlBnd), $mac!(MArrBnd), $mac!(MBoxBnd), $mac!(MTupBnd), $mac!(MMapBnd), $mac!(MResBnd), $mac!(MBndBnd), $mac!(MOptBnd), $mac!(MVecIp), $mac!(MDqIp), $mac!(MLlIp), $mac!(MArrIp), $mac!(MBoxIp), $mac!(MTupIp), $mac!(MMapIp), $mac!(MResIp), $mac!(MBndIp), $mac!(MOptIp), $mac!(MVecBool), $mac!(MDqBool), $mac!(MLlBool), $mac!(MArrBool), $mac!(MBoxBool), $mac!(MTupBool), $mac!(MMapBool), $mac!(MResBool), $mac!(MBndBool), $mac!(MOptBool),
        ]
    }}
}

/// Every registry entry: the hand-written ones and the matrix. Used by the checks whose clause depends on how a container
/// treats its element's encoding (round trip, encoder bytes, typed decoding of re-framed encodings, totality); the other
/// registry-driven checks use the hand-written entries (each generic check function is instantiated once per entry, and the
/// build time of this crate is dominated by those instantiations).
#[macro_export]
macro_rules! for_each_entry {
    ($mac:ident) => {{
        let mut v = $crate::for_each_core_entry!($mac);
        v.extend($crate::for_each_matrix_entry!($mac));
        v
    }}
}
