//! Harness-side views of Rust values: generation from a tape (`Arb`), the data-model
//! item a value must encode to (`Model`, written from the docs / RFC, not from minicbor's
//! code) and the equality relation of property C01 (`Same`).

use minicbor::bytes::{ByteArray, ByteVec};
use minicbor::data::{Int, Tag, Tagged};
use std::collections::{BTreeMap, BTreeSet, BinaryHeap, HashMap, HashSet, LinkedList, VecDeque};
use std::num::Wrapping;
use vcore::{Gen, Item};

pub trait Arb: Sized { fn arb(g: &mut Gen) -> Self; }
/// `None` = the wire shape is implementation-defined (no independent model).
pub trait Model { fn model(&self) -> Option<Item>; }
pub trait Same { fn same(&self, o: &Self) -> bool; }

macro_rules! prim {
    ($($t:ty => $gen:ident, $to:expr;)*) => {$(
        impl Arb for $t { fn arb(g: &mut Gen) -> Self { g.$gen() as $t } }
        impl Model for $t { fn model(&self) -> Option<Item> { let f: fn(&$t) -> Item = $to; Some(f(self)) } }
        impl Same for $t { fn same(&self, o: &Self) -> bool { self == o } }
    )*}
}

prim! {
    u8 => u8, |v| Item::uint(*v as u64);
    u16 => u16, |v| Item::uint(*v as u64);
    u32 => u32, |v| Item::uint(*v as u64);
    u64 => u64, |v| Item::uint(*v);
    usize => u64, |v| Item::uint(*v as u64);
    i8 => i8, |v| Item::int(*v as i128);
    i16 => i16, |v| Item::int(*v as i128);
    i32 => i32, |v| Item::int(*v as i128);
    i64 => i64, |v| Item::int(*v as i128);
    isize => i64, |v| Item::int(*v as i128);
    bool => bool, |v| Item::bool(*v);
    char => char, |v| Item::uint(*v as u64);
}

impl Arb for f32 { fn arb(g: &mut Gen) -> Self { f32::from_bits(g.f32_bits()) } }
impl Model for f32 { fn model(&self) -> Option<Item> { Some(Item::F32(self.to_bits())) } }
impl Same for f32 { fn same(&self, o: &Self) -> bool { self.to_bits() == o.to_bits() } }
impl Arb for f64 { fn arb(g: &mut Gen) -> Self { f64::from_bits(g.f64_bits()) } }
impl Model for f64 { fn model(&self) -> Option<Item> { Some(Item::F64(self.to_bits())) } }
impl Same for f64 { fn same(&self, o: &Self) -> bool { self.to_bits() == o.to_bits() } }

macro_rules! nonzero {
    ($($t:ty, $p:ty;)*) => {$(
        impl Arb for $t { fn arb(g: &mut Gen) -> Self { let v = <$p>::arb(g); <$t>::new(v).unwrap_or(<$t>::new(1).unwrap()) } }
        impl Model for $t { fn model(&self) -> Option<Item> { self.get().model() } }
        impl Same for $t { fn same(&self, o: &Self) -> bool { self == o } }
    )*}
}
nonzero! {
    std::num::NonZeroU8, u8; std::num::NonZeroU16, u16; std::num::NonZeroU32, u32; std::num::NonZeroU64, u64; std::num::NonZeroUsize, usize;
    std::num::NonZeroI8, i8; std::num::NonZeroI16, i16; std::num::NonZeroI32, i32; std::num::NonZeroI64, i64; std::num::NonZeroIsize, isize;
}

impl<T: Arb> Arb for Wrapping<T> { fn arb(g: &mut Gen) -> Self { Wrapping(T::arb(g)) } }
impl<T: Model> Model for Wrapping<T> { fn model(&self) -> Option<Item> { self.0.model() } }
impl<T: Same> Same for Wrapping<T> { fn same(&self, o: &Self) -> bool { self.0.same(&o.0) } }

impl<T: Arb> Arb for std::cell::Cell<T> { fn arb(g: &mut Gen) -> Self { std::cell::Cell::new(T::arb(g)) } }
impl<T: Model + Copy> Model for std::cell::Cell<T> { fn model(&self) -> Option<Item> { self.get().model() } }
impl<T: Same + Copy> Same for std::cell::Cell<T> { fn same(&self, o: &Self) -> bool { self.get().same(&o.get()) } }
impl<T: Arb> Arb for std::cell::RefCell<T> { fn arb(g: &mut Gen) -> Self { std::cell::RefCell::new(T::arb(g)) } }
impl<T: Model> Model for std::cell::RefCell<T> { fn model(&self) -> Option<Item> { self.borrow().model() } }
impl<T: Same> Same for std::cell::RefCell<T> { fn same(&self, o: &Self) -> bool { self.borrow().same(&o.borrow()) } }

macro_rules! atomic {
    ($($t:ty, $p:ty;)*) => {$(
        impl Arb for $t { fn arb(g: &mut Gen) -> Self { <$t>::new(<$p>::arb(g)) } }
        impl Model for $t { fn model(&self) -> Option<Item> { self.load(std::sync::atomic::Ordering::SeqCst).model() } }
        impl Same for $t { fn same(&self, o: &Self) -> bool { self.load(std::sync::atomic::Ordering::SeqCst) == o.load(std::sync::atomic::Ordering::SeqCst) } }
    )*}
}
atomic! {
    std::sync::atomic::AtomicBool, bool; std::sync::atomic::AtomicU8, u8; std::sync::atomic::AtomicU16, u16; std::sync::atomic::AtomicU32, u32;
    std::sync::atomic::AtomicU64, u64; std::sync::atomic::AtomicUsize, usize; std::sync::atomic::AtomicI8, i8; std::sync::atomic::AtomicI16, i16;
    std::sync::atomic::AtomicI32, i32; std::sync::atomic::AtomicI64, i64; std::sync::atomic::AtomicIsize, isize;
}

impl Arb for String { fn arb(g: &mut Gen) -> Self { g.string(80) } }
impl Model for String { fn model(&self) -> Option<Item> { Some(Item::text(self)) } }
impl Same for String { fn same(&self, o: &Self) -> bool { self == o } }
impl Model for str { fn model(&self) -> Option<Item> { Some(Item::text(self)) } }
impl Model for &str { fn model(&self) -> Option<Item> { Some(Item::text(self)) } }
impl Same for &str { fn same(&self, o: &Self) -> bool { self == o } }
impl Arb for Box<str> { fn arb(g: &mut Gen) -> Self { g.string(80).into_boxed_str() } }
impl Model for Box<str> { fn model(&self) -> Option<Item> { Some(Item::text(self)) } }
impl Same for Box<str> { fn same(&self, o: &Self) -> bool { self == o } }

impl Arb for ByteVec { fn arb(g: &mut Gen) -> Self { ByteVec::from(g.bytes(300)) } }
impl Model for ByteVec { fn model(&self) -> Option<Item> { Some(Item::bytes(self)) } }
impl Same for ByteVec { fn same(&self, o: &Self) -> bool { self == o } }
impl<const N: usize> Arb for ByteArray<N> { fn arb(g: &mut Gen) -> Self { let mut a = [0u8; N]; for x in a.iter_mut() { *x = g.byte() } ByteArray::from(a) } }
impl<const N: usize> Model for ByteArray<N> { fn model(&self) -> Option<Item> { Some(Item::bytes(&self[..])) } }
impl<const N: usize> Same for ByteArray<N> { fn same(&self, o: &Self) -> bool { self == o } }

impl Arb for std::ffi::CString {
    fn arb(g: &mut Gen) -> Self { let b: Vec<u8> = g.bytes(60).into_iter().map(|x| if x == 0 { 1 } else { x }).collect(); std::ffi::CString::new(b).unwrap() }
}
impl Model for std::ffi::CString { fn model(&self) -> Option<Item> { Some(Item::bytes(self.as_bytes_with_nul())) } }
impl Same for std::ffi::CString { fn same(&self, o: &Self) -> bool { self == o } }

impl Arb for std::path::PathBuf { fn arb(g: &mut Gen) -> Self { std::path::PathBuf::from(g.string(40)) } }
impl Model for std::path::PathBuf { fn model(&self) -> Option<Item> { self.to_str().map(Item::text) } }
impl Same for std::path::PathBuf { fn same(&self, o: &Self) -> bool { self == o } }
impl Arb for Box<std::path::Path> { fn arb(g: &mut Gen) -> Self { std::path::PathBuf::from(g.string(40)).into_boxed_path() } }
impl Model for Box<std::path::Path> { fn model(&self) -> Option<Item> { self.to_str().map(Item::text) } }
impl Same for Box<std::path::Path> { fn same(&self, o: &Self) -> bool { self == o } }

impl<T: Arb> Arb for Option<T> { fn arb(g: &mut Gen) -> Self { if g.chance(70) { None } else { Some(T::arb(g)) } } }
impl<T: Model> Model for Option<T> { fn model(&self) -> Option<Item> { match self { None => Some(Item::Null), Some(x) => x.model() } } }
impl<T: Same> Same for Option<T> { fn same(&self, o: &Self) -> bool { match (self, o) { (None, None) => true, (Some(a), Some(b)) => a.same(b), _ => false } } }

// Result / Bound / IpAddr / SocketAddr: "[variant, payload]" with implementation-chosen variant numbers -> no independent model.
impl<T: Arb, E: Arb> Arb for Result<T, E> { fn arb(g: &mut Gen) -> Self { if g.bool() { Ok(T::arb(g)) } else { Err(E::arb(g)) } } }
impl<T, E> Model for Result<T, E> { fn model(&self) -> Option<Item> { None } }
impl<T: Same, E: Same> Same for Result<T, E> { fn same(&self, o: &Self) -> bool { match (self, o) { (Ok(a), Ok(b)) => a.same(b), (Err(a), Err(b)) => a.same(b), _ => false } } }

impl<T: Arb> Arb for Box<T> { fn arb(g: &mut Gen) -> Self { Box::new(T::arb(g)) } }
impl<T: Model> Model for Box<T> { fn model(&self) -> Option<Item> { (**self).model() } }
impl<T: Same> Same for Box<T> { fn same(&self, o: &Self) -> bool { (**self).same(&**o) } }

impl Arb for () { fn arb(_: &mut Gen) -> Self {} }
impl Model for () { fn model(&self) -> Option<Item> { Some(Item::array(vec![])) } }
impl Same for () { fn same(&self, _: &Self) -> bool { true } }
impl<T> Arb for std::marker::PhantomData<T> { fn arb(_: &mut Gen) -> Self { std::marker::PhantomData } }
impl<T> Model for std::marker::PhantomData<T> { fn model(&self) -> Option<Item> { Some(Item::array(vec![])) } }
impl<T> Same for std::marker::PhantomData<T> { fn same(&self, _: &Self) -> bool { true } }

macro_rules! tuples {
    ($( ($($T:ident $i:tt),+) )+) => {$(
        impl<$($T: Arb),+> Arb for ($($T,)+) { fn arb(g: &mut Gen) -> Self { ($($T::arb(g),)+) } }
        impl<$($T: Model),+> Model for ($($T,)+) { fn model(&self) -> Option<Item> { Some(Item::array(vec![$(self.$i.model()?),+])) } }
        impl<$($T: Same),+> Same for ($($T,)+) { fn same(&self, o: &Self) -> bool { true $(&& self.$i.same(&o.$i))+ } }
    )+}
}
tuples! {
    (A 0)
    (A 0, B 1)
    (A 0, B 1, C 2)
    (A 0, B 1, C 2, D 3)
    (A 0, B 1, C 2, D 3, E 4)
    (A 0, B 1, C 2, D 3, E 4, F 5)
    (A 0, B 1, C 2, D 3, E 4, F 5, G 6)
    (A 0, B 1, C 2, D 3, E 4, F 5, G 6, H 7)
    (A 0, B 1, C 2, D 3, E 4, F 5, G 6, H 7, I 8)
    (A 0, B 1, C 2, D 3, E 4, F 5, G 6, H 7, I 8, J 9)
    (A 0, B 1, C 2, D 3, E 4, F 5, G 6, H 7, I 8, J 9, K 10)
    (A 0, B 1, C 2, D 3, E 4, F 5, G 6, H 7, I 8, J 9, K 10, L 11)
    (A 0, B 1, C 2, D 3, E 4, F 5, G 6, H 7, I 8, J 9, K 10, L 11, M 12)
    (A 0, B 1, C 2, D 3, E 4, F 5, G 6, H 7, I 8, J 9, K 10, L 11, M 12, N 13)
    (A 0, B 1, C 2, D 3, E 4, F 5, G 6, H 7, I 8, J 9, K 10, L 11, M 12, N 13, O 14)
    (A 0, B 1, C 2, D 3, E 4, F 5, G 6, H 7, I 8, J 9, K 10, L 11, M 12, N 13, O 14, P 15)
}

impl<T: Arb, const N: usize> Arb for [T; N] { fn arb(g: &mut Gen) -> Self { std::array::from_fn(|_| T::arb(g)) } }
impl<T: Model, const N: usize> Model for [T; N] { fn model(&self) -> Option<Item> { Some(Item::array(self.iter().map(|x| x.model()).collect::<Option<Vec<_>>>()?)) } }
impl<T: Same, const N: usize> Same for [T; N] { fn same(&self, o: &Self) -> bool { self.iter().zip(o.iter()).all(|(a, b)| a.same(b)) } }

fn seq_len(g: &mut Gen) -> usize { g.len(300) }

impl<T: Arb> Arb for Vec<T> { fn arb(g: &mut Gen) -> Self { let n = seq_len(g); (0 .. n).map(|_| T::arb(g)).collect() } }
impl<T: Model> Model for Vec<T> { fn model(&self) -> Option<Item> { Some(Item::array(self.iter().map(|x| x.model()).collect::<Option<Vec<_>>>()?)) } }
impl<T: Same> Same for Vec<T> { fn same(&self, o: &Self) -> bool { self.len() == o.len() && self.iter().zip(o.iter()).all(|(a, b)| a.same(b)) } }
impl<T: Model> Model for [T] { fn model(&self) -> Option<Item> { Some(Item::array(self.iter().map(|x| x.model()).collect::<Option<Vec<_>>>()?)) } }

impl<T: Arb> Arb for VecDeque<T> { fn arb(g: &mut Gen) -> Self { let n = seq_len(g); let mut d = VecDeque::new(); for i in 0 .. n { if i % 3 == 0 { d.push_front(T::arb(g)) } else { d.push_back(T::arb(g)) } } d } }
impl<T: Model> Model for VecDeque<T> { fn model(&self) -> Option<Item> { Some(Item::array(self.iter().map(|x| x.model()).collect::<Option<Vec<_>>>()?)) } }
impl<T: Same> Same for VecDeque<T> { fn same(&self, o: &Self) -> bool { self.len() == o.len() && self.iter().zip(o.iter()).all(|(a, b)| a.same(b)) } }
impl<T: Arb> Arb for LinkedList<T> { fn arb(g: &mut Gen) -> Self { let n = seq_len(g); (0 .. n).map(|_| T::arb(g)).collect() } }
impl<T: Model> Model for LinkedList<T> { fn model(&self) -> Option<Item> { Some(Item::array(self.iter().map(|x| x.model()).collect::<Option<Vec<_>>>()?)) } }
impl<T: Same> Same for LinkedList<T> { fn same(&self, o: &Self) -> bool { self.len() == o.len() && self.iter().zip(o.iter()).all(|(a, b)| a.same(b)) } }

// Unordered / implementation-ordered collections: the element *order* on the wire is the
// collection's iteration order; the model is therefore compared as a multiset (see `unordered_eq`).
impl<T: Arb + Ord> Arb for BinaryHeap<T> { fn arb(g: &mut Gen) -> Self { let n = seq_len(g); (0 .. n).map(|_| T::arb(g)).collect() } }
impl<T: Model> Model for BinaryHeap<T> { fn model(&self) -> Option<Item> { Some(Item::array(self.iter().map(|x| x.model()).collect::<Option<Vec<_>>>()?)) } }
impl<T: Ord + Clone> Same for BinaryHeap<T> { fn same(&self, o: &Self) -> bool { self.clone().into_sorted_vec() == o.clone().into_sorted_vec() } }
impl<T: Arb + Ord> Arb for BTreeSet<T> { fn arb(g: &mut Gen) -> Self { let n = seq_len(g); (0 .. n).map(|_| T::arb(g)).collect() } }
impl<T: Model> Model for BTreeSet<T> { fn model(&self) -> Option<Item> { Some(Item::array(self.iter().map(|x| x.model()).collect::<Option<Vec<_>>>()?)) } }
impl<T: Ord> Same for BTreeSet<T> { fn same(&self, o: &Self) -> bool { self == o } }
impl<T: Arb + Eq + std::hash::Hash> Arb for HashSet<T> { fn arb(g: &mut Gen) -> Self { let n = seq_len(g); (0 .. n).map(|_| T::arb(g)).collect() } }
impl<T: Model> Model for HashSet<T> { fn model(&self) -> Option<Item> { Some(Item::array(self.iter().map(|x| x.model()).collect::<Option<Vec<_>>>()?)) } }
impl<T: Eq + std::hash::Hash> Same for HashSet<T> { fn same(&self, o: &Self) -> bool { self == o } }

impl<K: Arb + Ord, V: Arb> Arb for BTreeMap<K, V> { fn arb(g: &mut Gen) -> Self { let n = g.len(120); (0 .. n).map(|_| (K::arb(g), V::arb(g))).collect() } }
impl<K: Model, V: Model> Model for BTreeMap<K, V> { fn model(&self) -> Option<Item> { Some(Item::map(self.iter().map(|(k, v)| Some((k.model()?, v.model()?))).collect::<Option<Vec<_>>>()?)) } }
impl<K: Ord, V: Same> Same for BTreeMap<K, V> { fn same(&self, o: &Self) -> bool { self.len() == o.len() && self.iter().zip(o.iter()).all(|((k1, v1), (k2, v2))| k1 == k2 && v1.same(v2)) } }
impl<K: Arb + Eq + std::hash::Hash, V: Arb> Arb for HashMap<K, V> { fn arb(g: &mut Gen) -> Self { let n = g.len(120); (0 .. n).map(|_| (K::arb(g), V::arb(g))).collect() } }
impl<K: Model, V: Model> Model for HashMap<K, V> { fn model(&self) -> Option<Item> { Some(Item::map(self.iter().map(|(k, v)| Some((k.model()?, v.model()?))).collect::<Option<Vec<_>>>()?)) } }
impl<K: Eq + std::hash::Hash, V: Same> Same for HashMap<K, V> { fn same(&self, o: &Self) -> bool { self.len() == o.len() && self.iter().all(|(k, v)| o.get(k).map(|w| v.same(w)).unwrap_or(false)) } }

macro_rules! opaque {
    ($($t:ty, $gen:expr;)*) => {$(
        impl Arb for $t { fn arb(g: &mut Gen) -> Self { let f: fn(&mut Gen) -> $t = $gen; f(g) } }
        impl Model for $t { fn model(&self) -> Option<Item> { None } }
        impl Same for $t { fn same(&self, o: &Self) -> bool { self == o } }
    )*}
}

/// Addresses with the address classes that std (and code written against std) treats specially: unspecified,
/// loopback, broadcast, private, link-local, multicast, documentation - next to uniformly random ones.
fn ipv4(g: &mut Gen) -> std::net::Ipv4Addr {
    let r = g.raw_u32();
    std::net::Ipv4Addr::from(match g.below(12) {
        0 => 0, 1 => 0x7f00_0001, 2 => 0xffff_ffff, 3 => 0x0a00_0000 | (r & 0x00ff_ffff), 4 => 0xc0a8_0000 | (r & 0xffff), 5 => 0xa9fe_0000 | (r & 0xffff),
        6 => 0xe000_0000 | (r & 0x0fff_ffff), 7 => 0xc000_0200 | (r & 0xff), _ => r
    })
}
/// IPv6 likewise, including the embeddings of IPv4 (mapped `::ffff:a.b.c.d`, compatible `::a.b.c.d`, NAT64, 6to4) which
/// `to_canonical` / `to_ipv4*` fold into IPv4 addresses.
fn ipv6(g: &mut Gen) -> std::net::Ipv6Addr {
    let hi = g.raw_u64() as u128;
    let lo = g.raw_u64() as u128;
    let v4 = u32::from(ipv4(g)) as u128;
    std::net::Ipv6Addr::from(match g.below(16) {
        0 => 0, 1 => 1, 2 => u128::MAX,
        3 | 4 => 0xffff_0000_0000 | v4,                      // IPv4-mapped
        5 => v4,                                             // IPv4-compatible
        6 => (0x0064_ff9bu128 << 96) | v4,                   // NAT64 well-known prefix
        7 => (0x2002u128 << 112) | (v4 << 80) | (lo & 0xffff_ffff_ffff_ffff_ffff), // 6to4
        8 => (0xfe80u128 << 112) | lo,                       // link-local
        9 => (0xff02u128 << 112) | (lo & 0xffff),            // multicast
        10 => (0x2001_0db8u128 << 96) | (lo & 0xffff_ffff),  // documentation
        11 => (0xfc00u128 << 112) | lo,                      // unique local
        _ => (hi << 64) | lo
    })
}

opaque! {
    std::time::Duration, |g| { let s = g.u64(); let n = match g.below(4) { 0 => 0, 1 => 999_999_999, 2 => g.u32() % 1_000_000_000, _ => g.raw_u32() % 1_000_000_000 }; std::time::Duration::new(s, n) };
    std::time::SystemTime, |g| {
        // post-epoch times only (pre-epoch is refused by the encoder; exercised in a separate class)
        let s = g.u64() % (1u64 << 40);
        let n = g.raw_u32() % 1_000_000_000;
        std::time::UNIX_EPOCH + std::time::Duration::new(s, n)
    };
    std::net::IpAddr, |g| if g.bool() { std::net::IpAddr::V4(ipv4(g)) } else { std::net::IpAddr::V6(ipv6(g)) };
    std::net::SocketAddr, |g| if g.bool() { std::net::SocketAddr::V4(std::net::SocketAddrV4::new(ipv4(g), g.u16())) } else { std::net::SocketAddr::V6(std::net::SocketAddrV6::new(ipv6(g), g.u16(), 0, 0)) };
    std::net::SocketAddrV4, |g| std::net::SocketAddrV4::new(ipv4(g), g.u16());
    std::net::SocketAddrV6, |g| std::net::SocketAddrV6::new(ipv6(g), g.u16(), 0, 0);
}

impl Arb for std::net::Ipv4Addr { fn arb(g: &mut Gen) -> Self { ipv4(g) } }
impl Model for std::net::Ipv4Addr { fn model(&self) -> Option<Item> { Some(Item::bytes(&self.octets())) } }
impl Same for std::net::Ipv4Addr { fn same(&self, o: &Self) -> bool { self == o } }
impl Arb for std::net::Ipv6Addr { fn arb(g: &mut Gen) -> Self { ipv6(g) } }
impl Model for std::net::Ipv6Addr { fn model(&self) -> Option<Item> { Some(Item::bytes(&self.octets())) } }
impl Same for std::net::Ipv6Addr { fn same(&self, o: &Self) -> bool { self == o } }

macro_rules! ranges {
    ($($t:ident { $($f:ident),+ };)*) => {$(
        impl<T: Arb> Arb for std::ops::$t<T> { fn arb(g: &mut Gen) -> Self { std::ops::$t { $($f: T::arb(g)),+ } } }
        impl<T> Model for std::ops::$t<T> { fn model(&self) -> Option<Item> { None } }
        impl<T: Same> Same for std::ops::$t<T> { fn same(&self, o: &Self) -> bool { true $(&& self.$f.same(&o.$f))+ } }
    )*}
}
ranges! { Range { start, end }; RangeFrom { start }; RangeTo { end }; RangeToInclusive { end }; }
impl<T: Arb> Arb for std::ops::RangeInclusive<T> { fn arb(g: &mut Gen) -> Self { std::ops::RangeInclusive::new(T::arb(g), T::arb(g)) } }
impl<T> Model for std::ops::RangeInclusive<T> { fn model(&self) -> Option<Item> { None } }
impl<T: Same> Same for std::ops::RangeInclusive<T> { fn same(&self, o: &Self) -> bool { self.start().same(o.start()) && self.end().same(o.end()) } }
impl<T: Arb> Arb for std::ops::Bound<T> { fn arb(g: &mut Gen) -> Self { match g.below(3) { 0 => std::ops::Bound::Included(T::arb(g)), 1 => std::ops::Bound::Excluded(T::arb(g)), _ => std::ops::Bound::Unbounded } } }
impl<T> Model for std::ops::Bound<T> { fn model(&self) -> Option<Item> { None } }
impl<T: Same> Same for std::ops::Bound<T> {
    fn same(&self, o: &Self) -> bool {
        use std::ops::Bound::*;
        match (self, o) { (Included(a), Included(b)) => a.same(b), (Excluded(a), Excluded(b)) => a.same(b), (Unbounded, Unbounded) => true, _ => false }
    }
}

impl Arb for Int {
    fn arb(g: &mut Gen) -> Self {
        let (neg, n) = g.cbor_int();
        let v: i128 = if neg { -1 - n as i128 } else { n as i128 };
        Int::try_from(v).expect("value in CBOR integer range")
    }
}
impl Model for Int { fn model(&self) -> Option<Item> { Some(Item::int(i128::from(*self))) } }
impl Same for Int { fn same(&self, o: &Self) -> bool { self == o } }
impl Arb for Tag { fn arb(g: &mut Gen) -> Self { Tag::new(g.u64()) } }
// A bare tag head is not a complete data item; no item model (round-trip and length only).
impl Model for Tag { fn model(&self) -> Option<Item> { None } }
impl Same for Tag { fn same(&self, o: &Self) -> bool { self == o } }
impl<const N: u64, T: Arb> Arb for Tagged<N, T> { fn arb(g: &mut Gen) -> Self { Tagged::new(T::arb(g)) } }
impl<const N: u64, T: Model> Model for Tagged<N, T> { fn model(&self) -> Option<Item> { Some(Item::tag(N, self.value().model()?)) } }
impl<const N: u64, T: Same> Same for Tagged<N, T> { fn same(&self, o: &Self) -> bool { self.value().same(o.value()) } }

/// Multiset comparison of two model items whose top-level element order is not specified
/// (hash sets / maps / heaps). Nested unordered collections are compared recursively.
pub fn unordered_eq(a: &Item, b: &Item) -> bool {
    fn key(i: &Item) -> Vec<u8> { canon(i).encode() }
    fn canon(i: &Item) -> Item {
        match i.preferred() {
            Item::Array(xs, w) => { let mut v: Vec<Item> = xs.iter().map(canon).collect(); v.sort_by_key(key); Item::Array(v, w) }
            Item::Map(xs, w) => { let mut v: Vec<(Item, Item)> = xs.iter().map(|(k, v)| (canon(k), canon(v))).collect(); v.sort_by_key(|(k, v)| (key(k), key(v))); Item::Map(v, w) }
            Item::Tag(t, w, x) => Item::Tag(t, w, Box::new(canon(&x))),
            o => o
        }
    }
    canon(a) == canon(b)
}
