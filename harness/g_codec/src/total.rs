//! C02 engine: every decoding entry point on untrusted bytes — no panic, bounded work,
//! bounded memory, in bounds, position never past the end, values dropped exactly once.

use crate::registry::{within, Entry};
use minicbor::data::{Int, Tag, Token, Type};
use minicbor::decode::info::Size;
use minicbor::decode::{verif, Error, Tokenizer};
use minicbor::{Decode, Decoder};
use std::alloc::{GlobalAlloc, Layout, System};
use std::cell::{Cell, RefCell};
use vcore::engine::{CaseResult, Fail};
use vcore::ensure;

// ---- counting allocator ------------------------------------------------------------------

pub struct Counting;

thread_local! {
    static LIVE: Cell<usize> = const { Cell::new(0) };
    static PEAK: Cell<usize> = const { Cell::new(0) };
    static CASE_PTR: Cell<(usize, usize)> = const { Cell::new((0, 0)) };
    static CASE_NAME: Cell<(usize, usize)> = const { Cell::new((0, 0)) };
}

/// A single request above this cannot be a legitimate consequence of a <= 64 KiB input.
pub const OVERSIZE: usize = 64 << 20;

fn oversize(size: usize) -> ! {
    // async-signal-safe style reporting: raw write(2), then _exit
    fn put(b: &[u8]) { unsafe { libc::write(2, b.as_ptr() as *const libc::c_void, b.len()); } }
    fn put_hex(v: usize) { let mut s = [0u8; 16]; for i in 0 .. 16 { let d = ((v >> (60 - 4 * i)) & 0xf) as u8; s[i] = if d < 10 { b'0' + d } else { b'a' + d - 10 } } put(&s) }
    put(b"\nVERIF-OVERSIZE size=0x");
    put_hex(size);
    put(b" entry=");
    let (np, nl) = CASE_NAME.with(|c| c.get());
    if np != 0 { put(unsafe { std::slice::from_raw_parts(np as *const u8, nl) }) }
    put(b" case=");
    let (p, l) = CASE_PTR.with(|c| c.get());
    if p != 0 {
        // (deep nesting chains are the inputs that overflow stacks: up to 400 000 bytes are reported, 64 per write)
        let b = unsafe { std::slice::from_raw_parts(p as *const u8, l.min(400_000)) };
        for chunk in b.chunks(64) {
            let mut h = [0u8; 128];
            for (i, x) in chunk.iter().enumerate() { h[2 * i] = b"0123456789abcdef"[(x >> 4) as usize]; h[2 * i + 1] = b"0123456789abcdef"[(x & 15) as usize] }
            put(&h[.. 2 * chunk.len()])
        }
    }
    put(b"\n");
    unsafe { libc::_exit(99) }
}

/// Fatal signals raised while a case runs (glibc's double-free abort, a segfault from a bad pointer):
/// report which case was running, then exit with a distinct code. The parent process re-runs the
/// case and reports a violation only if the crash reproduces.
extern "C" fn on_fatal_signal(sig: libc::c_int) {
    fn put(b: &[u8]) { unsafe { libc::write(2, b.as_ptr() as *const libc::c_void, b.len()); } }
    put(b"\nVERIF-CRASH signal=");
    let d = [b'0' + (sig / 10) as u8, b'0' + (sig % 10) as u8];
    put(&d);
    put(b" entry=");
    let (np, nl) = CASE_NAME.with(|c| c.get());
    if np != 0 { put(unsafe { std::slice::from_raw_parts(np as *const u8, nl) }) }
    put(b" case=");
    let (p, l) = CASE_PTR.with(|c| c.get());
    if p != 0 {
        // (deep nesting chains are the inputs that overflow stacks: up to 400 000 bytes are reported, 64 per write)
        let b = unsafe { std::slice::from_raw_parts(p as *const u8, l.min(400_000)) };
        for chunk in b.chunks(64) {
            let mut h = [0u8; 128];
            for (i, x) in chunk.iter().enumerate() { h[2 * i] = b"0123456789abcdef"[(x >> 4) as usize]; h[2 * i + 1] = b"0123456789abcdef"[(x & 15) as usize] }
            put(&h[.. 2 * chunk.len()])
        }
    }
    put(b"\n");
    unsafe { libc::_exit(98) }
}

pub fn install_signal_handlers() {
    // SA_ONSTACK: a stack overflow can only be handled on the alternate signal stack (std gives every thread one)
    unsafe {
        for sig in [libc::SIGABRT, libc::SIGSEGV, libc::SIGBUS, libc::SIGILL] {
            let mut sa: libc::sigaction = std::mem::zeroed();
            sa.sa_sigaction = on_fatal_signal as usize;
            sa.sa_flags = libc::SA_ONSTACK | libc::SA_NODEFER;
            libc::sigemptyset(&mut sa.sa_mask);
            libc::sigaction(sig, &sa, std::ptr::null_mut());
        }
    }
}

/// The size guard applies while code under test runs on this thread (a case is registered); the engine's own bookkeeping
/// - the set of distinct cases grows to tens of megabytes in the thorough tier - is not subject to it.
fn in_case() -> bool { CASE_NAME.try_with(|c| c.get().0 != 0).unwrap_or(false) }

unsafe impl GlobalAlloc for Counting {
    unsafe fn alloc(&self, l: Layout) -> *mut u8 {
        if l.size() > OVERSIZE && in_case() { oversize(l.size()) }
        let p = System.alloc(l);
        if !p.is_null() {
            let _ = LIVE.try_with(|c| { let n = c.get() + l.size(); c.set(n); let _ = PEAK.try_with(|p| if n > p.get() { p.set(n) }); });
        }
        p
    }
    unsafe fn dealloc(&self, p: *mut u8, l: Layout) {
        System.dealloc(p, l);
        let _ = LIVE.try_with(|c| c.set(c.get().saturating_sub(l.size())));
    }
    unsafe fn realloc(&self, p: *mut u8, l: Layout, new: usize) -> *mut u8 {
        if new > OVERSIZE && in_case() { oversize(new) }
        let q = System.realloc(p, l, new);
        if !q.is_null() {
            let _ = LIVE.try_with(|c| { let n = c.get().saturating_sub(l.size()) + new; c.set(n); let _ = PEAK.try_with(|p| if n > p.get() { p.set(n) }); });
        }
        q
    }
}

pub fn mem_mark() -> usize { let l = LIVE.with(|c| c.get()); PEAK.with(|p| p.set(l)); l }
pub fn mem_peak_since(mark: usize) -> usize { PEAK.with(|p| p.get()).saturating_sub(mark) }
pub fn set_case(name: &'static str, input: &[u8]) {
    CASE_PTR.with(|c| c.set((input.as_ptr() as usize, input.len())));
    CASE_NAME.with(|c| c.set((name.as_ptr() as usize, name.len())));
}
/// Run `f` on a thread with the default stack size of a Rust thread (2 MiB). The engine's worker threads have 64 MiB so
/// that the harness itself never overflows; input-controlled recursion in the code under test, however, has to be judged
/// against the stack a user's thread really has. An overflow ends the child process and is reported by the supervisor.
pub fn on_default_stack<R: Send>(f: impl FnOnce() -> R + Send) -> R {
    std::thread::scope(|s| std::thread::Builder::new().stack_size(2 << 20).spawn_scoped(s, f).expect("spawn").join().unwrap_or_else(|p| std::panic::resume_unwind(p)))
}

/// Registers the running case for the crash reporter until the guard is dropped.
pub struct CaseGuard;
impl Drop for CaseGuard { fn drop(&mut self) { clear_case() } }
pub fn case_guard(name: &'static str, input: &[u8]) -> CaseGuard { set_case(name, input); CaseGuard }
pub fn clear_case() { CASE_PTR.with(|c| c.set((0, 0))); CASE_NAME.with(|c| c.set((0, 0))); }

// ---- drop-counting element ---------------------------------------------------------------

thread_local! {
    static COUNTED_LIVE: RefCell<std::collections::HashSet<u64>> = RefCell::new(std::collections::HashSet::new());
    static COUNTED_NEXT: Cell<u64> = const { Cell::new(1) };
    static COUNTED_DOUBLE: Cell<u64> = const { Cell::new(0) };
}

/// Decodes a `u8`; registers itself on construction and deregisters on drop.
#[derive(Debug)]
pub struct Counted { id: u64, pub val: u8 }

impl<'b, C> Decode<'b, C> for Counted {
    fn decode(d: &mut Decoder<'b>, _: &mut C) -> Result<Self, Error> {
        let val = d.u8()?;
        let id = COUNTED_NEXT.with(|c| { let v = c.get(); c.set(v + 1); v });
        COUNTED_LIVE.with(|s| s.borrow_mut().insert(id));
        Ok(Counted { id, val })
    }
}
impl Drop for Counted {
    fn drop(&mut self) {
        let present = COUNTED_LIVE.with(|s| s.borrow_mut().remove(&self.id));
        if !present { COUNTED_DOUBLE.with(|c| c.set(c.get() + 1)) }
    }
}
impl PartialEq for Counted { fn eq(&self, o: &Self) -> bool { self.val == o.val } }
impl Eq for Counted {}
impl PartialOrd for Counted { fn partial_cmp(&self, o: &Self) -> Option<std::cmp::Ordering> { Some(self.cmp(o)) } }
impl Ord for Counted { fn cmp(&self, o: &Self) -> std::cmp::Ordering { self.val.cmp(&o.val) } }

pub fn counted_reset() { COUNTED_LIVE.with(|s| s.borrow_mut().clear()); COUNTED_DOUBLE.with(|c| c.set(0)); }
pub fn counted_live() -> usize { COUNTED_LIVE.with(|s| s.borrow().len()) }
pub fn counted_double() -> u64 { COUNTED_DOUBLE.with(|c| c.get()) }

// ---- derived types for the entry table -----------------------------------------------------

pub mod derived {
    use minicbor::{CborLen, Decode, Encode};
    #[derive(Debug, Encode, Decode, CborLen, PartialEq)]
    pub struct ArrayStruct<'a> { #[n(0)] pub a: u8, #[b(1)] pub s: &'a str, #[n(3)] pub o: Option<i64>, #[n(4)] pub v: Vec<u16> }
    #[derive(Debug, Encode, Decode, CborLen, PartialEq)]
    #[cbor(map)]
    pub struct MapStruct { #[n(0)] pub a: Option<u8>, #[n(7)] pub s: String, #[cbor(n(300), tag(42))] pub t: Option<bool>, #[n(2)] pub e: Option<Plain> }
    #[derive(Debug, Encode, Decode, CborLen, PartialEq, Clone, Copy)]
    #[cbor(index_only)]
    pub enum Plain { #[n(0)] A, #[n(1)] B, #[n(9)] C }
    #[derive(Debug, Encode, Decode, CborLen, PartialEq)]
    pub enum Rich { #[n(0)] Unit, #[n(1)] Tup(#[n(0)] u32, #[n(1)] Option<String>), #[n(2)] #[cbor(map)] Named { #[n(0)] x: i8, #[n(1)] y: Option<Vec<u8>> }, #[cbor(n(3), tag(7))] Tagged(#[n(0)] bool) }
    #[derive(Debug, Encode, Decode, CborLen, PartialEq)]
    #[cbor(tag(1000))]
    pub struct TaggedStruct { #[n(0)] pub inner: Option<Rich>, #[n(1)] pub p: Option<Plain>, #[cbor(n(2), with = "minicbor::bytes")] pub b: Vec<u8> }
    #[derive(Debug, Encode, Decode, CborLen, PartialEq)]
    #[cbor(transparent)]
    pub struct Wrapper(#[n(0)] pub u64);
    #[derive(Debug, Decode)]
    pub struct WithCounted { #[n(0)] pub a: super::Counted, #[n(1)] pub b: Option<super::Counted>, #[n(2)] pub c: Vec<super::Counted> }
}

// ---- entry points ------------------------------------------------------------------------

pub type EpFn = for<'b> fn(&mut Decoder<'b>, &'b [u8]) -> Result<bool, String>;

pub struct EntryPoint { pub name: &'static str, pub family: &'static str, pub size: usize, pub run: EpFn }

fn typed<E: Entry + 'static>(d: &mut Decoder<'_>, input: &[u8]) -> Result<bool, String> {
    // SAFETY of lifetimes: `input` is the decoder's buffer; re-borrow through the decoder itself
    let buf = d.input();
    match d.decode::<E::Val<'_>>() {
        Ok(v) => { if !E::borrows_from(&v, buf) { return Err(format!("decoded {:?} does not point into the input", v)) } let _ = input; Ok(true) }
        Err(_) => Ok(false)
    }
}

macro_rules! typed_row { ($e:ident) => { EntryPoint { name: <$e as Entry>::NAME, family: "typed", size: std::mem::size_of::<<$e as Entry>::Val<'static>>(), run: typed::<$e> } } }

macro_rules! acc {
    ($name:expr, $fam:expr, |$d:ident, $buf:ident| $body:expr) => {
        EntryPoint { name: $name, family: $fam, size: 64, run: { fn f<'b>($d: &mut Decoder<'b>, $buf: &'b [u8]) -> Result<bool, String> { let _ = &$buf; $body } f } }
    }
}

fn inb(p: *const u8, n: usize, buf: &[u8], what: &str) -> Result<(), String> { if within(p, n, buf) { Ok(()) } else { Err(format!("{} returned a slice outside the input", what)) } }

pub fn entry_points() -> Vec<EntryPoint> {
    let mut v: Vec<EntryPoint> = crate::for_each_entry!(typed_row);
    macro_rules! simple { ($($m:ident)*) => { $( v.push(acc!(concat!("Decoder::", stringify!($m)), "accessor", |d, buf| Ok(d.$m().is_ok()))); )* } }
    simple!(bool u8 u16 u32 u64 i8 i16 i32 i64 int f16 f32 f64 char array map tag null undefined simple skip);
    v.push(acc!("Decoder::bytes", "accessor", |d, buf| match d.bytes() { Ok(s) => { inb(s.as_ptr(), s.len(), buf, "bytes")?; Ok(true) } Err(_) => Ok(false) }));
    v.push(acc!("Decoder::str", "accessor", |d, buf| match d.str() { Ok(s) => { inb(s.as_ptr(), s.len(), buf, "str")?; Ok(true) } Err(_) => Ok(false) }));
    v.push(acc!("Decoder::datatype", "accessor", |d, buf| Ok(d.datatype().is_ok())));
    v.push(acc!("Decoder::bytes_iter", "iterator", |d, buf| { match d.bytes_iter() { Err(_) => Ok(false), Ok(it) => { for c in it { match c { Ok(s) => inb(s.as_ptr(), s.len(), buf, "bytes_iter")?, Err(_) => return Ok(false) } } Ok(true) } } }));
    v.push(acc!("Decoder::str_iter", "iterator", |d, buf| { match d.str_iter() { Err(_) => Ok(false), Ok(it) => { for c in it { match c { Ok(s) => inb(s.as_ptr(), s.len(), buf, "str_iter")?, Err(_) => return Ok(false) } } Ok(true) } } }));
    v.push(acc!("Decoder::array_iter::<u64>", "iterator", |d, buf| { match d.array_iter::<u64>() { Err(_) => Ok(false), Ok(it) => { for c in it { if c.is_err() { return Ok(false) } } Ok(true) } } }));
    v.push(acc!("Decoder::array_iter::<&str>", "iterator", |d, buf| { match d.array_iter::<&str>() { Err(_) => Ok(false), Ok(it) => { for c in it { match c { Ok(s) => inb(s.as_ptr(), s.len(), buf, "array_iter")?, Err(_) => return Ok(false) } } Ok(true) } } }));
    v.push(acc!("Decoder::array_iter::<Token>", "iterator", |d, buf| { match d.array_iter::<Token>() { Err(_) => Ok(false), Ok(it) => { for c in it { if c.is_err() { return Ok(false) } } Ok(true) } } }));
    v.push(acc!("Decoder::map_iter::<u8,Vec<u8>>", "iterator", |d, buf| { match d.map_iter::<u8, Vec<u8>>() { Err(_) => Ok(false), Ok(it) => { for c in it { if c.is_err() { return Ok(false) } } Ok(true) } } }));
    v.push(acc!("Decoder::map_iter::<&str,Int>", "iterator", |d, buf| { match d.map_iter::<&str, Int>() { Err(_) => Ok(false), Ok(it) => { for c in it { match c { Ok((s, _)) => inb(s.as_ptr(), s.len(), buf, "map_iter")?, Err(_) => return Ok(false) } } Ok(true) } } }));
    v.push(acc!("Decoder::array_iter_with", "iterator", |d, buf| { let mut ctx = 0u8; match d.array_iter_with::<u8, i16>(&mut ctx) { Err(_) => Ok(false), Ok(it) => { for c in it { if c.is_err() { return Ok(false) } } Ok(true) } } }));
    v.push(acc!("Decoder::map_iter_with", "iterator", |d, buf| { let mut ctx = 0u8; match d.map_iter_with::<u8, i16, bool>(&mut ctx) { Err(_) => Ok(false), Ok(it) => { for c in it { if c.is_err() { return Ok(false) } } Ok(true) } } }));
    // size hints of the decoder's iterators: std consumers (collect, extend, with_capacity) allocate by the lower bound,
    // so it may never exceed what the remaining input can back (one byte per element, two per map entry)
    macro_rules! hint { ($name:expr, |$d:ident| $make:expr, $probe:expr, $per:expr) => {
        v.push(acc!($name, "iterator", |$d, buf| {
            let after_head = { let mut p = $d.probe(); let f: fn(&mut Decoder<'_>) = $probe; f(&mut p); p.position().min(buf.len()) };
            let left = buf.len() - after_head;
            match $make {
                Err(_) => Ok(false),
                Ok(mut it) => {
                    for round in 0 .. 4 {
                        let (lo, hi) = it.size_hint();
                        if lo.saturating_mul($per) > left { return Err(format!("size_hint() promises at least {} more items with {} input bytes left (round {})", lo, left, round)) }
                        if let Some(h) = hi { if h < lo { return Err(format!("size_hint() = ({}, Some({}))", lo, h)) } }
                        match it.next() { None => { if lo > 0 { return Err(format!("size_hint() promised {} items but the iterator ended", lo)) } break } Some(Err(_)) => return Ok(false), Some(Ok(_)) => {} }
                    }
                    Ok(true)
                }
            }
        }));
    }}
    hint!("array_iter::<u8>().size_hint", |d| d.array_iter::<u8>(), |p| { let _ = p.array(); }, 1);
    hint!("array_iter::<Token>().size_hint", |d| d.array_iter::<Token>(), |p| { let _ = p.array(); }, 1);
    hint!("map_iter::<u8,u8>().size_hint", |d| d.map_iter::<u8, u8>(), |p| { let _ = p.map(); }, 2);
    hint!("bytes_iter().size_hint", |d| d.bytes_iter(), |_p| {}, 0);
    hint!("str_iter().size_hint", |d| d.str_iter(), |_p| {}, 0);
    v.push(acc!("Decoder::tokens().collect", "tokens", |d, buf| { match d.tokens().collect::<Result<Vec<Token>, Error>>() { Ok(ts) => { for t in &ts { match t { Token::Bytes(b) => inb(b.as_ptr(), b.len(), buf, "Token::Bytes")?, Token::String(s) => inb(s.as_ptr(), s.len(), buf, "Token::String")?, _ => {} } } Ok(true) } Err(_) => Ok(false) } }));
    v.push(acc!("Tokenizer stepped past its end", "tokens", |d, buf| {
        let mut t = Tokenizer::from(d.clone());
        let mut n = 0usize;
        loop { match t.next() { None => break, Some(_) => { n += 1; if n > buf.len() + 8 { return Err(format!("tokenizer yielded {} items for {} bytes", n, buf.len())) } } } }
        for _ in 0 .. 3 { if t.next().is_some() { return Err("tokenizer resumed after None".into()) } let _ = t.token(); }
        Ok(true)
    }));
    v.push(acc!("Decoder::tokens() iterated past errors", "tokens", |d, buf| {
        let mut n = 0usize;
        { let mut t = d.tokens(); loop { match t.next() { None => break, Some(_) => { n += 1; if n > buf.len() + 8 { return Err(format!("borrowed tokenizer yielded {} items for {} bytes", n, buf.len())) } } } }
          for _ in 0 .. 3 { if t.next().is_some() { return Err("borrowed tokenizer resumed after None".into()) } } }
        Ok(true)
    }));
    v.push(acc!("Tokenizer::from(&mut Decoder) iterated past errors", "tokens", |d, buf| {
        let mut n = 0usize;
        let mut t = Tokenizer::from(&mut *d);
        loop { match t.next() { None => break, Some(_) => { n += 1; if n > buf.len() + 8 { return Err(format!("borrowed tokenizer yielded {} items for {} bytes", n, buf.len())) } } } }
        Ok(true)
    }));
    v.push(acc!("Tokenizer::token until error", "tokens", |d, buf| { let mut t = Tokenizer::from(&mut *d); let mut n = 0; while t.token().is_ok() { n += 1; if n > buf.len() + 8 { return Err("token() keeps succeeding".into()) } } Ok(false) }));
    v.push(acc!("decode::<Token>", "tokens", |d, buf| match d.decode::<Token>() { Ok(Token::Bytes(b)) => { inb(b.as_ptr(), b.len(), buf, "Token::Bytes")?; Ok(true) } Ok(Token::String(s)) => { inb(s.as_ptr(), s.len(), buf, "Token::String")?; Ok(true) } Ok(_) => Ok(true), Err(_) => Ok(false) }));
    v.push(acc!("probe then accessors", "probe", |d, buf| { let before = d.position(); { let mut p = d.probe(); let _ = p.skip(); let _ = p.str(); let _ = p.decode::<Vec<u8>>(); } if d.position() != before { return Err(format!("probe moved the decoder from {} to {}", before, d.position())) } Ok(d.skip().is_ok()) }));
    v.push(acc!("Size::head/tail on every offset", "size", |d, buf| { for i in 0 .. buf.len() { let _ = Size::head(buf[i]); let _ = Size::tail(&buf[.. i]); let _ = Size::tail(&buf[i ..]); } let _ = Size::tail(buf); let _ = d; Ok(true) }));
    v.push(acc!("datatype after every successful skip", "accessor", |d, buf| { let mut n = 0; loop { let _ = d.datatype(); if d.skip().is_err() { break } n += 1; if n > buf.len() + 2 { return Err("skip() keeps succeeding without consuming".into()) } } Ok(false) }));
    v.push(acc!("minicbor::decode::<Type-directed Option<Tag>>", "typed", |d, buf| Ok(d.decode::<Option<Tag>>().is_ok())));
    v.push(acc!("decode_with::<u8, Vec<bool>>", "typed", |d, buf| { let mut c = 7u8; Ok(d.decode_with::<u8, Vec<bool>>(&mut c).is_ok()) }));
    // derived types
    use derived::*;
    v.push(EntryPoint { name: "derive::ArrayStruct", family: "derived", size: std::mem::size_of::<ArrayStruct>(), run: { fn f<'b>(d: &mut Decoder<'b>, buf: &'b [u8]) -> Result<bool, String> { match d.decode::<ArrayStruct>() { Ok(x) => { inb(x.s.as_ptr(), x.s.len(), buf, "#[b] &str field")?; Ok(true) } Err(_) => Ok(false) } } f } });
    macro_rules! derived_ep { ($($t:ident)*) => { $( v.push(EntryPoint { name: concat!("derive::", stringify!($t)), family: "derived", size: std::mem::size_of::<$t>(), run: { fn f<'b>(d: &mut Decoder<'b>, _: &'b [u8]) -> Result<bool, String> { Ok(d.decode::<$t>().is_ok()) } f } }); )* } }
    derived_ep!(MapStruct Plain Rich TaggedStruct Wrapper);
    v
}

/// Run one entry point on `input` starting at `start`, with all oracles armed.
pub fn exec(ep: &EntryPoint, input: &[u8], start: usize) -> Result<bool, Fail> {
    let mut d = Decoder::new(input);
    d.set_position(start);
    set_case(ep.name, input);
    let mark = mem_mark();
    verif::arm(64 * input.len() as u64 + 1024);
    let r = std::panic::catch_unwind(std::panic::AssertUnwindSafe(|| (ep.run)(&mut d, input)));
    let steps = verif::disarm();
    let peak = mem_peak_since(mark);
    clear_case();
    let hexs = crate::util::short_hex(input);
    let ok = match r {
        Err(p) => {
            let m = if let Some(s) = p.downcast_ref::<&str>() { s.to_string() } else if let Some(s) = p.downcast_ref::<String>() { s.clone() } else { "?".into() };
            if m.contains("step budget exceeded") {
                return Err(Fail::new(format!("{}/work-bound", ep.name), format!("{} on {} (from position {}) exceeded the work bound of {} steps", ep.name, hexs, start, 64 * input.len() + 1024)))
            }
            return Err(Fail::new(format!("{}/panic", ep.name), format!("{} on {} (from position {}) panicked: {}", ep.name, hexs, start, m)))
        }
        Ok(Err(m)) => return Err(Fail::new(format!("{}/oracle", ep.name), format!("{} on {}: {}", ep.name, hexs, m))),
        Ok(Ok(b)) => b
    };
    let _ = steps;
    let limit = input.len().max(start);
    if d.position() > limit {
        return Err(Fail::new(format!("{}/position", ep.name), format!("{} on {} (from position {}) left the position at {}, beyond the input length {}", ep.name, hexs, start, d.position(), input.len())))
    }
    let bound = 4096 + ep.size + 128 * input.len();
    if peak > bound {
        return Err(Fail::new(format!("{}/memory", ep.name), format!("{} on the {}-byte input {} allocated {} bytes at peak (bound {})", ep.name, input.len(), hexs, peak, bound)))
    }
    Ok(ok)
}

pub fn start_positions(len: usize) -> [usize; 6] { [0, len / 2, len, len.wrapping_add(1), usize::MAX - 1, usize::MAX] }

/// Drop-exactly-once: decode `input` as several `Counted`-bearing shapes.
pub fn drop_check(input: &[u8]) -> CaseResult {
    use derived::WithCounted;
    use std::collections::{BTreeMap, BTreeSet, BinaryHeap, LinkedList, VecDeque};
    macro_rules! shape { ($name:expr, $t:ty) => {{
        counted_reset();
        set_case(concat!("drop/", $name), input);
        let r = std::panic::catch_unwind(|| { let r: Result<$t, Error> = minicbor::decode(input); let ok = r.is_ok(); drop(r); ok });
        match r {
            Err(_) => return Err(Fail::new(concat!("drop/", $name, "/panic"), format!("decode::<{}> of {} panicked", $name, crate::util::short_hex(input)))),
            Ok(_) => {}
        }
        ensure!(counted_double() == 0, concat!("drop/", $name, "/double-drop"), "decode::<{}> of {} dropped an element twice", $name, crate::util::short_hex(input));
        ensure!(counted_live() == 0, concat!("drop/", $name, "/leak"), "decode::<{}> of {} leaked {} decoded elements (never dropped)", $name, crate::util::short_hex(input), counted_live());
    }}}
    shape!("[Counted;0]", [Counted; 0]);
    shape!("[Counted;1]", [Counted; 1]);
    shape!("[Counted;2]", [Counted; 2]);
    shape!("[Counted;3]", [Counted; 3]);
    shape!("[Counted;4]", [Counted; 4]);
    shape!("[Counted;16]", [Counted; 16]);
    shape!("[[Counted;2];2]", [[Counted; 2]; 2]);
    shape!("[Option<Counted>;3]", [Option<Counted>; 3]);
    shape!("Vec<Counted>", Vec<Counted>);
    shape!("VecDeque<Counted>", VecDeque<Counted>);
    shape!("LinkedList<Counted>", LinkedList<Counted>);
    shape!("BinaryHeap<Counted>", BinaryHeap<Counted>);
    shape!("BTreeSet<Counted>", BTreeSet<Counted>);
    shape!("BTreeMap<u8,Counted>", BTreeMap<u8, Counted>);
    shape!("(Counted,Counted,Counted)", (Counted, Counted, Counted));
    shape!("(Counted,[Counted;2])", (Counted, [Counted; 2]));
    shape!("Option<Counted>", Option<Counted>);
    shape!("Result<Counted,Counted>", Result<Counted, Counted>);
    shape!("Range<Counted>", std::ops::Range<Counted>);
    shape!("Vec<[Counted;2]>", Vec<[Counted; 2]>);
    shape!("WithCounted", WithCounted);
    clear_case();
    Ok(())
}

pub fn type_of_name(t: Type) -> &'static str { match t { Type::Unknown(_) => "unknown", _ => "known" } }

// ---- parent / child supervision --------------------------------------------------------------------

/// Run `child_main` in a child process (same executable, env G_TOTAL_CHILD=1). An oversize allocation or a
/// fatal signal in the child is reported with the case that was running; the parent writes a replay file
/// for sub-check `replay_sub` (tape = 00 + input), re-runs exactly that case in a fresh child and prints a
/// VIOLATION line only if the abnormal exit reproduces. Anything else abnormal is exit 2 (inconclusive).
pub fn supervise<F: FnOnce()>(replay_sub: &str, child_main: F) -> ! {
    if std::env::var("G_TOTAL_CHILD").is_ok() {
        install_signal_handlers();
        child_main();
        std::process::exit(0)
    }
    let args: Vec<String> = std::env::args().collect();
    let exe = std::env::current_exe().expect("current_exe");
    let out = std::process::Command::new(&exe).args(&args[1 ..]).env("G_TOTAL_CHILD", "1").stderr(std::process::Stdio::piped()).spawn().and_then(|c| c.wait_with_output());
    let out = match out { Ok(o) => o, Err(e) => { eprintln!("cannot run child: {}", e); std::process::exit(2) } };
    let err = String::from_utf8_lossy(&out.stderr);
    eprint!("{}", err);
    let prop = args.get(1).cloned().unwrap_or_default();
    match out.status.code() {
        Some(code @ (98 | 99)) => {
            let marker = if code == 99 { "VERIF-OVERSIZE" } else { "VERIF-CRASH" };
            let kind = if code == 99 { "oversize" } else { "crash" };
            let what = if code == 99 { "allocation request above 64 MiB" } else { "fatal signal (stack overflow or memory corruption)" };
            if let Some(line) = err.lines().find(|l| l.starts_with(marker)) {
                let root = vcore::engine::verif_root();
                let dir = root.join("replays");
                let _ = std::fs::create_dir_all(&dir);
                let case = line.split("case=").nth(1).unwrap_or("").trim().to_string();
                let entry = line.split("entry=").nth(1).and_then(|s| s.split(" case=").next()).unwrap_or("?").to_string();
                let p = dir.join(format!("{}-{}-{:016x}.json", prop, kind, vcore::engine::hash_of(&line)));
                let body = format!("{{\n \"property\": \"{}\",\n \"sub\": \"{}\",\n \"entry\": \"{}\",\n \"tape\": \"00{}\",\n \"signature\": \"{}\",\n \"observed\": \"{}\"\n}}\n", prop, replay_sub, entry.replace('"', "'"), case, kind, line.replace('"', "'"));
                let _ = std::fs::write(&p, body);
                if args.iter().any(|a| a == "--replay") {
                    println!("  [{}] {}: {} while handling {}", kind, entry, what, case);
                    println!("VIOLATION property={} replay={}", prop, p.display());
                    std::process::exit(1)
                }
                let again = std::process::Command::new(&exe).arg(&prop).arg("quick").arg("--replay").arg(&p).env("G_TOTAL_CHILD", "1").stderr(std::process::Stdio::piped()).output();
                match again.ok().and_then(|o| o.status.code()) {
                    Some(98) | Some(99) | Some(1) => {
                        println!("  [{}] {}: {} while handling {} (reproduced in a fresh process)", kind, entry, what, case);
                        println!("VIOLATION property={} replay={}", prop, p.display());
                        std::process::exit(1)
                    }
                    other => { eprintln!("abnormal child exit did not reproduce on the recorded case (second run: {:?}): inconclusive", other); std::process::exit(2) }
                }
            }
            std::process::exit(2)
        }
        Some(c) => std::process::exit(c),
        None => { eprintln!("child killed by a signal: inconclusive"); std::process::exit(2) }
    }
}
