//! Codec-core checks: C01 C02 C03 C04 C05 C06 C07(built-in) C11 C12 C13 C19.

pub mod model;
pub mod registry;
pub mod util;
pub mod checks;
pub mod total;

pub fn all_subs() -> Vec<vcore::Sub> {
    let mut v = Vec::new();
    v.extend(checks::c01::subs());
    v.extend(checks::c03::subs());
    v.extend(checks::c04::subs());
    v.extend(checks::c05::subs());
    v.extend(checks::c06::subs());
    v.extend(checks::c07::subs());
    v.extend(checks::c11::subs());
    v.extend(checks::c12::subs());
    v.extend(checks::c13::subs());
    v.extend(checks::c19::subs());
    v.extend(checks::wide::subs());
    v
}

pub fn assumptions(prop: &str) -> Vec<String> {
    let mut v = vec![
        "the harness oracle (vcore: RFC 8949 reference encoder/parser, half-float arithmetic) is itself correct; it is unit-tested against RFC 8949 Appendix A vectors".to_string(),
        "result is 'no counterexample among the generated cases' outside sub-checks flagged exhaustive".to_string(),
        "64-bit little-endian host; 32-bit usize branches are not built".to_string(),
    ];
    v.extend(checks::extra_assumptions(prop));
    v
}
