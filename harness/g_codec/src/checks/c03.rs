//! C03 — encoder output is well-formed, deterministic, shortest-form CBOR.

use crate::model::unordered_eq;
use crate::registry::Entry;
use crate::util::{scoped, short_hex};
use minicbor::data::{Int, Tag};
use minicbor::encode::{ArrayIter, MapIter};
use minicbor::Encoder;
use vcore::engine::{hash_of, CaseResult, Kind, RandomFn, Stats, Sub};
use vcore::gen::{item, ItemCfg};
use vcore::half_ref::{f16_bits_to_f64, f16_is_nan};
use vcore::item::{parse, wellformed, Item, W};
use vcore::{ensure, fail, Gen};

type Enc = Encoder<Vec<u8>>;

/// `out` must be exactly one well-formed item equal to `want` byte for byte.
fn expect_bytes(what: &str, out: &[u8], want: &Item) -> CaseResult {
    match wellformed(out) {
        Ok(n) if n == out.len() => {}
        other => fail!("ill-formed", "{} wrote {} which is not exactly one well-formed item ({:?})", what, short_hex(out), other)
    }
    let w = want.encode();
    ensure!(out == &w[..], "bytes-differ", "{} wrote {} but the preferred serialisation of {:?} is {}", what, short_hex(out), want, short_hex(&w));
    Ok(())
}

fn method<F: FnOnce(&mut Enc) -> bool>(f: F) -> Option<Vec<u8>> {
    let mut e = Encoder::new(Vec::new());
    if f(&mut e) { Some(e.into_writer()) } else { None }
}

macro_rules! ex_int {
    ($fname:ident, $m:ident, $t:ty, $conv:expr) => {
        fn $fname(i: u64, st: &mut Stats) -> CaseResult {
            st.eval();
            let conv: fn(u64) -> $t = $conv;
            let v: $t = conv(i);
            let out = method(|e| e.$m(v).is_ok()).ok_or_else(|| vcore::Fail::new("encode-error", format!("Encoder::{}({}) failed on a Vec sink", stringify!($m), v)))?;
            expect_bytes(&format!("Encoder::{}({})", stringify!($m), v), &out, &Item::int(v as i128))?;
            // the Encode impl of the type writes the same
            let via = minicbor::to_vec(v).map_err(|e| vcore::Fail::new("encode-error", e.to_string()))?;
            ensure!(via == out, "impl-differs", "{}::encode({}) wrote {} but Encoder::{} wrote {}", stringify!($t), v, short_hex(&via), stringify!($m), short_hex(&out));
            if out.len() >= 2 { st.nontrivial_enum(1) }
            Ok(())
        }
    }
}
ex_int!(ex_u8, u8, u8, |i| i as u8);
ex_int!(ex_i8, i8, i8, |i| i as u8 as i8);
ex_int!(ex_u16, u16, u16, |i| i as u16);
ex_int!(ex_i16, i16, i16, |i| i as u16 as i16);
ex_int!(ex_u32, u32, u32, |i| i as u32);
ex_int!(ex_i32, i32, i32, |i| i as u32 as i32);

fn ex_simple(i: u64, st: &mut Stats) -> CaseResult {
    st.eval();
    let n = i as u8;
    let out = method(|e| e.simple(n).is_ok());
    st.class(match n { 0 ..= 19 => "simple/0-19", 20 ..= 23 => "simple/20-23", 24 ..= 31 => "simple/24-31 (unassignable)", _ => "simple/32-255" });
    let want = match n {
        20 => Item::False, 21 => Item::True, 22 => Item::Null, 23 => Item::Undefined,
        24 ..= 31 => {
            // RFC 8949 §3.3: values 24..31 have no well-formed encoding; the only conforming outcome is an error.
            if let Some(out) = out { fail!("simple-unassignable", "Encoder::simple({}) wrote {}; simple values 24..=31 cannot be encoded (two-byte form < 32 is ill-formed)", n, short_hex(&out)) }
            return Ok(())
        }
        _ => Item::Simple(n)
    };
    let out = out.ok_or_else(|| vcore::Fail::new("encode-error", format!("Encoder::simple({}) failed", n)))?;
    st.nontrivial_enum(1);
    expect_bytes(&format!("Encoder::simple({})", n), &out, &want)
}

fn ex_char(i: u64, st: &mut Stats) -> CaseResult {
    st.eval();
    let c = match char::from_u32(i as u32) { Some(c) => c, None => return Ok(()) };
    let out = method(|e| e.char(c).is_ok()).ok_or_else(|| vcore::Fail::new("encode-error", "char"))?;
    if out.len() >= 2 { st.nontrivial_enum(1) }
    expect_bytes(&format!("Encoder::char({:?})", c), &out, &Item::uint(c as u64))
}

fn ex_f32(i: u64, st: &mut Stats) -> CaseResult {
    st.eval();
    let b = i as u32;
    let out = method(|e| e.f32(f32::from_bits(b)).is_ok()).ok_or_else(|| vcore::Fail::new("encode-error", "f32"))?;
    st.nontrivial_enum(1);
    expect_bytes(&format!("Encoder::f32(bits {:08x})", b), &out, &Item::F32(b))
}

/// 64-bit-argument methods over boundary-dense values, plus string/bytes lengths across head widths.
fn wide_methods(g: &mut Gen, st: &mut Stats) -> CaseResult {
    st.eval();
    let v = g.u64();
    let k = g.below(13);
    let (what, out, want): (String, Option<Vec<u8>>, Item) = match k {
        0 => (format!("u64({})", v), method(|e| e.u64(v).is_ok()), Item::uint(v)),
        1 => { let x = g.i64(); (format!("i64({})", x), method(|e| e.i64(x).is_ok()), Item::int(x as i128)) }
        2 => {
            let neg = g.bool();
            let m: i128 = if neg { -1 - v as i128 } else { v as i128 };
            let x = Int::try_from(m).unwrap();
            (format!("int({})", m), method(|e| e.int(x).is_ok()), Item::int(m))
        }
        3 => (format!("array({})+nothing", v), method(|e| e.array(v).is_ok()), Item::Null), // head only: checked below
        4 => (format!("map({})+nothing", v), method(|e| e.map(v).is_ok()), Item::Null),
        5 => { let inner = g.byte() as u64; (format!("tag({}) u8({})", v, inner), method(|e| e.tag(Tag::new(v)).is_ok() && e.u8(inner as u8).is_ok()), Item::tag(v, Item::uint(inner))) }
        6 | 7 => {
            let n = *g.pick(&[0usize, 1, 23, 24, 255, 256, 65535, 65536, 70000]);
            let n = if g.bool() { n } else { g.len(70000) };
            let fill = g.byte();
            let b = vec![fill; n];
            (format!("bytes(len {})", n), method(|e| e.bytes(&b).is_ok()), Item::bytes(&b))
        }
        8 | 9 => {
            let n = *g.pick(&[0usize, 1, 23, 24, 255, 256, 65535, 65536, 70000]);
            let n = if g.bool() { n } else { g.len(70000) };
            let s: String = std::iter::repeat('a').take(n).collect();
            (format!("str(len {})", n), method(|e| e.str(&s).is_ok()), Item::text(&s))
        }
        10 => { let x = g.u32(); (format!("u32({})", x), method(|e| e.u32(x).is_ok()), Item::uint(x as u64)) }
        11 => { let x = g.i32(); (format!("i32({})", x), method(|e| e.i32(x).is_ok()), Item::int(x as i128)) }
        _ => { let b = g.f64_bits(); (format!("f64(bits {:016x})", b), method(|e| e.f64(f64::from_bits(b)).is_ok()), Item::F64(b)) }
    };
    let out = out.ok_or_else(|| vcore::Fail::new("encode-error", format!("Encoder::{} failed on a Vec sink", what)))?;
    st.class(match k { 0 => "u64", 1 => "i64", 2 => "int", 3 => "array-head", 4 => "map-head", 5 => "tag", 6 | 7 => "bytes", 8 | 9 => "str", 10 => "u32", 11 => "i32", _ => "f64" });
    if out.len() >= 2 { st.nontrivial(hash_of(&(k, &out[.. out.len().min(16)], out.len()))) }
    if k == 3 || k == 4 {
        // a bare container head: compare with the reference head
        let mut w = Vec::new();
        vcore::item::write_head(&mut w, if k == 3 { 4 } else { 5 }, v, W::min_for(v));
        ensure!(out == w, "head-differs", "Encoder::{} wrote {} but the shortest head is {}", what, short_hex(&out), short_hex(&w));
        return Ok(())
    }
    expect_bytes(&format!("Encoder::{}", what), &out, &want)
}

/// Values of registry types through their `Encode` impl.
pub fn value_bytes<E: Entry>(g: &mut Gen, st: &mut Stats) -> CaseResult {
    scoped(E::NAME, || {
        st.eval();
        let seed = E::seed(g);
        let v = E::view(&seed);
        let out = match minicbor::to_vec(&v) { Ok(b) => b, Err(e) => fail!("encode-refused", "to_vec({:?}) failed: {}", v, e) };
        match wellformed(&out) {
            Ok(n) if n == out.len() => {}
            other => {
                // `Tag` and the structural `Token`s encode a bare head, which is not a complete item by design
                if crate::registry::head_only::<E>() && E::model(&v).is_none() { return Ok(()) }
                fail!("ill-formed", "{:?} encoded as {} which is not exactly one well-formed item ({:?})", v, short_hex(&out), other)
            }
        }
        let (parsed, _) = parse(&out).map_err(|e| vcore::Fail::new("ill-formed", format!("{:?}", e)))?;
        ensure!(parsed.is_preferred(), "not-preferred", "{:?} encoded as {} which is not the preferred definite-length serialisation (preferred: {})", v, short_hex(&out), short_hex(&parsed.preferred().encode()));
        if let Some(m) = E::model(&v) {
            if E::UNORDERED {
                ensure!(unordered_eq(&parsed, &m), "wrong-value", "{:?} encoded as {} whose data-model value differs from the value given", v, short_hex(&out));
            } else {
                let w = m.encode();
                ensure!(out == w, "bytes-differ", "{:?} encoded as {} but the reference encoder gives {}", v, short_hex(&out), short_hex(&w));
            }
        }
        let again = minicbor::to_vec(&v).map_err(|e| vcore::Fail::new("encode-refused", e.to_string()))?;
        ensure!(again == out, "nondeterministic", "encoding {:?} twice gave {} and {}", v, short_hex(&out), short_hex(&again));
        // the item that reaches a std::io sink through the adapter is the same item, however the sink takes the bytes
        {
            let mut w = minicbor::encode::write::Writer::new(crate::checks::c13::Limited::scripted(g, usize::MAX));
            let r = minicbor::encode(&v, &mut w);
            let sink = w.into_inner();
            ensure!(r.is_ok(), "io-sink-failed", "encoding {:?} into an unbounded io::Write ({} short-write/interrupt steps) failed: {:?}", v, sink.script.len(), r.err().map(|e| e.to_string()));
            ensure!(sink.data == out, "io-sink-bytes", "{:?}: the io::Write sink received {} (script {:?}), a Vec receives {}", v, short_hex(&sink.data), sink.script, short_hex(&out));
            if sink.interrupts > 0 { st.class("value/io-sink-interrupted") }
        }
        if out.len() >= 2 {
            if E::UNORDERED { let mut s = out.clone(); s.sort_unstable(); st.nontrivial(hash_of(&(E::NAME, s))) } else { st.nontrivial(hash_of(&(E::NAME, &out))) }
            st.sample(hash_of(&out), || format!("{}: {:?} -> {}", E::NAME, v, short_hex(&out)));
        }
        st.class(if E::model(&v).is_some() { "value/modelled" } else { "value/impl-defined-shape" });
        Ok(())
    })
}

macro_rules! vb_row { ($e:ident) => { value_bytes::<$e> as RandomFn } }

fn values(g: &mut Gen, st: &mut Stats) -> CaseResult {
    static T: std::sync::OnceLock<Vec<RandomFn>> = std::sync::OnceLock::new();
    let t = T.get_or_init(|| crate::for_each_entry!(vb_row));
    t[g.below(t.len())](g, st)
}

/// An iterator that reports a chosen (truthful) `size_hint`.
#[derive(Clone)]
struct Hinted<I> { it: I, low: usize, up: Option<usize> }
impl<I: Iterator> Iterator for Hinted<I> {
    type Item = I::Item;
    fn next(&mut self) -> Option<I::Item> { self.it.next() }
    fn size_hint(&self) -> (usize, Option<usize>) { (self.low, self.up) }
}

/// A truthful hint for an iterator of exactly `n` items: lower bound <= n <= upper bound (or no upper bound).
fn gen_hint(g: &mut Gen, n: usize) -> (usize, Option<usize>, &'static str) {
    match g.below(8) {
        0 | 1 => (n, Some(n), "exact"),
        2 => (0, None, "(0,None)"),
        3 => (g.below(n + 1), None, "(k,None)"),
        4 => (n, None, "(n,None)"),
        5 => (0, Some(n), if n == 0 { "exact" } else { "(0,Some(n))" }),
        6 => (n, Some(n + 1 + g.below(3)), "(n,Some(n+d))"),
        _ => (g.below(n + 1), Some(*g.pick(&[usize::MAX, n + 1, n + 1000])), "(k,Some(m))")
    }
}

/// `ArrayIter` / `MapIter` over iterators with every kind of truthful size hint (std adaptors and a wrapper that
/// reports a generated hint): definite header iff the hint is exact, otherwise indefinite with a break.
fn iter_encoders(g: &mut Gen, st: &mut Stats) -> CaseResult {
    st.eval();
    let n = g.len(300);
    let xs: Vec<u32> = (0 .. n).map(|_| g.u32()).collect();
    let is_map = g.bool();
    let style = g.below(6);
    let arr_items = || -> Vec<Item> { xs.iter().map(|x| Item::uint(*x as u64)).collect() };
    let map_items = || -> Vec<(Item, Item)> { xs.iter().enumerate().map(|(i, x)| (Item::uint(i as u64), Item::uint(*x as u64))).collect() };
    let (out, exact, label): (_, bool, &'static str) = match (is_map, style) {
        (false, 0) => (minicbor::to_vec(ArrayIter::new(xs.iter())), true, "slice-iter"),
        // `filter` has size_hint (0, Some(n)): inexact unless n == 0
        (false, 1) => (minicbor::to_vec(ArrayIter::new(xs.iter().filter(|_| true))), n == 0, "filter"),
        // `flat_map` over one-element vectors has size_hint (0, None) unless the outer iterator is exhausted
        (false, 2) => (minicbor::to_vec(ArrayIter::new(xs.iter().flat_map(|x| vec![*x]))), n == 0, "flat_map"),
        (false, _) => { let (low, up, l) = gen_hint(g, n); (minicbor::to_vec(ArrayIter::new(Hinted { it: xs.iter(), low, up })), Some(low) == up, l) }
        (true, 0) => (minicbor::to_vec(MapIter::new(xs.iter().enumerate())), true, "slice-iter"),
        (true, 1) => (minicbor::to_vec(MapIter::new(xs.iter().enumerate().filter(|_| true))), n == 0, "filter"),
        (true, 2) => (minicbor::to_vec(MapIter::new(xs.iter().enumerate().flat_map(|kv| vec![kv]))), n == 0, "flat_map"),
        (true, _) => { let (low, up, l) = gen_hint(g, n); (minicbor::to_vec(MapIter::new(Hinted { it: xs.iter().enumerate(), low, up })), Some(low) == up, l) }
    };
    let want = match (is_map, exact) {
        (false, true) => Item::array(arr_items()), (false, false) => Item::Array(arr_items(), None),
        (true, true) => Item::map(map_items()), (true, false) => Item::Map(map_items(), None)
    };
    let out = out.map_err(|e| vcore::Fail::new("encode-error", e.to_string()))?;
    st.class(&format!("{}/{}/{}", if is_map { "MapIter" } else { "ArrayIter" }, label, if exact { "definite" } else { "indefinite" }));
    st.nontrivial(hash_of(&(&out, exact, is_map)));
    expect_bytes(if is_map { "MapIter" } else { "ArrayIter" }, &out, &want)
}

/// Lower an item tree to a sequence of Encoder calls, choosing among the methods able to express
/// each node. Returns the item (with the framing implied by the chosen calls) the output must equal.
fn lower(g: &mut Gen, it: &Item, e: &mut Enc, calls: &mut usize, log: &mut String) -> Result<Item, String> {
    *calls += 1;
    macro_rules! call { ($name:expr, $r:expr) => {{ if log.len() < 400 { log.push_str($name); log.push(' ') } $r.map(|_| ()).map_err(|err| format!("{} failed: {}", $name, err))? }} }
    Ok(match it {
        Item::UInt(v, _) => {
            let v = *v;
            let mut opts: Vec<u8> = vec![3, 4, 5];
            if v <= u8::MAX as u64 { opts.push(0) }
            if v <= u16::MAX as u64 { opts.push(1) }
            if v <= u32::MAX as u64 { opts.push(2) }
            if v <= i64::MAX as u64 { opts.push(6) }
            if v <= i8::MAX as u64 { opts.push(7) }
            if v <= 0x10ffff && char::from_u32(v as u32).is_some() { opts.push(8) }
            match *g.pick(&opts) {
                0 => call!("u8", e.u8(v as u8)), 1 => call!("u16", e.u16(v as u16)), 2 => call!("u32", e.u32(v as u32)), 3 => call!("u64", e.u64(v)),
                4 => call!("int", e.int(Int::from(v))), 5 => call!("encode(u64)", e.encode(v)), 6 => call!("i64", e.i64(v as i64)), 7 => call!("i8", e.i8(v as i8)),
                _ => call!("char", e.char(char::from_u32(v as u32).unwrap()))
            }
            Item::uint(v)
        }
        Item::NInt(n, _) => {
            let n = *n;
            let m: i128 = -1 - n as i128;
            let mut opts: Vec<u8> = vec![4];
            if m >= i8::MIN as i128 { opts.push(0) }
            if m >= i16::MIN as i128 { opts.push(1) }
            if m >= i32::MIN as i128 { opts.push(2) }
            if m >= i64::MIN as i128 { opts.push(3); opts.push(5) }
            match *g.pick(&opts) {
                0 => call!("i8", e.i8(m as i8)), 1 => call!("i16", e.i16(m as i16)), 2 => call!("i32", e.i32(m as i32)), 3 => call!("i64", e.i64(m as i64)),
                4 => call!("int", e.int(Int::try_from(m).unwrap())), _ => call!("encode(i64)", e.encode(m as i64))
            }
            Item::nint(n)
        }
        Item::Bytes(b, _) => {
            if g.chance(64) {
                call!("begin_bytes", e.begin_bytes());
                let k = g.below(4);
                let mut cuts: Vec<usize> = (0 .. k).map(|_| g.below(b.len() + 1)).collect();
                cuts.push(0); cuts.push(b.len()); cuts.sort_unstable();
                let mut chunks = Vec::new();
                for c in cuts.windows(2) { let p = &b[c[0] .. c[1]]; call!("bytes", e.bytes(p)); chunks.push((p.to_vec(), W::min_for(p.len() as u64))) }
                call!("end", e.end());
                Item::BytesIndef(chunks)
            } else { call!("bytes", e.bytes(b)); Item::bytes(b) }
        }
        Item::BytesIndef(cs) => {
            call!("begin_bytes", e.begin_bytes());
            let mut chunks = Vec::new();
            for (c, _) in cs { call!("bytes", e.bytes(c)); chunks.push((c.clone(), W::min_for(c.len() as u64))) }
            call!("end", e.end());
            Item::BytesIndef(chunks)
        }
        Item::Text(s, _) => { if g.bool() { call!("str", e.str(s)) } else { call!("encode(&str)", e.encode(s.as_str())) } Item::text(s) }
        Item::TextIndef(cs) => {
            call!("begin_str", e.begin_str());
            let mut chunks = Vec::new();
            for (c, _) in cs { call!("str", e.str(c)); chunks.push((c.clone(), W::min_for(c.len() as u64))) }
            call!("end", e.end());
            Item::TextIndef(chunks)
        }
        Item::Array(xs, _) => {
            let indef = g.chance(90);
            if indef { call!("begin_array", e.begin_array()) } else { call!("array", e.array(xs.len() as u64)) }
            let mut v = Vec::new();
            for x in xs { v.push(lower(g, x, e, calls, log)?) }
            if indef { call!("end", e.end()); Item::Array(v, None) } else { Item::array(v) }
        }
        Item::Map(xs, _) => {
            let indef = g.chance(90);
            if indef { call!("begin_map", e.begin_map()) } else { call!("map", e.map(xs.len() as u64)) }
            let mut v = Vec::new();
            for (k, x) in xs { let kk = lower(g, k, e, calls, log)?; let xx = lower(g, x, e, calls, log)?; v.push((kk, xx)) }
            if indef { call!("end", e.end()); Item::Map(v, None) } else { Item::map(v) }
        }
        Item::Tag(t, _, x) => { call!("tag", e.tag(Tag::new(*t))); Item::tag(*t, lower(g, x, e, calls, log)?) }
        Item::Simple(n) => { call!("simple", e.simple(*n)); Item::Simple(*n) }
        Item::False => { if g.bool() { call!("bool", e.bool(false)) } else { call!("encode(bool)", e.encode(false)) } Item::False }
        Item::True => { call!("bool", e.bool(true)); Item::True }
        Item::Null => { if g.bool() { call!("null", e.null()) } else { call!("encode(None)", e.encode(None::<u8>)) } Item::Null }
        Item::Undefined => { call!("undefined", e.undefined()); Item::Undefined }
        Item::F16(b) => {
            if f16_is_nan(*b) { call!("f32", e.f32(f32::NAN)); Item::F32(f32::NAN.to_bits()) }
            else { call!("f16", e.f16(f16_bits_to_f64(*b) as f32)); Item::F16(*b) }
        }
        Item::F32(b) => { call!("f32", e.f32(f32::from_bits(*b))); Item::F32(*b) }
        Item::F64(b) => { call!("f64", e.f64(f64::from_bits(*b))); Item::F64(*b) }
    })
}

fn histories(g: &mut Gen, st: &mut Stats) -> CaseResult {
    st.eval();
    let cfg = ItemCfg { max_depth: 6, max_nodes: 40, wide: false, indef: true, tags: true, floats: true, simple: true, f16: true, max_str: 80 };
    let src = item(g, &cfg);
    let mut e = Encoder::new(Vec::new());
    let mut calls = 0usize;
    let mut log = String::new();
    let want = match lower(g, &src, &mut e, &mut calls, &mut log) { Ok(w) => w, Err(m) => fail!("encode-error", "{} (calls so far: {})", m, log) };
    let out = e.into_writer();
    match wellformed(&out) {
        Ok(n) if n == out.len() => {}
        other => fail!("ill-formed", "call sequence [{}] wrote {} which is not exactly one well-formed item ({:?})", log, short_hex(&out), other)
    }
    let w = want.encode();
    ensure!(out == w, "bytes-differ", "call sequence [{}] wrote {} but the reference serialisation is {}", log, short_hex(&out), short_hex(&w));
    let (parsed, _) = parse(&out).map_err(|e| vcore::Fail::new("ill-formed", format!("{:?}", e)))?;
    ensure!(parsed.value_eq(&want), "wrong-value", "call sequence [{}] wrote an item whose value differs from the source", log);
    let _ = &src;
    if calls >= 2 { st.nontrivial(hash_of(&out)); st.sample(hash_of(&out), || format!("[{}] -> {}", log.trim_end(), short_hex(&out))) }
    st.class(if want.has_indefinite() { "history/with-indefinite" } else { "history/all-definite" });
    Ok(())
}

/// Reference bytes of one token (a head, not necessarily a complete item), written from RFC 8949 section 3 and the
/// documented meaning of each variant: integers by value with the shortest head, floats at the width the variant
/// names (F16 = the given f32 rounded to nearest-even half precision), lengths/tags with the shortest head.
fn token_ref(t: &minicbor::data::Token<'_>) -> Option<Vec<u8>> {
    use minicbor::data::Token;
    let mut o = Vec::new();
    if let Some(n) = crate::registry::token_int(t) { return Some(Item::int(n).encode()) }
    match t {
        Token::Bool(b) => o.push(if *b { 0xf5 } else { 0xf4 }),
        Token::Null => o.push(0xf6), Token::Undefined => o.push(0xf7), Token::Break => o.push(0xff),
        Token::BeginBytes => o.push(0x5f), Token::BeginString => o.push(0x7f), Token::BeginArray => o.push(0x9f), Token::BeginMap => o.push(0xbf),
        Token::F16(x) => { if x.is_nan() { return None } o.push(0xf9); o.extend_from_slice(&vcore::half_ref::f32_bits_to_f16_rne(x.to_bits()).to_be_bytes()) }
        Token::F32(x) => { o.push(0xfa); o.extend_from_slice(&x.to_bits().to_be_bytes()) }
        Token::F64(x) => { o.push(0xfb); o.extend_from_slice(&x.to_bits().to_be_bytes()) }
        Token::Bytes(b) => return Some(Item::bytes(b).encode()),
        Token::String(s) => return Some(Item::text(s).encode()),
        Token::Array(n) => vcore::item::write_head(&mut o, 4, *n, W::min_for(*n)),
        Token::Map(n) => vcore::item::write_head(&mut o, 5, *n, W::min_for(*n)),
        Token::Tag(t) => { let n = u64::from(*t); vcore::item::write_head(&mut o, 6, n, W::min_for(n)) }
        Token::Simple(n) => { if (24 ..= 31).contains(n) { return None } if *n < 24 { o.push(0xe0 | *n) } else { o.push(0xf8); o.push(*n) } }
        _ => return None
    }
    Some(o)
}

/// Every `Token` variant (F16 with arbitrary f32 payloads, not only half-representable ones) against `token_ref`.
fn token_bytes(g: &mut Gen, st: &mut Stats) -> CaseResult {
    use minicbor::data::Token;
    st.eval();
    let bb = g.bytes(300);
    let bs = g.string(80);
    let t = if g.chance(60) { Token::F16(f32::from_bits(g.f32_bits())) } else { crate::checks::c07::gen_token(g, &bb, &bs, true) };
    let out = minicbor::to_vec(&t).map_err(|e| vcore::Fail::new("encode-error", format!("{:?}: {}", t, e)))?;
    let mut e = Encoder::new(Vec::new());
    e.tokens(&[t]).map_err(|e| vcore::Fail::new("encode-error", format!("Encoder::tokens({:?}): {}", t, e)))?;
    ensure!(e.writer() == &out, "tokens-differs", "Encoder::tokens([{:?}]) wrote {} but Token::encode wrote {}", t, short_hex(e.writer()), short_hex(&out));
    let name = format!("{:?}", t);
    st.class(&format!("token/{}", name.split(|c| c == '(' || c == ' ').next().unwrap_or("?")));
    match token_ref(&t) {
        Some(want) => ensure!(out == want, "bytes-differ", "{:?} encoded as {} ; the reference head is {}", t, short_hex(&out), short_hex(&want)),
        None => match t {
            // NaN: some half-precision NaN
            Token::F16(_) => ensure!(out.len() == 3 && out[0] == 0xf9 && vcore::half_ref::f16_is_nan(u16::from_be_bytes([out[1], out[2]])), "bytes-differ", "{:?} encoded as {} ; expected a half-precision NaN", t, short_hex(&out)),
            _ => {}
        }
    }
    if out.len() >= 2 { st.nontrivial(hash_of(&out)) }
    Ok(())
}

/// The IANA registry numbers of the tags minicbor names (RFC 8949 section 3.4, RFC 8746, IANA "CBOR Tags").
const IANA: [(minicbor::data::IanaTag, u64); 41] = {
    use minicbor::data::IanaTag::*;
    [(DateTime, 0), (Timestamp, 1), (PosBignum, 2), (NegBignum, 3), (Decimal, 4), (Bigfloat, 5), (ToBase64Url, 21), (ToBase64, 22), (ToBase16, 23),
     (Cbor, 24), (Uri, 32), (Base64Url, 33), (Base64, 34), (Regex, 35), (Mime, 36), (MultiDimArrayR, 40), (HomogenousArray, 41),
     (TypedArrayU8, 64), (TypedArrayU16B, 65), (TypedArrayU32B, 66), (TypedArrayU64B, 67), (TypedArrayU8Clamped, 68), (TypedArrayU16L, 69), (TypedArrayU32L, 70), (TypedArrayU64L, 71),
     (TypedArrayI8, 72), (TypedArrayI16B, 73), (TypedArrayI32B, 74), (TypedArrayI64B, 75), (TypedArrayI16L, 77), (TypedArrayI32L, 78), (TypedArrayI64L, 79),
     (TypedArrayF16B, 80), (TypedArrayF32B, 81), (TypedArrayF64B, 82), (TypedArrayF128B, 83), (TypedArrayF16L, 84), (TypedArrayF32L, 85), (TypedArrayF64L, 86), (TypedArrayF128L, 87),
     (MultiDimArrayC, 1040)]
};

/// `IanaTag` has an Encode impl only: index < 41 = the named tags (written as the tag head of their registry number,
/// conversions to and from `Tag` agree), index >= 41 = every other number below 2^16 must not convert to a named tag.
fn iana_tags(i: u64, st: &mut Stats) -> CaseResult {
    use minicbor::data::IanaTag;
    st.eval();
    if (i as usize) < IANA.len() {
        let (t, n) = IANA[i as usize];
        let mut want = Vec::new();
        vcore::item::write_head(&mut want, 6, n, W::min_for(n));
        let out = minicbor::to_vec(t).map_err(|e| vcore::Fail::new("encode-error", e.to_string()))?;
        ensure!(out == want, "bytes-differ", "IanaTag::{:?} wrote {} ; its registry number {} has the tag head {}", t, short_hex(&out), n, short_hex(&want));
        let mut e = Encoder::new(Vec::new());
        e.tag(t).map_err(|e| vcore::Fail::new("encode-error", e.to_string()))?;
        ensure!(e.writer() == &want, "bytes-differ", "Encoder::tag(IanaTag::{:?}) wrote {} ; expected {}", t, short_hex(e.writer()), short_hex(&want));
        ensure!(u64::from(Tag::from(t)) == n && u64::from(t.tag()) == n, "iana-number", "IanaTag::{:?} converts to tag {} ; the registry says {}", t, u64::from(Tag::from(t)), n);
        ensure!(IanaTag::try_from(Tag::new(n)).ok() == Some(t), "iana-number", "Tag({}) converts to {:?}, expected {:?}", n, IanaTag::try_from(Tag::new(n)).ok(), t);
        ensure!(minicbor::len(t) == want.len(), "iana-len", "len(IanaTag::{:?}) = {} but {} bytes are written", t, minicbor::len(t), want.len());
        st.nontrivial_enum(1);
        st.sample(i, || format!("IanaTag::{:?} = {} -> {}", t, n, short_hex(&out)));
    } else {
        let n = i - IANA.len() as u64;
        if let Ok(t) = IanaTag::try_from(Tag::new(n)) {
            ensure!(IANA.iter().any(|(x, m)| *x == t && *m == n), "iana-number", "Tag({}) converts to IanaTag::{:?}, which is not its registry number", n, t);
        }
    }
    Ok(())
}

pub fn subs() -> Vec<Sub> {
    let en = |name, n: u64, f, rule, thorough_only: bool| Sub {
        prop: "C03", name, rule,
        kind: Kind::Enumerate { quick: if thorough_only { 1 << 18 } else { n }, thorough: n, f, complete_quick: !thorough_only, complete_thorough: true }
    };
    vec![
        en("iana-tags", 41 + (1 << 16), iana_tags, "the 41 named IANA tags: Encode / Encoder::tag / CborLen write the tag head of the registry number (table from RFC 8949 3.4, RFC 8746), Tag <-> IanaTag conversions agree; every other number < 2^16 converts to no named tag or to the right one", false),
        en("all-u8", 1 << 8, ex_u8, "Encoder::u8 and u8::encode for all values vs reference encoder; non-trivial = output >= 2 bytes", false),
        en("all-i8", 1 << 8, ex_i8, "all i8", false),
        en("all-u16", 1 << 16, ex_u16, "all u16", false),
        en("all-i16", 1 << 16, ex_i16, "all i16", false),
        en("all-simple", 1 << 8, ex_simple, "Encoder::simple for all 256 arguments: exactly one well-formed item denoting that simple value (20..=23 are false/true/null/undefined), 24..=31 must be refused", false),
        en("all-char", 0x11_0000, ex_char, "Encoder::char for every scalar value", false),
        en("all-u32", 1 << 32, ex_u32, "all u32 (thorough; quick runs the first 2^18)", true),
        en("all-i32", 1 << 32, ex_i32, "all i32 (thorough)", true),
        en("all-f32", 1 << 32, ex_f32, "all f32 bit patterns (thorough)", true),
        Sub { prop: "C03", name: "wide-methods", rule: "u64/i64/int/u32/i32/tag/array/map heads over boundary-dense 64-bit arguments; bytes/str with lengths on every head-width boundary; f64; distinct by (method, output prefix, length)",
              kind: Kind::Random { quick: 1_000_000, thorough: 5_000_000, tape: 64, f: wide_methods } },
        Sub { prop: "C03", name: "values", rule: "values of ~120 registry types: output is one well-formed item, in preferred definite form, equal to the reference encoding of the model value (multiset comparison for hash collections), identical when encoded twice; non-trivial = output >= 2 bytes",
              kind: Kind::Random { quick: 1_200_000, thorough: 12_000_000, tape: 1024, f: values } },
        Sub { prop: "C03", name: "token-bytes", rule: "every Token variant - F16 with arbitrary f32 payloads (inexact, overflowing, NaN), integers of every width, heads with boundary arguments - through Token::encode and Encoder::tokens: bytes equal an independent per-token reference (half precision = round-to-nearest-even of the payload, NaN = some half NaN)",
              kind: Kind::Random { quick: 400_000, thorough: 4_000_000, tape: 512, f: token_bytes } },
        Sub { prop: "C03", name: "iter-encoders", rule: "ArrayIter/MapIter with exact and inexact size_hint vs reference (definite resp. indefinite)",
              kind: Kind::Random { quick: 100_000, thorough: 400_000, tape: 1300, f: iter_encoders } },
        Sub { prop: "C03", name: "histories", rule: "generated item tree lowered to a balanced Encoder call sequence with a random choice among the methods able to express each node (u8/u16/../int/encode, array(n) vs begin_array..end, chunked begin_bytes); output == reference serialisation with the implied framing; non-trivial = >= 2 calls",
              kind: Kind::Random { quick: 500_000, thorough: 5_000_000, tape: 1024, f: histories } },
    ]
}
