//! C13 — bounded sinks: encoding succeeds iff it fits, never overruns, sink-independent.

use crate::registry::Entry;
use crate::util::{scoped, short_hex};
use minicbor::encode::write::{Cursor, Writer};
use minicbor::encode::Write;
use vcore::engine::{hash_of, CaseResult, Kind, RandomFn, Stats, Sub};
use vcore::{ensure, fail, Gen};

const GUARD: usize = 16;
const CANARY: u8 = 0xa5;
const FILL: u8 = 0x5a;

struct Guarded { buf: Vec<u8>, cap: usize }
impl Guarded {
    fn new(cap: usize) -> Self { let mut buf = vec![CANARY; cap + 2 * GUARD]; for b in &mut buf[GUARD .. GUARD + cap] { *b = FILL } Guarded { buf, cap } }
    fn sink(&mut self) -> &mut [u8] { let c = self.cap; &mut self.buf[GUARD .. GUARD + c] }
    fn content(&self) -> &[u8] { &self.buf[GUARD .. GUARD + self.cap] }
    fn guards_intact(&self) -> bool { self.buf[.. GUARD].iter().all(|b| *b == CANARY) && self.buf[GUARD + self.cap ..].iter().all(|b| *b == CANARY) }
}

/// An io::Write that accepts at most `cap` bytes in total, in pieces of at most `piece`; the first calls follow a
/// generated script: script byte 0 = an `Interrupted` error (nothing consumed - the transient kind every `write_all`
/// loop must retry), any other byte b = a short write of at most b bytes.  With `vectored`, `write_vectored` is native
/// (it takes bytes across buffer boundaries) instead of std's default (first non-empty buffer only).
pub struct Limited { pub data: Vec<u8>, pub cap: usize, pub piece: usize, pub script: Vec<u8>, pub k: usize, pub vectored: bool, pub interrupts: usize, pub calls: usize }
impl Limited {
    pub fn new(cap: usize, piece: usize) -> Self { Limited { data: Vec::new(), cap, piece, script: Vec::new(), k: 0, vectored: false, interrupts: 0, calls: 0 } }
    pub fn scripted(g: &mut Gen, cap: usize) -> Self {
        let piece = 1 + g.below(7);
        let n = g.below(12);
        let mut script: Vec<u8> = (0 .. n).map(|_| if g.chance(30) { 0 } else { 1 + g.below(9) as u8 }).collect();
        // the pattern a socket under pressure shows: part of a buffer accepted, then an interrupted call
        if g.chance(30) { let at = g.below(script.len() + 1); script.splice(at .. at, [1 + g.below(3) as u8, 0]); }
        Limited { data: Vec::new(), cap, piece, script, k: 0, vectored: g.bool(), interrupts: 0, calls: 0 }
    }
    fn step(&mut self) -> Option<usize> {
        self.calls += 1;
        let s = self.script.get(self.k).copied(); self.k += 1;
        match s { Some(0) => { self.interrupts += 1; None } Some(b) => Some(b as usize), None => Some(self.piece.max(1)) }
    }
}
impl std::io::Write for Limited {
    fn write(&mut self, b: &[u8]) -> std::io::Result<usize> {
        let Some(piece) = self.step() else { return Err(std::io::ErrorKind::Interrupted.into()) };
        let room = self.cap - self.data.len();
        let n = b.len().min(room).min(piece);
        self.data.extend_from_slice(&b[.. n]);
        Ok(n)
    }
    fn write_vectored(&mut self, bufs: &[std::io::IoSlice<'_>]) -> std::io::Result<usize> {
        if !self.vectored { return match bufs.iter().find(|b| !b.is_empty()) { Some(b) => self.write(b), None => self.write(&[]) } }
        let Some(piece) = self.step() else { return Err(std::io::ErrorKind::Interrupted.into()) };
        let mut left = (self.cap - self.data.len()).min(piece);
        let mut n = 0;
        for b in bufs { let k = b.len().min(left); self.data.extend_from_slice(&b[.. k]); n += k; left -= k; if left == 0 { break } }
        Ok(n)
    }
    fn flush(&mut self) -> std::io::Result<()> { Ok(()) }
}

const ARRAY_CAPS: [usize; 24] = [0, 1, 2, 3, 4, 5, 6, 7, 8, 9, 10, 11, 12, 16, 17, 23, 24, 25, 32, 33, 40, 64, 128, 256];

/// Verdict of one bounded sink: (result ok?, is_write on error, accepted count, content).
fn judge(what: &str, e: &[u8], cap: usize, ok: bool, is_write: bool, pos: Option<usize>, content: &[u8], guards: bool) -> CaseResult {
    ensure!(guards, "overrun", "{} (capacity {}): bytes outside the sink were modified while encoding {}", what, cap, short_hex(e));
    let fits = e.len() <= cap;
    if ok {
        ensure!(fits, "succeeded-without-room", "{}: a {}-byte encoding was reported written into capacity {}", what, e.len(), cap);
        ensure!(&content[.. e.len()] == e, "different-bytes", "{} holds {} instead of {}", what, short_hex(&content[.. e.len()]), short_hex(e));
        if let Some(p) = pos { ensure!(p == e.len(), "cursor-position", "{}: position {} after writing {} bytes", what, p, e.len()) }
    } else {
        ensure!(!fits, "failed-although-fits", "{}: a {}-byte encoding did not fit into capacity {}", what, e.len(), cap);
        ensure!(is_write, "error-class", "{}: overflow reported with a non-write error", what);
        if let Some(p) = pos {
            ensure!(p <= cap && p <= e.len(), "cursor-position", "{}: position {} with capacity {}", what, p, cap);
            ensure!(content[.. p] == e[.. p], "not-a-prefix", "{}: after the failed write the sink holds {} which is not a prefix of {}", what, short_hex(&content[.. p]), short_hex(e));
        }
    }
    Ok(())
}

/// One value through every sink kind at one capacity. `e` is the reference encoding (Vec sink).
fn sink_suite<V: minicbor::Encode<()>>(v: &V, e: &[u8], cap: usize, g: &mut Gen) -> CaseResult {
    let n = e.len();
    // 1. &mut [u8]
    {
        let mut gb = Guarded::new(cap);
        let (ok, isw, rem) = { let mut s: &mut [u8] = gb.sink(); let r = minicbor::encode(v, &mut s); (r.is_ok(), r.as_ref().err().map(|x| x.is_write()).unwrap_or(false), s.len()) };
        judge("&mut [u8]", e, cap, ok, isw, Some(cap - rem), gb.content(), gb.guards_intact())?;
    }
    // 2. Cursor<&mut [u8]>
    {
        let mut gb = Guarded::new(cap);
        let (ok, isw, pos) = { let mut c = Cursor::new(gb.sink()); let r = minicbor::encode(v, &mut c); (r.is_ok(), r.as_ref().err().map(|x| x.is_write()).unwrap_or(false), c.position()) };
        judge("Cursor<&mut [u8]>", e, cap, ok, isw, Some(pos), gb.content(), gb.guards_intact())?;
    }
    // 3. Cursor<Box<[u8]>>
    {
        let mut c = Cursor::new(vec![FILL; cap].into_boxed_slice());
        let r = minicbor::encode(v, &mut c);
        let pos = c.position();
        judge("Cursor<Box<[u8]>>", e, cap, r.is_ok(), r.as_ref().err().map(|x| x.is_write()).unwrap_or(false), Some(pos), c.get_ref(), true)?;
    }
    // 4. Cursor<[u8; N]> for the N of the expanded set closest to the drawn capacity
    {
        let want = cap;
        let nn = *ARRAY_CAPS.iter().min_by_key(|c| (**c as i64 - want as i64).abs()).unwrap();
        macro_rules! arr { ($($n:literal)*) => { match nn { $($n => {
            let mut c = Cursor::new([FILL; $n]);
            let r = minicbor::encode(v, &mut c);
            let pos = c.position();
            judge(concat!("Cursor<[u8; ", stringify!($n), "]>"), e, $n, r.is_ok(), r.as_ref().err().map(|x| x.is_write()).unwrap_or(false), Some(pos), &c.get_ref()[..], true)?;
        })* _ => unreachable!() } } }
        arr!(0 1 2 3 4 5 6 7 8 9 10 11 12 16 17 23 24 25 32 33 40 64 128 256);
    }
    // 5. Vec<u8> (growable: always succeeds, same bytes)
    {
        let mut out = vec![0xeeu8; 3];
        let r = minicbor::encode(v, &mut out);
        ensure!(r.is_ok() && out[3 ..] == e[..] && out[.. 3] == [0xee; 3], "vec-sink", "Vec sink holds {} for encoding {}", short_hex(&out), short_hex(e));
    }
    // 6. std::io writer through the adapter: short writes, interrupted calls, native or default write_vectored, total limit `cap`
    {
        let mut w = Writer::new(Limited::scripted(g, cap));
        let r = minicbor::encode(v, &mut w);
        let data = &w.get_ref().data;
        ensure!(data.len() <= cap, "overrun", "io writer accepted {} bytes with limit {}", data.len(), cap);
        ensure!(e.starts_with(data), "not-a-prefix", "io writer received {} which is not a prefix of {}", short_hex(data), short_hex(e));
        if n <= cap { ensure!(r.is_ok() && data.len() == n, "failed-although-fits", "Writer<io::Write> failed for a {}-byte encoding with limit {}", n, cap) }
        else { match &r { Ok(()) => fail!("succeeded-without-room", "Writer<io::Write> reported success for {} bytes with limit {}", n, cap), Err(x) => ensure!(x.is_write(), "error-class", "io overflow reported as non-write error") } }
    }
    Ok(())
}

fn draw_cap(g: &mut Gen, n: usize) -> usize { match g.below(6) { 0 => n, 1 => n.saturating_sub(1), 2 => n + 1, 3 => 0, _ => g.below(n + 2) } }

pub fn sinks<E: Entry>(g: &mut Gen, st: &mut Stats) -> CaseResult {
    scoped(E::NAME, || {
        st.eval();
        let seed = E::seed(g);
        let v = E::view(&seed);
        let e = match minicbor::to_vec(&v) { Ok(b) => b, Err(_) => return Ok(()) };
        let n = e.len();
        // capacity: around the length, or anywhere below it
        let cap = draw_cap(g, n);
        sink_suite(&v, &e, cap, g)?;
        st.class(if n <= cap { "fits" } else if cap == 0 { "capacity-0" } else { "overflows" });
        if n >= 2 { st.nontrivial(crate::registry::stable_hash::<E>(&e) ^ (cap as u64).wrapping_mul(0x9e3779b97f4a7c15)) }
        st.sample(hash_of(&(cap, &e)), || format!("{}: {} bytes into capacity {}", E::NAME, n, cap));
        Ok(())
    })
}

/// A generated data item written through a generated choice of Encoder calls (definite or indefinite containers,
/// chunked strings, typed integer methods, tags): "any balanced sequence of container calls" as an `Encode` value.
/// The choices are a function of the node's position, so every replay issues the same calls.
struct Replay { item: vcore::Item, salt: u64 }
impl Replay {
    fn go<W: Write>(&self, it: &vcore::Item, e: &mut minicbor::Encoder<W>, k: &mut u64) -> Result<(), minicbor::encode::Error<W::Error>> {
        use vcore::Item;
        *k = k.wrapping_mul(0x9E3779B97F4A7C15).wrapping_add(self.salt | 1);
        let c = (*k >> 33) as usize;
        match it {
            Item::UInt(v, _) => { if c % 3 == 0 && *v <= u32::MAX as u64 { e.u32(*v as u32)?; } else if c % 3 == 1 { e.int(minicbor::data::Int::from(*v))?; } else { e.u64(*v)?; } }
            Item::NInt(n, _) => { let m = -1 - *n as i128; if m >= i64::MIN as i128 && c % 2 == 0 { e.i64(m as i64)?; } else { e.int(minicbor::data::Int::try_from(m).unwrap())?; } }
            Item::Bytes(b, _) => { if c % 4 == 0 { e.begin_bytes()?; let cut = c / 4 % (b.len() + 1); e.bytes(&b[.. cut])?; e.bytes(&b[cut ..])?; e.end()?; } else { e.bytes(b)?; } }
            Item::BytesIndef(cs) => { e.begin_bytes()?; for (x, _) in cs { e.bytes(x)?; } e.end()?; }
            Item::Text(t, _) => { if c % 2 == 0 { e.str(t)?; } else { e.encode(t.as_str())?; } }
            Item::TextIndef(cs) => { e.begin_str()?; for (x, _) in cs { e.str(x)?; } e.end()?; }
            Item::Array(xs, _) => { let indef = c % 2 == 0; if indef { e.begin_array()?; } else { e.array(xs.len() as u64)?; } for x in xs { self.go(x, e, k)? } if indef { e.end()?; } }
            Item::Map(xs, _) => { let indef = c % 2 == 0; if indef { e.begin_map()?; } else { e.map(xs.len() as u64)?; } for (a, b) in xs { self.go(a, e, k)?; self.go(b, e, k)? } if indef { e.end()?; } }
            Item::Tag(t, _, x) => { e.tag(minicbor::data::Tag::new(*t))?; self.go(x, e, k)? }
            Item::Simple(n) => { e.simple(*n)?; }
            Item::False => { e.bool(false)?; } Item::True => { e.bool(true)?; } Item::Null => { e.null()?; } Item::Undefined => { e.undefined()?; }
            Item::F16(b) => { e.f16(vcore::half_ref::f16_bits_to_f64(*b) as f32)?; }
            Item::F32(b) => { e.f32(f32::from_bits(*b))?; } Item::F64(b) => { e.f64(f64::from_bits(*b))?; }
        }
        Ok(())
    }
}
impl<C> minicbor::Encode<C> for Replay {
    fn encode<W: Write>(&self, e: &mut minicbor::Encoder<W>, _: &mut C) -> Result<(), minicbor::encode::Error<W::Error>> { let mut k = 0u64; self.go(&self.item, e, &mut k) }
}

/// An iterator that reports a chosen truthful `size_hint` (indefinite framing when inexact).
#[derive(Clone)]
struct Hinted<I> { it: I, low: usize, up: Option<usize> }
impl<I: Iterator> Iterator for Hinted<I> { type Item = I::Item; fn next(&mut self) -> Option<I::Item> { self.it.next() } fn size_hint(&self) -> (usize, Option<usize>) { (self.low, self.up) } }

/// Values that have an `Encode` impl but no `Decode` (and therefore no registry entry): `ArrayIter` / `MapIter` with
/// exact and inexact hints, slices, `str`, references, `IanaTag`, token slices through `Encoder::tokens`, and generated
/// Encoder call sequences - each into every sink kind.
fn encode_only(g: &mut Gen, st: &mut Stats) -> CaseResult {
    use minicbor::encode::{ArrayIter, MapIter};
    st.eval();
    let n = g.len(12).min(12);
    let strs: Vec<String> = (0 .. n).map(|_| g.string(6)).collect();
    let nums: Vec<u32> = (0 .. n).map(|_| g.u32()).collect();
    let exact = g.bool();
    let (low, up) = if exact { (n, Some(n)) } else if g.bool() { (0, None) } else { (g.below(n + 1), Some(n + 1 + g.below(3))) };
    macro_rules! run { ($label:expr, $v:expr) => {{
        let v = $v;
        let e = minicbor::to_vec(&v).map_err(|x| vcore::Fail::new("encode", format!("{}: {}", $label, x)))?;
        // (a tag alone is a head, not a complete item)
        if $label != "IanaTag" { match vcore::item::wellformed(&e) { Ok(k) if k == e.len() => {}, other => fail!("ill-formed", "{} encodes as {} ({:?})", $label, short_hex(&e), other) } }
        let cap = draw_cap(g, e.len());
        scoped($label, || sink_suite(&v, &e, cap, g))?;
        st.class($label);
        if e.len() >= 2 { st.nontrivial(hash_of(&($label, cap, &e))) }
        st.sample(hash_of(&(cap, &e)), || format!("{}: {} bytes into capacity {}", $label, e.len(), cap));
    }}}
    match g.below(9) {
        0 => run!(if exact { "ArrayIter<String>/definite" } else { "ArrayIter<String>/indefinite" }, ArrayIter::new(Hinted { it: strs.iter(), low, up })),
        1 => run!(if exact { "ArrayIter<u32>/definite" } else { "ArrayIter<u32>/indefinite" }, ArrayIter::new(Hinted { it: nums.iter(), low, up })),
        2 => run!(if exact { "MapIter<u32,String>/definite" } else { "MapIter<u32,String>/indefinite" }, MapIter::new(Hinted { it: nums.iter().zip(strs.iter()), low, up })),
        3 => run!("&[String]", &strs[..]),
        4 => run!("&[(u32, &str)]", &nums.iter().zip(strs.iter().map(|s| s.as_str())).map(|(a, b)| (*a, b)).collect::<Vec<_>>()[..]),
        5 => run!("&&str", &strs.first().map(|s| s.as_str()).unwrap_or("")),
        6 => run!("IanaTag", *g.pick(&[minicbor::data::IanaTag::DateTime, minicbor::data::IanaTag::Cbor, minicbor::data::IanaTag::Uri, minicbor::data::IanaTag::TypedArrayF128L, minicbor::data::IanaTag::MultiDimArrayC])),
        _ => {
            let cfg = vcore::gen::ItemCfg { max_depth: 4, max_nodes: 16, wide: false, indef: true, tags: true, floats: true, simple: true, f16: true, max_str: 24 };
            let item = vcore::gen::item(g, &cfg);
            run!("encoder call sequence", Replay { item, salt: g.u64() })
        }
    }
    Ok(())
}

macro_rules! sink_row { ($e:ident) => { sinks::<$e> as RandomFn } }

fn values(g: &mut Gen, st: &mut Stats) -> CaseResult {
    static T: std::sync::OnceLock<Vec<RandomFn>> = std::sync::OnceLock::new();
    let t = T.get_or_init(|| crate::for_each_core_entry!(sink_row));
    t[g.below(t.len())](g, st)
}

/// All capacities 0..=len+1 for one value with a multi-write encoding (exhaustive capacity sweep).
fn capacity_sweep(g: &mut Gen, st: &mut Stats) -> CaseResult {
    st.eval();
    let v: (u64, String, Vec<Option<i32>>, minicbor::bytes::ByteVec) = crate::model::Arb::arb(g);
    let e = minicbor::to_vec(&v).map_err(|x| vcore::Fail::new("encode", x.to_string()))?;
    if e.len() > 80 { return Ok(()) }
    for cap in 0 ..= e.len() + 1 {
        let mut gb = Guarded::new(cap);
        let (ok, isw, pos) = { let mut c = Cursor::new(gb.sink()); let r = minicbor::encode(&v, &mut c); (r.is_ok(), r.as_ref().err().map(|x| x.is_write()).unwrap_or(false), c.position()) };
        judge("Cursor<&mut [u8]>", &e, cap, ok, isw, Some(pos), gb.content(), gb.guards_intact())?;
        let mut gb = Guarded::new(cap);
        let (ok, isw, rem) = { let mut s: &mut [u8] = gb.sink(); let r = minicbor::encode(&v, &mut s); (r.is_ok(), r.as_ref().err().map(|x| x.is_write()).unwrap_or(false), s.len()) };
        judge("&mut [u8]", &e, cap, ok, isw, Some(cap - rem), gb.content(), gb.guards_intact())?;
    }
    st.class("capacity-sweep");
    st.nontrivial(hash_of(&e));
    Ok(())
}

/// Raw write_all histories on each cursor kind against the three-line model (pos, all-or-nothing).
fn raw_histories(g: &mut Gen, st: &mut Stats) -> CaseResult {
    st.eval();
    let cap = *g.pick(&ARRAY_CAPS);
    let kind = g.below(4);
    let nwrites = 1 + g.below(10);
    let writes: Vec<Vec<u8>> = (0 .. nwrites).map(|_| { let l = match g.below(4) { 0 => 0, 1 => cap + 1, _ => g.below(cap + 2) }; (0 .. l).map(|_| g.byte()).collect() }).collect();
    // model
    let mut mpos = 0usize;
    let mut mcontent = vec![FILL; cap];
    let mut mres = Vec::new();
    for w in &writes {
        if mpos + w.len() <= cap { mcontent[mpos .. mpos + w.len()].copy_from_slice(w); mpos += w.len(); mres.push(true) } else { mres.push(false) }
    }
    fn drive<W: Write>(c: &mut W, writes: &[Vec<u8>]) -> Vec<bool> { writes.iter().map(|w| c.write_all(w).is_ok()).collect() }
    let (res, pos, content, guards): (Vec<bool>, usize, Vec<u8>, bool) = match kind {
        0 => { let mut gb = Guarded::new(cap); let (r, p) = { let mut c = Cursor::new(gb.sink()); let r = drive(&mut c, &writes); (r, c.position()) }; (r, p, gb.content().to_vec(), gb.guards_intact()) }
        1 => { let mut c = Cursor::new(vec![FILL; cap].into_boxed_slice()); let r = drive(&mut c, &writes); (r, c.position(), c.get_ref().to_vec(), true) }
        2 => {
            macro_rules! arr { ($($n:literal)*) => { match cap { $($n => { let mut c = Cursor::new([FILL; $n]); let r = drive(&mut c, &writes); (r, c.position(), c.get_ref().to_vec(), true) })* _ => unreachable!() } } }
            arr!(0 1 2 3 4 5 6 7 8 9 10 11 12 16 17 23 24 25 32 33 40 64 128 256)
        }
        _ => { let mut gb = Guarded::new(cap); let (r, p) = { let mut s: &mut [u8] = gb.sink(); let r = drive(&mut s, &writes); (r, cap - s.len()) }; (r, p, gb.content().to_vec(), gb.guards_intact()) }
    };
    let kname = ["Cursor<&mut [u8]>", "Cursor<Box<[u8]>>", "Cursor<[u8; N]>", "&mut [u8]"][kind];
    ensure!(guards, "overrun", "{} capacity {}: guard bytes modified by write lengths {:?}", kname, cap, writes.iter().map(|w| w.len()).collect::<Vec<_>>());
    ensure!(res == mres, "history-results", "{} capacity {}: write lengths {:?} gave {:?}, the model gives {:?}", kname, cap, writes.iter().map(|w| w.len()).collect::<Vec<_>>(), res, mres);
    ensure!(pos == mpos, "cursor-position", "{} capacity {}: position {} after write lengths {:?}, the model gives {}", kname, cap, pos, writes.iter().map(|w| w.len()).collect::<Vec<_>>(), mpos);
    ensure!(content[.. mpos] == mcontent[.. mpos], "history-content", "{} capacity {}: accepted bytes differ from the model", kname, cap);
    st.class(kname);
    if mres.iter().any(|x| !*x) && mres.iter().any(|x| *x) { st.nontrivial(hash_of(&(kind, cap, &writes))) }
    Ok(())
}

pub fn subs() -> Vec<Sub> {
    vec![
        Sub { prop: "C13", name: "values", rule: "value of a registry type x capacity in {len, len-1, len+1, 0, uniform 0..=len+1} x six sink kinds (slice, three cursors with canary-guarded backing, Vec, io::Write adapter with short writes): same bytes, Ok iff fits, write error otherwise, accepted prefix, cursor position, guards intact; distinct by (type, capacity, bytes)",
              kind: Kind::Random { quick: 1_000_000, thorough: 8_000_000, tape: 1024, f: values } },
        Sub { prop: "C13", name: "encode-only", rule: "values without a Decode impl - ArrayIter / MapIter over iterators with exact and inexact size hints (definite and indefinite framing), slices, str references, IanaTag, and generated Encoder call sequences (containers definite or indefinite, chunked strings, tags, typed integer methods) replayed as one Encode value - into the same six sink kinds with the same oracle",
              kind: Kind::Random { quick: 400_000, thorough: 4_000_000, tape: 1024, f: encode_only } },
        Sub { prop: "C13", name: "capacity-sweep", rule: "every capacity 0..=len+1 for a multi-field tuple value (encodings <= 80 bytes), slice and cursor sinks",
              kind: Kind::Random { quick: 30_000, thorough: 300_000, tape: 256, f: capacity_sweep } },
        Sub { prop: "C13", name: "raw-histories", rule: "1-10 raw write_all calls with lengths 0..=cap+1 on each cursor kind and the plain slice vs a (pos, all-or-nothing) model; non-trivial = history mixes accepted and refused writes",
              kind: Kind::Random { quick: 1_000_000, thorough: 5_000_000, tape: 1024, f: raw_histories } },
    ]
}
