//! C06 — skip() consumes exactly one data item, whatever its nesting.

use crate::util::short_hex;
use minicbor::data::Type;
use minicbor::decode::{verif, Error};
use minicbor::Decoder;
use vcore::engine::{hash_of, CaseResult, Kind, Stats, Sub};
use vcore::gen::{item, small_structures, ItemCfg};
use vcore::item::{wellformed, Item};
use vcore::{ensure, fail, Gen};

/// Full decoding of one item with the typed accessors only (no use of `skip`).
fn walk(d: &mut Decoder, depth: usize) -> Result<(), Error> {
    if depth > 400 { return Err(Error::message("walker depth limit")) }
    match d.datatype()? {
        Type::U8 | Type::U16 | Type::U32 | Type::U64 => { d.u64()?; }
        Type::I8 | Type::I16 | Type::I32 | Type::I64 | Type::Int => { d.int()?; }
        Type::F16 => { d.f16()?; }
        Type::F32 => { d.f32()?; }
        Type::F64 => { d.f64()?; }
        Type::Bool => { d.bool()?; }
        Type::Null => { d.null()?; }
        Type::Undefined => { d.undefined()?; }
        Type::Simple => { d.simple()?; }
        Type::Bytes => { d.bytes()?; }
        Type::BytesIndef => { for c in d.bytes_iter()? { c?; } }
        Type::String => { d.str()?; }
        Type::StringIndef => { for c in d.str_iter()? { c?; } }
        Type::Array => { let n = d.array()?.unwrap_or(0); for _ in 0 .. n { walk(d, depth + 1)? } }
        Type::ArrayIndef => {
            d.array()?;
            while d.datatype()? != Type::Break { walk(d, depth + 1)? }
            d.set_position(d.position() + 1);
        }
        Type::Map => { let n = d.map()?.unwrap_or(0); for _ in 0 .. n { walk(d, depth + 1)?; walk(d, depth + 1)? } }
        Type::MapIndef => {
            d.map()?;
            while d.datatype()? != Type::Break { walk(d, depth + 1)?; walk(d, depth + 1)? }
            d.set_position(d.position() + 1);
        }
        Type::Tag => { d.tag()?; walk(d, depth + 1)? }
        t @ (Type::Break | Type::Unknown(_)) => return Err(Error::type_mismatch(t))
    }
    Ok(())
}

/// The core oracle: `enc` is exactly one well-formed item; `suffix` arbitrary.
fn check_skip(enc: &[u8], suffix: &[u8], use_walker: bool, all_prefixes: bool, g: Option<&mut Gen>) -> CaseResult {
    let mut buf = enc.to_vec();
    buf.extend_from_slice(suffix);
    let _case = crate::total::case_guard("Decoder::skip", &buf);
    let mut d = Decoder::new(&buf);
    // long inputs are skipped on a thread with the default 2 MiB stack (input-controlled recursion must not overflow it)
    let (r, steps) = if buf.len() > 2000 { crate::total::on_default_stack(|| { let _case = crate::total::case_guard("Decoder::skip", &buf); verif::arm(64 * buf.len() as u64 + 1024); let r = d.skip(); (r, verif::disarm()) }) }
                     else { verif::arm(64 * buf.len() as u64 + 1024); let r = d.skip(); (r, verif::disarm()) };
    match r {
        Ok(()) => ensure!(d.position() == enc.len(), "wrong-position", "skip() over {} (followed by {}) stopped at {}, the item ends at {}", short_hex(enc), short_hex(suffix), d.position(), enc.len()),
        Err(e) => fail!("rejected", "skip() failed on the well-formed item {}: {} (after {} steps)", short_hex(enc), e, steps)
    }
    if use_walker {
        let mut w = Decoder::new(&buf);
        match walk(&mut w, 0) {
            Ok(()) => ensure!(w.position() == d.position(), "disagrees-with-decoding", "skip() stopped at {} but full decoding of {} stops at {}", d.position(), short_hex(enc), w.position()),
            Err(e) => fail!("walker-failed", "full decoding of the well-formed item {} failed: {}", short_hex(enc), e)
        }
    }
    // strict prefixes: an error, never an early stop
    let cuts: Vec<usize> = if all_prefixes || enc.len() <= 64 { (0 .. enc.len()).collect() } else {
        let mut v: Vec<usize> = (0 .. 16).chain(enc.len() - 16 .. enc.len()).collect();
        if let Some(g) = g { for _ in 0 .. 32 { v.push(g.below(enc.len())) } }
        v
    };
    for c in cuts {
        let mut d = Decoder::new(&enc[.. c]);
        verif::arm(64 * c as u64 + 1024);
        let r = d.skip();
        verif::disarm();
        ensure!(r.is_err(), "prefix-accepted", "skip() succeeded on the strict prefix {} (cut {} of {}) of {}", short_hex(&enc[.. c]), c, enc.len(), short_hex(enc));
    }
    Ok(())
}

fn structures(k: usize) -> &'static Vec<Item> {
    static S4: std::sync::OnceLock<Vec<Item>> = std::sync::OnceLock::new();
    static S5: std::sync::OnceLock<Vec<Item>> = std::sync::OnceLock::new();
    if k <= 4 { S4.get_or_init(|| small_structures(4)) } else { S5.get_or_init(|| small_structures(5)) }
}

fn class_of(x: &Item) -> &'static str {
    if !x.has_container() { "scalar" }
    else if x.has_indef_in_def() { "switch-to-stack (indefinite inside definite)" }
    else if x.has_indefinite() { "indefinite-only" }
    else { "pure-counting" }
}

fn structure_case(list: &[Item], i: u64, st: &mut Stats) -> CaseResult {
    st.eval();
    let x = &list[i as usize];
    let enc = x.encode();
    // three suffixes: nothing, a break, a head that would swallow more
    for suffix in [&[][..], &[0xff][..], &[0x82, 0x00][..]] { check_skip(&enc, suffix, true, true, None)? }
    if x.has_container() { st.nontrivial_enum(1) }
    st.class(class_of(x));
    if i % 2999 == 0 { st.sample(i, || format!("{} = {}", short_hex(&enc), x.render())) }
    Ok(())
}

fn structures4(i: u64, st: &mut Stats) -> CaseResult { structure_case(structures(4), i, st) }
fn structures5(i: u64, st: &mut Stats) -> CaseResult { structure_case(structures(5), i, st) }

fn random_trees(g: &mut Gen, st: &mut Stats) -> CaseResult {
    st.eval();
    let x = item(g, &ItemCfg::FULL);
    let enc = x.encode();
    let n = g.below(9);
    let suffix: Vec<u8> = (0 .. n).map(|_| g.byte()).collect();
    check_skip(&enc, &suffix, true, false, Some(g))?;
    if x.has_container() { st.nontrivial(hash_of(&enc)) }
    st.class(class_of(&x));
    st.sample(hash_of(&enc), || format!("{} + suffix {}", short_hex(&enc), short_hex(&suffix)));
    Ok(())
}

/// Lengths and arguments whose head contains the bytes a scanner could mistake for structure (0xff = break, 0x5f/0x7f/0x9f/
/// 0xbf = indefinite openers): chunked strings with chunk lengths 255, 511, 0xff00.., definite strings, arrays and maps of
/// exactly such sizes, heads wider than necessary (`79 00 ff`), payloads full of 0xff - alone and inside containers.
fn special_lengths(g: &mut Gen, st: &mut Stats) -> CaseResult {
    use vcore::item::W;
    st.eval();
    const LENS: [usize; 22] = [0, 1, 23, 24, 0x5f, 0x7f, 0x9f, 0xbf, 0xfe, 0xff, 0x100, 0x1ff, 0x2ff, 0x5f5f, 0x7f00, 0x9fff, 0xff00, 0xff7f, 0xffff, 0x1_0000, 0x1_00ff, 0x1_ff00];
    fn len(g: &mut Gen, small: bool) -> usize { let l = *g.pick(&LENS); if small && l > 0x2ff { *g.pick(&[0xffusize, 0x1ff, 0x2ff, 0x7f, 0xbf]) } else { l } }
    fn text(n: usize, k: usize) -> String { (0 .. n).map(|i| (b'a' + ((i * 7 + k) % 26) as u8) as char).collect() }
    fn bytes(g: &mut Gen, n: usize) -> Vec<u8> { match g.below(3) { 0 => vec![0xff; n], 1 => (0 .. n).map(|i| [0xff, 0x7f, 0x5f, 0x9f, 0xbf, 0x00][i % 6]).collect(), _ => (0 .. n).map(|i| (i * 31) as u8).collect() } }
    let kind = g.below(8);
    let core: Item = match kind {
        0 | 1 => { let n = 1 + g.below(3); Item::TextIndef((0 .. n).map(|k| { let l = len(g, n > 1 && k > 0); (text(l, k), g.width_for(l as u64)) }).collect()) }
        2 | 3 => { let n = 1 + g.below(3); Item::BytesIndef((0 .. n).map(|k| { let l = len(g, n > 1 && k > 0); (bytes(g, l), g.width_for(l as u64)) }).collect()) }
        4 => { let l = len(g, false); Item::Text(text(l, 3), g.width_for(l as u64)) }
        5 => { let l = len(g, false); Item::Bytes(bytes(g, l), g.width_for(l as u64)) }
        6 => { let l = len(g, true); let w = g.width_for(l as u64); Item::Array((0 .. l).map(|i| if i % 5 == 0 { Item::Simple(255) } else { Item::UInt(0xff, W::W1) }).collect(), Some(w)) }
        _ => { let l = len(g, true); let w = g.width_for(l as u64); Item::Map((0 .. l).map(|i| (Item::UInt(i as u64, g.width_for(i as u64)), Item::NInt(0xff, W::W1))).collect(), Some(w)) }
    };
    let x = match g.below(7) {
        0 => core,
        1 => Item::array(vec![core, Item::uint(1)]),
        2 => Item::Array(vec![Item::uint(0), core, Item::text("z")], None),
        3 => Item::map(vec![(Item::uint(255), core), (Item::uint(2), Item::Null)]),
        4 => Item::tag(*g.pick(&[255u64, 0xff00, 0xffff_ffff, 24]), core),
        5 => Item::array(vec![Item::Array(vec![core], None), Item::uint(0xff)]),
        _ => Item::Map(vec![(core, Item::uint(0xff))], None)
    };
    let enc = x.encode();
    let n = g.below(5);
    let suffix: Vec<u8> = (0 .. n).map(|_| *g.pick(&[0xffu8, 0x00, 0x7f, 0x9f])).collect();
    check_skip(&enc, &suffix, true, false, Some(g))?;
    st.nontrivial(hash_of(&(&enc[.. enc.len().min(24)], enc.len())));
    st.class(["special/chunked text", "special/chunked text", "special/chunked bytes", "special/chunked bytes", "special/definite text", "special/definite bytes", "special/array of n", "special/map of n"][kind]);
    if enc.windows(2).any(|w| (w[0] & 0x1f) >= 24 && (w[0] & 0x1f) <= 27 && w[1] == 0xff && (w[0] >> 5) != 7) { st.class("special/0xff right after a head byte") }
    st.sample(hash_of(&enc), || format!("{}.. ({} bytes) + suffix {}", short_hex(&enc[.. enc.len().min(24)]), enc.len(), short_hex(&suffix)));
    Ok(())
}

/// Deep chains generated directly as bytes: mixed definite/indefinite arrays and maps and tags, definite
/// parents with later siblings (which force the switch from counting mode to the explicit stack).
fn chains(g: &mut Gen, st: &mut Stats) -> CaseResult {
    st.eval();
    let depth = match g.below(64) { 0 => *g.pick(&[66_000usize, 70_000, 100_000]), x => match x % 6 { 0 => g.range(1, 8), 1 => g.range(8, 64), 2 => g.range(64, 600), 3 => g.range(600, 3000), 4 => 10_000, _ => g.range(3000, 10_000) } };
    // (the per-level random style draws one tape byte per level: not for the very deep ones)
    let style = if depth > 10_000 { g.below(6) } else { g.below(8) };
    let mut enc: Vec<u8> = Vec::with_capacity(depth * 3 + 8);
    let mut closers: Vec<&'static [u8]> = Vec::with_capacity(depth);
    let mut kinds = [0u32; 8];
    for i in 0 .. depth {
        let k = match style { 0 => 0, 1 => 1, 2 => 2, 3 => (i % 2) as usize * 1, 4 => 3 + (i % 2), 5 => 5 + (i % 3).min(2), _ => g.below(8) };
        kinds[k] += 1;
        match k {
            0 => { enc.push(0x9f); closers.push(&[0xff]) }                          // [_ X]
            1 => { enc.push(0x81); closers.push(&[]) }                              // [X]
            2 => { enc.push(0xc1); closers.push(&[]) }                              // 1(X)
            3 => { enc.extend_from_slice(&[0xbf, 0x00]); closers.push(&[0xff]) }    // {_ 0: X}
            4 => { enc.extend_from_slice(&[0xa1, 0x00]); closers.push(&[]) }        // {0: X}
            5 => { enc.push(0x82); closers.push(&[0x00]) }                          // [X, 0]
            6 => { enc.extend_from_slice(&[0x83, 0x00]); closers.push(&[0x01]) }    // [0, X, 1]
            _ => { enc.extend_from_slice(&[0x9f, 0x00]); closers.push(&[0x01, 0xff]) } // [_ 0, X, 1]
        }
    }
    enc.extend_from_slice(match g.below(4) { 0 => &[0x00][..], 1 => &[0x9f, 0xff][..], 2 => &[0x5f, 0x41, 0x00, 0xff][..], _ => &[0x80][..] });
    while let Some(c) = closers.pop() { enc.extend_from_slice(c) }
    // harness sanity: the reference parser agrees that this is one item
    match wellformed(&enc) { Ok(n) if n == enc.len() => {}, other => fail!("harness-bug", "chain generator produced an ill-formed item: {:?}", other) }
    let n = g.below(5);
    let suffix: Vec<u8> = (0 .. n).map(|_| g.byte()).collect();
    check_skip(&enc, &suffix, depth <= 300, false, Some(g))?;
    st.nontrivial(hash_of(&enc));
    st.class(match depth { 0 ..= 63 => "chain/depth<64", 64 ..= 599 => "chain/depth<600", 600 ..= 2999 => "chain/depth<3000", 3000 ..= 10_000 => "chain/depth 3000..=10^4", _ => "chain/depth 66000..=10^5" });
    let mixes_def_indef = (kinds[1] + kinds[4] + kinds[5] + kinds[6] > 0) && (kinds[0] + kinds[3] + kinds[7] > 0);
    if mixes_def_indef { st.class("chain/definite+indefinite mixed (stack mode)") }
    st.sample(hash_of(&enc), || format!("chain depth {} style {}: {}", depth, style, short_hex(&enc)));
    Ok(())
}

/// Replay entry for abnormal exits (stack overflow): the recorded input (tape minus its first byte) through skip().
fn raw_input(g: &mut Gen, st: &mut Stats) -> CaseResult {
    st.eval();
    let _ = g.byte();
    let input = g.rest().to_vec();
    let mut d = Decoder::new(&input);
    crate::total::on_default_stack(|| { let _case = crate::total::case_guard("Decoder::skip", &input); let _ = d.skip(); });
    ensure!(d.position() <= input.len(), "position", "skip() left the decoder at {} of {}", d.position(), input.len());
    Ok(())
}

pub fn subs() -> Vec<Sub> {
    let n4 = structures(4).len() as u64;
    let n5 = structures(5).len() as u64;
    vec![
        Sub { prop: "C06", name: "structures-4", rule: "every tree with <= 4 nodes over {definite, indefinite} x {array, map} x tag x {chunked/definite strings, scalars}: skip position == item length for 3 suffixes, agreement with a full-decoding walker, every strict prefix is an error, step budget 64*len+1024; non-trivial = has a container",
              kind: Kind::Enumerate { quick: n4, thorough: n4, f: structures4, complete_quick: true, complete_thorough: true } },
        Sub { prop: "C06", name: "structures-5", rule: "same with <= 5 nodes (thorough; quick explores the first 400000)",
              kind: Kind::Enumerate { quick: 400_000.min(n5), thorough: n5, f: structures5, complete_quick: false, complete_thorough: true } },
        Sub { prop: "C06", name: "random-trees", rule: "grammar-generated trees (depth <= 8, all framings) + 0-8 arbitrary suffix bytes; prefixes sampled for long items; distinct by encoding",
              kind: Kind::Random { quick: 500_000, thorough: 4_000_000, tape: 1024, f: random_trees } },
        Sub { prop: "C06", name: "special-lengths", rule: "chunked and definite strings, arrays and maps whose lengths / chunk lengths put 0xff, 0x5f, 0x7f, 0x9f or 0xbf into a head (255, 511, 767, 0x5f5f, 0xff00..0xffff, 0x1ff00; minimal and wider heads such as 79 00 ff), payloads full of 0xff, alone or inside definite / indefinite arrays, maps and tags, followed by break-like suffix bytes: skip stops at the item's end, agrees with full decoding, strict prefixes fail",
              kind: Kind::Random { quick: 60_000, thorough: 600_000, tape: 256, f: special_lengths } },
        Sub { prop: "C06", name: "chains", rule: "byte-level nesting chains to depth 10^4, 1.5 % of them 66 000 - 100 000 deep (8 opener kinds incl. definite parents with later siblings -> counting-to-stack switch, indefinite maps, tags), validated by the iterative reference parser; distinct by encoding",
              kind: Kind::Random { quick: 20_000, thorough: 100_000, tape: 10_100, f: chains } },
        Sub { prop: "C06", name: "raw-input", rule: "replay entry for abnormal exits: a recorded input through skip() in a fresh process (a stack overflow or fatal signal that reproduces is the violation)",
              kind: Kind::Random { quick: 0, thorough: 0, tape: 16, f: raw_input } },
    ]
}
