//! C01 — value round-trip for every built-in codec type.

use crate::registry::Entry;
use crate::util::{scoped, short_hex};
use minicbor::Decoder;
use vcore::engine::{hash_of, CaseResult, Kind, Stats, Sub};
use vcore::{ensure, fail, Gen};

pub fn roundtrip<E: Entry>(g: &mut Gen, st: &mut Stats) -> CaseResult {
    scoped(E::NAME, || {
        st.eval();
        let seed = E::seed(g);
        let v = E::view(&seed);
        let bytes = match minicbor::to_vec(&v) {
            Ok(b) => b,
            Err(e) => fail!("encode-refused", "to_vec failed for {:?}: {}", v, e)
        };
        let junk = g.below(4);
        let mut buf = bytes.clone();
        for _ in 0 .. junk { buf.push(g.byte()) }
        let mut d = Decoder::new(&buf);
        let back: E::Val<'_> = match d.decode() {
            Ok(x) => x,
            Err(e) => fail!("decode-failed", "decode of own encoding {} failed: {} (value {:?})", short_hex(&bytes), e, v)
        };
        ensure!(E::same(&v, &back), "value-mismatch", "encoded {:?} as {} but decoded {:?}", v, short_hex(&bytes), back);
        ensure!(d.position() == bytes.len(), "position", "encoding of {:?} is {} bytes but decoding consumed {} ({} junk bytes followed)", v, bytes.len(), d.position(), junk);
        ensure!(E::borrows_from(&back, &buf), "not-borrowed", "decoded {:?} does not point into the input buffer", back);
        if bytes.len() >= 2 {
            // hash-randomised collections serialise in a per-process order: hash them order-independently
            if E::UNORDERED { let mut sorted = bytes.clone(); sorted.sort_unstable(); st.nontrivial(hash_of(&(E::NAME, &sorted))) }
            else { st.nontrivial(hash_of(&(E::NAME, &bytes))) }
            st.sample(hash_of(&bytes), || format!("{}: {:?} <-> {}", E::NAME, v, short_hex(&bytes)));
        }
        st.class(E::NAME);
        if let Some(c) = E::repr_class(&v) { st.class(c) }
        Ok(())
    })
}

macro_rules! rt_row { ($e:ident) => { (<$e as Entry>::NAME, roundtrip::<$e> as vcore::engine::RandomFn) } }

fn table() -> &'static Vec<(&'static str, vcore::engine::RandomFn)> {
    static T: std::sync::OnceLock<Vec<(&'static str, vcore::engine::RandomFn)>> = std::sync::OnceLock::new();
    T.get_or_init(|| crate::for_each_entry!(rt_row))
}

fn random_types(g: &mut Gen, st: &mut Stats) -> CaseResult {
    let t = table();
    let (_, f) = t[g.below(t.len())];
    f(g, st)
}

/// Values the encoder itself refuses: must be `Err`, never a panic, never bytes.
fn refused(g: &mut Gen, st: &mut Stats) -> CaseResult {
    st.eval();
    if g.bool() {
        let secs = 1 + g.u64() % (1u64 << 40);
        let t = std::time::UNIX_EPOCH - std::time::Duration::new(secs, g.raw_u32() % 1_000_000_000);
        st.class("pre-epoch SystemTime");
        st.nontrivial(hash_of(&("t", secs)));
        scoped("SystemTime(pre-epoch)", || {
            ensure!(minicbor::to_vec(t).is_err(), "accepted", "pre-epoch time {:?} was encoded", t);
            Ok(())
        })
    } else {
        use std::os::unix::ffi::OsStrExt;
        let mut b = g.bytes(20);
        b.push(0xff); // never valid UTF-8
        let p = std::path::Path::new(std::ffi::OsStr::from_bytes(&b));
        st.class("non-UTF-8 path");
        st.nontrivial(hash_of(&("p", &b)));
        st.sample(hash_of(&b), || format!("non-UTF-8 path {:?} must be refused", p));
        scoped("Path(non-utf8)", || {
            ensure!(minicbor::to_vec(p).is_err(), "accepted", "non-UTF-8 path {:?} was encoded", p);
            Ok(())
        })
    }
}

macro_rules! exhaustive_prim {
    ($fname:ident, $t:ty, $conv:expr) => {
        fn $fname(i: u64, st: &mut Stats) -> CaseResult {
            st.eval();
            let conv: fn(u64) -> Option<$t> = $conv;
            let v: $t = match conv(i) { Some(v) => v, None => return Ok(()) };
            scoped(stringify!($t), || {
                let bytes = minicbor::to_vec(&v).map_err(|e| vcore::Fail::new("encode-refused", format!("{:?}: {}", v, e)))?;
                let mut buf = bytes.clone();
                buf.push(0x00);
                let mut d = Decoder::new(&buf);
                let back: $t = d.decode().map_err(|e| vcore::Fail::new("decode-failed", format!("{:?} -> {}: {}", v, short_hex(&bytes), e)))?;
                ensure!(crate::model::Same::same(&v, &back), "value-mismatch", "{:?} -> {} -> {:?}", v, short_hex(&bytes), back);
                ensure!(d.position() == bytes.len(), "position", "{:?}: consumed {} of {}", v, d.position(), bytes.len());
                if bytes.len() >= 2 { st.nontrivial_enum(1) }
                Ok(())
            })
        }
    }
}

exhaustive_prim!(ex_u8, u8, |i| Some(i as u8));
exhaustive_prim!(ex_i8, i8, |i| Some(i as u8 as i8));
exhaustive_prim!(ex_u16, u16, |i| Some(i as u16));
exhaustive_prim!(ex_i16, i16, |i| Some(i as u16 as i16));
exhaustive_prim!(ex_char, char, |i| char::from_u32(i as u32));
exhaustive_prim!(ex_nzu16, std::num::NonZeroU16, |i| std::num::NonZeroU16::new(i as u16));
exhaustive_prim!(ex_nzi16, std::num::NonZeroI16, |i| std::num::NonZeroI16::new(i as u16 as i16));
exhaustive_prim!(ex_u32, u32, |i| Some(i as u32));
exhaustive_prim!(ex_i32, i32, |i| Some(i as u32 as i32));
exhaustive_prim!(ex_f32, f32, |i| Some(f32::from_bits(i as u32)));

pub fn subs() -> Vec<Sub> {
    let en = |name, n: u64, f, thorough_only: bool| Sub {
        prop: "C01", name,
        rule: "every value of the type enumerated once; non-trivial = encoding >= 2 bytes",
        kind: Kind::Enumerate { quick: if thorough_only { 1 << 16 } else { n }, thorough: n, f, complete_quick: !thorough_only, complete_thorough: true }
    };
    vec![
        Sub { prop: "C01", name: "types",
              rule: "tape-generated value of a registry type (uniform over ~120 instantiations, boundary-dense leaves) -> to_vec -> decode with 0-3 junk bytes appended; non-trivial = encoding >= 2 bytes; distinct by (type, bytes)",
              kind: Kind::Random { quick: 1_200_000, thorough: 12_000_000, tape: 1024, f: random_types } },
        Sub { prop: "C01", name: "refused",
              rule: "pre-epoch SystemTime / non-UTF-8 Path: encoder must refuse without panic; distinct by value",
              kind: Kind::Random { quick: 10_000, thorough: 50_000, tape: 64, f: refused } },
        en("all-u8", 1 << 8, ex_u8, false), en("all-i8", 1 << 8, ex_i8, false),
        en("all-u16", 1 << 16, ex_u16, false), en("all-i16", 1 << 16, ex_i16, false),
        en("all-char", 0x11_0000, ex_char, false),
        en("all-NonZeroU16", 1 << 16, ex_nzu16, false), en("all-NonZeroI16", 1 << 16, ex_nzi16, false),
        en("all-u32", 1 << 32, ex_u32, true), en("all-i32", 1 << 32, ex_i32, true), en("all-f32", 1 << 32, ex_f32, true),
    ]
}
