//! C01 — value round-trip for every built-in codec type.

use crate::registry::Entry;
use crate::util::{scoped, short_hex};
use minicbor::Decoder;
use vcore::engine::{hash_of, CaseResult, Kind, Stats, Sub};
use vcore::{ensure, fail, Gen};

pub fn roundtrip<E: Entry>(g: &mut Gen, st: &mut Stats) -> CaseResult {
    scoped(E::NAME, || {
        st.eval();
        let seed = E::seed(g);
        let v = E::view(&seed);
        let bytes = match minicbor::to_vec(&v) {
            Ok(b) => b,
            Err(e) => fail!("encode-refused", "to_vec failed for {:?}: {}", v, e)
        };
        let junk = g.below(4);
        let mut buf = bytes.clone();
        for _ in 0 .. junk { buf.push(g.byte()) }
        let mut d = Decoder::new(&buf);
        let back: E::Val<'_> = match d.decode() {
            Ok(x) => x,
            Err(e) => fail!("decode-failed", "decode of own encoding {} failed: {} (value {:?})", short_hex(&bytes), e, v)
        };
        ensure!(E::same(&v, &back), "value-mismatch", "encoded {:?} as {} but decoded {:?}", v, short_hex(&bytes), back);
        ensure!(d.position() == bytes.len(), "position", "encoding of {:?} is {} bytes but decoding consumed {} ({} junk bytes followed)", v, bytes.len(), d.position(), junk);
        ensure!(E::borrows_from(&back, &buf), "not-borrowed", "decoded {:?} does not point into the input buffer", back);
        if bytes.len() >= 2 {
            // hash-randomised collections serialise in a per-process order: hash them order-independently
            if E::UNORDERED { let mut sorted = bytes.clone(); sorted.sort_unstable(); st.nontrivial(hash_of(&(E::NAME, &sorted))) }
            else { st.nontrivial(hash_of(&(E::NAME, &bytes))) }
            st.sample(hash_of(&bytes), || format!("{}: {:?} <-> {}", E::NAME, v, short_hex(&bytes)));
        }
        st.class(E::NAME);
        if let Some(c) = E::repr_class(&v) { st.class(c) }
        Ok(())
    })
}

macro_rules! rt_row { ($e:ident) => { (<$e as Entry>::NAME, roundtrip::<$e> as vcore::engine::RandomFn) } }

fn table() -> &'static Vec<(&'static str, vcore::engine::RandomFn)> {
    static T: std::sync::OnceLock<Vec<(&'static str, vcore::engine::RandomFn)>> = std::sync::OnceLock::new();
    T.get_or_init(|| crate::for_each_entry!(rt_row))
}

fn random_types(g: &mut Gen, st: &mut Stats) -> CaseResult {
    let t = table();
    let (_, f) = t[g.below(t.len())];
    f(g, st)
}

/// Values the encoder itself refuses: must be `Err`, never a panic, never bytes.
fn refused(g: &mut Gen, st: &mut Stats) -> CaseResult {
    st.eval();
    if g.bool() {
        let secs = 1 + g.u64() % (1u64 << 40);
        let t = std::time::UNIX_EPOCH - std::time::Duration::new(secs, g.raw_u32() % 1_000_000_000);
        st.class("pre-epoch SystemTime");
        st.nontrivial(hash_of(&("t", secs)));
        scoped("SystemTime(pre-epoch)", || {
            ensure!(minicbor::to_vec(t).is_err(), "accepted", "pre-epoch time {:?} was encoded", t);
            Ok(())
        })
    } else {
        use std::os::unix::ffi::OsStrExt;
        let mut b = g.bytes(20);
        b.push(0xff); // never valid UTF-8
        let p = std::path::Path::new(std::ffi::OsStr::from_bytes(&b));
        st.class("non-UTF-8 path");
        st.nontrivial(hash_of(&("p", &b)));
        st.sample(hash_of(&b), || format!("non-UTF-8 path {:?} must be refused", p));
        scoped("Path(non-utf8)", || {
            ensure!(minicbor::to_vec(p).is_err(), "accepted", "non-UTF-8 path {:?} was encoded", p);
            Ok(())
        })
    }
}

macro_rules! exhaustive_prim {
    ($fname:ident, $t:ty, $conv:expr) => {
        fn $fname(i: u64, st: &mut Stats) -> CaseResult {
            st.eval();
            let conv: fn(u64) -> Option<$t> = $conv;
            let v: $t = match conv(i) { Some(v) => v, None => return Ok(()) };
            scoped(stringify!($t), || {
                let bytes = minicbor::to_vec(&v).map_err(|e| vcore::Fail::new("encode-refused", format!("{:?}: {}", v, e)))?;
                let mut buf = bytes.clone();
                buf.push(0x00);
                let mut d = Decoder::new(&buf);
                let back: $t = d.decode().map_err(|e| vcore::Fail::new("decode-failed", format!("{:?} -> {}: {}", v, short_hex(&bytes), e)))?;
                ensure!(crate::model::Same::same(&v, &back), "value-mismatch", "{:?} -> {} -> {:?}", v, short_hex(&bytes), back);
                ensure!(d.position() == bytes.len(), "position", "{:?}: consumed {} of {}", v, d.position(), bytes.len());
                if bytes.len() >= 2 { st.nontrivial_enum(1) }
                Ok(())
            })
        }
    }
}

exhaustive_prim!(ex_u8, u8, |i| Some(i as u8));
exhaustive_prim!(ex_i8, i8, |i| Some(i as u8 as i8));
exhaustive_prim!(ex_u16, u16, |i| Some(i as u16));
exhaustive_prim!(ex_i16, i16, |i| Some(i as u16 as i16));
exhaustive_prim!(ex_char, char, |i| char::from_u32(i as u32));
exhaustive_prim!(ex_nzu16, std::num::NonZeroU16, |i| std::num::NonZeroU16::new(i as u16));
exhaustive_prim!(ex_nzi16, std::num::NonZeroI16, |i| std::num::NonZeroI16::new(i as u16 as i16));
exhaustive_prim!(ex_u32, u32, |i| Some(i as u32));
exhaustive_prim!(ex_i32, i32, |i| Some(i as u32 as i32));
exhaustive_prim!(ex_f32, f32, |i| Some(f32::from_bits(i as u32)));

/// Collections and strings whose length crosses the 65535 / 65536 head boundary (and a few far beyond): built directly,
/// round-tripped with junk appended, exact consumption; `len` must agree too (C07 shares this generator).
pub fn large_value(g: &mut Gen, st: &mut Stats, check_len: bool) -> CaseResult {
    use crate::model::Same;
    use std::collections::{BTreeMap, BTreeSet, HashSet, LinkedList, VecDeque};
    st.eval();
    let n = *g.pick(&[65_535usize, 65_536, 65_537, 70_000, 131_072]);
    fn rt<T: minicbor::Encode<()> + for<'b> minicbor::Decode<'b, ()> + minicbor::CborLen<()> + Same>(name: &str, v: T, n: usize, check_len: bool, g: &mut Gen) -> CaseResult {
        let bytes = minicbor::to_vec(&v).map_err(|e| vcore::Fail::new("encode-refused", format!("{} with {} elements: {}", name, n, e)))?;
        if check_len { ensure!(minicbor::len(&v) == bytes.len(), "len-mismatch", "len({} with {} elements) = {} but {} bytes are written", name, n, minicbor::len(&v), bytes.len()); return Ok(()) }
        let mut buf = bytes.clone();
        for _ in 0 .. g.below(3) { buf.push(g.byte()) }
        let mut d = Decoder::new(&buf);
        let back: T = d.decode().map_err(|e| vcore::Fail::new("decode-failed", format!("{} with {} elements: decode of own encoding ({} bytes, head {}) failed: {}", name, n, bytes.len(), short_hex(&bytes[.. 6.min(bytes.len())]), e)))?;
        ensure!(v.same(&back), "value-mismatch", "{} with {} elements does not round-trip (encoding starts {})", name, n, short_hex(&bytes[.. 8.min(bytes.len())]));
        ensure!(d.position() == bytes.len(), "position", "{} with {} elements: {} bytes written, {} consumed", name, n, bytes.len(), d.position());
        Ok(())
    }
    let label = match g.below(12) {
        0 => { rt("Vec<u8>", (0 .. n).map(|i| i as u8).collect::<Vec<u8>>(), n, check_len, g)?; "large/Vec<u8>" }
        1 => { rt("Vec<bool>", (0 .. n).map(|i| i % 3 == 0).collect::<Vec<bool>>(), n, check_len, g)?; "large/Vec<bool>" }
        2 => { rt("String", "a".repeat(n), n, check_len, g)?; "large/String" }
        3 => { rt("String (2-byte chars)", "\u{e9}".repeat(n / 2), n, check_len, g)?; "large/String" }
        4 => { rt("ByteVec", minicbor::bytes::ByteVec::from(vec![0x5a; n]), n, check_len, g)?; "large/ByteVec" }
        5 => { rt("VecDeque<i16>", crate::registry::deque_with_layout(&(0 .. n).map(|i| i as i16).collect::<Vec<i16>>(), n / 3, 1 + (n % 2) as u8), n, check_len, g)?; "large/VecDeque<i16>" }
        6 => { rt("BTreeMap<u32,u8>", (0 .. n as u32).map(|i| (i, i as u8)).collect::<BTreeMap<u32, u8>>(), n, check_len, g)?; "large/BTreeMap<u32,u8>" }
        7 => { rt("HashSet<u32>", (0 .. n as u32).collect::<HashSet<u32>>(), n, check_len, g)?; "large/HashSet<u32>" }
        8 => { rt("Vec<Option<()>>", (0 .. n).map(|i| if i % 2 == 0 { None } else { Some(()) }).collect::<Vec<Option<()>>>(), n, check_len, g)?; "large/Vec<Option<()>>" }
        9 => { rt("LinkedList<u8>", (0 .. n).map(|i| i as u8).collect::<LinkedList<u8>>(), n, check_len, g)?; "large/LinkedList<u8>" }
        10 => { rt("BTreeSet<u32>", (0 .. n as u32).collect::<BTreeSet<u32>>(), n, check_len, g)?; "large/BTreeSet<u32>" }
        _ => { rt("Vec<(u8,bool)>", (0 .. n).map(|i| (i as u8, i % 2 == 0)).collect::<Vec<(u8, bool)>>(), n, check_len, g)?; "large/Vec<(u8,bool)>" }
    };
    st.class(label);
    st.nontrivial(hash_of(&(label, n, check_len)));
    Ok(())
}
fn large(g: &mut Gen, st: &mut Stats) -> CaseResult { large_value(g, st, false) }

/// The free functions and methods that take an explicit context (`*_with`) or a caller-provided sink are documented as
/// variants of the plain ones: same bytes, same value, same length.
pub fn api_variants<E: Entry>(g: &mut Gen, st: &mut Stats) -> CaseResult {
    scoped(E::NAME, || {
        st.eval();
        let seed = E::seed(g);
        let v = E::view(&seed);
        let bytes = match minicbor::to_vec(&v) { Ok(b) => b, Err(_) => return Ok(()) };
        let mut ctx = ();
        let b2 = minicbor::to_vec_with(&v, &mut ctx).map_err(|e| vcore::Fail::new("encode-refused", format!("to_vec_with({:?}): {}", v, e)))?;
        let mut b3 = Vec::new();
        minicbor::encode(&v, &mut b3).map_err(|e| vcore::Fail::new("encode-refused", format!("encode({:?}): {}", v, e)))?;
        let mut b4 = vec![0xaa];
        minicbor::encode_with(&v, &mut b4, &mut ctx).map_err(|e| vcore::Fail::new("encode-refused", format!("encode_with({:?}): {}", v, e)))?;
        let mut e5 = minicbor::Encoder::new(Vec::new());
        e5.encode(&v).map_err(|e| vcore::Fail::new("encode-refused", e.to_string()))?;
        let mut e6 = minicbor::Encoder::new(Vec::new());
        e6.encode_with(&v, &mut ctx).map_err(|e| vcore::Fail::new("encode-refused", e.to_string()))?;
        ensure!(b2 == bytes && b3 == bytes && b4[1 ..] == bytes[..] && e5.writer() == &bytes && e6.into_writer() == bytes, "encode-variants-differ", "{:?}: to_vec gives {} but a context / sink variant gives other bytes", v, short_hex(&bytes));
        ensure!(minicbor::len(&v) == minicbor::len_with(&v, &mut ctx), "len-variants-differ", "len and len_with differ for {:?}", v);
        let a: E::Val<'_> = minicbor::decode(&bytes).map_err(|e| vcore::Fail::new("decode-failed", format!("decode({}): {}", short_hex(&bytes), e)))?;
        let b: E::Val<'_> = minicbor::decode_with(&bytes, &mut ctx).map_err(|e| vcore::Fail::new("decode-failed", format!("decode_with({}): {}", short_hex(&bytes), e)))?;
        let mut d = Decoder::new(&bytes);
        let c: E::Val<'_> = d.decode_with(&mut ctx).map_err(|e| vcore::Fail::new("decode-failed", format!("Decoder::decode_with({}): {}", short_hex(&bytes), e)))?;
        ensure!(E::same(&v, &a) && E::same(&v, &b) && E::same(&v, &c), "decode-variants-differ", "{:?} encoded as {}: decode / decode_with / Decoder::decode_with do not all return it", v, short_hex(&bytes));
        ensure!(d.position() == bytes.len() && d.input().len() == bytes.len(), "position", "Decoder::decode_with consumed {} of {}", d.position(), bytes.len());
        // the same value behind the transparent wrappers: &T, &&T, &mut T, Box<T> encode (and measure) like T; Box<T> and
        // Option<T> decode like T (Option only where the encoding cannot be mistaken for an absent value)
        {
            let mut w = E::view(&seed);
            let r1 = minicbor::to_vec(&&v).ok(); let r2 = minicbor::to_vec(&&&v).ok(); let r3 = minicbor::to_vec(&mut w).ok();
            ensure!(r1.as_deref() == Some(&bytes[..]) && r2.as_deref() == Some(&bytes[..]) && r3.as_deref() == Some(&bytes[..]), "wrapper-encoding-differs", "{:?} encodes as {} but differently behind &T / &&T / &mut T", v, short_hex(&bytes));
            ensure!(minicbor::len(&&v) == bytes.len() && minicbor::len(&mut w) == bytes.len(), "wrapper-len-differs", "len of {:?} behind a reference differs from {}", v, bytes.len());
            let bx = Box::new(w);
            let rb = minicbor::to_vec(&bx).ok();
            ensure!(rb.as_deref() == Some(&bytes[..]) && minicbor::len(&bx) == bytes.len(), "wrapper-encoding-differs", "Box<{}> of {:?} encodes as {:?}, the value itself as {}", E::NAME, bx, rb.map(|b| short_hex(&b)), short_hex(&bytes));
            let db: Box<E::Val<'_>> = minicbor::decode(&bytes).map_err(|e| vcore::Fail::new("decode-failed", format!("decode::<Box<{}>>({}): {}", E::NAME, short_hex(&bytes), e)))?;
            ensure!(E::same(&v, &db), "wrapper-decoding-differs", "decode::<Box<{}>>({}) = {:?}, expected {:?}", E::NAME, short_hex(&bytes), db, v);
            let some = minicbor::to_vec(&Some(&v)).ok();
            ensure!(some.as_deref() == Some(&bytes[..]), "wrapper-encoding-differs", "Some({:?}) encodes differently from the value", v);
            if bytes[0] != 0xf6 && !crate::registry::head_only::<E>() {
                let mut d = Decoder::new(&bytes);
                let o: Option<E::Val<'_>> = d.decode().map_err(|e| vcore::Fail::new("decode-failed", format!("decode::<Option<{}>>({}): {}", E::NAME, short_hex(&bytes), e)))?;
                match o { Some(x) => ensure!(E::same(&v, &x) && d.position() == bytes.len(), "wrapper-decoding-differs", "decode::<Option<{}>>({}) = Some({:?})", E::NAME, short_hex(&bytes), x), None => fail!("wrapper-decoding-differs", "decode::<Option<{}>>({}) = None for the present value {:?}", E::NAME, short_hex(&bytes), v) }
            }
            let none: Option<E::Val<'_>> = minicbor::decode(&[0xf6]).map_err(|e| vcore::Fail::new("decode-failed", format!("decode::<Option<{}>>(f6): {}", E::NAME, e)))?;
            ensure!(none.is_none() || bytes == [0xf6], "wrapper-decoding-differs", "decode::<Option<{}>>(null) = {:?}", E::NAME, none);
        }
        if bytes.len() >= 2 { st.nontrivial(crate::registry::stable_hash::<E>(&bytes)) }
        Ok(())
    })
}
macro_rules! av_row { ($e:ident) => { api_variants::<$e> as vcore::engine::RandomFn } }
fn variants(g: &mut Gen, st: &mut Stats) -> CaseResult {
    static T: std::sync::OnceLock<Vec<vcore::engine::RandomFn>> = std::sync::OnceLock::new();
    let t = T.get_or_init(|| crate::for_each_core_entry!(av_row));
    t[g.below(t.len())](g, st)
}

pub fn subs() -> Vec<Sub> {
    let en = |name, n: u64, f, thorough_only: bool| Sub {
        prop: "C01", name,
        rule: "every value of the type enumerated once; non-trivial = encoding >= 2 bytes",
        kind: Kind::Enumerate { quick: if thorough_only { 1 << 16 } else { n }, thorough: n, f, complete_quick: !thorough_only, complete_thorough: true }
    };
    vec![
        Sub { prop: "C01", name: "types",
              rule: "tape-generated value of a registry type (uniform over ~120 instantiations, boundary-dense leaves) -> to_vec -> decode with 0-3 junk bytes appended; non-trivial = encoding >= 2 bytes; distinct by (type, bytes)",
              kind: Kind::Random { quick: 1_200_000, thorough: 12_000_000, tape: 1024, f: random_types } },
        Sub { prop: "C01", name: "context-threading", rule: "24 container shapes (Vec, VecDeque, LinkedList, arrays, tuples up to arity 16, Option, Box, BTreeMap values, maps whose keys and values both use the context, Result, Bound, Range, RangeInclusive, nestings, Tagged, RefCell, slices, ArrayIter / MapIter encoders, array_iter_with / map_iter_with) over an element type that encodes as the user context's counter and advances it: encode_with, len_with and decode_with hand the one context to every element exactly once in wire order (bytes = shape over k..k+n, counter ends at k+n, len_with agrees, decoding with a different counter fails); non-trivial = at least two elements",
              kind: Kind::Random { quick: 200_000, thorough: 2_000_000, tape: 64, f: crate::checks::ctx::context_threading } },
        Sub { prop: "C01", name: "api-variants", rule: "registry values through to_vec / to_vec_with / encode / encode_with / Encoder::encode / Encoder::encode_with (same bytes), len / len_with, decode / decode_with / Decoder::decode_with (same value, exact consumption); the value behind &T / &&T / &mut T / Box<T> / Some(T) encodes and measures like T, Box<T> and Option<T> decode like T",
              kind: Kind::Random { quick: 300_000, thorough: 3_000_000, tape: 1024, f: variants } },
        Sub { prop: "C01", name: "large", rule: "collections, strings and byte strings of 65535 / 65536 / 65537 / 70000 / 131072 elements (Vec, VecDeque with a wrapped buffer, LinkedList, BTreeMap, BTreeSet, HashSet, String, ByteVec): round trip with junk appended, exact consumption",
              kind: Kind::Random { quick: 400, thorough: 4_000, tape: 64, f: large } },
        Sub { prop: "C01", name: "refused",
              rule: "pre-epoch SystemTime / non-UTF-8 Path: encoder must refuse without panic; distinct by value",
              kind: Kind::Random { quick: 10_000, thorough: 50_000, tape: 64, f: refused } },
        en("all-u8", 1 << 8, ex_u8, false), en("all-i8", 1 << 8, ex_i8, false),
        en("all-u16", 1 << 16, ex_u16, false), en("all-i16", 1 << 16, ex_i16, false),
        en("all-char", 0x11_0000, ex_char, false),
        en("all-NonZeroU16", 1 << 16, ex_nzu16, false), en("all-NonZeroI16", 1 << 16, ex_nzi16, false),
        en("all-u32", 1 << 32, ex_u32, true), en("all-i32", 1 << 32, ex_i32, true), en("all-f32", 1 << 32, ex_f32, true),
    ]
}
