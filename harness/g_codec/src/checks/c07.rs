//! C07 (built-in part) — CborLen is exact for built-in impls and tokens.

use crate::registry::Entry;
use crate::util::{scoped, short_hex};
use minicbor::data::{Int, Tag, Token};
use minicbor::{CborLen, Encode};
use std::fmt::Debug;
use vcore::engine::{hash_of, CaseResult, Kind, RandomFn, Stats, Sub};
use vcore::{ensure, fail, Gen};

/// The C07 oracle for one value: len == bytes written; exact buffer suffices; one byte less does not.
pub fn check_len<T: Encode<()> + CborLen<()> + Debug>(v: &T, st: &mut Stats) -> Result<Option<Vec<u8>>, vcore::Fail> {
    let bytes = match minicbor::to_vec(v) { Ok(b) => b, Err(_) => { st.class("len/encode-refused (outside the statement)"); return Ok(None) } };
    let n = minicbor::len(v);
    ensure!(n == bytes.len(), "len-mismatch", "len({:?}) = {} but {} bytes are written ({})", v, n, bytes.len(), short_hex(&bytes));
    let mut exact = vec![0u8; n];
    match minicbor::encode(v, &mut exact[..]) {
        Ok(()) => ensure!(exact == bytes, "exact-buffer-bytes", "encoding {:?} into an exactly sized buffer wrote different bytes", v),
        Err(e) => fail!("exact-buffer-fails", "a buffer of len() = {} bytes did not suffice for {:?}: {}", n, v, e)
    }
    if n >= 1 {
        let mut small = vec![0u8; n - 1];
        match minicbor::encode(v, &mut small[..]) {
            Ok(()) => fail!("short-buffer-succeeds", "a buffer of len()-1 = {} bytes sufficed for {:?}", n - 1, v),
            Err(e) => ensure!(e.is_write(), "short-buffer-error-class", "short buffer produced a non-write error for {:?}: {}", v, e)
        }
    }
    Ok(Some(bytes))
}

pub fn value_len<E: Entry>(g: &mut Gen, st: &mut Stats) -> CaseResult {
    scoped(E::NAME, || {
        st.eval();
        let seed = E::seed(g);
        let v = E::view(&seed);
        if let Some(bytes) = check_len(&v, st)? {
            if bytes.len() >= 2 {
                if E::UNORDERED { let mut s = bytes.clone(); s.sort_unstable(); st.nontrivial(hash_of(&(E::NAME, s))) } else { st.nontrivial(hash_of(&(E::NAME, &bytes))) }
                st.sample(hash_of(&bytes), || format!("{}: len({:?}) = {}", E::NAME, v, bytes.len()));
            }
            st.class(match bytes.len() { 0 ..= 1 => "len/1", 2 ..= 23 => "len/2..23", 24 ..= 255 => "len/24..255", 256 ..= 65535 => "len/256..65535", _ => "len/>=65536" });
        }
        Ok(())
    })
}

macro_rules! len_row { ($e:ident) => { value_len::<$e> as RandomFn } }

fn values(g: &mut Gen, st: &mut Stats) -> CaseResult {
    static T: std::sync::OnceLock<Vec<RandomFn>> = std::sync::OnceLock::new();
    let t = T.get_or_init(|| crate::for_each_entry!(len_row));
    t[g.below(t.len())](g, st)
}

/// Large containers crossing the 255/256 and 65535/65536 element-count and byte-length boundaries.
fn big_containers(g: &mut Gen, st: &mut Stats) -> CaseResult {
    st.eval();
    let n = *g.pick(&[23usize, 24, 255, 256, 257, 65535, 65536, 65537]);
    let k = g.below(5);
    st.class(match k { 0 => "big/Vec<u8>", 1 => "big/String", 2 => "big/ByteVec", 3 => "big/Vec<bool>", _ => "big/BTreeMap<u32,u8>" });
    st.nontrivial(hash_of(&(n, k)));
    let r = match k {
        0 => check_len(&vec![g.byte(); n], st),
        1 => check_len(&"x".repeat(n), st),
        2 => check_len(&minicbor::bytes::ByteVec::from(vec![7u8; n]), st),
        3 => check_len(&vec![true; n], st),
        _ => check_len(&(0 .. n as u32).map(|i| (i, 1u8)).collect::<std::collections::BTreeMap<u32, u8>>(), st)
    };
    r.map(|_| ())
}

pub fn gen_token<'a>(g: &mut Gen, backing_bytes: &'a [u8], backing_str: &'a str, allow_lossy_f16: bool) -> Token<'a> {
    match g.below(26) {
        0 => Token::Bool(g.bool()), 1 => Token::U8(g.u8()), 2 => Token::U16(g.u16()), 3 => Token::U32(g.u32()), 4 => Token::U64(g.u64()),
        5 => Token::I8(g.i8()), 6 => Token::I16(g.i16()), 7 => Token::I32(g.i32()), 8 => Token::I64(g.i64()),
        9 => { let (neg, n) = g.cbor_int(); Token::Int(Int::try_from(if neg { -1 - n as i128 } else { n as i128 }).unwrap()) }
        10 => {
            if allow_lossy_f16 && g.bool() { Token::F16(f32::from_bits(g.f32_bits())) }
            else {
                let mut b = g.f16_bits();
                if vcore::half_ref::f16_is_snan(b) { b |= 0x0200 }
                let v = vcore::half_ref::f16_bits_to_f64(b) as f32;
                Token::F16(if vcore::half_ref::f16_is_nan(b) { f32::NAN } else { v })
            }
        }
        11 => Token::F32(f32::from_bits(g.f32_bits())), 12 => Token::F64(f64::from_bits(g.f64_bits())),
        13 => Token::Bytes(backing_bytes), 14 => Token::String(backing_str),
        15 => Token::Array(g.u64()), 16 => Token::Map(g.u64()), 17 => Token::Tag(Tag::new(g.u64())),
        18 => { let n = g.byte(); Token::Simple(if (20 ..= 31).contains(&n) { n + 100 } else { n }) }
        19 => Token::Break, 20 => Token::Null, 21 => Token::Undefined,
        22 => Token::BeginBytes, 23 => Token::BeginString, 24 => Token::BeginArray, _ => Token::BeginMap
    }
}

fn tokens(g: &mut Gen, st: &mut Stats) -> CaseResult {
    st.eval();
    let bb = g.bytes(300);
    let bs = g.string(80);
    let t = gen_token(g, &bb, &bs, true);
    let name = format!("{:?}", t);
    let variant = name.split(|c| c == '(' || c == ' ').next().unwrap_or("?").to_string();
    scoped(&format!("Token::{}", variant), || {
        if let Some(bytes) = check_len(&t, st)? {
            if bytes.len() >= 2 { st.nontrivial(hash_of(&bytes)) }
            st.sample(hash_of(&bytes), || format!("len({:?}) = {}", t, bytes.len()));
        }
        st.class(&format!("Token::{}", variant));
        Ok(())
    })
}

fn large(g: &mut Gen, st: &mut Stats) -> CaseResult { crate::checks::c01::large_value(g, st, true) }

pub fn subs() -> Vec<Sub> {
    vec![
        Sub { prop: "C07", name: "builtin-values", rule: "values of ~120 registry types: len(v) == to_vec(v).len(), an exactly sized slice suffices, one byte less gives a write error; non-trivial = length >= 2; distinct by (type, bytes)",
              kind: Kind::Random { quick: 1_200_000, thorough: 12_000_000, tape: 1024, f: values } },
        Sub { prop: "C07", name: "big-containers", rule: "containers / strings with 23..65537 elements (count and length head-width crossings)",
              kind: Kind::Random { quick: 1_500, thorough: 3_000, tape: 16, f: big_containers } },
        Sub { prop: "C07", name: "large", rule: "the large collections of C01 (65535 .. 131072 elements, twelve container / string kinds): len == bytes written",
              kind: Kind::Random { quick: 300, thorough: 3_000, tape: 64, f: large } },
        Sub { prop: "C07", name: "context-threading", rule: "len_with over 24 container shapes of context-sensitive elements (an element's length depends on the user context's counter, which every element advances): the length equals the bytes encode_with writes from the same starting context and the context ends in the same state - the length computation has to visit the elements in wire order (key, value, key, value in maps)",
              kind: Kind::Random { quick: 200_000, thorough: 2_000_000, tape: 64, f: crate::checks::ctx::context_threading } },
        Sub { prop: "C07", name: "tokens", rule: "all 26 Token variants with boundary-dense payloads (F16 of arbitrary f32 included: encoding succeeds); distinct by bytes",
              kind: Kind::Random { quick: 750_000, thorough: 5_000_000, tape: 512, f: tokens } },
    ]
}
