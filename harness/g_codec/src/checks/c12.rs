//! C12 — floats survive bit-exactly; half precision converts per IEEE 754.

use minicbor::{Decoder, Encoder};
use vcore::engine::{hash_of, CaseResult, Kind, Stats, Sub};
use vcore::half_ref::{f16_bits_to_f64, f16_is_nan, f32_bits_to_f16_rne};
use vcore::{ensure, fail, Gen};

fn enc<F: FnOnce(&mut Encoder<Vec<u8>>)>(f: F) -> Vec<u8> {
    let mut e = Encoder::new(Vec::new());
    f(&mut e);
    e.into_writer()
}

/// One half-precision bit pattern through every decoding path.
fn half_pattern(i: u64, st: &mut Stats) -> CaseResult {
    st.eval();
    let b = i as u16;
    let bytes = [0xf9, (b >> 8) as u8, b as u8, 0x00];
    let exact = f16_bits_to_f64(b);
    let nan = f16_is_nan(b);
    // f16 accessor
    let mut d = Decoder::new(&bytes);
    match d.f16() {
        Err(e) => fail!("f16-rejected", "Decoder::f16 rejected f9 {:04x}: {}", b, e),
        Ok(x) => {
            if nan { ensure!(x.is_nan(), "f16-nan", "f9 {:04x} is NaN but f16() returned {:e}", b, x) }
            else { ensure!((x as f64).to_bits() == exact.to_bits(), "f16-value", "f9 {:04x} denotes {:e} but f16() returned {:e}", b, exact, x) }
            ensure!(d.position() == 3, "position", "f16() consumed {} bytes", d.position());
        }
    }
    // narrower through wider accessors is exact
    let mut d = Decoder::new(&bytes);
    match d.f32() {
        Err(e) => fail!("f32-rejects-half", "Decoder::f32 rejected half item {:04x}: {}", b, e),
        Ok(x) => {
            if nan { ensure!(x.is_nan(), "f32-nan", "f9 {:04x}: f32() returned {:e}", b, x) }
            else { ensure!((x as f64).to_bits() == exact.to_bits(), "f32-of-half", "f9 {:04x} = {:e}, f32() returned {:e}", b, exact, x) }
            ensure!(d.position() == 3, "position", "f32() consumed {} bytes of a half item", d.position());
        }
    }
    let mut d = Decoder::new(&bytes);
    match d.f64() {
        Err(e) => fail!("f64-rejects-half", "Decoder::f64 rejected half item {:04x}: {}", b, e),
        Ok(x) => {
            if nan { ensure!(x.is_nan(), "f64-nan", "f9 {:04x}: f64() returned {:e}", b, x) }
            else { ensure!(x.to_bits() == exact.to_bits(), "f64-of-half", "f9 {:04x} = {:e}, f64() returned {:e}", b, exact, x) }
            ensure!(d.position() == 3, "position", "f64() consumed {} bytes of a half item", d.position());
        }
    }
    // typed decode agrees
    let t: Result<f32, _> = minicbor::decode(&bytes);
    match t { Ok(x) => ensure!(if nan { x.is_nan() } else { (x as f64).to_bits() == exact.to_bits() }, "decode-f32", "decode::<f32>(f9 {:04x}) = {:e}", b, x), Err(e) => fail!("decode-f32", "decode::<f32>(f9 {:04x}): {}", b, e) }
    // explicit half encoding of the exact value reproduces the pattern
    if !nan {
        let out = enc(|e| { e.f16(exact as f32).unwrap(); });
        ensure!(out == bytes[.. 3], "f16-encode-exact", "Encoder::f16({:e}) wrote {} instead of f9{:04x}", exact, vcore::item::hex(&out), b);
    } else {
        let out = enc(|e| { e.f16(f32::NAN).unwrap(); });
        ensure!(out.len() == 3 && out[0] == 0xf9 && f16_is_nan(u16::from_be_bytes([out[1], out[2]])), "f16-encode-nan", "Encoder::f16(NaN) wrote {}", vcore::item::hex(&out));
    }
    if b & 0x7fff != 0 { st.nontrivial_enum(1) }
    st.class(if nan { "half/nan" } else if b & 0x7c00 == 0 { "half/subnormal-or-zero" } else if b & 0x7c00 == 0x7c00 { "half/inf" } else { "half/normal" });
    if i % 9973 == 0 { st.sample(i, || format!("f9{:04x} = {:e}", b, exact)) }
    Ok(())
}

fn check_f32_bits(bits: u32, st: &mut Stats) -> CaseResult {
    let x = f32::from_bits(bits);
    let out = enc(|e| { e.f32(x).unwrap(); });
    let mut want = vec![0xfa];
    want.extend_from_slice(&bits.to_be_bytes());
    ensure!(out == want, "f32-encode", "Encoder::f32(bits {:08x}) wrote {}", bits, vcore::item::hex(&out));
    let mut buf = out.clone();
    buf.push(0);
    let mut d = Decoder::new(&buf);
    match d.f32() {
        Ok(y) => { ensure!(y.to_bits() == bits, "f32-roundtrip", "f32 bits {:08x} came back as {:08x}", bits, y.to_bits()); ensure!(d.position() == 5, "position", "f32() consumed {}", d.position()) }
        Err(e) => fail!("f32-rejected", "f32() rejected fa{:08x}: {}", bits, e)
    }
    // wider accessor: exact real value, NaN stays NaN
    let mut d = Decoder::new(&buf);
    match d.f64() {
        Ok(y) => {
            if x.is_nan() { ensure!(y.is_nan(), "f64-of-f32-nan", "fa{:08x} is NaN, f64() gave {:e}", bits, y) }
            else { ensure!(y.to_bits() == (x as f64).to_bits(), "f64-of-f32", "fa{:08x} = {:e}, f64() gave {:e}", bits, x, y) }
            ensure!(d.position() == 5, "position", "f64() consumed {} bytes of a single item", d.position());
        }
        Err(e) => fail!("f64-rejects-f32", "f64() rejected fa{:08x}: {}", bits, e)
    }
    // narrower accessor never accepts a wider float
    let mut d = Decoder::new(&buf);
    if let Ok(y) = d.f16() { fail!("f16-accepts-f32", "f16() accepted the single-precision item fa{:08x} as {:e}", bits, y) }
    // explicit half encoding rounds to nearest even
    let out16 = enc(|e| { e.f16(x).unwrap(); });
    ensure!(out16.len() == 3 && out16[0] == 0xf9, "f16-encode-shape", "Encoder::f16 wrote {}", vcore::item::hex(&out16));
    let got = u16::from_be_bytes([out16[1], out16[2]]);
    let want = f32_bits_to_f16_rne(bits);
    if x.is_nan() { ensure!(f16_is_nan(got), "f16-encode-nan", "Encoder::f16(NaN {:08x}) wrote f9{:04x}", bits, got) }
    else { ensure!(got == want, "f16-encode-rounding", "Encoder::f16({:e} = {:08x}) wrote f9{:04x}, round-to-nearest-even gives f9{:04x}", x, bits, got, want) }
    // the same value as a double survives too
    let dbl = x as f64;
    if !x.is_nan() { check_f64_bits(dbl.to_bits())? }
    let e = (bits >> 23) & 0xff;
    st.class(if e == 0xff { if bits & 0x7fffff == 0 { "f32/inf" } else { "f32/nan" } } else if e == 0 { "f32/subnormal-or-zero" } else if (103 ..= 142).contains(&e) { "f32/half-range" } else { "f32/other" });
    Ok(())
}

fn check_f64_bits(bits: u64) -> CaseResult {
    let x = f64::from_bits(bits);
    let out = enc(|e| { e.f64(x).unwrap(); });
    let mut want = vec![0xfb];
    want.extend_from_slice(&bits.to_be_bytes());
    ensure!(out == want, "f64-encode", "Encoder::f64(bits {:016x}) wrote {}", bits, vcore::item::hex(&out));
    let mut buf = out;
    buf.push(0xff);
    let mut d = Decoder::new(&buf);
    match d.f64() {
        Ok(y) => { ensure!(y.to_bits() == bits, "f64-roundtrip", "f64 bits {:016x} came back as {:016x}", bits, y.to_bits()); ensure!(d.position() == 9, "position", "f64() consumed {}", d.position()) }
        Err(e) => fail!("f64-rejected", "f64() rejected fb{:016x}: {}", bits, e)
    }
    let mut d = Decoder::new(&buf);
    if let Ok(y) = d.f32() { fail!("f32-accepts-f64", "f32() accepted the double item fb{:016x} as {:e}", bits, y) }
    let mut d = Decoder::new(&buf);
    if let Ok(y) = d.f16() { fail!("f16-accepts-f64", "f16() accepted the double item fb{:016x} as {:e}", bits, y) }
    let t: Result<f32, _> = minicbor::decode(&buf);
    ensure!(t.is_err(), "decode-f32-accepts-f64", "decode::<f32> accepted fb{:016x}", bits);
    Ok(())
}

/// 2^24 stratified single-precision patterns: every sign/exponent x 2^15 mantissas
/// (single bits, all-ones, all-zeros, complements, exact half-rounding ties and their neighbours, spread).
fn stratified_f32(i: u64, st: &mut Stats) -> CaseResult {
    st.eval();
    let top = (i >> 15) as u32 & 0x1ff;
    let j = (i & 0x7fff) as u32;
    let man: u32 = match j {
        0 ..= 22 => 1 << j,
        23 => 0,
        24 => 0x7f_ffff,
        25 ..= 47 => 0x7f_ffff ^ (1 << (j - 25)),
        1024 ..= 2047 => ((j - 1024) << 13) | 0x1000,
        2048 ..= 3071 => ((j - 2048) << 13) | 0x0fff,
        3072 ..= 4095 => ((j - 3072) << 13) | 0x1001,
        4096 ..= 5119 => (j - 4096) << 13,
        _ => j.wrapping_mul(0x9E37_79B1) & 0x7f_ffff
    };
    let bits = (top << 23) | man;
    if i % 99991 == 0 { st.sample(i, || format!("f32 bits {:08x} = {:e}: encode/decode, widening, narrowing refusal, half rounding", bits, f32::from_bits(bits))) }
    check_f32_bits(bits, st)?;
    st.nontrivial_enum(1);
    Ok(())
}

fn all_f32(i: u64, st: &mut Stats) -> CaseResult {
    st.eval();
    check_f32_bits(i as u32, st)?;
    st.nontrivial_enum(1);
    Ok(())
}

/// Exponent boundaries of doubles: every biased exponent x {0, 1, all-ones, all-ones-1} mantissa x sign.
fn f64_exponents(i: u64, st: &mut Stats) -> CaseResult {
    st.eval();
    let sign = i & 1;
    let m = match (i >> 1) & 3 { 0 => 0u64, 1 => 1, 2 => (1u64 << 52) - 1, _ => (1u64 << 52) - 2 };
    let e = i >> 3;
    let bits = (sign << 63) | (e << 52) | m;
    check_f64_bits(bits)?;
    st.nontrivial_enum(1);
    st.class("f64/exponent-boundary");
    if i % 997 == 0 { st.sample(i, || format!("f64 bits {:016x}", bits)) }
    Ok(())
}

fn random_f64(g: &mut Gen, st: &mut Stats) -> CaseResult {
    st.eval();
    let bits = g.f64_bits();
    check_f64_bits(bits)?;
    st.nontrivial(hash_of(&bits));
    let e = (bits >> 52) & 0x7ff;
    st.class(if e == 0x7ff { if bits << 12 == 0 { "f64/inf" } else { "f64/nan" } } else if e == 0 { "f64/subnormal-or-zero" } else { "f64/normal" });
    Ok(())
}

pub fn subs() -> Vec<Sub> {
    vec![
        Sub { prop: "C12", name: "all-f16", rule: "all 65536 half patterns: f16/f32/f64 accessors vs integer reference arithmetic, typed decode, Encoder::f16 of the exact value; non-trivial = not +-0",
              kind: Kind::Enumerate { quick: 1 << 16, thorough: 1 << 16, f: half_pattern, complete_quick: true, complete_thorough: true } },
        Sub { prop: "C12", name: "f32-stratified", rule: "2^24 stratified f32 patterns (every sign/exponent x 2^15 mantissas incl. single bits, all-ones, half-rounding ties +-1ulp): bit-exact round-trip, exact widening, narrowing refused, Encoder::f16 == round-to-nearest-even reference; each also as f64",
              kind: Kind::Enumerate { quick: 1 << 24, thorough: 1 << 24, f: stratified_f32, complete_quick: false, complete_thorough: false } },
        Sub { prop: "C12", name: "all-f32", rule: "all 2^32 f32 patterns, same oracle (thorough tier; quick runs the first 2^16)",
              kind: Kind::Enumerate { quick: 1 << 16, thorough: 1 << 32, f: all_f32, complete_quick: false, complete_thorough: true } },
        Sub { prop: "C12", name: "f64-exponents", rule: "all 2048 biased exponents x 4 mantissa patterns x sign",
              kind: Kind::Enumerate { quick: 2048 * 8, thorough: 2048 * 8, f: f64_exponents, complete_quick: true, complete_thorough: true } },
        Sub { prop: "C12", name: "f64-random", rule: "random / special f64 bit patterns (NaN payloads, subnormals, f32-representable): bit-exact round-trip, f32/f16 accessors refuse; distinct by bits",
              kind: Kind::Random { quick: 2_000_000, thorough: 10_000_000, tape: 16, f: random_f64 } },
    ]
}
