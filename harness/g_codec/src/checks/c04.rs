//! C04 — typed decoding agrees with the RFC 8949 data model on every well-formed encoding.

use crate::model::unordered_eq;
use crate::registry::{within, Entry};
use crate::util::{eclass, scoped, short_hex};
use minicbor::data::{Int, Tag, Type};
use minicbor::decode::info::Size;
use minicbor::decode::Error;
use minicbor::Decoder;
use std::fmt::Debug;
use vcore::engine::{hash_of, CaseResult, Kind, RandomFn, Stats, Sub};
use vcore::gen::{item, reframe, small_shapes, FramedSpace, ItemCfg};
use vcore::half_ref::{f16_bits_to_f64, f16_is_nan};
use vcore::item::{Item, W};
use vcore::{ensure, fail, Gen};

enum Exp<T> {
    /// documented to accept: must return this value
    Must(T),
    /// must be an error (any class)
    MustErr,
    /// the docs leave acceptance open: an error, or exactly this value
    Either(T)
}

fn cmp<T: PartialEq + Debug>(what: &str, bytes: &[u8], res: Result<T, Error>, pos: usize, exp: Exp<T>, end: usize) -> CaseResult {
    match (res, exp) {
        (Ok(v), Exp::Must(w)) | (Ok(v), Exp::Either(w)) => {
            ensure!(v == w, "wrong-value", "{} on {} returned {:?}; the data model gives {:?}", what, short_hex(bytes), v, w);
            ensure!(pos == end, "position", "{} on {} left the position at {}, the item ends at {}", what, short_hex(bytes), pos, end);
        }
        (Ok(v), Exp::MustErr) => fail!("accepted-mismatch", "{} on {} returned {:?} although the item does not have that shape", what, short_hex(bytes), v),
        (Err(e), Exp::Must(w)) => fail!("rejected-match", "{} on {} failed ({}); the data model gives {:?}", what, short_hex(bytes), e, w),
        (Err(_), _) => {}
    }
    Ok(())
}

fn int_exp(x: &Item, lo: i128, hi: i128) -> Exp<i128> {
    match x.as_int() { Some(m) if m >= lo && m <= hi => Exp::Must(m), _ => Exp::MustErr }
}

fn float_value(x: &Item) -> Option<f64> {
    match x { Item::F16(b) => Some(f16_bits_to_f64(*b)), Item::F32(b) => Some(f32::from_bits(*b) as f64), Item::F64(b) => Some(f64::from_bits(*b)), _ => None }
}

fn head_len(bytes: &[u8]) -> usize {
    match bytes[0] & 0x1f { 24 => 2, 25 => 3, 26 => 5, 27 => 9, _ => 1 }
}

/// Float results are compared by bits with all NaNs identified.
#[derive(Debug)]
struct F(f64);
impl PartialEq for F { fn eq(&self, o: &F) -> bool { (self.0.is_nan() && o.0.is_nan()) || self.0.to_bits() == o.0.to_bits() } }

/// Every typed accessor of `Decoder` against the model of `x`. `bytes` = encoding of `x` followed by junk.
pub fn check_accessors(bytes: &[u8], x: &Item, end: usize) -> CaseResult {
    let hl = head_len(bytes);
    macro_rules! int_acc { ($f:ident, $t:ty) => {{
        let mut d = Decoder::new(bytes);
        let r = d.$f().map(|v| v as i128);
        cmp(concat!("Decoder::", stringify!($f)), bytes, r, d.position(), int_exp(x, <$t>::MIN as i128, <$t>::MAX as i128), end)?;
    }}}
    int_acc!(u8, u8); int_acc!(u16, u16); int_acc!(u32, u32); int_acc!(u64, u64);
    int_acc!(i8, i8); int_acc!(i16, i16); int_acc!(i32, i32); int_acc!(i64, i64);
    {
        let mut d = Decoder::new(bytes);
        let r = d.int().map(i128::from);
        cmp("Decoder::int", bytes, r, d.position(), int_exp(x, -(1i128 << 64), (1i128 << 64) - 1), end)?;
    }
    {
        let mut d = Decoder::new(bytes);
        let r = d.char();
        let e = match x.as_int() { Some(m) if (0 ..= 0x10ffff).contains(&m) => match char::from_u32(m as u32) { Some(c) => Exp::Must(c), None => Exp::MustErr }, _ => Exp::MustErr };
        cmp("Decoder::char", bytes, r, d.position(), e, end)?;
    }
    {
        let mut d = Decoder::new(bytes);
        let r = d.bool();
        cmp("Decoder::bool", bytes, r, d.position(), match x { Item::True => Exp::Must(true), Item::False => Exp::Must(false), _ => Exp::MustErr }, end)?;
    }
    {
        let mut d = Decoder::new(bytes);
        let r = d.null();
        cmp("Decoder::null", bytes, r, d.position(), match x { Item::Null => Exp::Must(()), _ => Exp::MustErr }, end)?;
        let mut d = Decoder::new(bytes);
        let r = d.undefined();
        cmp("Decoder::undefined", bytes, r, d.position(), match x { Item::Undefined => Exp::Must(()), _ => Exp::MustErr }, end)?;
    }
    {
        let mut d = Decoder::new(bytes);
        let r = d.simple();
        let e = match x {
            Item::Simple(n) => Exp::Must(*n),
            // false/true/null/undefined are simple values 20..23 in the data model; the accessor's
            // documentation does not say whether it takes them
            Item::False => Exp::Either(20), Item::True => Exp::Either(21), Item::Null => Exp::Either(22), Item::Undefined => Exp::Either(23),
            _ => Exp::MustErr
        };
        cmp("Decoder::simple", bytes, r, d.position(), e, end)?;
    }
    {
        let fv = float_value(x);
        let mut d = Decoder::new(bytes);
        let r = d.f16().map(|v| F(v as f64));
        cmp("Decoder::f16", bytes, r, d.position(), match x { Item::F16(_) => Exp::Must(F(fv.unwrap())), _ => Exp::MustErr }, end)?;
        let mut d = Decoder::new(bytes);
        let r = d.f32().map(|v| F(v as f64));
        cmp("Decoder::f32", bytes, r, d.position(), match x { Item::F16(_) | Item::F32(_) => Exp::Must(F(fv.unwrap())), _ => Exp::MustErr }, end)?;
        let mut d = Decoder::new(bytes);
        let r = d.f64().map(F);
        cmp("Decoder::f64", bytes, r, d.position(), match x { Item::F16(_) | Item::F32(_) | Item::F64(_) => Exp::Must(F(fv.unwrap())), _ => Exp::MustErr }, end)?;
    }
    {
        // definite-only string accessors
        let mut d = Decoder::new(bytes);
        let r = d.bytes();
        if let Ok(s) = &r { ensure!(within(s.as_ptr(), s.len(), bytes), "not-borrowed", "Decoder::bytes on {} returned a slice outside the input", short_hex(bytes)) }
        let e = match x { Item::Bytes(b, _) => Exp::Must(&b[..]), _ => Exp::MustErr };
        cmp("Decoder::bytes", bytes, r, d.position(), e, end)?;
        let mut d = Decoder::new(bytes);
        let r = d.str();
        if let Ok(s) = &r { ensure!(within(s.as_ptr(), s.len(), bytes), "not-borrowed", "Decoder::str on {} returned a slice outside the input", short_hex(bytes)) }
        let e = match x { Item::Text(s, _) => Exp::Must(&s[..]), _ => Exp::MustErr };
        cmp("Decoder::str", bytes, r, d.position(), e, end)?;
    }
    {
        // chunk iterators: documented for definite and indefinite strings; chunks concatenate to the whole
        let mut d = Decoder::new(bytes);
        let mut borrowed = true;
        let r: Result<Vec<u8>, Error> = d.bytes_iter().and_then(|it| { let mut all = Vec::new(); for c in it { let c = c?; borrowed &= within(c.as_ptr(), c.len(), bytes); all.extend_from_slice(c) } Ok(all) });
        let e = match x { Item::Bytes(b, _) => Exp::Must(b.clone()), Item::BytesIndef(cs) => Exp::Must(cs.iter().flat_map(|(c, _)| c.iter().copied()).collect()), _ => Exp::MustErr };
        ensure!(borrowed, "not-borrowed", "bytes_iter on {} yielded a chunk outside the input", short_hex(bytes));
        cmp("Decoder::bytes_iter", bytes, r, d.position(), e, end)?;
        let mut d = Decoder::new(bytes);
        let mut borrowed = true;
        let r: Result<String, Error> = d.str_iter().and_then(|it| { let mut all = String::new(); for c in it { let c = c?; borrowed &= within(c.as_ptr(), c.len(), bytes); all.push_str(c) } Ok(all) });
        let e = match x { Item::Text(s, _) => Exp::Must(s.clone()), Item::TextIndef(cs) => Exp::Must(cs.iter().map(|(c, _)| c.as_str()).collect()), _ => Exp::MustErr };
        ensure!(borrowed, "not-borrowed", "str_iter on {} yielded a chunk outside the input", short_hex(bytes));
        cmp("Decoder::str_iter", bytes, r, d.position(), e, end)?;
    }
    {
        // head-only accessors: they *begin* an item, so they stop after the head
        let mut d = Decoder::new(bytes);
        let r = d.array();
        cmp("Decoder::array", bytes, r, d.position(), match x { Item::Array(xs, Some(_)) => Exp::Must(Some(xs.len() as u64)), Item::Array(_, None) => Exp::Must(None), _ => Exp::MustErr }, hl)?;
        let mut d = Decoder::new(bytes);
        let r = d.map();
        cmp("Decoder::map", bytes, r, d.position(), match x { Item::Map(xs, Some(_)) => Exp::Must(Some(xs.len() as u64)), Item::Map(_, None) => Exp::Must(None), _ => Exp::MustErr }, hl)?;
        let mut d = Decoder::new(bytes);
        let r = d.tag();
        cmp("Decoder::tag", bytes, r, d.position(), match x { Item::Tag(t, _, _) => Exp::Must(Tag::new(*t)), _ => Exp::MustErr }, hl)?;
    }
    {
        // datatype: exact class for non-integers; for integers a type whose accessor accepts the item (C05)
        let d = Decoder::new(bytes);
        let t = match d.datatype() { Ok(t) => t, Err(e) => fail!("datatype-error", "datatype() on {} failed: {}", short_hex(bytes), e) };
        ensure!(d.position() == 0, "datatype-moved", "datatype() moved the position to {}", d.position());
        let want = match x {
            Item::UInt(..) | Item::NInt(..) => None,
            Item::Bytes(..) => Some(Type::Bytes), Item::BytesIndef(_) => Some(Type::BytesIndef),
            Item::Text(..) => Some(Type::String), Item::TextIndef(_) => Some(Type::StringIndef),
            Item::Array(_, Some(_)) => Some(Type::Array), Item::Array(_, None) => Some(Type::ArrayIndef),
            Item::Map(_, Some(_)) => Some(Type::Map), Item::Map(_, None) => Some(Type::MapIndef),
            Item::Tag(..) => Some(Type::Tag), Item::Simple(_) => Some(Type::Simple),
            Item::False | Item::True => Some(Type::Bool), Item::Null => Some(Type::Null), Item::Undefined => Some(Type::Undefined),
            Item::F16(_) => Some(Type::F16), Item::F32(_) => Some(Type::F32), Item::F64(_) => Some(Type::F64)
        };
        match want {
            Some(w) => ensure!(t == w, "datatype", "datatype() of {} is {:?}, the item is a {:?}", short_hex(bytes), t, w),
            None => {
                let mut d = Decoder::new(bytes);
                let ok = match t {
                    Type::U8 => d.u8().is_ok(), Type::U16 => d.u16().is_ok(), Type::U32 => d.u32().is_ok(), Type::U64 => d.u64().is_ok(),
                    Type::I8 => d.i8().is_ok(), Type::I16 => d.i16().is_ok(), Type::I32 => d.i32().is_ok(), Type::I64 => d.i64().is_ok(), Type::Int => d.int().is_ok(),
                    _ => false
                };
                ensure!(ok, "datatype", "datatype() of integer item {} is {:?}, whose accessor does not accept it", short_hex(bytes), t);
            }
        }
    }
    {
        // size introspection
        let want_head = hl;
        match Size::head(bytes[0]) {
            Ok(n) => ensure!(n == want_head, "size-head", "Size::head({:#04x}) = {}, the head is {} bytes", bytes[0], n, want_head),
            Err(e) => fail!("size-head", "Size::head({:#04x}) failed on a well-formed item: {}", bytes[0], e)
        }
        let want_tail = match x {
            Item::Bytes(b, _) => Size::Bytes(b.len() as u64), Item::Text(s, _) => Size::Bytes(s.len() as u64),
            Item::BytesIndef(_) | Item::TextIndef(_) | Item::Array(_, None) | Item::Map(_, None) => Size::Indef,
            Item::Array(xs, Some(_)) => Size::Items(xs.len() as u64), Item::Map(xs, Some(_)) => Size::Items(xs.len() as u64),
            _ => Size::Head
        };
        match Size::tail(&bytes[.. hl]) {
            Ok(s) => ensure!(s == want_tail, "size-tail", "Size::tail({}) = {:?}, expected {:?}", short_hex(&bytes[.. hl]), s, want_tail),
            Err(e) => fail!("size-tail", "Size::tail({}) failed: {}", short_hex(&bytes[.. hl]), e)
        }
    }
    {
        // probing never moves the decoder; skip agrees on the item boundary
        let mut d = Decoder::new(bytes);
        { let mut p = d.probe(); let _ = p.skip(); let _ = p.u8(); }
        ensure!(d.position() == 0, "probe-moved", "probe() moved the underlying decoder to {}", d.position());
        let r = d.skip();
        cmp("Decoder::skip", bytes, r, d.position(), Exp::Must(()), end)?;
    }
    // typed decoding of `Int` and `Tag`-prefixed items through Decode impls
    {
        let mut d = Decoder::new(bytes);
        let r: Result<Int, _> = d.decode();
        cmp("decode::<Int>", bytes, r.map(i128::from), d.position(), int_exp(x, -(1i128 << 64), (1i128 << 64) - 1), end)?;
    }
    Ok(())
}

/// Strict prefixes of an encoding accepted by `decode` must fail with the end-of-input class.
fn check_prefixes<F: Fn(&[u8]) -> Result<(), Error>>(what: &str, enc: &[u8], decode: F, g: Option<&mut Gen>) -> CaseResult {
    let cuts: Vec<usize> = if enc.len() <= 96 { (0 .. enc.len()).collect() } else {
        let mut v: Vec<usize> = (0 .. 24).collect();
        v.extend(enc.len() - 24 .. enc.len());
        if let Some(g) = g { for _ in 0 .. 32 { v.push(g.below(enc.len())) } }
        v
    };
    for c in cuts {
        match decode(&enc[.. c]) {
            Ok(()) => fail!("prefix-accepted", "{}: the strict prefix {} of {} was accepted", what, short_hex(&enc[.. c]), short_hex(enc)),
            Err(e) => ensure!(e.is_end_of_input(), "prefix-error-class", "{}: the strict prefix {} (cut at {} of {}) failed with class {} ({}), not end-of-input", what, short_hex(&enc[.. c]), c, enc.len(), eclass(&e), e)
        }
    }
    Ok(())
}

fn accessor_prefixes(enc: &[u8], x: &Item) -> CaseResult {
    // the accessor matching the item's shape, on every strict prefix
    match x {
        Item::UInt(..) => check_prefixes("Decoder::u64", enc, |b| Decoder::new(b).u64().map(|_| ()), None),
        Item::NInt(..) => check_prefixes("Decoder::int", enc, |b| Decoder::new(b).int().map(|_| ()), None),
        Item::Bytes(..) => check_prefixes("Decoder::bytes", enc, |b| Decoder::new(b).bytes().map(|_| ()), None),
        Item::Text(..) => check_prefixes("Decoder::str", enc, |b| Decoder::new(b).str().map(|_| ()), None),
        Item::BytesIndef(_) => check_prefixes("Decoder::bytes_iter", enc, |b| { let mut d = Decoder::new(b); for c in d.bytes_iter()? { c?; } Ok(()) }, None),
        Item::TextIndef(_) => check_prefixes("Decoder::str_iter", enc, |b| { let mut d = Decoder::new(b); for c in d.str_iter()? { c?; } Ok(()) }, None),
        Item::F16(_) | Item::F32(_) | Item::F64(_) => check_prefixes("Decoder::f64", enc, |b| Decoder::new(b).f64().map(|_| ()), None),
        Item::Simple(_) => check_prefixes("Decoder::simple", enc, |b| Decoder::new(b).simple().map(|_| ()), None),
        Item::False | Item::True => check_prefixes("Decoder::bool", enc, |b| Decoder::new(b).bool().map(|_| ()), None),
        Item::Null => check_prefixes("Decoder::null", enc, |b| Decoder::new(b).null().map(|_| ()), None),
        Item::Undefined => check_prefixes("Decoder::undefined", enc, |b| Decoder::new(b).undefined().map(|_| ()), None),
        Item::Tag(..) | Item::Array(..) | Item::Map(..) => check_prefixes("Decoder::skip", enc, |b| Decoder::new(b).skip(), None),
    }
}

fn space(k: usize) -> &'static FramedSpace {
    static S3: std::sync::OnceLock<FramedSpace> = std::sync::OnceLock::new();
    static S4: std::sync::OnceLock<FramedSpace> = std::sync::OnceLock::new();
    if k <= 3 { S3.get_or_init(|| FramedSpace::new(small_shapes(3))) } else { S4.get_or_init(|| FramedSpace::new(small_shapes(4))) }
}

pub fn space_len(k: usize) -> u64 { space(k).len() }

fn small_case(sp: &FramedSpace, i: u64, st: &mut Stats) -> CaseResult {
    st.eval();
    let x = sp.get(i);
    let enc = x.encode();
    let mut bytes = enc.clone();
    bytes.extend_from_slice(&[0xff, 0x00, 0x41]);
    check_accessors(&bytes, &x, enc.len())?;
    accessor_prefixes(&enc, &x)?;
    if !x.is_preferred() || x.node_count() >= 2 { st.nontrivial_enum(1) }
    st.class(class_of(&x));
    if i % 4999 == 0 { st.sample(i, || format!("{} = {}: every accessor + every strict prefix", short_hex(&enc), x.render())) }
    Ok(())
}

fn small3(i: u64, st: &mut Stats) -> CaseResult { small_case(space(3), i, st) }
fn small4(i: u64, st: &mut Stats) -> CaseResult { small_case(space(4), i, st) }

fn class_of(x: &Item) -> &'static str {
    match x {
        Item::UInt(_, w) | Item::NInt(_, w) => match w { W::Imm => "int/imm", W::W1 => "int/1", W::W2 => "int/2", W::W4 => "int/4", W::W8 => "int/8" },
        Item::Bytes(..) | Item::Text(..) => "string/definite", Item::BytesIndef(_) | Item::TextIndef(_) => "string/indefinite",
        Item::Array(_, Some(_)) => "array/definite", Item::Array(_, None) => "array/indefinite",
        Item::Map(_, Some(_)) => "map/definite", Item::Map(_, None) => "map/indefinite",
        Item::Tag(..) => "tag", Item::Simple(_) => "simple", Item::False | Item::True | Item::Null | Item::Undefined => "bool/null/undefined",
        Item::F16(_) | Item::F32(_) | Item::F64(_) => "float"
    }
}

fn random_trees(g: &mut Gen, st: &mut Stats) -> CaseResult {
    st.eval();
    let x = item(g, &ItemCfg::FULL);
    let enc = x.encode();
    let mut bytes = enc.clone();
    for _ in 0 .. g.below(4) { bytes.push(g.byte()) }
    bytes.push(0xff);
    check_accessors(&bytes, &x, enc.len())?;
    if enc.len() <= 200 { accessor_prefixes(&enc, &x)? }
    if !x.is_preferred() || x.node_count() >= 2 { st.nontrivial(hash_of(&enc)) }
    st.class(class_of(&x));
    st.sample(hash_of(&enc), || format!("{} = {}", short_hex(&enc), { let r = x.render(); if r.len() > 120 { format!("{}...", r.chars().take(120).collect::<String>()) } else { r } }));
    Ok(())
}

// ---- typed targets ---------------------------------------------------------------------------

/// Floats compared by real value (NaN ~ NaN) so that a narrower item read through a wider type matches.
fn norm_floats(i: &Item) -> Item {
    match i {
        Item::F16(b) => if f16_is_nan(*b) { Item::F64(f64::NAN.to_bits()) } else { Item::F64(f16_bits_to_f64(*b).to_bits()) },
        Item::F32(b) => { let v = f32::from_bits(*b); if v.is_nan() { Item::F64(f64::NAN.to_bits()) } else { Item::F64((v as f64).to_bits()) } }
        Item::F64(b) => if f64::from_bits(*b).is_nan() { Item::F64(f64::NAN.to_bits()) } else { i.clone() },
        Item::Array(xs, f) => Item::Array(xs.iter().map(norm_floats).collect(), *f),
        Item::Map(xs, f) => Item::Map(xs.iter().map(|(k, v)| (norm_floats(k), norm_floats(v))).collect(), *f),
        Item::Tag(t, w, x) => Item::Tag(*t, *w, Box::new(norm_floats(x))),
        o => o.clone()
    }
}

fn has_top_level_duplicates(x: &Item) -> bool {
    let keys: Vec<Vec<u8>> = match x {
        Item::Array(xs, _) => xs.iter().map(|e| norm_floats(e).preferred().encode()).collect(),
        Item::Map(xs, _) => xs.iter().map(|(k, _)| norm_floats(k).preferred().encode()).collect(),
        Item::Tag(_, _, inner) => return has_top_level_duplicates(inner),
        _ => return false
    };
    let mut s = keys.clone();
    s.sort();
    s.dedup();
    s.len() != keys.len()
}

/// Decode `bytes` (= encoding of `x` + junk) as `E`: an error, or a value whose model is `x`.
pub fn typed_vs_item<E: Entry>(bytes: &[u8], x: &Item, end: usize) -> Result<bool, vcore::Fail> {
    let mut ok = false;
    scoped(E::NAME, || {
        let mut d = Decoder::new(bytes);
        let r: Result<E::Val<'_>, Error> = d.decode();
        if let Ok(v) = r {
            ok = true;
            // a map of head-reading values (Token, Tag) can lose a container head to a later entry with the same key:
            // the decoded value then looks complete although it was read from heads, not items
            if crate::registry::head_only::<E>() && E::NAME.contains("Map<") { return Ok(()) }
            if !crate::registry::head_only::<E>() || E::model(&v).is_some() {
                ensure!(d.position() == end, "position", "decoding {} succeeded ({:?}) but stopped at {} while the item ends at {}", short_hex(bytes), v, d.position(), end);
            }
            ensure!(E::borrows_from(&v, bytes), "not-borrowed", "decoded {:?} does not borrow from the input", v);
            if let Some(m) = E::model(&v) {
                let a = norm_floats(&m);
                let b = norm_floats(x);
                let dedup = E::NAME.contains("Set<") || E::NAME.contains("Map<");
                if dedup && has_top_level_duplicates(x) { return Ok(()) }
                let same = if E::UNORDERED || dedup { unordered_eq(&a, &b) } else { a.value_eq(&b) };
                ensure!(same, "different-value", "{} decoded as {:?}, which denotes {} - but the bytes denote {}", short_hex(bytes), v, m.render(), x.render());
            }
        }
        Ok(())
    })?;
    Ok(ok)
}

type VsFn = fn(&[u8], &Item, usize) -> Result<bool, vcore::Fail>;
macro_rules! vs_row { ($e:ident) => { typed_vs_item::<$e> as VsFn } }
fn vs_table() -> &'static Vec<VsFn> {
    static T: std::sync::OnceLock<Vec<VsFn>> = std::sync::OnceLock::new();
    T.get_or_init(|| crate::for_each_core_entry!(vs_row))
}

/// A value of one type, re-framed, offered to every registry type ("type confusion").
pub fn confusion<E: Entry>(g: &mut Gen, st: &mut Stats) -> CaseResult {
    st.eval();
    let seed = E::seed(g);
    let v = E::view(&seed);
    let x = match E::model(&v) { Some(m) => reframe(g, &m, true, true, true), None => match minicbor::to_vec(&v).ok().and_then(|b| vcore::item::parse(&b).ok()) { Some((m, _)) => reframe(g, &m, true, true, true), None => return Ok(()) } };
    let enc = x.encode();
    let mut bytes = enc.clone();
    bytes.push(0xff);
    let mut accepted = 0;
    for f in vs_table() { if f(&bytes, &x, enc.len())? { accepted += 1 } }
    st.class(match accepted { 0 => "confusion/accepted-by-0", 1 => "confusion/accepted-by-1", 2 ..= 5 => "confusion/accepted-by-2..5", _ => "confusion/accepted-by-6+" });
    if accepted >= 1 { st.nontrivial(crate::registry::stable_hash::<E>(&enc)) }
    st.sample(hash_of(&enc), || format!("{} value as {} offered to {} types, {} accept", E::NAME, short_hex(&enc), vs_table().len(), accepted));
    Ok(())
}

/// A value's model, re-framed in the ways the type is documented to accept, must decode to the value;
/// every strict prefix must fail with end-of-input.
pub fn typed_must<E: Entry>(g: &mut Gen, st: &mut Stats) -> CaseResult {
    scoped(E::NAME, || {
        st.eval();
        let seed = E::seed(g);
        let v = E::view(&seed);
        let m = match E::model(&v) { Some(m) => m, None => {
            // implementation-defined shape: take the encoder's own bytes, widen the heads only
            match minicbor::to_vec(&v).ok().and_then(|b| vcore::item::parse(&b).ok()) { Some((m, _)) => m, None => return Ok(()) }
        }};
        // a `Token` of a chunked string / indefinite container is a different token by design
        let mode = if crate::registry::head_only::<E>() { [0, 3][g.below(2)] } else { g.below(4) };
        let (x, must) = match mode {
            0 => (reframe(g, &m, false, false, true), true),
            1 => (reframe(g, &m, true, false, true), E::INDEF_OK),
            2 => (reframe(g, &m, true, true, true), false),
            _ => (m.clone(), true)
        };
        let enc = x.encode();
        let mut buf = enc.clone();
        for _ in 0 .. g.below(3) { buf.push(g.byte()) }
        let mut d = Decoder::new(&buf);
        let r: Result<E::Val<'_>, Error> = d.decode();
        match r {
            Ok(back) => {
                ensure!(E::same(&v, &back), "wrong-value", "{:?} re-framed as {} decoded to {:?}", v, short_hex(&enc), back);
                ensure!(d.position() == enc.len() || (crate::registry::head_only::<E>() && E::model(&back).is_none()), "position", "re-framed {} : consumed {} of {}", short_hex(&enc), d.position(), enc.len());
                ensure!(E::borrows_from(&back, &buf), "not-borrowed", "decoded {:?} does not borrow from the input", back);
                // truncation
                check_prefixes(E::NAME, &enc, |b| Decoder::new(b).decode::<E::Val<'_>>().map(|_| ()), Some(g))?;
                st.class(match mode { 0 => "must/wide-heads", 1 => "indefinite-containers/accepted", 2 => "chunked-strings/accepted", _ => "must/preferred" });
            }
            Err(e) => {
                ensure!(!must, "rejected-match", "{:?} re-framed (mode {}) as {} was rejected: {}", v, mode, short_hex(&enc), e);
                st.class(match mode { 1 => "indefinite-containers/refused", _ => "chunked-strings/refused" });
            }
        }
        if !x.is_preferred() || x.node_count() >= 2 { st.nontrivial(crate::registry::stable_hash::<E>(&enc)) }
        st.sample(hash_of(&enc), || format!("{}: {:?} <- {}", E::NAME, v, short_hex(&enc)));
        Ok(())
    })
}

macro_rules! must_row { ($e:ident) => { typed_must::<$e> as RandomFn } }
macro_rules! conf_row { ($e:ident) => { confusion::<$e> as RandomFn } }

fn typed(g: &mut Gen, st: &mut Stats) -> CaseResult {
    static T: std::sync::OnceLock<Vec<RandomFn>> = std::sync::OnceLock::new();
    let t = T.get_or_init(|| crate::for_each_entry!(must_row));
    t[g.below(t.len())](g, st)
}

fn type_confusion(g: &mut Gen, st: &mut Stats) -> CaseResult {
    static T: std::sync::OnceLock<Vec<RandomFn>> = std::sync::OnceLock::new();
    let t = T.get_or_init(|| crate::for_each_core_entry!(conf_row));
    t[g.below(t.len())](g, st)
}

/// Arbitrary well-formed trees offered to every registry type.
fn trees_vs_types(g: &mut Gen, st: &mut Stats) -> CaseResult {
    st.eval();
    let cfg = ItemCfg { max_depth: 4, max_nodes: 12, ..ItemCfg::FULL };
    let x = item(g, &cfg);
    let enc = x.encode();
    let mut bytes = enc.clone();
    bytes.push(0x00);
    let mut accepted = 0;
    for f in vs_table() { if f(&bytes, &x, enc.len())? { accepted += 1 } }
    st.class(if accepted == 0 { "tree/accepted-by-none" } else { "tree/accepted-by-some" });
    if accepted >= 1 { st.nontrivial(hash_of(&enc)) }
    Ok(())
}

/// Homogeneous arrays / maps through the element iterators, both length forms, with a planted mismatch.
fn iterators(g: &mut Gen, st: &mut Stats) -> CaseResult {
    st.eval();
    let n = g.len(40);
    let is_map = g.bool();
    let indef = g.bool();
    let bad = if g.chance(90) && n > 0 { Some(g.below(n)) } else { None };
    let vals: Vec<i64> = (0 .. n).map(|_| g.i64()).collect();
    let elem = |g: &mut Gen, i: usize, v: i64| -> Item { if Some(i) == bad { Item::text("x") } else { let it = Item::int(v as i128); reframe(g, &it, false, false, true) } };
    let x = if is_map {
        let pairs: Vec<(Item, Item)> = vals.iter().enumerate().map(|(i, v)| (Item::text(&format!("k{}", i)), elem(g, i, *v))).collect();
        let w = if indef { None } else { Some(g.width_for(n as u64)) };
        Item::Map(pairs, w)
    } else {
        let xs: Vec<Item> = vals.iter().enumerate().map(|(i, v)| elem(g, i, *v)).collect();
        let w = if indef { None } else { Some(g.width_for(n as u64)) };
        Item::Array(xs, w)
    };
    let enc = x.encode();
    let mut buf = enc.clone();
    buf.extend_from_slice(&[0x01, 0x02]);
    let mut d = Decoder::new(&buf);
    let mut got: Vec<i64> = Vec::new();
    let mut err_at: Option<usize> = None;
    if is_map {
        let it = d.map_iter::<&str, i64>().map_err(|e| vcore::Fail::new("iter-rejected", format!("map_iter on {}: {}", short_hex(&enc), e)))?;
        for (i, r) in it.enumerate() {
            match r { Ok((k, v)) => { ensure!(k == format!("k{}", i), "wrong-key", "map_iter yielded key {:?} at {}", k, i); ensure!(within(k.as_ptr(), k.len(), &buf), "not-borrowed", "key not borrowed"); got.push(v) } Err(_) => { err_at = Some(i); break } }
        }
    } else {
        let it = d.array_iter::<i64>().map_err(|e| vcore::Fail::new("iter-rejected", format!("array_iter on {}: {}", short_hex(&enc), e)))?;
        for (i, r) in it.enumerate() { match r { Ok(v) => got.push(v), Err(_) => { err_at = Some(i); break } } }
    }
    match bad {
        None => {
            ensure!(err_at.is_none(), "iter-error", "iterator over {} failed at element {:?}", short_hex(&enc), err_at);
            ensure!(got == vals, "wrong-elements", "iterator over {} yielded {:?}, expected {:?}", short_hex(&enc), got, vals);
            ensure!(d.position() == enc.len(), "position", "after draining the iterator over {} the position is {}, the item ends at {}", short_hex(&enc), d.position(), enc.len());
        }
        Some(b) => {
            ensure!(err_at == Some(b), "mismatch-not-reported", "element {} of {} is text but the i64 iterator reported {:?}", b, short_hex(&enc), err_at);
            ensure!(got[..] == vals[.. b], "wrong-elements", "elements before the mismatch differ");
        }
    }
    st.class(match (is_map, indef) { (false, false) => "array_iter/definite", (false, true) => "array_iter/indefinite", (true, false) => "map_iter/definite", (true, true) => "map_iter/indefinite" });
    st.nontrivial(hash_of(&enc));
    Ok(())
}

/// Text with invalid UTF-8 must be rejected by every text-accepting accessor / type.
fn invalid_utf8(g: &mut Gen, st: &mut Stats) -> CaseResult {
    st.eval();
    let mut body = g.string(10).into_bytes();
    let bad: &[&[u8]] = &[&[0xff], &[0xc3], &[0xc3, 0x28], &[0xed, 0xa0, 0x80], &[0xf4, 0x90, 0x80, 0x80], &[0xc0, 0xaf], &[0xe2, 0x82]];
    let at = g.below(body.len() + 1);
    let ins = g.pick(bad);
    body.splice(at .. at, ins.iter().copied());
    let chunked = g.bool();
    let mut enc = Vec::new();
    if chunked {
        enc.push(0x7f);
        vcore::item::write_head(&mut enc, 3, body.len() as u64, g.width_for(body.len() as u64));
        enc.extend_from_slice(&body);
        enc.push(0xff);
    } else {
        vcore::item::write_head(&mut enc, 3, body.len() as u64, g.width_for(body.len() as u64));
        enc.extend_from_slice(&body);
    }
    ensure!(Decoder::new(&enc).str().is_err(), "invalid-utf8-accepted", "Decoder::str accepted {}", short_hex(&enc));
    let mut d = Decoder::new(&enc);
    let r: Result<String, Error> = d.str_iter().and_then(|it| { let mut s = String::new(); for c in it { s.push_str(c?) } Ok(s) });
    ensure!(r.is_err(), "invalid-utf8-accepted", "Decoder::str_iter accepted {}", short_hex(&enc));
    ensure!(minicbor::decode::<String>(&enc).is_err(), "invalid-utf8-accepted", "decode::<String> accepted {}", short_hex(&enc));
    ensure!(minicbor::decode::<&str>(&enc).is_err(), "invalid-utf8-accepted", "decode::<&str> accepted {}", short_hex(&enc));
    ensure!(minicbor::decode::<std::path::PathBuf>(&enc).is_err(), "invalid-utf8-accepted", "decode::<PathBuf> accepted {}", short_hex(&enc));
    st.class(if chunked { "invalid-utf8/chunked" } else { "invalid-utf8/definite" });
    st.nontrivial(hash_of(&enc));
    Ok(())
}

/// C strings carry an invariant the data-model comparison cannot see: exactly one NUL, at the end. Every byte string over
/// {NUL, 'a', 0xff} with <= 7 bytes, at every head width and chunked, is offered to the owned and the borrowed targets:
/// Ok exactly for the C-string-shaped ones (definite only), with the same bytes and a value that upholds the invariant.
fn cstr_shapes(i: u64, st: &mut Stats) -> CaseResult {
    use std::borrow::Cow;
    use std::ffi::{CStr, CString};
    st.eval();
    // index -> (length, digits base 3, framing)
    let framing = (i % 6) as usize;
    let mut k = i / 6;
    let mut len = 0usize;
    let mut span = 1u64;
    while k >= span { k -= span; len += 1; span *= 3; if len > 7 { return Ok(()) } }
    let mut bytes = Vec::with_capacity(len);
    for _ in 0 .. len { bytes.push([0u8, b'a', 0xff][(k % 3) as usize]); k /= 3 }
    let shaped = bytes.last() == Some(&0) && !bytes[.. bytes.len() - 1].contains(&0);
    let item = match framing { 0 => Item::Bytes(bytes.clone(), W::min_for(len as u64)), 1 => Item::Bytes(bytes.clone(), W::W1), 2 => Item::Bytes(bytes.clone(), W::W2), 3 => Item::Bytes(bytes.clone(), W::W4), 4 => Item::Bytes(bytes.clone(), W::W8),
                                      _ => Item::BytesIndef(vec![(bytes[.. len / 2].to_vec(), W::min_for((len / 2) as u64)), (bytes[len / 2 ..].to_vec(), W::min_for((len - len / 2) as u64))]) };
    let mut enc = item.encode();
    let ilen = enc.len();
    enc.push(0x00);
    let definite = framing != 5;
    macro_rules! target { ($name:expr, $t:ty, |$v:ident| $as_bytes:expr) => {{
        let mut d = Decoder::new(&enc);
        match d.decode::<$t>() {
            Ok($v) => {
                let got: &[u8] = $as_bytes;
                ensure!(shaped, "cstr-accepted", "{} accepted the byte string {} which is not shaped like a C string (decoded {:?})", $name, short_hex(&enc[.. ilen]), got);
                ensure!(got == &bytes[..], "wrong-value", "{} decoded {} to {:?}", $name, short_hex(&enc[.. ilen]), got);
                ensure!(d.position() == ilen, "position", "{} on {}: position {} != {}", $name, short_hex(&enc[.. ilen]), d.position(), ilen);
            }
            Err(_) => ensure!(!(shaped && definite), "rejected-match", "{} rejected the C-string-shaped byte string {}", $name, short_hex(&enc[.. ilen]))
        }
    }}}
    target!("&CStr", &CStr, |v| v.to_bytes_with_nul());
    target!("CString", CString, |v| v.as_bytes_with_nul());
    target!("Cow<CStr>", Cow<CStr>, |v| v.to_bytes_with_nul());
    if shaped { st.nontrivial_enum(1) }
    st.class(if shaped { "cstr/shaped" } else if bytes.contains(&0) { "cstr/misplaced NUL" } else { "cstr/no NUL" });
    if i % 1999 == 0 { st.sample(i, || format!("{} as &CStr / CString / Cow<CStr>: {}", short_hex(&enc[.. ilen]), if shaped && definite { "must decode" } else { "must be refused" })) }
    Ok(())
}

/// The error value itself: what the checks (and users) observe failures through. Each constructor yields exactly its class,
/// `at` / `with_message` keep the class and add what they say, and an error produced by the decoder at a known place reports
/// that place.
fn error_api(i: u64, st: &mut Stats) -> CaseResult {
    use minicbor::data::{Tag, Type};
    st.eval();
    let classes = |e: &Error| -> [bool; 7] { [e.is_end_of_input(), e.is_type_mismatch(), e.is_tag_mismatch(), e.is_message(), e.is_custom(), e.is_unknown_variant(), e.is_missing_value()] };
    let n = (i / 16) as u32 * 1021;
    let (what, e, k): (&str, Error, usize) = match i % 8 {
        0 => ("end_of_input", Error::end_of_input(), 0), 1 => ("type_mismatch", Error::type_mismatch([Type::U8, Type::Break, Type::Unknown(0x1c), Type::StringIndef][(i / 8) as usize % 4]), 1),
        2 => ("tag_mismatch", Error::tag_mismatch(Tag::new(n as u64 * 65537)), 2), 3 => ("message", Error::message("told you"), 3),
        4 => ("custom", Error::custom(std::fmt::Error), 4), 5 => ("unknown_variant", Error::unknown_variant(n), 5), 6 => ("missing_value", Error::missing_value(n), 6),
        _ => ("message(String)", Error::message(format!("n = {}", n)), 3)
    };
    let only = |e: &Error, what: &str| -> CaseResult { let c = classes(e); ensure!(c.iter().enumerate().all(|(j, b)| *b == (j == k)), "error-class", "Error::{} answers the class predicates {:?} (expected only #{})", what, c, k); Ok(()) };
    only(&e, what)?;
    ensure!(e.position().is_none(), "error-position", "a freshly constructed Error::{} reports position {:?}", what, e.position());
    let p = [0usize, 1, 23, 65536, usize::MAX][(i / 8) as usize % 5];
    let e = e.at(p);
    only(&e, what)?;
    ensure!(e.position() == Some(p), "error-position", "Error::{}.at({}) reports position {:?}", what, p, e.position());
    let e = e.with_message("while doing something");
    only(&e, what)?;
    ensure!(e.position() == Some(p), "error-position", "with_message changed the position of Error::{} to {:?}", what, e.position());
    let text = e.to_string();
    ensure!(text.contains("while doing something"), "error-display", "the message given to with_message does not appear in `{}`", text);
    if p != usize::MAX { ensure!(text.contains(&p.to_string()), "error-display", "the position {} does not appear in `{}`", p, text) }
    st.nontrivial_enum(1);
    st.class("error-api");
    Ok(())
}

pub fn subs() -> Vec<Sub> {
    let n3 = space_len(3);
    let n4 = space_len(4);
    vec![
        Sub { prop: "C04", name: "error-api", rule: "decode::Error constructors x positions x with_message: exactly one class predicate answers, the one of the constructor; at(p) is reported by position() and shown by Display, with_message keeps class and position and its text is shown",
              kind: Kind::Enumerate { quick: 640, thorough: 640, f: error_api, complete_quick: true, complete_thorough: true } },
        Sub { prop: "C04", name: "cstr-shapes", rule: "every byte string of <= 7 bytes over {NUL, 'a', 0xff} x 5 head widths + chunked, decoded as &CStr, CString, Cow<CStr>: accepted exactly when the bytes are C-string shaped (one NUL, at the end) and the string is definite; same bytes, exact position",
              kind: Kind::Enumerate { quick: 6 * 3280, thorough: 6 * 3280, f: cstr_shapes, complete_quick: true, complete_thorough: true } },
        Sub { prop: "C04", name: "small-trees-3", rule: "every item tree with <= 3 nodes over 38 leaf representatives x definite/indefinite containers x every head-width assignment, through every Decoder accessor (value, position, borrow), datatype, Size, probe, skip, and every strict prefix through the matching accessor; non-trivial = non-preferred framing or >= 2 nodes",
              kind: Kind::Enumerate { quick: n3, thorough: n3, f: small3, complete_quick: true, complete_thorough: true } },
        Sub { prop: "C04", name: "small-trees-4", rule: "same with <= 4 nodes (thorough; quick explores the first 1000000 indices)",
              kind: Kind::Enumerate { quick: 1_000_000.min(n4), thorough: n4, f: small4, complete_quick: false, complete_thorough: true } },
        Sub { prop: "C04", name: "random-trees", rule: "grammar-generated trees (depth <= 8, <= 64 nodes, all framings) through every accessor; distinct by encoding",
              kind: Kind::Random { quick: 300_000, thorough: 3_000_000, tape: 1024, f: random_trees } },
        Sub { prop: "C04", name: "typed", rule: "value of a registry type -> model item -> re-framed (wider heads: must decode to the value; indefinite containers: must for iterator-based types, else value-or-error; chunked strings: value-or-error) -> decode as the type; every strict prefix must fail with end-of-input",
              kind: Kind::Random { quick: 1_000_000, thorough: 8_000_000, tape: 1024, f: typed } },
        Sub { prop: "C04", name: "type-confusion", rule: "re-framed encoding of a value of one type offered to all ~120 registry types: each returns an error or a value whose model equals the data-model value of the bytes (exact position); non-trivial = accepted by >= 1 type",
              kind: Kind::Random { quick: 100_000, thorough: 1_000_000, tape: 1024, f: type_confusion } },
        Sub { prop: "C04", name: "trees-vs-types", rule: "arbitrary small trees offered to all registry types, same oracle",
              kind: Kind::Random { quick: 100_000, thorough: 1_000_000, tape: 512, f: trees_vs_types } },
        Sub { prop: "C04", name: "iterators", rule: "homogeneous arrays/maps (definite and indefinite, wide heads) through array_iter/map_iter with an optional planted element of the wrong type",
              kind: Kind::Random { quick: 200_000, thorough: 1_000_000, tape: 512, f: iterators } },
        Sub { prop: "C04", name: "invalid-utf8", rule: "text items (definite and chunked) carrying an invalid UTF-8 sequence must be rejected by str, str_iter, String, &str, PathBuf",
              kind: Kind::Random { quick: 100_000, thorough: 400_000, tape: 64, f: invalid_utf8 } },
    ]
}
