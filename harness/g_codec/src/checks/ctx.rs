//! The user context (`encode_with` / `decode_with` / `len_with`): every built-in container hands the *same* context
//! object to each of its elements, once, in wire order - on encoding, on decoding and when computing the length.
//!
//! The element type `Ctr` makes the context observable: it encodes as the context's current counter value and advances the
//! counter; decoding checks that the item equals the counter (an error otherwise) and advances it; the length is the length
//! of the counter value. A container of n such elements encoded with the counter at k is therefore the container's shape
//! over k, k+1, .., k+n-1 and leaves the counter at k+n.

use minicbor::data::Tagged;
use minicbor::{CborLen, Decode, Decoder, Encode, Encoder};
use std::collections::{BTreeMap, LinkedList, VecDeque};
use vcore::engine::{hash_of, CaseResult, Stats};
use vcore::item::Item;
use vcore::{ensure, fail, Gen};

pub struct Cx(pub u32);
impl AsMut<u32> for Cx { fn as_mut(&mut self) -> &mut u32 { &mut self.0 } }

#[derive(Debug, Clone, Copy, PartialEq, Eq, PartialOrd, Ord, Default)]
pub struct Ctr;
impl<C: AsMut<u32>> Encode<C> for Ctr {
    fn encode<W: minicbor::encode::Write>(&self, e: &mut Encoder<W>, ctx: &mut C) -> Result<(), minicbor::encode::Error<W::Error>> {
        let c = ctx.as_mut(); e.u32(*c)?; *c = c.wrapping_add(1); Ok(())
    }
}
impl<'b, C: AsMut<u32>> Decode<'b, C> for Ctr {
    fn decode(d: &mut Decoder<'b>, ctx: &mut C) -> Result<Self, minicbor::decode::Error> {
        let p = d.position();
        let x = d.u32()?;
        let c = ctx.as_mut();
        if x != *c { return Err(minicbor::decode::Error::message("element met a context it does not belong to").at(p)) }
        *c = c.wrapping_add(1);
        Ok(Ctr)
    }
}
impl<C: AsMut<u32>> CborLen<C> for Ctr {
    fn cbor_len(&self, ctx: &mut C) -> usize { let c = ctx.as_mut(); let n = (*c).cbor_len(&mut ()); *c = c.wrapping_add(1); n }
}

/// A map key that is context-sensitive *and* carries an identity: it encodes as `counter * 256 + id` and advances the counter.
#[derive(Debug, Clone, Copy, PartialEq, Eq, PartialOrd, Ord, Hash)]
pub struct CtrK(pub u8);
impl<C: AsMut<u32>> Encode<C> for CtrK {
    fn encode<W: minicbor::encode::Write>(&self, e: &mut Encoder<W>, ctx: &mut C) -> Result<(), minicbor::encode::Error<W::Error>> {
        let c = ctx.as_mut(); e.u64((*c as u64) << 8 | self.0 as u64)?; *c = c.wrapping_add(1); Ok(())
    }
}
impl<'b, C: AsMut<u32>> Decode<'b, C> for CtrK {
    fn decode(d: &mut Decoder<'b>, ctx: &mut C) -> Result<Self, minicbor::decode::Error> {
        let p = d.position();
        let x = d.u64()?;
        let c = ctx.as_mut();
        if x >> 8 != *c as u64 { return Err(minicbor::decode::Error::message("key met a context it does not belong to").at(p)) }
        *c = c.wrapping_add(1);
        Ok(CtrK(x as u8))
    }
}
impl<C: AsMut<u32>> CborLen<C> for CtrK {
    fn cbor_len(&self, ctx: &mut C) -> usize { let c = ctx.as_mut(); let n = ((*c as u64) << 8 | self.0 as u64).cbor_len(&mut ()); *c = c.wrapping_add(1); n }
}

fn check<T>(what: &str, v: &T, start: u32, n: u32, want: Item) -> CaseResult
where T: Encode<Cx> + for<'b> Decode<'b, Cx> + CborLen<Cx> + std::fmt::Debug
{
    let want = want.encode();
    let mut cx = Cx(start);
    let got = minicbor::to_vec_with(v, &mut cx).map_err(|e| vcore::Fail::new("encode", e.to_string()))?;
    ensure!(got == want, "context-encode", "{}: encoded with the context counter at {} gives {}; every element must see the one context once, in wire order: {}", what, start, vcore::item::hex(&got), vcore::item::hex(&want));
    ensure!(cx.0 == start.wrapping_add(n), "context-encode-final", "{}: the context counter is at {} after encoding {} elements from {}", what, cx.0, n, start);
    let mut cx = Cx(start);
    let l = minicbor::len_with(v, &mut cx);
    ensure!(l == want.len() && cx.0 == start.wrapping_add(n), "context-len", "{}: len_with = {} (encoding has {} bytes), counter {} -> {} over {} elements", what, l, want.len(), start, cx.0, n);
    let mut cx = Cx(start);
    let back: Result<T, _> = minicbor::decode_with(&want, &mut cx);
    match back { Ok(_) => ensure!(cx.0 == start.wrapping_add(n), "context-decode-final", "{}: the context counter is at {} after decoding {} elements from {}", what, cx.0, n, start), Err(e) => fail!("context-decode", "{}: decoding {} with the context counter at {} failed: {}", what, vcore::item::hex(&want), start, e) }
    if n > 0 {
        let mut cx = Cx(start.wrapping_add(1));
        let r: Result<T, _> = minicbor::decode_with(&want, &mut cx);
        ensure!(r.is_err(), "context-ignored", "{}: decoding {} with a context the elements do not belong to succeeded", what, vcore::item::hex(&want));
    }
    Ok(())
}

pub fn context_threading(g: &mut Gen, st: &mut Stats) -> CaseResult {
    st.eval();
    let start = match g.below(5) { 0 => 0, 1 => 22 + g.below(4) as u32, 2 => 0xfe + g.below(4) as u32, 3 => 0xfffe + g.below(4) as u32, _ => g.u32() % 100_000 };
    let n = match g.below(6) { 0 => 0, 1 => 1, 2 => 23 + g.below(3), _ => 2 + g.below(6) } as u32;
    let u = |i: u32| Item::uint(start.wrapping_add(i) as u64);
    let seq = |a: u32, b: u32| -> Vec<Item> { (a .. b).map(u).collect() };
    let kind = g.below(24);
    let what = ["Vec<Ctr>", "VecDeque<Ctr>", "LinkedList<Ctr>", "[Ctr;4]", "(Ctr,Ctr,Ctr)", "Option<Ctr>", "Box<Ctr>", "BTreeMap<u8,Ctr>", "BTreeMap<u8,Vec<Ctr>>", "Result<Ctr,Ctr>", "Bound<Ctr>", "Range<Ctr>", "RangeInclusive<Ctr>",
                "Vec<Option<Ctr>>", "Vec<Vec<Ctr>>", "(Ctr,Vec<Ctr>,Option<Ctr>,[Ctr;2])", "Tagged<7,Ctr>", "RefCell<Ctr>", "16-tuple of Ctr", "&[Ctr] / ArrayIter (encode)", "Vec<(Ctr,Ctr)>", "Option<Vec<Ctr>>", "BTreeMap<CtrK,Ctr>", "HashMap<CtrK,Vec<Ctr>>"][kind];
    scoped_ctx(what, || match kind {
        0 => check(what, &vec![Ctr; n as usize], start, n, Item::array(seq(0, n))),
        1 => { let mut d: VecDeque<Ctr> = VecDeque::new(); for i in 0 .. n { if i % 2 == 0 { d.push_back(Ctr) } else { d.push_front(Ctr) } } check(what, &d, start, n, Item::array(seq(0, n))) }
        2 => check(what, &(0 .. n).map(|_| Ctr).collect::<LinkedList<_>>(), start, n, Item::array(seq(0, n))),
        3 => check(what, &[Ctr; 4], start, 4, Item::array(seq(0, 4))),
        4 => check(what, &(Ctr, Ctr, Ctr), start, 3, Item::array(seq(0, 3))),
        5 => if n % 2 == 0 { check(what, &None::<Ctr>, start, 0, Item::Null) } else { check(what, &Some(Ctr), start, 1, u(0)) },
        6 => check(what, &Box::new(Ctr), start, 1, u(0)),
        7 => { let m: BTreeMap<u8, Ctr> = (0 .. n.min(200)).map(|i| ((i * 7 % 251) as u8, Ctr)).collect(); let k = m.len() as u32; check(what, &m, start, k, Item::map(m.keys().enumerate().map(|(i, key)| (Item::uint(*key as u64), u(i as u32))).collect())) }
        8 => { let m: BTreeMap<u8, Vec<Ctr>> = (0 .. 3u8).map(|i| (i, vec![Ctr; (n as usize + i as usize) % 4])).collect(); let mut at = 0; let mut es = Vec::new(); for (k, v) in &m { es.push((Item::uint(*k as u64), Item::array(seq(at, at + v.len() as u32)))); at += v.len() as u32 } check(what, &m, start, at, Item::map(es)) }
        9 => if n % 2 == 0 { check(what, &Ok::<Ctr, Ctr>(Ctr), start, 1, Item::array(vec![Item::uint(0), u(0)])) } else { check(what, &Err::<Ctr, Ctr>(Ctr), start, 1, Item::array(vec![Item::uint(1), u(0)])) },
        10 => match n % 3 { 0 => check(what, &std::ops::Bound::Included(Ctr), start, 1, Item::array(vec![Item::uint(0), u(0)])), 1 => check(what, &std::ops::Bound::Excluded(Ctr), start, 1, Item::array(vec![Item::uint(1), u(0)])), _ => check(what, &std::ops::Bound::<Ctr>::Unbounded, start, 0, Item::array(vec![Item::uint(2), Item::array(vec![])])) },
        11 => check(what, &(Ctr .. Ctr), start, 2, Item::array(seq(0, 2))),
        12 => check(what, &(Ctr ..= Ctr), start, 2, Item::array(seq(0, 2))),
        13 => { let v: Vec<Option<Ctr>> = (0 .. n).map(|i| if i % 3 == 1 { None } else { Some(Ctr) }).collect(); let mut at = 0; let es = v.iter().map(|x| match x { None => Item::Null, Some(_) => { at += 1; u(at - 1) } }).collect(); check(what, &v, start, at, Item::array(es)) }
        14 => { let v: Vec<Vec<Ctr>> = (0 .. n.min(6)).map(|i| vec![Ctr; (i % 3) as usize]).collect(); let mut at = 0; let es = v.iter().map(|x| { let it = Item::array(seq(at, at + x.len() as u32)); at += x.len() as u32; it }).collect(); check(what, &v, start, at, Item::array(es)) }
        15 => { let k = (n % 4) as usize; let o = if n % 2 == 0 { Some(Ctr) } else { None }; let mut at = 1 + k as u32; let oi = match o { Some(_) => { at += 1; u(at - 1) } None => Item::Null };
                check(what, &(Ctr, vec![Ctr; k], o, [Ctr; 2]), start, at + 2, Item::array(vec![u(0), Item::array(seq(1, 1 + k as u32)), oi, Item::array(seq(at, at + 2))])) }
        16 => check(what, &Tagged::<7, Ctr>::new(Ctr), start, 1, Item::tag(7, u(0))),
        17 => check(what, &std::cell::RefCell::new(Ctr), start, 1, u(0)),
        18 => check(what, &crate::checks::ctx::T16((Ctr, Ctr, Ctr, Ctr, Ctr, Ctr, Ctr, Ctr, Ctr, Ctr, Ctr, Ctr, Ctr, Ctr, Ctr, Ctr)), start, 16, Item::array(seq(0, 16))),
        19 => {
            // encode-only forms: a slice, and the iterator encoders
            let v = vec![Ctr; n as usize];
            let want = Item::array(seq(0, n)).encode();
            let mut cx = Cx(start);
            let a = minicbor::to_vec_with(&v[..], &mut cx).map_err(|e| vcore::Fail::new("encode", e.to_string()))?;
            ensure!(a == want && cx.0 == start.wrapping_add(n), "context-encode", "&[Ctr] of {} with the counter at {}: {} (counter now {}), expected {}", n, start, vcore::item::hex(&a), cx.0, vcore::item::hex(&want));
            let mut cx = Cx(start);
            let b = minicbor::to_vec_with(minicbor::encode::ArrayIter::new(v.iter()), &mut cx).map_err(|e| vcore::Fail::new("encode", e.to_string()))?;
            ensure!(b == want && cx.0 == start.wrapping_add(n), "context-encode", "ArrayIter over {} Ctr with the counter at {}: {} (counter now {}), expected {}", n, start, vcore::item::hex(&b), cx.0, vcore::item::hex(&want));
            let mut cx = Cx(start);
            let pairs: Vec<(u8, Ctr)> = (0 .. n.min(200)).map(|i| (i as u8, Ctr)).collect();
            let c = minicbor::to_vec_with(minicbor::encode::MapIter::new(pairs.iter().map(|(k, v)| (k, v))), &mut cx).map_err(|e| vcore::Fail::new("encode", e.to_string()))?;
            let wantm = Item::map(pairs.iter().enumerate().map(|(i, (k, _))| (Item::uint(*k as u64), u(i as u32))).collect()).encode();
            ensure!(c == wantm && cx.0 == start.wrapping_add(pairs.len() as u32), "context-encode", "MapIter over {} (u8, Ctr) pairs with the counter at {}: {} (counter now {}), expected {}", pairs.len(), start, vcore::item::hex(&c), cx.0, vcore::item::hex(&wantm));
            // the iterators on the decoding side
            let mut cx = Cx(start);
            let mut d = Decoder::new(&want);
            let k = d.array_iter_with::<Cx, Ctr>(&mut cx).map_err(|e| vcore::Fail::new("decode", e.to_string()))?.filter(|r| r.is_ok()).count();
            ensure!(k == n as usize && cx.0 == start.wrapping_add(n), "context-decode", "array_iter_with over {} elements yielded {} (counter {} -> {})", n, k, start, cx.0);
            let mut cx = Cx(start);
            let mut d = Decoder::new(&wantm);
            let k = d.map_iter_with::<Cx, u8, Ctr>(&mut cx).map_err(|e| vcore::Fail::new("decode", e.to_string()))?.filter(|r| r.is_ok()).count();
            ensure!(k == pairs.len() && cx.0 == start.wrapping_add(pairs.len() as u32), "context-decode", "map_iter_with over {} entries yielded {} (counter {} -> {})", pairs.len(), k, start, cx.0);
            Ok(())
        }
        20 => check(what, &vec![(Ctr, Ctr); n.min(8) as usize], start, 2 * n.min(8), Item::array((0 .. n.min(8)).map(|i| Item::array(seq(2 * i, 2 * i + 2))).collect())),
        22 => {
            // keys and values both see the context: key, value, key, value .. in the map's iteration order
            let m: BTreeMap<CtrK, Ctr> = (0 .. n.min(200)).map(|i| (CtrK((i * 37 % 251) as u8), Ctr)).collect();
            let k = m.len() as u32;
            let es = m.keys().enumerate().map(|(i, key)| (Item::uint(((start.wrapping_add(2 * i as u32) as u64) << 8) | key.0 as u64), u(2 * i as u32 + 1))).collect();
            check(what, &m, start, 2 * k, Item::map(es))
        }
        23 => {
            let m: std::collections::HashMap<CtrK, Vec<Ctr>> = (0 .. n.min(12)).map(|i| (CtrK((i * 37 % 251) as u8), vec![Ctr; (i % 3) as usize])).collect();
            let mut at = 0u32; let mut es = Vec::new();
            for (key, v) in m.iter() { let ki = Item::uint(((start.wrapping_add(at) as u64) << 8) | key.0 as u64); at += 1; es.push((ki, Item::array(seq(at, at + v.len() as u32)))); at += v.len() as u32 }
            check(what, &m, start, at, Item::map(es))
        }
        _ => if n % 2 == 0 { check(what, &None::<Vec<Ctr>>, start, 0, Item::Null) } else { check(what, &Some(vec![Ctr; n as usize]), start, n, Item::array(seq(0, n))) },
    })?;
    st.class(&format!("context/{}", what));
    if n >= 2 { st.nontrivial(hash_of(&(kind, start, n))) }
    st.sample(hash_of(&(kind, start, n)), || format!("{} with {} elements, counter starting at {}", what, n, start));
    Ok(())
}

fn scoped_ctx(what: &str, f: impl FnOnce() -> CaseResult) -> CaseResult { f().map_err(|e| vcore::Fail::new(format!("{}/{}", what, e.sig), e.detail)) }

/// 16-tuple wrapper (std has no Debug for it).
pub struct T16(pub (Ctr, Ctr, Ctr, Ctr, Ctr, Ctr, Ctr, Ctr, Ctr, Ctr, Ctr, Ctr, Ctr, Ctr, Ctr, Ctr));
impl std::fmt::Debug for T16 { fn fmt(&self, f: &mut std::fmt::Formatter<'_>) -> std::fmt::Result { f.write_str("(Ctr x 16)") } }
impl<C: AsMut<u32>> Encode<C> for T16 { fn encode<W: minicbor::encode::Write>(&self, e: &mut Encoder<W>, ctx: &mut C) -> Result<(), minicbor::encode::Error<W::Error>> { self.0.encode(e, ctx) } }
impl<'b, C: AsMut<u32>> Decode<'b, C> for T16 { fn decode(d: &mut Decoder<'b>, ctx: &mut C) -> Result<Self, minicbor::decode::Error> { Ok(T16(Decode::decode(d, ctx)?)) } }
impl<C: AsMut<u32>> CborLen<C> for T16 { fn cbor_len(&self, ctx: &mut C) -> usize { self.0.cbor_len(ctx) } }
