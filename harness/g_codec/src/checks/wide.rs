//! Hand-written derived definitions that live outside the generated population (which is compiled as a whole: a change to
//! the macros that no longer compiles for *some* generated definition ends every derive check with exit 2, while a user
//! whose types still compile meets the changed behaviour). Wide positional variants and structs: 12 fields, indices in
//! a scrambled order, one skipped field in the middle - against twins with named fields, where binding order cannot matter.

use minicbor::{CborLen, Decode, Encode};
use vcore::engine::{hash_of, CaseResult, Kind, Stats, Sub};
use vcore::{ensure, Gen};

#[derive(Debug, Clone, PartialEq, Encode, Decode, CborLen)]
pub enum Pos {
    #[n(0)] T(#[n(3)] u8, #[n(0)] u8, #[n(7)] u8, #[n(1)] u8, #[cbor(skip)] u8, #[n(2)] u8, #[n(9)] u8, #[n(4)] u8, #[n(5)] u8, #[n(11)] u8, #[n(6)] u8, #[n(8)] u8, #[n(10)] u8),
    #[n(1)] #[cbor(map)] M(#[n(3)] u16, #[n(0)] u16, #[n(7)] u16, #[n(1)] u16, #[n(2)] u16, #[n(9)] u16, #[n(4)] u16, #[n(5)] u16, #[n(11)] Option<u16>, #[n(6)] u16, #[n(8)] u16, #[n(10)] Option<u16>),
    #[n(2)] Mixed(#[n(0)] u8, #[n(1)] String, #[n(2)] bool, #[n(3)] i64, #[n(4)] Option<u8>, #[n(5)] char, #[n(6)] Vec<u8>, #[n(7)] (u8, u8), #[n(8)] f32, #[n(9)] u64, #[n(10)] String, #[n(11)] Option<String>, #[n(12)] i8)
}
#[derive(Debug, Clone, PartialEq, Encode, Decode, CborLen)]
pub enum Named {
    #[n(0)] T { #[n(3)] a: u8, #[n(0)] b: u8, #[n(7)] c: u8, #[n(1)] d: u8, #[cbor(skip)] s: u8, #[n(2)] e: u8, #[n(9)] f: u8, #[n(4)] g: u8, #[n(5)] h: u8, #[n(11)] i: u8, #[n(6)] j: u8, #[n(8)] k: u8, #[n(10)] l: u8 },
    #[n(1)] #[cbor(map)] M { #[n(3)] a: u16, #[n(0)] b: u16, #[n(7)] c: u16, #[n(1)] d: u16, #[n(2)] e: u16, #[n(9)] f: u16, #[n(4)] g: u16, #[n(5)] h: u16, #[n(11)] i: Option<u16>, #[n(6)] j: u16, #[n(8)] k: u16, #[n(10)] l: Option<u16> },
    #[n(2)] Mixed { #[n(0)] a: u8, #[n(1)] b: String, #[n(2)] c: bool, #[n(3)] d: i64, #[n(4)] e: Option<u8>, #[n(5)] f: char, #[n(6)] g: Vec<u8>, #[n(7)] h: (u8, u8), #[n(8)] i: f32, #[n(9)] j: u64, #[n(10)] k: String, #[n(11)] l: Option<String>, #[n(12)] m: i8 }
}
#[derive(Debug, Clone, PartialEq, Encode, Decode, CborLen)]
pub struct PosS(#[n(3)] pub u8, #[n(0)] pub u8, #[n(7)] pub u8, #[n(1)] pub u8, #[n(2)] pub u8, #[n(9)] pub u8, #[n(4)] pub u8, #[n(5)] pub u8, #[n(11)] pub u8, #[n(6)] pub u8, #[n(8)] pub u8, #[n(10)] pub u8);

fn wide_positional(g: &mut Gen, st: &mut Stats) -> CaseResult {
    st.eval();
    let x: Vec<u8> = (0 .. 13).map(|_| g.byte()).collect();
    let y: Vec<u16> = (0 .. 12).map(|_| g.u16()).collect();
    let (p, n, want): (Pos, Named, Option<Vec<u8>>) = match g.below(3) {
        0 => (Pos::T(x[0], x[1], x[2], x[3], 0, x[5], x[6], x[7], x[8], x[9], x[10], x[11], x[12]), Named::T { a: x[0], b: x[1], c: x[2], d: x[3], s: 0, e: x[5], f: x[6], g: x[7], h: x[8], i: x[9], j: x[10], k: x[11], l: x[12] },
              // [0, [b, d, e, a, g, h, j, c, k, f, l, i]] by index 0..=11
              Some({ let order = [x[1], x[3], x[5], x[0], x[7], x[8], x[10], x[2], x[11], x[6], x[12], x[9]]; let mut b = vec![0x82, 0x00, 0x8c]; for v in order { if v < 24 { b.push(v) } else { b.push(0x18); b.push(v) } } b })),
        1 => { let i = if g.bool() { Some(y[8]) } else { None }; let l = if g.bool() { Some(y[11]) } else { None };
               (Pos::M(y[0], y[1], y[2], y[3], y[4], y[5], y[6], y[7], i, y[9], y[10], l), Named::M { a: y[0], b: y[1], c: y[2], d: y[3], e: y[4], f: y[5], g: y[6], h: y[7], i, j: y[9], k: y[10], l }, None) }
        _ => { let s1 = g.string(5); let s2 = g.string(5); let o = if g.bool() { Some(g.byte()) } else { None }; let os = if g.bool() { Some(g.string(3)) } else { None }; let c = char::from_u32(g.u32() % 0xd800).unwrap_or('x'); let v = g.bytes(4); let f = f32::from_bits(g.u32() & 0x7f7f_ffff);
               (Pos::Mixed(x[0], s1.clone(), x[1] & 1 == 1, g.i64(), o, c, v.clone(), (x[2], x[3]), f, g.u64(), s2.clone(), os.clone(), x[4] as i8), Named::Mixed { a: x[0], b: s1, c: x[1] & 1 == 1, d: 0, e: o, f: c, g: v, h: (x[2], x[3]), i: f, j: 0, k: s2, l: os, m: x[4] as i8 }, None) }
    };
    // make the twins carry the same numbers in the Mixed case (i64 / u64 drawn once)
    let n = match (&p, n) { (Pos::Mixed(_, _, _, d, _, _, _, _, _, j, _, _, _), Named::Mixed { a, b, c, e, f, g, h, i, k, l, m, .. }) => Named::Mixed { a, b, c, d: *d, e, f, g, h, i, j: *j, k, l, m }, (_, n) => n };
    let pb = minicbor::to_vec(&p).map_err(|e| vcore::Fail::new("encode", e.to_string()))?;
    let nb = minicbor::to_vec(&n).map_err(|e| vcore::Fail::new("encode", e.to_string()))?;
    ensure!(pb == nb, "positional-vs-named", "{:?} encodes as {} ; the same fields declared by name ({:?}) encode as {}", p, vcore::item::hex(&pb), n, vcore::item::hex(&nb));
    if let Some(w) = want { ensure!(pb == w, "positional-bytes", "{:?} encodes as {} ; by index order it is {}", p, vcore::item::hex(&pb), vcore::item::hex(&w)) }
    ensure!(minicbor::len(&p) == pb.len(), "positional-len", "{:?}: len {} but {} bytes", p, minicbor::len(&p), pb.len());
    match minicbor::decode::<Pos>(&pb) { Ok(b) => ensure!(b == p, "positional-roundtrip", "{:?} encoded as {} decodes as {:?}", p, vcore::item::hex(&pb), b), Err(e) => return Err(vcore::Fail::new("positional-roundtrip", format!("{:?} encoded as {} is rejected: {}", p, vcore::item::hex(&pb), e))) }
    let s = PosS(x[0], x[1], x[2], x[3], x[4], x[5], x[6], x[7], x[8], x[9], x[10], x[11]);
    let sb = minicbor::to_vec(&s).map_err(|e| vcore::Fail::new("encode", e.to_string()))?;
    match minicbor::decode::<PosS>(&sb) { Ok(b) => ensure!(b == s, "positional-roundtrip", "{:?} encoded as {} decodes as {:?}", s, vcore::item::hex(&sb), b), Err(e) => return Err(vcore::Fail::new("positional-roundtrip", format!("{:?} is rejected: {}", s, e))) }
    ensure!(sb[0] == 0x8c && minicbor::len(&s) == sb.len(), "positional-len", "{:?}: {} (len {})", s, vcore::item::hex(&sb), minicbor::len(&s));
    st.nontrivial(hash_of(&pb));
    st.class("wide-positional");
    Ok(())
}

pub fn subs() -> Vec<Sub> {
    ["C08B", "C09B"].iter().map(|p| Sub { prop: p, name: "wide-positional", rule: "hand-written definitions outside the generated population: tuple variants and a tuple struct with 12-13 positional fields (indices in scrambled order, a skipped field, array and map, uniform and mixed field types) x generated values: bytes identical to the twin with named fields (and to the index order), len exact, round trip",
        kind: Kind::Random { quick: 100_000, thorough: 1_000_000, tape: 128, f: wide_positional } }).collect()
}
