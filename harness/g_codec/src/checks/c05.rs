//! C05 — integer decoding is value-preserving across widths; never wraps or truncates.

use crate::util::short_hex;
use minicbor::data::{Int, Type};
use minicbor::Decoder;
use vcore::engine::{CaseResult, Kind, Stats, Sub};
use vcore::item::{write_head, W};
use vcore::{ensure, fail, Gen};

fn encode(neg: bool, arg: u64, w: W) -> Vec<u8> {
    let mut b = Vec::new();
    write_head(&mut b, if neg { 1 } else { 0 }, arg, w);
    b
}

/// Compare one typed result with the i128 oracle.
macro_rules! expect_int {
    ($what:expr, $res:expr, $pos:expr, $m:expr, $lo:expr, $hi:expr, $extra_ok:expr, $bytes:expr, $hl:expr, $conv:expr) => {{
        let m: i128 = $m;
        let representable = m >= ($lo as i128) && m <= ($hi as i128) && $extra_ok;
        match $res {
            Ok(x) => {
                let got: i128 = $conv(x);
                ensure!(representable, "accepted-unrepresentable", "{} accepted {} as {} but {} is not representable", $what, short_hex($bytes), got, m);
                ensure!(got == m, "wrong-value", "{} decoded {} as {} but the value is {}", $what, short_hex($bytes), got, m);
                ensure!($pos == $hl, "position", "{} on {}: position {} != head length {}", $what, short_hex($bytes), $pos, $hl);
            }
            Err(e) => {
                ensure!(!representable, "rejected-representable", "{} rejected {} (value {} fits): {}", $what, short_hex($bytes), m, e);
            }
        }
    }}
}

fn is_scalar(m: i128) -> bool { m >= 0 && m <= 0x10ffff && !(0xd800 ..= 0xdfff).contains(&m) }

/// The ten core accessors.
fn core_checks(bytes: &[u8], hl: usize, m: i128) -> CaseResult {
    macro_rules! acc { ($f:ident, $t:ty) => {{
        let mut d = Decoder::new(bytes);
        let r = d.$f();
        expect_int!(concat!("Decoder::", stringify!($f)), r, d.position(), m, <$t>::MIN, <$t>::MAX, true, bytes, hl, |x: $t| x as i128);
    }}}
    acc!(u8, u8); acc!(u16, u16); acc!(u32, u32); acc!(u64, u64);
    acc!(i8, i8); acc!(i16, i16); acc!(i32, i32); acc!(i64, i64);
    {
        let mut d = Decoder::new(bytes);
        let r = d.int();
        expect_int!("Decoder::int", r, d.position(), m, -(1i128 << 64), (1i128 << 64) - 1, true, bytes, hl, |x: Int| i128::from(x));
    }
    {
        let mut d = Decoder::new(bytes);
        let r = d.char();
        expect_int!("Decoder::char", r, d.position(), m, 0, 0x10ffff, is_scalar(m), bytes, hl, |x: char| x as u32 as i128);
    }
    Ok(())
}

fn full_checks(bytes: &[u8], hl: usize, m: i128) -> CaseResult {
    core_checks(bytes, hl, m)?;
    macro_rules! dec { ($t:ty, $lo:expr, $hi:expr, $extra:expr, $conv:expr) => {{
        let mut d = Decoder::new(bytes);
        let r = d.decode::<$t>();
        expect_int!(concat!("decode::<", stringify!($t), ">"), r, d.position(), m, $lo, $hi, $extra, bytes, hl, $conv);
    }}}
    dec!(u8, u8::MIN, u8::MAX, true, |x: u8| x as i128);
    dec!(u16, u16::MIN, u16::MAX, true, |x: u16| x as i128);
    dec!(u32, u32::MIN, u32::MAX, true, |x: u32| x as i128);
    dec!(u64, u64::MIN, u64::MAX, true, |x: u64| x as i128);
    dec!(usize, usize::MIN, usize::MAX, true, |x: usize| x as i128);
    dec!(i8, i8::MIN, i8::MAX, true, |x: i8| x as i128);
    dec!(i16, i16::MIN, i16::MAX, true, |x: i16| x as i128);
    dec!(i32, i32::MIN, i32::MAX, true, |x: i32| x as i128);
    dec!(i64, i64::MIN, i64::MAX, true, |x: i64| x as i128);
    dec!(isize, isize::MIN, isize::MAX, true, |x: isize| x as i128);
    dec!(char, 0, 0x10ffff, is_scalar(m), |x: char| x as u32 as i128);
    dec!(Int, -(1i128 << 64), (1i128 << 64) - 1, true, |x: Int| i128::from(x));
    dec!(std::num::NonZeroU8, u8::MIN, u8::MAX, m != 0, |x: std::num::NonZeroU8| x.get() as i128);
    dec!(std::num::NonZeroU16, u16::MIN, u16::MAX, m != 0, |x: std::num::NonZeroU16| x.get() as i128);
    dec!(std::num::NonZeroU32, u32::MIN, u32::MAX, m != 0, |x: std::num::NonZeroU32| x.get() as i128);
    dec!(std::num::NonZeroU64, u64::MIN, u64::MAX, m != 0, |x: std::num::NonZeroU64| x.get() as i128);
    dec!(std::num::NonZeroUsize, usize::MIN, usize::MAX, m != 0, |x: std::num::NonZeroUsize| x.get() as i128);
    dec!(std::num::NonZeroI8, i8::MIN, i8::MAX, m != 0, |x: std::num::NonZeroI8| x.get() as i128);
    dec!(std::num::NonZeroI16, i16::MIN, i16::MAX, m != 0, |x: std::num::NonZeroI16| x.get() as i128);
    dec!(std::num::NonZeroI32, i32::MIN, i32::MAX, m != 0, |x: std::num::NonZeroI32| x.get() as i128);
    dec!(std::num::NonZeroI64, i64::MIN, i64::MAX, m != 0, |x: std::num::NonZeroI64| x.get() as i128);
    dec!(std::num::NonZeroIsize, isize::MIN, isize::MAX, m != 0, |x: std::num::NonZeroIsize| x.get() as i128);
    dec!(std::num::Wrapping<u16>, u16::MIN, u16::MAX, true, |x: std::num::Wrapping<u16>| x.0 as i128);
    dec!(std::sync::atomic::AtomicI8, i8::MIN, i8::MAX, true, |x: std::sync::atomic::AtomicI8| x.into_inner() as i128);
    // every wrapper whose Decode goes through an integer of its own width: atomics, Wrapping, Cell
    macro_rules! wrappers { ($($a:ident $p:ty),*) => {$(
        dec!(std::sync::atomic::$a, <$p>::MIN, <$p>::MAX, true, |x: std::sync::atomic::$a| x.into_inner() as i128);
        dec!(std::num::Wrapping<$p>, <$p>::MIN, <$p>::MAX, true, |x: std::num::Wrapping<$p>| x.0 as i128);
        dec!(std::cell::Cell<$p>, <$p>::MIN, <$p>::MAX, true, |x: std::cell::Cell<$p>| x.get() as i128);
    )*}}
    wrappers!(AtomicU8 u8, AtomicU16 u16, AtomicU32 u32, AtomicU64 u64, AtomicUsize usize, AtomicI16 i16, AtomicI32 i32, AtomicI64 i64, AtomicIsize isize);

    // The reported data type names a type whose accessor accepts the item.
    let d = Decoder::new(bytes);
    match d.datatype() {
        Err(e) => fail!("datatype-error", "datatype() on integer item {} failed: {}", short_hex(bytes), e),
        Ok(t) => {
            let mut d = Decoder::new(bytes);
            let ok = match t {
                Type::U8 => d.u8().is_ok(), Type::U16 => d.u16().is_ok(), Type::U32 => d.u32().is_ok(), Type::U64 => d.u64().is_ok(),
                Type::I8 => d.i8().is_ok(), Type::I16 => d.i16().is_ok(), Type::I32 => d.i32().is_ok(), Type::I64 => d.i64().is_ok(),
                Type::Int => d.int().is_ok(),
                other => fail!("datatype-not-integer", "datatype() of integer item {} is {:?}", short_hex(bytes), other)
            };
            ensure!(ok, "datatype-accessor-rejects", "datatype() of {} (value {}) is {:?} but that accessor rejects the item", short_hex(bytes), m, t);
        }
    }

    // Int conversions against the same oracle.
    let int = Int::try_from(m);
    match int {
        Err(_) => fail!("int-tryfrom-i128", "Int::try_from({}) failed inside the CBOR integer range", m),
        Ok(int) => {
            ensure!(i128::from(int) == m, "int-i128", "i128::from(Int::try_from({})) = {}", m, i128::from(int));
            macro_rules! elim { ($t:ty) => {{
                let r = <$t>::try_from(int);
                let fits = m >= <$t>::MIN as i128 && m <= <$t>::MAX as i128;
                match r {
                    Ok(x) => { ensure!(fits && x as i128 == m, concat!("int-to-", stringify!($t)), "{}::try_from(Int({})) = {}", stringify!($t), m, x); }
                    Err(_) => { ensure!(!fits, concat!("int-to-", stringify!($t)), "{}::try_from(Int({})) failed although it fits", stringify!($t), m); }
                }
                if fits {
                    let back = Int::from(m as $t);
                    ensure!(i128::from(back) == m, concat!("int-from-", stringify!($t)), "Int::from({} as {}) = {}", m, stringify!($t), i128::from(back));
                }
            }}}
            elim!(u8); elim!(u16); elim!(u32); elim!(u64); elim!(i8); elim!(i16); elim!(i32); elim!(i64);
            let r = u128::try_from(int);
            match r { Ok(x) => ensure!(m >= 0 && x as i128 == m, "int-to-u128", "u128::try_from(Int({})) = {}", m, x), Err(_) => ensure!(m < 0, "int-to-u128", "u128::try_from(Int({})) failed", m) }
            if m >= 0 {
                match Int::try_from(m as u128) { Ok(i) => ensure!(i128::from(i) == m, "int-from-u128", "Int::try_from({}u128) = {}", m, i128::from(i)), Err(_) => fail!("int-from-u128", "Int::try_from({}u128) failed", m) }
            }
        }
    }
    // out-of-range i128/u128 are refused
    for off in [1i128 << 64, (1i128 << 64) + 1, 1i128 << 100] {
        let hi = m.abs() + off;
        ensure!(Int::try_from(hi).is_err(), "int-tryfrom-out-of-range", "Int::try_from({}) succeeded", hi);
        ensure!(Int::try_from(-hi - 1).is_err(), "int-tryfrom-out-of-range", "Int::try_from({}) succeeded", -hi - 1);
        ensure!(Int::try_from(hi as u128).is_err(), "int-tryfrom-out-of-range", "Int::try_from({}u128) succeeded", hi);
    }
    Ok(())
}

/// The same integer item in the middle of a buffer: the type report and the accessors may not depend on what precedes
/// the item (bytes equal to its head, a container head, a string) or on how the decoder got there.
fn in_context(neg: bool, arg: u64, w: W) -> CaseResult {
    let enc = encode(neg, arg, w);
    let m: i128 = if neg { -1 - arg as i128 } else { arg as i128 };
    let head = enc[0];
    let prefixes: [&[u8]; 6] = [&[head], &[head, head], &[0x82], &[0x61, head], &[0x18, head], &[0xff]];
    for (k, pre) in prefixes.iter().enumerate() {
        // (a prefix that is itself a head wider than one byte would swallow the item: only complete items / single bytes)
        let pre: Vec<u8> = if k < 2 && (head & 0x1f) >= 24 { let mut v = Vec::new(); for _ in 0 .. k + 1 { v.extend_from_slice(&enc) } v } else { pre.to_vec() };
        let mut buf = pre.clone();
        buf.extend_from_slice(&enc);
        buf.extend_from_slice(&[0x01, 0xff]);
        let start = pre.len();
        let mut d = Decoder::new(&buf);
        d.set_position(start);
        let t = match d.datatype() { Ok(t) => t, Err(e) => fail!("datatype-error", "datatype() at offset {} of {} failed: {}", start, short_hex(&buf), e) };
        let ok = match t {
            Type::U8 => d.u8().is_ok(), Type::U16 => d.u16().is_ok(), Type::U32 => d.u32().is_ok(), Type::U64 => d.u64().is_ok(),
            Type::I8 => d.i8().is_ok(), Type::I16 => d.i16().is_ok(), Type::I32 => d.i32().is_ok(), Type::I64 => d.i64().is_ok(),
            Type::Int => d.int().is_ok(),
            other => fail!("datatype-not-integer", "datatype() of the integer item at offset {} of {} is {:?}", start, short_hex(&buf), other)
        };
        ensure!(ok, "datatype-accessor-rejects", "datatype() at offset {} of {} (value {}) is {:?} but that accessor rejects the item", start, short_hex(&buf), m, t);
        ensure!(d.position() == start + enc.len(), "position", "the accessor named by datatype() moved from {} to {} over a {}-byte item in {}", start, d.position(), enc.len(), short_hex(&buf));
        // the report at offset 0 of the item alone is the same
        let alone = Decoder::new(&enc).datatype().ok();
        ensure!(alone == Some(t), "datatype-depends-on-context", "datatype() of {} is {:?} alone but {:?} at offset {} of {}", short_hex(&enc), alone, t, start, short_hex(&buf));
        let mut d = Decoder::new(&buf);
        d.set_position(start);
        match d.int() { Ok(x) => ensure!(i128::from(x) == m, "wrong-value", "Decoder::int at offset {} of {} gave {}", start, short_hex(&buf), i128::from(x)), Err(e) => fail!("rejected-representable", "Decoder::int at offset {} of {}: {}", start, short_hex(&buf), e) }
    }
    Ok(())
}

fn one(neg: bool, arg: u64, w: W, st: &mut Stats, full: bool) -> Result<bool, vcore::Fail> {
    let mut bytes = encode(neg, arg, w);
    let hl = bytes.len();
    bytes.extend_from_slice(&[0x01, 0xff]); // followed by other bytes
    let m: i128 = if neg { -1 - arg as i128 } else { arg as i128 };
    if full { full_checks(&bytes, hl, m)?; in_context(neg, arg, w) } else { core_checks(&bytes, hl, m) }?;
    let near_pow2 = arg >= 125 && { let a = arg as u128; (0 ..= 64u32).any(|k| { let p = 1u128 << k; a + 3 >= p && a <= p + 3 }) };
    let nontrivial = near_pow2 || w != W::min_for(arg);
    st.class(match (neg, w) { (false, W::Imm) => "pos/imm", (false, W::W1) => "pos/1", (false, W::W2) => "pos/2", (false, W::W4) => "pos/4", (false, W::W8) => "pos/8",
                              (true, W::Imm) => "neg/imm", (true, W::W1) => "neg/1", (true, W::W2) => "neg/2", (true, W::W4) => "neg/4", (true, W::W8) => "neg/8" });
    Ok(nontrivial)
}

/// Exhaustive: all arguments < 2^16 at every width able to carry them, both signs.
fn small_args(i: u64, st: &mut Stats) -> CaseResult {
    st.eval();
    let neg = i & 1 == 1;
    let w = W::ALL[((i >> 1) % 5) as usize];
    let arg = i / 10;
    if w < W::min_for(arg) { return Ok(()) }
    if i % 7919 == 0 { st.sample(i, || format!("{} decoded through 67 typed targets; value {}", vcore::item::hex(&encode(neg, arg, w)), if neg { -1 - arg as i128 } else { arg as i128 })) }
    if one(neg, arg, w, st, true)? { st.nontrivial_enum(1) }
    Ok(())
}

/// Every 2^k + d, k in 0..=64, d in -3..=3, at every admissible width, both signs.
fn boundaries(i: u64, st: &mut Stats) -> CaseResult {
    st.eval();
    let neg = i & 1 == 1;
    let w = W::ALL[((i >> 1) % 5) as usize];
    let j = i / 10;
    let d = (j % 7) as i128 - 3;
    let k = (j / 7) as u32;
    let base: i128 = 1i128 << k;
    let v = base + d;
    if i == 0 {
        // the documented range of Int, as published constants
        use minicbor::data::{MAX_INT, MIN_INT};
        ensure!(i128::from(MAX_INT) == (1i128 << 64) - 1, "int-range", "MAX_INT is {}, the data model's largest integer is 2^64-1", i128::from(MAX_INT));
        ensure!(i128::from(MIN_INT) == -(1i128 << 64), "int-range", "MIN_INT is {}, the data model's smallest integer is -2^64", i128::from(MIN_INT));
        ensure!(Int::try_from(i128::from(MAX_INT) + 1).is_err() && Int::try_from(i128::from(MIN_INT) - 1).is_err(), "int-range", "Int accepts a value outside [MIN_INT, MAX_INT]");
        ensure!(Int::try_from(i128::from(MAX_INT)).ok() == Some(MAX_INT) && Int::try_from(i128::from(MIN_INT)).ok() == Some(MIN_INT), "int-range", "MIN_INT / MAX_INT do not convert back to themselves");
    }
    if v < 0 || v > u64::MAX as i128 { return Ok(()) }
    let arg = v as u64;
    if w < W::min_for(arg) { return Ok(()) }
    st.sample(i, || format!("{} (2^{}{:+}) through 67 typed targets", vcore::item::hex(&encode(neg, arg, w)), k, d));
    if one(neg, arg, w, st, true)? { st.nontrivial_enum(1) }
    Ok(())
}

fn random(g: &mut Gen, st: &mut Stats) -> CaseResult {
    st.eval();
    let (neg, arg) = g.cbor_int();
    let w = *g.pick(W::at_least(arg));
    if one(neg, arg, w, st, true)? { st.nontrivial(vcore::engine::hash_of(&(neg, arg, w))) }
    Ok(())
}

/// Thorough: all 2^32 arguments at the 4-byte and the 8-byte width, both signs, ten core accessors.
fn sweep32(i: u64, st: &mut Stats) -> CaseResult {
    st.eval();
    let arg = i & 0xffff_ffff;
    let sel = i >> 32; // 0..4
    let neg = sel & 1 == 1;
    let w = if sel & 2 == 0 { W::W4 } else { W::W8 };
    if one(neg, arg, w, st, false)? { st.nontrivial_enum(1) }
    Ok(())
}

/// Thorough: the upper 32 bits swept with the low 32 fixed to boundary patterns (8-byte width only).
fn sweep_hi(i: u64, st: &mut Stats) -> CaseResult {
    st.eval();
    let hi = i & 0xffff_ffff;
    let sel = i >> 32; // 0..4
    let neg = sel & 1 == 1;
    let lo: u64 = if sel & 2 == 0 { 0 } else { 0xffff_ffff };
    if one(neg, (hi << 32) | lo, W::W8, st, false)? { st.nontrivial_enum(1) }
    Ok(())
}

pub fn subs() -> Vec<Sub> {
    vec![
        Sub { prop: "C05", name: "small-args", rule: "all (sign, width, arg) with arg < 2^16 and width >= minimal, each through 8 accessors + Int + char + usize/isize + 10 NonZero + conversions; non-trivial = arg within 3 of a power of two >= 2^7 or head wider than minimal",
              kind: Kind::Enumerate { quick: 655_360, thorough: 655_360, f: small_args, complete_quick: true, complete_thorough: true } },
        Sub { prop: "C05", name: "boundaries", rule: "all 2^k + d (k in 0..=64, d in -3..=3) x admissible widths x signs",
              kind: Kind::Enumerate { quick: 65 * 7 * 10, thorough: 65 * 7 * 10, f: boundaries, complete_quick: true, complete_thorough: true } },
        Sub { prop: "C05", name: "random", rule: "boundary-dense random 64-bit arguments x random admissible width x sign",
              kind: Kind::Random { quick: 2_000_000, thorough: 4_000_000, tape: 24, f: random } },
        Sub { prop: "C05", name: "sweep-4-and-8-byte", rule: "all 2^32 arguments at the 4-byte and 8-byte widths, both signs, ten core accessors (thorough tier; quick runs the first 2^20 indices)",
              kind: Kind::Enumerate { quick: 1 << 20, thorough: 4u64 << 32, f: sweep32, complete_quick: false, complete_thorough: true } },
        Sub { prop: "C05", name: "sweep-high-half", rule: "all 2^32 high halves with low half 0 / ffffffff at the 8-byte width, both signs (thorough tier; quick runs the first 2^20 indices)",
              kind: Kind::Enumerate { quick: 1 << 20, thorough: 4u64 << 32, f: sweep_hi, complete_quick: false, complete_thorough: true } },
    ]
}
