//! C11 — token streams are faithful: tokenise and re-encode is the identity.

use crate::checks::c07::gen_token;
use crate::util::short_hex;
use minicbor::data::Token;
use minicbor::decode::{verif, Tokenizer};
use minicbor::{Decoder, Encoder};
use vcore::engine::{hash_of, CaseResult, Kind, Stats, Sub};
use vcore::gen::{item, ItemCfg};
use vcore::half_ref::{f16_bits_to_f64, f16_is_nan, f16_is_snan};
use vcore::item::Item;
use vcore::{ensure, fail, Gen};

/// Harness-side view of a token: the data-model value of one head.
#[derive(Debug, Clone, PartialEq)]
enum MT { Int(i128), Bool(bool), Null, Undefined, Simple(u8), Float(u8, u64, bool), Bytes(Vec<u8>), Text(String), Array(u64), Map(u64), Tag(u64), BeginBytes, BeginText, BeginArray, BeginMap, Break }

fn fl(width: u8, v: f64) -> MT { if v.is_nan() { MT::Float(width, 0, true) } else { MT::Float(width, v.to_bits(), false) } }

fn of_token(t: &Token) -> MT {
    match *t {
        Token::Bool(b) => MT::Bool(b),
        Token::U8(n) => MT::Int(n as i128), Token::U16(n) => MT::Int(n as i128), Token::U32(n) => MT::Int(n as i128), Token::U64(n) => MT::Int(n as i128),
        Token::I8(n) => MT::Int(n as i128), Token::I16(n) => MT::Int(n as i128), Token::I32(n) => MT::Int(n as i128), Token::I64(n) => MT::Int(n as i128),
        Token::Int(n) => MT::Int(i128::from(n)),
        Token::F16(x) => fl(16, x as f64), Token::F32(x) => fl(32, x as f64), Token::F64(x) => fl(64, x),
        Token::Bytes(b) => MT::Bytes(b.to_vec()), Token::String(s) => MT::Text(s.to_string()),
        Token::Array(n) => MT::Array(n), Token::Map(n) => MT::Map(n), Token::Tag(t) => MT::Tag(t.as_u64()), Token::Simple(n) => MT::Simple(n),
        Token::Break => MT::Break, Token::Null => MT::Null, Token::Undefined => MT::Undefined,
        Token::BeginBytes => MT::BeginBytes, Token::BeginString => MT::BeginText, Token::BeginArray => MT::BeginArray, Token::BeginMap => MT::BeginMap
    }
}

fn flatten(i: &Item, out: &mut Vec<MT>) {
    match i {
        Item::UInt(..) | Item::NInt(..) => out.push(MT::Int(i.as_int().unwrap())),
        Item::Bytes(b, _) => out.push(MT::Bytes(b.clone())),
        Item::BytesIndef(cs) => { out.push(MT::BeginBytes); for (c, _) in cs { out.push(MT::Bytes(c.clone())) } out.push(MT::Break) }
        Item::Text(s, _) => out.push(MT::Text(s.clone())),
        Item::TextIndef(cs) => { out.push(MT::BeginText); for (c, _) in cs { out.push(MT::Text(c.clone())) } out.push(MT::Break) }
        Item::Array(xs, Some(_)) => { out.push(MT::Array(xs.len() as u64)); for x in xs { flatten(x, out) } }
        Item::Array(xs, None) => { out.push(MT::BeginArray); for x in xs { flatten(x, out) } out.push(MT::Break) }
        Item::Map(xs, Some(_)) => { out.push(MT::Map(xs.len() as u64)); for (k, v) in xs { flatten(k, out); flatten(v, out) } }
        Item::Map(xs, None) => { out.push(MT::BeginMap); for (k, v) in xs { flatten(k, out); flatten(v, out) } out.push(MT::Break) }
        Item::Tag(t, _, x) => { out.push(MT::Tag(*t)); flatten(x, out) }
        Item::Simple(n) => out.push(MT::Simple(*n)),
        Item::False => out.push(MT::Bool(false)), Item::True => out.push(MT::Bool(true)),
        Item::Null => out.push(MT::Null), Item::Undefined => out.push(MT::Undefined),
        Item::F16(b) => out.push(fl(16, f16_bits_to_f64(*b))),
        Item::F32(b) => out.push(fl(32, f32::from_bits(*b) as f64)),
        Item::F64(b) => out.push(fl(64, f64::from_bits(*b)))
    }
}

fn has_snan_half(i: &Item) -> bool {
    match i {
        Item::F16(b) => f16_is_snan(*b),
        Item::Array(xs, _) => xs.iter().any(has_snan_half),
        Item::Map(xs, _) => xs.iter().any(|(k, v)| has_snan_half(k) || has_snan_half(v)),
        Item::Tag(_, _, x) => has_snan_half(x),
        _ => false
    }
}

fn quiet(i: &Item) -> Item {
    match i {
        Item::F16(b) if f16_is_snan(*b) => Item::F16(*b | 0x0200),
        Item::Array(xs, f) => Item::Array(xs.iter().map(quiet).collect(), *f),
        Item::Map(xs, f) => Item::Map(xs.iter().map(|(k, v)| (quiet(k), quiet(v))).collect(), *f),
        Item::Tag(t, w, x) => Item::Tag(*t, *w, Box::new(quiet(x))),
        o => o.clone()
    }
}

fn item_sequences(g: &mut Gen, st: &mut Stats) -> CaseResult {
    st.eval();
    let preferred = g.bool();
    let cfg = if preferred { ItemCfg { max_nodes: 24, max_depth: 5, ..ItemCfg::PREFERRED_HEADS } } else { ItemCfg { max_nodes: 24, max_depth: 5, ..ItemCfg::FULL } };
    let n = 1 + g.below(6);
    // signalling-NaN halves are excluded by the property text (the half crate quiets them)
    let items: Vec<Item> = (0 .. n).map(|_| quiet(&item(g, &cfg))).collect();
    debug_assert!(!items.iter().any(has_snan_half));
    sequence_oracle(g, st, preferred, items)
}

/// Text of about `n` bytes whose characters have widths 1-4 in a pseudo-random mix (expanded from one tape word), so that
/// multi-byte characters straddle every power-of-two offset sooner or later; `ascii_runs` adds long pure-ASCII stretches.
pub fn long_text(seed: u64, n: usize, ascii_runs: bool) -> String {
    let mut x = seed | 1;
    let mut next = move || { x ^= x << 13; x ^= x >> 7; x ^= x << 17; x };
    let mut s = String::with_capacity(n + 4);
    while s.len() < n {
        let r = next();
        if ascii_runs && r % 64 == 0 { let k = 1 + (next() % 70_000) as usize; for i in 0 .. k.min(n - s.len()) { s.push((b'a' + (i % 26) as u8) as char) } continue }
        s.push(match r % 4 { 0 => (b' ' + (r >> 8) as u8 % 95) as char, 1 => char::from_u32(0x80 + (r >> 8) as u32 % 0x780).unwrap(), 2 => char::from_u32(0x800 + (r >> 8) as u32 % 0x5000).unwrap(), _ => char::from_u32(0x1_0000 + (r >> 8) as u32 % 0x10_0000).unwrap() });
    }
    s
}

/// Items with payloads of 64 KiB and more (definite and chunked text and byte strings), alone and between other items.
fn long_payloads(g: &mut Gen, st: &mut Stats) -> CaseResult {
    use vcore::item::W;
    st.eval();
    let n = match g.below(6) { 0 => (1usize << 16) + g.below(9), 1 => (1 << 16) - g.below(9), 2 => (1 << 17) + g.below(64) - 32, 3 => 3 * (1 << 16) + g.below(16), _ => 60_000 + g.below(120_000) };
    let seed = g.u64();
    let kind = g.below(5);
    let text = long_text(seed, n, g.bool());
    let big = match kind {
        0 | 1 => Item::Text(text.clone(), W::min_for(text.len() as u64)),
        2 => { let cut = { let mut c = g.below(text.len()); while !text.is_char_boundary(c) { c -= 1 } c }; Item::TextIndef(vec![(text[.. cut].to_string(), W::min_for(cut as u64)), (text[cut ..].to_string(), W::min_for((text.len() - cut) as u64))]) }
        3 => Item::Bytes(text.as_bytes().to_vec(), W::min_for(text.len() as u64)),
        _ => Item::BytesIndef(vec![(text.as_bytes()[.. n / 2].to_vec(), W::min_for((n / 2) as u64)), (text.as_bytes()[n / 2 ..].to_vec(), W::min_for((text.len() - n / 2) as u64))])
    };
    let items = match g.below(4) { 0 => vec![big], 1 => vec![Item::uint(7), big, Item::text("after")], 2 => vec![Item::array(vec![big, Item::Null])], _ => vec![Item::Map(vec![(Item::uint(1), big)], None), Item::True] };
    st.class(["long/definite text", "long/definite text", "long/chunked text", "long/definite bytes", "long/chunked bytes"][kind]);
    sequence_oracle(g, st, true, items)
}

fn sequence_oracle(g: &mut Gen, st: &mut Stats, preferred: bool, items: Vec<Item>) -> CaseResult {
    let mut input = Vec::new();
    for i in &items { i.encode_into(&mut input) }
    let mut d = Decoder::new(&input);
    let toks: Vec<Token> = match d.tokens().collect::<Result<Vec<_>, _>>() {
        Ok(t) => t,
        Err(e) => fail!("tokenise-failed", "tokenising the well-formed sequence {} failed: {}", short_hex(&input), e)
    };
    // a tokenizer starts where its decoder stands: after j items, every constructor yields the tokens of the rest
    if items.len() >= 2 {
        let j = 1 + g.below(items.len() - 1);
        let mut start = 0usize;
        for i in &items[.. j] { start += i.encode().len() }
        let mut rest = Vec::new();
        for i in &items[j ..] { flatten(i, &mut rest) }
        let at = |d: &mut Decoder| d.set_position(start);
        let mut d1 = Decoder::new(&input); at(&mut d1);
        let mut d2 = Decoder::new(&input); at(&mut d2);
        let mut d3 = Decoder::new(&input); at(&mut d3);
        for (what, toks) in [("Tokenizer::from(Decoder)", Tokenizer::from(d1).collect::<Result<Vec<_>, _>>()), ("Decoder::tokens", d2.tokens().collect::<Result<Vec<_>, _>>()), ("Tokenizer::from(&mut Decoder)", Tokenizer::from(&mut d3).collect::<Result<Vec<_>, _>>())] {
            match toks {
                Ok(ts) => { let got: Vec<MT> = ts.iter().map(of_token).collect(); ensure!(got == rest, "tokens-from-position", "{} on a decoder standing at offset {} of {} yields {} tokens starting {:?}; the rest of the input has {} heads starting {:?}", what, start, short_hex(&input), got.len(), got.first(), rest.len(), rest.first()) }
                Err(e) => fail!("tokenise-failed", "{} from offset {} of {} failed: {}", what, start, short_hex(&input), e)
            }
        }
    }
    // every way of obtaining a tokenizer sees the same tokens
    {
        let same = |a: &[Token], b: &[Token]| a.len() == b.len() && a.iter().zip(b.iter()).all(|(x, y)| <crate::registry::ETok as crate::registry::Entry>::same(x, y));
        for (what, other) in [("Tokenizer::new", Tokenizer::new(&input).collect::<Result<Vec<_>, _>>()), ("Tokenizer::from(Decoder)", Tokenizer::from(Decoder::new(&input)).collect::<Result<Vec<_>, _>>()),
                              ("Tokenizer::from(&mut Decoder)", { let mut d2 = Decoder::new(&input); let r = Tokenizer::from(&mut d2).collect::<Result<Vec<_>, _>>(); r })] {
            match other {
                Ok(o) => ensure!(same(&o, &toks), "constructors-disagree", "{} over {} yields {} tokens starting {:?}, Decoder::tokens yields {} starting {:?}", what, short_hex(&input), o.len(), o.first(), toks.len(), toks.first()),
                Err(e) => fail!("tokenise-failed", "{} failed on the well-formed sequence {}: {}", what, short_hex(&input), e)
            }
        }
    }
    // each token carries the data-model value of its head
    let mut want = Vec::new();
    for i in &items { flatten(i, &mut want) }
    let got: Vec<MT> = toks.iter().map(of_token).collect();
    if got != want {
        let at = got.iter().zip(want.iter()).position(|(a, b)| a != b).unwrap_or(got.len().min(want.len()));
        fail!("wrong-tokens", "tokens of {} differ from the heads at index {}: got {:?}, head is {:?} ({} tokens vs {} heads)", short_hex(&input), at, got.get(at), want.get(at), got.len(), want.len());
    }
    // re-encoding reproduces the preferred form of the same item sequence
    let mut e = Encoder::new(Vec::new());
    if let Err(err) = e.tokens(&toks) { fail!("reencode-failed", "Encoder::tokens failed: {}", err) }
    let out = e.into_writer();
    let mut pref = Vec::new();
    for i in &items { i.preferred_heads().encode_into(&mut pref) }
    if preferred { debug_assert_eq!(pref, input) }
    ensure!(out == pref, "reencode-differs", "tokens of {} re-encode to {} ; the preferred form is {}", short_hex(&input), short_hex(&out), short_hex(&pref));
    // to_vec(&[Token]) is an array of tokens: array head + the same bytes
    st.class(if preferred { "sequence/preferred" } else { "sequence/non-preferred heads" });
    if items.iter().any(|i| i.has_indefinite()) { st.class("sequence/with-indefinite") }
    st.nontrivial(hash_of(&input));
    st.sample(hash_of(&input), || format!("{} -> {} tokens", short_hex(&input), toks.len()));
    Ok(())
}

fn all_halves(i: u64, st: &mut Stats) -> CaseResult {
    st.eval();
    let b = i as u16;
    if f16_is_snan(b) { return Ok(()) }
    let input = [0xf9, (b >> 8) as u8, b as u8];
    let toks: Vec<Token> = Tokenizer::new(&input).collect::<Result<Vec<_>, _>>().map_err(|e| vcore::Fail::new("tokenise-failed", format!("f9{:04x}: {}", b, e)))?;
    ensure!(toks.len() == 1, "wrong-tokens", "f9{:04x} gave {} tokens", b, toks.len());
    match toks[0] {
        Token::F16(x) => if f16_is_nan(b) { ensure!(x.is_nan(), "wrong-tokens", "f9{:04x} -> {:?}", b, toks[0]) } else { ensure!((x as f64).to_bits() == f16_bits_to_f64(b).to_bits(), "wrong-tokens", "f9{:04x} -> {:?}", b, toks[0]) },
        other => fail!("wrong-tokens", "f9{:04x} tokenised as {:?}", b, other)
    }
    let mut e = Encoder::new(Vec::new());
    e.tokens(&toks).map_err(|e| vcore::Fail::new("reencode-failed", e.to_string()))?;
    let out = e.into_writer();
    ensure!(out == input, "reencode-differs", "f9{:04x} re-encoded as {}", b, short_hex(&out));
    st.nontrivial_enum(1);
    Ok(())
}

fn all_simple(i: u64, st: &mut Stats) -> CaseResult {
    st.eval();
    let n = i as u8;
    if (20 ..= 31).contains(&n) { return Ok(()) }
    let input = Item::Simple(n).encode();
    let toks: Vec<Token> = Tokenizer::new(&input).collect::<Result<Vec<_>, _>>().map_err(|e| vcore::Fail::new("tokenise-failed", e.to_string()))?;
    ensure!(toks == vec![Token::Simple(n)], "wrong-tokens", "{} tokenised as {:?}", short_hex(&input), toks);
    let mut e = Encoder::new(Vec::new());
    e.tokens(&toks).map_err(|e| vcore::Fail::new("reencode-failed", e.to_string()))?;
    ensure!(e.writer() == &input, "reencode-differs", "simple({}) re-encoded as {}", n, short_hex(e.writer()));
    st.nontrivial_enum(1);
    Ok(())
}

fn token_vectors(g: &mut Gen, st: &mut Stats) -> CaseResult {
    st.eval();
    let n = 1 + g.below(64);
    let backing: Vec<(Vec<u8>, String)> = (0 .. n).map(|_| (g.bytes(40), g.string(20))).collect();
    let toks: Vec<Token> = backing.iter().map(|(b, s)| gen_token(g, b, s, false)).collect();
    let mut e = Encoder::new(Vec::new());
    if let Err(err) = e.tokens(&toks) { fail!("encode-failed", "Encoder::tokens({:?}) failed: {}", toks, err) }
    let bytes = e.into_writer();
    let back: Vec<Token> = match Tokenizer::new(&bytes).collect::<Result<Vec<_>, _>>() {
        Ok(t) => t,
        Err(err) => fail!("tokenise-failed", "tokenising the encoding {} of {:?} failed: {}", short_hex(&bytes), toks, err)
    };
    let a: Vec<MT> = toks.iter().map(of_token).collect();
    let b: Vec<MT> = back.iter().map(of_token).collect();
    if a != b {
        let at = a.iter().zip(b.iter()).position(|(x, y)| x != y).unwrap_or(a.len().min(b.len()));
        fail!("tokens-differ", "token {} of the sequence: wrote {:?}, read back {:?} (bytes {})", at, toks.get(at), back.get(at), short_hex(&bytes));
    }
    // the slice impl: array head + the same bytes
    let v = minicbor::to_vec(&toks[..]).map_err(|e| vcore::Fail::new("encode-failed", e.to_string()))?;
    let mut want = Vec::new();
    vcore::item::write_head(&mut want, 4, toks.len() as u64, vcore::W::min_for(toks.len() as u64));
    want.extend_from_slice(&bytes);
    ensure!(v == want, "slice-impl-differs", "to_vec(&[Token]) differs from array head + Encoder::tokens output");
    for t in &toks { st.class(&format!("token/{}", format!("{:?}", t).split(|c| c == '(' || c == ' ').next().unwrap_or("?"))) }
    st.nontrivial(hash_of(&bytes));
    st.sample(hash_of(&bytes), || format!("{:?}", &toks[.. toks.len().min(6)]));
    Ok(())
}

/// Drive a tokenizer over arbitrary input past every error: it must end, stay ended, and yield at most one token per byte.
fn drive(mut t: Tokenizer<'_, '_>, input: &[u8], what: &str) -> CaseResult {
    let _case = crate::total::case_guard("Tokenizer", input);
    verif::arm(64 * input.len() as u64 + 1024);
    let mut ok = 0usize;
    let mut total = 0usize;
    let mut ended = false;
    for _ in 0 .. input.len() + 4 {
        match t.next() { None => { ended = true; break } Some(Ok(_)) => { ok += 1; total += 1 } Some(Err(_)) => total += 1 }
    }
    let more: Vec<bool> = (0 .. 3).map(|_| t.next().is_none()).collect();
    verif::disarm();
    ensure!(ended, "does-not-end", "{}: tokenising {} ({} bytes) yielded {} items without ending", what, short_hex(input), input.len(), total);
    ensure!(ok <= input.len(), "too-many-tokens", "{}: {} bytes yielded {} tokens", what, input.len(), ok);
    ensure!(more.iter().all(|x| *x), "resumes-after-end", "{}: the tokenizer of {} returned Some after None", what, short_hex(input));
    Ok(())
}

/// Every way of obtaining a tokenizer: owning (`Tokenizer::new`, `From<Decoder>`) and borrowing (`Decoder::tokens`,
/// `From<&mut Decoder>`); the borrowed ones must leave the decoder inside its input.
fn check_arbitrary(input: &[u8]) -> CaseResult {
    drive(Tokenizer::new(input), input, "Tokenizer::new")?;
    drive(Tokenizer::from(minicbor::Decoder::new(input)), input, "Tokenizer::from(Decoder)")?;
    let mut d = minicbor::Decoder::new(input);
    drive(d.tokens(), input, "Decoder::tokens")?;
    ensure!(d.position() <= input.len(), "position", "Decoder::tokens left the decoder at {} of {}", d.position(), input.len());
    let mut d = minicbor::Decoder::new(input);
    drive(Tokenizer::from(&mut d), input, "Tokenizer::from(&mut Decoder)")?;
    ensure!(d.position() <= input.len(), "position", "Tokenizer::from(&mut Decoder) left the decoder at {} of {}", d.position(), input.len());
    // a decoder may stand anywhere when it is turned into a tokenizer - `set_position` is public and unchecked, and skipping a
    // declared length in a truncated message leaves it behind the end: there is nothing to read there, so the tokenizer ends
    for start in [input.len() / 2, input.len(), input.len() + 1, input.len() + 1000, usize::MAX - 1, usize::MAX] {
        let rest = &input[start.min(input.len()) ..];
        let mut d = minicbor::Decoder::new(input); d.set_position(start);
        drive(Tokenizer::from(d), rest, "Tokenizer::from(Decoder at a later position)")?;
        let mut d = minicbor::Decoder::new(input); d.set_position(start);
        drive(d.tokens(), rest, "Decoder::tokens at a later position")?;
        let mut d = minicbor::Decoder::new(input); d.set_position(start);
        drive(Tokenizer::from(&mut d), rest, "Tokenizer::from(&mut Decoder at a later position)")?;
    }
    Ok(())
}

fn arbitrary_bytes(g: &mut Gen, st: &mut Stats) -> CaseResult {
    st.eval();
    let input: Vec<u8> = if g.bool() { let n = g.below(64); (0 .. n).map(|_| g.byte()).collect() } else {
        let it = item(g, &ItemCfg::FULL);
        vcore::gen::mutate(g, &it.encode()).0
    };
    check_arbitrary(&input)?;
    st.nontrivial(hash_of(&input));
    Ok(())
}

fn short_inputs(i: u64, st: &mut Stats) -> CaseResult {
    st.eval();
    // all inputs of length 0, 1, 2 (and 3 for the larger bound)
    let (len, v) = if i == 0 { (0, 0) } else if i <= 256 { (1, i - 1) } else if i <= 256 + 65536 { (2, i - 257) } else { (3, i - 257 - 65536) };
    let bytes = [(v >> 16) as u8, (v >> 8) as u8, v as u8];
    let input = &bytes[3 - len ..];
    check_arbitrary(input)?;
    st.nontrivial_enum(1);
    Ok(())
}

pub fn subs() -> Vec<Sub> {
    vec![
        Sub { prop: "C11", name: "item-sequences", rule: "1-6 well-formed items (preferred heads incl. indefinite containers, or arbitrary framings): token list == flattened head list of the model; Encoder::tokens(tokens) == preferred-head form of the same sequence; distinct by input",
              kind: Kind::Random { quick: 500_000, thorough: 5_000_000, tape: 1024, f: item_sequences } },
        Sub { prop: "C11", name: "long-payloads", rule: "text and byte strings of 60-200 KB (lengths around 2^16, 2^17, 3*2^16 and uniform; characters of 1-4 bytes in a pseudo-random mix, optionally with long ASCII runs; definite and chunked), alone, between other items and inside containers: the same oracle as item-sequences",
              kind: Kind::Random { quick: 1_500, thorough: 20_000, tape: 64, f: long_payloads } },
        Sub { prop: "C11", name: "all-halves", rule: "every half pattern except signalling NaNs: token value and identity re-encoding",
              kind: Kind::Enumerate { quick: 1 << 16, thorough: 1 << 16, f: all_halves, complete_quick: true, complete_thorough: true } },
        Sub { prop: "C11", name: "all-simple", rule: "every encodable simple value",
              kind: Kind::Enumerate { quick: 256, thorough: 256, f: all_simple, complete_quick: true, complete_thorough: true } },
        Sub { prop: "C11", name: "token-vectors", rule: "arbitrary sequences of 1-64 tokens over all 26 variants (not necessarily balanced): encode then tokenise gives value-equal tokens (integers by value, floats by value with NaN ~ NaN); to_vec(&[Token]) == array head + same bytes",
              kind: Kind::Random { quick: 300_000, thorough: 3_000_000, tape: 4096, f: token_vectors } },
        Sub { prop: "C11", name: "arbitrary-bytes", rule: "random and mutated inputs: at most one token per byte, iteration ends and stays ended, step budget 64*len+1024",
              kind: Kind::Random { quick: 500_000, thorough: 5_000_000, tape: 512, f: arbitrary_bytes } },
        Sub { prop: "C11", name: "short-inputs", rule: "all inputs of length <= 2 (thorough: <= 3), same oracle",
              kind: Kind::Enumerate { quick: 1 + 256 + 65536, thorough: 1 + 256 + 65536 + (1 << 24), f: short_inputs, complete_quick: true, complete_thorough: true } },
    ]
}
