pub mod c01;
pub mod ctx;
pub mod wide;
pub mod c03;
pub mod c04;
pub mod c05;
pub mod c06;
pub mod c07;
pub mod c11;
pub mod c12;
pub mod c13;
pub mod c19;

pub fn extra_assumptions(prop: &str) -> Vec<String> {
    match prop {
        "C01" => vec!["domain excludes exactly what the property excludes: Option directly in Option, IPv6 flow-info/scope-id (generated as 0), pre-epoch SystemTime and non-UTF-8 paths (checked separately to be refused without panic)".into()],
        _ => vec![]
    }
}
