//! C19 — diagnostic display is total, size-bounded and follows the documented notation.

use crate::util::short_hex;
use minicbor::decode::verif;
use std::fmt::Write;
use vcore::engine::{hash_of, CaseResult, Kind, Stats, Sub};
use vcore::gen::{item, mutate, small_shapes, FramedSpace, ItemCfg};
use vcore::item::W;
use vcore::{ensure, Gen};

/// A `fmt::Write` sink that refuses to grow beyond `limit` bytes.
struct Bounded { out: String, limit: usize, refused: bool }
impl Write for Bounded {
    fn write_str(&mut self, s: &str) -> std::fmt::Result {
        if self.out.len() + s.len() > self.limit { self.refused = true; return Err(std::fmt::Error) }
        self.out.push_str(s);
        Ok(())
    }
}

fn limit_for(len: usize) -> usize { 32 * len + 256 }

/// Totality + size bound + work bound on arbitrary input. Returns the rendering.
fn render_bounded(input: &[u8]) -> Result<String, vcore::Fail> {
    let _case = crate::total::case_guard("minicbor::display", input);
    let mut sink = Bounded { out: String::new(), limit: limit_for(input.len()), refused: false };
    verif::arm(64 * input.len() as u64 + 1024);
    let r = write!(sink, "{}", minicbor::display(input));
    let steps = verif::disarm();
    if sink.refused {
        return Err(vcore::Fail::new("size-bound", format!("display of the {}-byte input {} produced more than {} bytes of output (output starts {:?})", input.len(), short_hex(input), sink.limit, &sink.out[.. sink.out.len().min(60)])))
    }
    if r.is_err() { return Err(vcore::Fail::new("fmt-error", format!("display of {} returned a formatting error after {} steps", short_hex(input), steps))) }
    // the same notation through a tokenizer that borrows a decoder (`Decoder::tokens`): identical text, decoder untouched
    let mut d = minicbor::Decoder::new(input);
    let mut sink2 = Bounded { out: String::new(), limit: limit_for(input.len()), refused: false };
    verif::arm(64 * input.len() as u64 + 1024);
    let r2 = write!(sink2, "{}", d.tokens());
    verif::disarm();
    if sink2.refused || r2.is_err() { return Err(vcore::Fail::new("size-bound", format!("Display of Decoder::tokens() on {} exceeded {} bytes or failed", short_hex(input), sink2.limit))) }
    if sink2.out != sink.out { return Err(vcore::Fail::new("borrowed-differs", format!("Display of Decoder::tokens() on {} gives {:?}, minicbor::display gives {:?}", short_hex(input), sink2.out, sink.out))) }
    if d.position() != 0 { return Err(vcore::Fail::new("borrowed-moved", format!("formatting Decoder::tokens() moved the decoder to {}", d.position()))) }
    // the notation is the notation: width, fill, alignment, sign, precision and the alternate flag of the caller's format string
    // (`{:>8}`, `{:.3}`, `{:+}`, `{:#}`, `{:08}`) apply to nothing inside the document
    if input.len() <= 64 {
        let _case = crate::total::case_guard("minicbor::display", input);
        for (spec, got) in [("{:12}", format!("{:12}", minicbor::display(input))), ("{:>7}", format!("{:>7}", minicbor::display(input))), ("{:.1}", format!("{:.1}", minicbor::display(input))), ("{:+}", format!("{:+}", minicbor::display(input))),
                            ("{:#}", format!("{:#}", minicbor::display(input))), ("{:08.3}", format!("{:08.3}", minicbor::display(input))), ("{:*^5.0}", format!("{:*^5.0}", minicbor::display(input)))] {
            if got != sink.out { return Err(vcore::Fail::new("format-spec-leaks", format!("display of {} formatted with `{}` gives {:?}, with `{{}}` it gives {:?}", short_hex(input), spec, got, sink.out))) }
        }
    }
    Ok(sink.out)
}

fn short_inputs(i: u64, st: &mut Stats) -> CaseResult {
    st.eval();
    let (len, v) = if i == 0 { (0, 0) } else if i <= 256 { (1, i - 1) } else if i <= 256 + 65536 { (2, i - 257) } else { (3, i - 257 - 65536) };
    let bytes = [(v >> 16) as u8, (v >> 8) as u8, v as u8];
    let input = &bytes[3 - len ..];
    render_bounded(input)?;
    st.nontrivial_enum(1);
    Ok(())
}

/// Every initial byte x every argument width x extreme / boundary declared lengths x a few tails.
fn extreme_heads(i: u64, st: &mut Stats) -> CaseResult {
    st.eval();
    let ib = (i & 0xff) as u8;
    let arg_sel = ((i >> 8) % 10) as usize;
    let tail_sel = (i >> 8) / 10;
    let args: [&[u8]; 10] = [&[], &[0xff], &[0xff, 0xff], &[0x00, 0x01, 0x86, 0xa0], &[0xff, 0xff, 0xff, 0xff], &[0xff; 8], &[0x7f, 0xff, 0xff, 0xff, 0xff, 0xff, 0xff, 0xff],
                             &[0, 0, 0, 1, 0, 0, 0, 0], &[0x00, 0x10, 0x00, 0x00], &[0x80, 0, 0, 0, 0, 0, 0, 0]];
    let tails: [&[u8]; 5] = [&[], &[0x00], &[0x01, 0x02, 0x03, 0x04, 0x05, 0x06, 0x07, 0x08], &[0x9b, 0xff, 0xff, 0xff, 0xff, 0xff, 0xff, 0xff, 0xff, 0x00], &[0x01, 0x02, 0xff]];
    let mut input = vec![ib];
    input.extend_from_slice(args[arg_sel]);
    let tail = tails[tail_sel as usize % 5];
    input.extend_from_slice(tail);
    let out = render_bounded(&input)?;
    // a definite array / map whose declared length exceeds the items that follow before the input ends (or before a stray
    // break): "should decoding fail, the error message becomes part of the display" - the shortfall is reported inline
    let (major, ai) = (ib >> 5, ib & 0x1f);
    let head_len = 1 + match ai { 24 => 1, 25 => 2, 26 => 4, 27 => 8, _ => 0 };
    if (major == 4 || major == 5) && ai <= 27 && args[arg_sel].len() + 1 >= head_len {
        let mut declared: u128 = if ai < 24 { ai as u128 } else { let mut v = 0u128; for b in &input[1 .. head_len] { v = v << 8 | *b as u128 } v };
        if major == 5 { declared *= 2 }
        // complete scalar items available behind the head (the tails hold one-byte integers, then possibly a break or a nested head)
        // (the display lets a stray break fill an element slot, so it counts as one here: only a real shortfall is claimed)
        let avail = input[head_len.min(input.len()) ..].iter().take_while(|b| **b < 0x18 || **b == 0xff).count() as u128;
        let rest_is_plain = input[head_len.min(input.len()) ..].iter().all(|b| *b < 0x18 || *b == 0xff);
        if rest_is_plain && declared > avail {
            ensure!(out.contains(" !!! "), "shortfall-not-reported", "display({}) = {:?}: the head declares {} items, {} follow, but no problem is reported inline", short_hex(&input), out, declared, avail);
            st.class("declared length exceeds the input: reported inline");
        }
    }
    st.nontrivial_enum(1);
    if i % 997 == 0 { st.sample(i, || format!("display({}) bounded by {} bytes", short_hex(&input), limit_for(input.len()))) }
    Ok(())
}

fn mutated(g: &mut Gen, st: &mut Stats) -> CaseResult {
    st.eval();
    let input: Vec<u8> = match g.below(3) {
        0 => { let n = g.below(48); (0 .. n).map(|_| g.byte()).collect() }
        _ => { let it = item(g, &ItemCfg::FULL); let (mut b, label) = mutate(g, &it.encode()); st.class(label); if g.bool() { b = mutate(g, &b).0 } b }
    };
    render_bounded(&input)?;
    st.nontrivial(hash_of(&input));
    Ok(())
}

fn exact(x: &vcore::Item, enc: &[u8]) -> CaseResult {
    let got = render_bounded(enc)?;
    let want = x.render();
    ensure!(got == want, "wrong-rendering", "display({}) = {:?}, the documented notation is {:?}", short_hex(enc), got, want);
    Ok(())
}

fn space() -> &'static FramedSpace {
    static S: std::sync::OnceLock<FramedSpace> = std::sync::OnceLock::new();
    S.get_or_init(|| FramedSpace::new(small_shapes(3)))
}

fn exact_small(i: u64, st: &mut Stats) -> CaseResult {
    st.eval();
    let x = space().get(i);
    let enc = x.encode();
    exact(&x, &enc)?;
    st.nontrivial_enum(1);
    if i % 7001 == 0 { st.sample(i, || format!("display({}) == {:?}", short_hex(&enc), x.render())) }
    Ok(())
}

fn exact_random(g: &mut Gen, st: &mut Stats) -> CaseResult {
    st.eval();
    let x = item(g, &ItemCfg::FULL);
    let enc = x.encode();
    exact(&x, &enc)?;
    st.nontrivial(hash_of(&enc));
    st.class(if x.has_indefinite() { "exact/with-indefinite" } else { "exact/definite" });
    st.sample(hash_of(&enc), || { let r = x.render(); format!("display({}) == {:?}", short_hex(&enc), if r.len() > 100 { r.chars().take(100).collect::<String>() } else { r }) });
    Ok(())
}

/// Truncated well-formed items: the problem is reported inline, output stays bounded.
fn truncated(g: &mut Gen, st: &mut Stats) -> CaseResult {
    st.eval();
    let x = item(g, &ItemCfg::FULL);
    let enc = x.encode();
    if enc.is_empty() { return Ok(()) }
    let cut = g.below(enc.len());
    let out = render_bounded(&enc[.. cut])?;
    let _ = out;
    // declared element counts larger than what follows: a container head with a huge count in front of a valid item
    let mut big = Vec::new();
    vcore::item::write_head(&mut big, if g.bool() { 4 } else { 5 }, *g.pick(&[100_000u64, 1 << 32, u64::MAX, 65536, 1000]), W::W8);
    big.extend_from_slice(&enc[.. enc.len().min(40)]);
    render_bounded(&big)?;
    st.nontrivial(hash_of(&(cut, &enc)));
    Ok(())
}

/// Deep nesting chains (to 10^5 levels) of nine shapes: the rendering must be the documented notation all the way down.
fn deep_chains(i: u64, st: &mut Stats) -> CaseResult {
    st.eval();
    const DEPTHS: [usize; 12] = [1, 2, 3, 17, 100, 1000, 1400, 2100, 4100, 5000, 20_000, 100_000];
    let kind = (i as usize) % vcore::gen::CHAIN_KINDS;
    let depth = DEPTHS[(i as usize / vcore::gen::CHAIN_KINDS) % DEPTHS.len()];
    let (bytes, want, _) = vcore::gen::chain(kind, depth);
    if depth <= 3 {
        // harness sanity: the closed-form notation agrees with the tree renderer on shallow chains
        let (it, used) = vcore::item::parse(&bytes).map_err(|e| vcore::Fail::new("harness-bug", format!("chain {} ill-formed: {:?}", short_hex(&bytes), e)))?;
        ensure!(used == bytes.len() && it.render() == want, "harness-bug", "chain notation {:?} differs from the tree renderer {:?}", want, it.render());
    }
    let got = crate::total::on_default_stack(|| render_bounded(&bytes))?;
    if got != want {
        let k = got.bytes().zip(want.bytes()).position(|(a, b)| a != b).unwrap_or(got.len().min(want.len()));
        return Err(vcore::Fail::new("wrong-rendering", format!("display of a chain of kind {} and depth {} ({} bytes) differs from the documented notation at offset {} of {}: got ..{:?}.., expected ..{:?}..", kind, depth, bytes.len(), k, want.len(), &got[k.saturating_sub(10) .. (k + 30).min(got.len())], &want[k.saturating_sub(10) .. (k + 30).min(want.len())])))
    }
    st.nontrivial_enum(1);
    st.class(match depth { 0 ..= 100 => "chain/depth<=100", 101 ..= 5000 => "chain/depth<=5000", _ => "chain/depth>5000" });
    if depth == 17 { st.sample(i, || format!("{} -> {}", short_hex(&bytes), want)) }
    Ok(())
}

/// Replay entry for abnormal exits: the recorded input through display in a fresh process.
fn raw_input(g: &mut Gen, st: &mut Stats) -> CaseResult {
    st.eval();
    let _ = g.byte();
    let input = g.rest().to_vec();
    let _ = crate::total::on_default_stack(|| render_bounded(&input));
    Ok(())
}

pub fn subs() -> Vec<Sub> {
    let n = space().len();
    vec![
        Sub { prop: "C19", name: "deep-chains", rule: "nine shapes of nesting chains (tags, definite / indefinite arrays, arrays in first position, maps in key and in value position, tag + indefinite array, indefinite maps, alternating framings) x depths 1 .. 100 000: exactly the documented notation (closed form, cross-checked with the tree renderer on shallow chains), within the size and step bounds",
              kind: Kind::Enumerate { quick: 9 * 12, thorough: 9 * 12, f: deep_chains, complete_quick: true, complete_thorough: true } },
        Sub { prop: "C19", name: "raw-input", rule: "replay entry for abnormal exits: a recorded input through display in a fresh process",
              kind: Kind::Random { quick: 0, thorough: 0, tape: 16, f: raw_input } },
        Sub { prop: "C19", name: "short-inputs", rule: "all inputs of length <= 2 (thorough: <= 3): no panic, output <= 32*len+256 bytes, step budget 64*len+1024",
              kind: Kind::Enumerate { quick: 1 + 256 + 65536, thorough: 1 + 256 + 65536 + (1 << 24), f: short_inputs, complete_quick: true, complete_thorough: true } },
        Sub { prop: "C19", name: "extreme-heads", rule: "all 256 initial bytes x 10 argument patterns (extreme and boundary declared lengths) x 5 tails; a definite array / map that declares more items than follow must report the shortfall inline",
              kind: Kind::Enumerate { quick: 256 * 10 * 5, thorough: 256 * 10 * 5, f: extreme_heads, complete_quick: true, complete_thorough: true } },
        Sub { prop: "C19", name: "mutated", rule: "structure-aware mutations of valid items and random bytes, same totality/size/work oracle; distinct by input",
              kind: Kind::Random { quick: 750_000, thorough: 10_000_000, tape: 1024, f: mutated } },
        Sub { prop: "C19", name: "truncated", rule: "strict prefixes of valid items and huge declared counts in front of valid items",
              kind: Kind::Random { quick: 300_000, thorough: 2_000_000, tape: 1024, f: truncated } },
        Sub { prop: "C19", name: "exact-small", rule: "every tree with <= 3 nodes x every head-width assignment: output equals the reference renderer (documented notation)",
              kind: Kind::Enumerate { quick: n, thorough: n, f: exact_small, complete_quick: true, complete_thorough: true } },
        Sub { prop: "C19", name: "exact-random", rule: "grammar-generated well-formed single items: output equals the reference renderer; distinct by encoding",
              kind: Kind::Random { quick: 400_000, thorough: 4_000_000, tape: 1024, f: exact_random } },
    ]
}
