fn main() { schemagen::build_chunk(2, 8) }
