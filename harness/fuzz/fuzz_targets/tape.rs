//! libFuzzer target carrying the semantic oracles of the tape-driven codec checks (C01 C03 C04 C05 C06 C07
//! C11 C12 C13 C19): the first byte selects a sub-check, the rest is the generator tape.
#![no_main]
use libfuzzer_sys::fuzz_target;
use vcore::engine::{Kind, Known, RandomFn, Stats};

fn table() -> &'static (Vec<(&'static str, &'static str, RandomFn)>, Known) {
    static T: std::sync::OnceLock<(Vec<(&'static str, &'static str, RandomFn)>, Known)> = std::sync::OnceLock::new();
    T.get_or_init(|| {
        let subs = g_codec::all_subs();
        // VERIF_FUZZ_PROP restricts the campaign to the sub-checks of one property
        let only = std::env::var("VERIF_FUZZ_PROP").ok();
        let v = subs.iter().filter(|s| only.as_deref().map(|p| p == s.prop).unwrap_or(true)).filter_map(|s| match s.kind { Kind::Random { f, .. } => Some((s.prop, s.name, f)), _ => None }).collect();
        (v, Known::load(&vcore::engine::input_root()))
    })
}

fuzz_target!(|data: &[u8]| {
    if data.is_empty() { return }
    let (t, known) = table();
    let (prop, name, f) = t[data[0] as usize % t.len()];
    let mut g = vcore::Gen::new(&data[1 ..]);
    let mut st = Stats::new();
    st.frozen = true;
    if let Err(fl) = f(&mut g, &mut st) {
        if known.matches(prop, &fl.sig) { return }
        panic!("{} violation in sub-check {} [{}]: {}", prop, name, fl.sig, fl.detail)
    }
});
