//! libFuzzer target for C02: first byte selects the start position, the rest is the input; every decoding
//! entry point runs with the same oracles as the g_total engine (panic, step budget, position, borrows, drops).
#![no_main]
use libfuzzer_sys::fuzz_target;

fuzz_target!(|data: &[u8]| {
    if data.is_empty() { return }
    let sel = data[0] as usize % 6;
    let input = &data[1 ..];
    let start = g_codec::total::start_positions(input.len())[sel];
    for ep in eps() {
        if let Err(f) = g_codec::total::exec(ep, input, start) { panic!("C02 violation [{}]: {}", f.sig, f.detail) }
    }
    if let Err(f) = g_codec::total::drop_check(input) { panic!("C02 violation [{}]: {}", f.sig, f.detail) }
});

fn eps() -> &'static Vec<g_codec::total::EntryPoint> {
    static T: std::sync::OnceLock<Vec<g_codec::total::EntryPoint>> = std::sync::OnceLock::new();
    T.get_or_init(g_codec::total::entry_points)
}
