//! C04F (part of C04) — typed decoding of framed payloads: what the readers hand to `Decode` is exactly the frame.
//!
//! Frames on one reader (blocking and async, fresh or constructed around a used buffer); some frames carry a strict prefix
//! of an encoding (the empty frame included). A complete frame decodes to its value; a truncated one fails with a decode
//! error of the end-of-input class - never a value, never another class (bytes of an earlier, longer frame or of the
//! caller's buffer must not be visible to the decoder) - and the frames after it are unaffected.

use crate::vals::{Kind, Rec, Val};
use minicbor_io::{AsyncReader, Error, Reader};
use std::future::Future;
use std::task::{Context, Poll, Waker};
use vcore::engine::{hash_of, CaseResult, Kind as SubKind, Stats, Sub};
use vcore::{ensure, fail, Gen};

struct Pieces<'a> { data: &'a [u8], pos: usize, piece: usize }
impl std::io::Read for Pieces<'_> {
    fn read(&mut self, b: &mut [u8]) -> std::io::Result<usize> { let n = b.len().min(self.data.len() - self.pos).min(self.piece); b[.. n].copy_from_slice(&self.data[self.pos .. self.pos + n]); self.pos += n; Ok(n) }
}
impl futures_io::AsyncRead for Pieces<'_> {
    fn poll_read(mut self: std::pin::Pin<&mut Self>, _: &mut Context<'_>, b: &mut [u8]) -> Poll<std::io::Result<usize>> { Poll::Ready(std::io::Read::read(&mut *self, b)) }
}

fn block<F: Future>(f: F) -> F::Output { let mut f = Box::pin(f); let mut cx = Context::from_waker(Waker::noop()); loop { if let Poll::Ready(x) = f.as_mut().poll(&mut cx) { return x } } }

enum AnyReader<'a> { B(Reader<Pieces<'a>>), A(AsyncReader<Pieces<'a>>) }
impl AnyReader<'_> {
    fn read(&mut self, k: Kind) -> Result<Option<Val>, Error> {
        use minicbor::bytes::ByteVec;
        Ok(match (self, k) {
            (AnyReader::B(r), Kind::U) => r.read::<u64>()?.map(Val::U),
            (AnyReader::B(r), Kind::S) => r.read::<String>()?.map(Val::S),
            (AnyReader::B(r), Kind::B) => r.read::<ByteVec>()?.map(|b| Val::B(b.into())),
            (AnyReader::B(r), Kind::R) => r.read::<Rec>()?.map(Val::R),
            (AnyReader::A(r), Kind::U) => block(r.read::<u64>())?.map(Val::U),
            (AnyReader::A(r), Kind::S) => block(r.read::<String>())?.map(Val::S),
            (AnyReader::A(r), Kind::B) => block(r.read::<ByteVec>())?.map(|b| Val::B(b.into())),
            (AnyReader::A(r), Kind::R) => block(r.read::<Rec>())?.map(Val::R)
        })
    }
}

fn framed_prefixes(g: &mut Gen, st: &mut Stats) -> CaseResult {
    st.eval();
    let n = 2 + g.below(5);
    let vals: Vec<Val> = (0 .. n).map(|_| if g.chance(90) { Val::any(g) } else { Val::small(g) }).collect();
    // None = complete frame, Some(cut) = only the first `cut` payload bytes are framed
    let cuts: Vec<Option<usize>> = vals.iter().map(|v| { let l = v.encoded().len(); if g.chance(115) { Some(match g.below(4) { 0 => 0, 1 => l - 1, _ => g.below(l) }) } else { None } }).collect();
    let mut stream = Vec::new();
    for (v, c) in vals.iter().zip(&cuts) {
        let e = v.encoded();
        let p = &e[.. c.unwrap_or(e.len())];
        stream.extend_from_slice(&(p.len() as u32).to_be_bytes());
        stream.extend_from_slice(p);
    }
    let src = Pieces { data: &stream, pos: 0, piece: 1 + g.below(64) };
    let junk: Vec<u8> = { let k = g.below(48); g.bytes(48)[..].iter().copied().cycle().take(k).collect() };
    let ctor = g.below(4);
    let mut r = match ctor { 0 => AnyReader::B(Reader::new(src)), 1 => AnyReader::B(Reader::with_buffer(src, junk)), 2 => AnyReader::A(AsyncReader::new(src)), _ => AnyReader::A(AsyncReader::with_buffer(src, junk)) };
    let what = ["Reader::new", "Reader::with_buffer", "AsyncReader::new", "AsyncReader::with_buffer"][ctor];
    let mut longest_before = 0usize;
    let mut shadowed = false;
    for (i, (v, c)) in vals.iter().zip(&cuts).enumerate() {
        let got = r.read(v.kind());
        match c {
            None => match got {
                Ok(Some(x)) => ensure!(&x == v, "wrong-value", "{}: complete frame {} read back as {:?}, written {:?}", what, i, x, v),
                other => fail!("complete-frame-refused", "{}: complete frame {} ({:?}) gave {:?}", what, i, v, other.map_err(|e| e.to_string()))
            },
            Some(cut) => {
                if *cut < longest_before { shadowed = true }
                match got {
                    Err(Error::Decode(e)) => ensure!(e.is_end_of_input(), "wrong-class", "{}: frame {} holds the first {} of the {} bytes of {:?}; decoding it failed with `{}`, which is not the end-of-input class", what, i, cut, v.encoded().len(), v, e),
                    Ok(x) => fail!("prefix-accepted", "{}: frame {} holds only the first {} of the {} bytes of {:?} but was read as {:?}", what, i, cut, v.encoded().len(), v, x),
                    Err(e) => fail!("wrong-error", "{}: truncated frame {} gave `{}` instead of a decode error", what, i, e)
                }
            }
        }
        longest_before = longest_before.max(c.unwrap_or(v.encoded().len()));
    }
    ensure!(matches!(r.read(Kind::U), Ok(None)), "end-error", "{}: no clean end after the last frame", what);
    st.class(&format!("framed/{}", what));
    if shadowed { st.class("framed/truncated frame after a longer one"); st.nontrivial(hash_of(&(&stream, ctor))) }
    if cuts.iter().any(|c| *c == Some(0)) { st.class("framed/empty frame") }
    st.sample(hash_of(&stream), || format!("{}: frames {:?} (payload lengths framed: {:?})", what, vals.iter().map(|v| v.kind()).collect::<Vec<_>>(), cuts));
    Ok(())
}

pub fn subs() -> Vec<Sub> {
    ["C04F", "C14", "C15"].iter().map(|p| Sub { prop: p, name: "framed-prefixes", rule: "2-6 frames on one reader (Reader / AsyncReader, new / with_buffer(junk), deliveries of 1..64 bytes), 45 % of them holding a strict prefix (empty, all but one byte, any cut) of the value's encoding: complete frames read back equal, truncated ones fail with a decode error of the end-of-input class (never a value, never another class) and do not disturb the frames after them; non-trivial = a truncated frame shorter than an earlier frame on the same reader (stale buffer content in reach)",
        kind: SubKind::Random { quick: 150_000, thorough: 1_500_000, tape: 1024, f: framed_prefixes } }).collect()
}
