//! Values travelling through the framed I/O checks.

use minicbor::{Decode, Encode};
use vcore::Gen;

#[derive(Debug, Clone, PartialEq, Encode, Decode)]
pub struct Rec { #[n(0)] pub a: u32, #[n(1)] pub s: String, #[n(2)] pub o: Option<i16>, #[n(3)] pub v: Vec<u8> }

#[derive(Clone, Debug, PartialEq)]
pub enum Val { U(u64), S(String), B(Vec<u8>), R(Rec) }

#[derive(Clone, Copy, Debug, PartialEq)]
pub enum Kind { U, S, B, R }

impl Val {
    pub fn kind(&self) -> Kind { match self { Val::U(_) => Kind::U, Val::S(_) => Kind::S, Val::B(_) => Kind::B, Val::R(_) => Kind::R } }

    pub fn encoded(&self) -> Vec<u8> {
        match self {
            Val::U(x) => minicbor::to_vec(x), Val::S(x) => minicbor::to_vec(x),
            Val::B(x) => minicbor::to_vec(minicbor::bytes::ByteVec::from(x.clone())), Val::R(x) => minicbor::to_vec(x)
        }.expect("to_vec")
    }

    /// The frame the writers must emit: 4-byte big-endian length, then exactly that many bytes.
    pub fn frame(&self) -> Vec<u8> {
        let e = self.encoded();
        let mut f = (e.len() as u32).to_be_bytes().to_vec();
        f.extend_from_slice(&e);
        f
    }

    pub fn small(g: &mut Gen) -> Val {
        match g.below(4) {
            0 => Val::U(g.u64()),
            1 => Val::S(g.string(6)),
            2 => Val::B(g.bytes(6)),
            _ => Val::R(Rec { a: g.u32(), s: g.string(4), o: if g.bool() { Some(g.i16()) } else { None }, v: g.bytes(4) })
        }
    }

    pub fn any(g: &mut Gen) -> Val {
        match g.below(8) {
            0 | 1 => Val::U(g.u64()),
            // (long payloads carry position-dependent content: a lost, repeated or displaced stretch changes the value)
            2 => { let n = *g.pick(&[0usize, 1, 22, 23, 24, 254, 255, 256, 1000]); let k = g.below(26); Val::S((0 .. n).map(|i| (b'a' + ((i * 7 + i / 26 + k) % 26) as u8) as char).collect()) }
            3 => Val::S(g.string(40)),
            4 => { let n = *g.pick(&[0usize, 1, 23, 24, 255, 256, 4000]); let k = g.byte() as usize; Val::B((0 .. n).map(|i| (i * 31 + i / 256 + k) as u8).collect()) }
            5 => Val::B(g.bytes(300)),
            6 => { if g.chance(20) { Val::B((0 .. 70_000usize).map(|i| (i * 131 + i / 256) as u8).collect()) } else { Val::S(g.string(10)) } }
            _ => Val::R(Rec { a: g.u32(), s: g.string(20), o: if g.bool() { Some(g.i16()) } else { None }, v: g.bytes(50) })
        }
    }
}

/// A value whose `Encode` impl fails after having emitted some bytes.
pub struct FailAfter(pub usize);
impl<C> Encode<C> for FailAfter {
    fn encode<W: minicbor::encode::Write>(&self, e: &mut minicbor::Encoder<W>, _: &mut C) -> Result<(), minicbor::encode::Error<W::Error>> {
        e.array(self.0 as u64 + 1)?;
        for i in 0 .. self.0 { e.u64(i as u64)?; }
        Err(minicbor::encode::Error::message("this value refuses to be encoded"))
    }
}

/// A value whose codec depends on the user context handed to `write_with` / `read_with`: the context is a running
/// key that is added on encode, subtracted on decode and advanced once per value.
#[derive(Clone, Copy, Debug, PartialEq)]
pub struct Keyed(pub u32);
impl Encode<u32> for Keyed {
    fn encode<W: minicbor::encode::Write>(&self, e: &mut minicbor::Encoder<W>, ctx: &mut u32) -> Result<(), minicbor::encode::Error<W::Error>> {
        e.u32(self.0.wrapping_add(*ctx))?;
        *ctx = ctx.wrapping_add(1);
        Ok(())
    }
}
impl<'b> Decode<'b, u32> for Keyed {
    fn decode(d: &mut minicbor::Decoder<'b>, ctx: &mut u32) -> Result<Self, minicbor::decode::Error> {
        let x = d.u32()?;
        let v = x.wrapping_sub(*ctx);
        *ctx = ctx.wrapping_add(1);
        Ok(Keyed(v))
    }
}

/// A value that is *all* items of its frame (a CBOR sequence): decoding consumes the input to its end, so bytes that do
/// not belong to the frame would show up as extra items.
#[derive(Clone, Debug, PartialEq)]
pub struct Seq(pub Vec<u32>);
impl<C> Encode<C> for Seq {
    fn encode<W: minicbor::encode::Write>(&self, e: &mut minicbor::Encoder<W>, _: &mut C) -> Result<(), minicbor::encode::Error<W::Error>> { for x in &self.0 { e.u32(*x)?; } Ok(()) }
}
impl<'b, C> Decode<'b, C> for Seq {
    fn decode(d: &mut minicbor::Decoder<'b>, _: &mut C) -> Result<Self, minicbor::decode::Error> { let mut v = Vec::new(); while d.position() < d.input().len() { v.push(d.u32()?) } Ok(Seq(v)) }
}
