//! C14 C15 C16 — framed I/O under fragmentation, faults and scripted async schedules.

mod vals;
mod sched;
mod blocking;
mod aread;
mod awrite;
mod framed;

use g_codec::total;
use vcore::engine::{CaseResult, Kind, Stats, Sub};
use vcore::Gen;

#[global_allocator]
static ALLOC: total::Counting = total::Counting;

/// Replay entry for abnormal child exits (oversize allocation while reading a frame): first tape byte is
/// ignored, the rest is a raw stream handed to the blocking reader with max_len 16.
fn raw_stream(g: &mut Gen, st: &mut Stats) -> CaseResult {
    st.eval();
    let _ = g.byte();
    let stream = g.rest().to_vec();
    let mut r = minicbor_io::Reader::new(&stream[..]);
    r.set_max_len(16);
    total::set_case("Reader::read(raw stream)", &stream);
    for _ in 0 .. 8 { if !matches!(r.read::<u64>(), Ok(Some(_))) { break } }
    total::clear_case();
    st.nontrivial(vcore::engine::hash_of(&stream));
    Ok(())
}

/// The documented default maximum (512 KiB) of all four endpoints, at the boundary: a frame of exactly 512 KiB passes,
/// one byte more is refused with InvalidLen (writer: nothing emitted; reader: nothing allocated for it).
fn default_max_len(i: u64, st: &mut Stats) -> CaseResult {
    use minicbor::bytes::ByteVec;
    use minicbor_io::{AsyncReader, AsyncWriter, Error, Reader, Writer};
    use std::future::Future;
    use std::task::{Context, Poll, Waker};
    st.eval();
    const MAX: usize = 512 * 1024;
    let over = i % 2 == 1;
    let enc_len = if over { MAX + 1 } else { MAX };
    let v = ByteVec::from(vec![0x5au8; enc_len - 5]); // 5a + 4 length bytes + payload
    let enc = minicbor::to_vec(&v).map_err(|e| vcore::Fail::new("encode", e.to_string()))?;
    if enc.len() != enc_len { return Err(vcore::Fail::new("harness-bug", format!("encoding is {} bytes, wanted {}", enc.len(), enc_len))) }
    let mut frame = (enc_len as u32).to_be_bytes().to_vec();
    frame.extend_from_slice(&enc);
    // minimal always-ready transports
    struct Src(Vec<u8>, usize);
    impl futures_io::AsyncRead for Src { fn poll_read(mut self: std::pin::Pin<&mut Self>, _: &mut Context<'_>, b: &mut [u8]) -> Poll<std::io::Result<usize>> { let n = b.len().min(self.0.len() - self.1); let p = self.1; b[.. n].copy_from_slice(&self.0[p .. p + n]); self.1 += n; Poll::Ready(Ok(n)) } }
    struct Snk(Vec<u8>);
    impl futures_io::AsyncWrite for Snk {
        fn poll_write(mut self: std::pin::Pin<&mut Self>, _: &mut Context<'_>, b: &[u8]) -> Poll<std::io::Result<usize>> { self.0.extend_from_slice(b); Poll::Ready(Ok(b.len())) }
        fn poll_flush(self: std::pin::Pin<&mut Self>, _: &mut Context<'_>) -> Poll<std::io::Result<()>> { Poll::Ready(Ok(())) }
        fn poll_close(self: std::pin::Pin<&mut Self>, _: &mut Context<'_>) -> Poll<std::io::Result<()>> { Poll::Ready(Ok(())) }
    }
    fn block<F: Future>(f: F) -> F::Output { let mut f = Box::pin(f); let mut cx = Context::from_waker(Waker::noop()); loop { if let Poll::Ready(x) = f.as_mut().poll(&mut cx) { return x } } }
    let want = |what: &str, ok: bool, invalid_len: bool| -> CaseResult {
        if over { if !invalid_len { return Err(vcore::Fail::new("default-max-len", format!("{}: a frame of 512 KiB + 1 byte was not refused with InvalidLen by the default maximum", what))) } }
        else if !ok { return Err(vcore::Fail::new("default-max-len", format!("{}: a frame of exactly 512 KiB was refused by the default maximum", what))) }
        Ok(())
    };
    match (i / 2) % 4 {
        0 => { let mut w = Writer::new(Vec::new()); let r = w.write(&v); want("Writer", matches!(r, Ok(n) if n == enc_len), matches!(r, Err(Error::InvalidLen)))?; if over && !w.writer().is_empty() { return Err(vcore::Fail::new("writer-emitted-oversize", format!("the default writer emitted {} bytes of an over-long frame", w.writer().len()))) } if !over && w.writer() != &frame { return Err(vcore::Fail::new("writer-bytes", "frame bytes differ".to_string())) } }
        1 => { let mut r = Reader::new(&frame[..]); let x = r.read::<ByteVec>(); want("Reader", matches!(&x, Ok(Some(b)) if b.len() == enc_len - 5), matches!(x, Err(Error::InvalidLen)))? }
        2 => { let mut w = AsyncWriter::new(Snk(Vec::new())); let r = block(w.write(&v)); want("AsyncWriter", matches!(r, Ok(n) if n == enc_len), matches!(r, Err(Error::InvalidLen)))?; let (snk, _) = w.into_parts(); if over && !snk.0.is_empty() { return Err(vcore::Fail::new("writer-emitted-oversize", format!("the default async writer emitted {} bytes of an over-long frame", snk.0.len()))) } if !over && snk.0 != frame { return Err(vcore::Fail::new("writer-bytes", "frame bytes differ".to_string())) } }
        _ => { let mut r = AsyncReader::new(Src(frame.clone(), 0)); let x = block(r.read::<ByteVec>()); want("AsyncReader", matches!(&x, Ok(Some(b)) if b.len() == enc_len - 5), matches!(x, Err(Error::InvalidLen)))? }
    }
    st.nontrivial_enum(1);
    st.class(if over { "default-max-len/one byte over" } else { "default-max-len/exactly 512 KiB" });
    Ok(())
}

fn subs() -> Vec<Sub> {
    let mut v = blocking::subs();
    v.push(Sub { prop: "C14", name: "raw-stream", rule: "random byte streams into a reader with max_len 16: never an allocation sized by the prefix (also the replay entry for abnormal exits)",
                 kind: Kind::Random { quick: 100_000, thorough: 500_000, tape: 64, f: raw_stream } });
    for p in ["C14", "C15", "C16"] {
        v.push(Sub { prop: p, name: "default-max-len", rule: "the documented default maximum of 512 KiB on Writer, Reader, AsyncWriter and AsyncReader: a frame of exactly 512 KiB passes, 512 KiB + 1 is refused with InvalidLen and nothing is emitted",
                     kind: Kind::Enumerate { quick: 8, thorough: 8, f: default_max_len, complete_quick: true, complete_thorough: true } });
    }
    v.extend(aread::subs());
    v.extend(awrite::subs());
    v.extend(framed::subs());
    v
}

fn assumptions(p: &str) -> Vec<String> {
    match p {
        "C04F" => vec!["typed decoding through the frame readers: the value types are u64, String, ByteVec and a derived 4-field struct; the source is always ready (fragmentation and scheduling are C14/C15's business)".into()],
        "C14" => vec!["the scripted io::Read honours the std contract (returns <= buf.len(), Ok(0) only at end of data)".into(), "reader allocation bound: 3*len + 4 KiB for an accepted frame (Vec growth + decoded value), 4 KiB for a refused one".into()],
        "C15" | "C16" => vec![
            "futures are polled by hand with a no-op waker; the transports' outcomes and the caller's keep-polling/drop decisions are the schedule (generated)".into(),
            "exhaustive exploration is bounded by consecutive Pendings, injected faults and drops as stated per sub-check; beyond that: random walks".into(),
            "futures_util's read/write adaptors are thin wrappers over poll_read/poll_write".into()],
        _ => vec![]
    }
}

fn main() { total::supervise("raw-stream", || vcore::engine::main(subs(), &assumptions)) }
