//! C14 C15 C16 — framed I/O under fragmentation, faults and scripted async schedules.

mod vals;
mod sched;
mod blocking;
mod aread;
mod awrite;

use g_codec::total;
use vcore::engine::{CaseResult, Kind, Stats, Sub};
use vcore::Gen;

#[global_allocator]
static ALLOC: total::Counting = total::Counting;

/// Replay entry for abnormal child exits (oversize allocation while reading a frame): first tape byte is
/// ignored, the rest is a raw stream handed to the blocking reader with max_len 16.
fn raw_stream(g: &mut Gen, st: &mut Stats) -> CaseResult {
    st.eval();
    let _ = g.byte();
    let stream = g.rest().to_vec();
    let mut r = minicbor_io::Reader::new(&stream[..]);
    r.set_max_len(16);
    total::set_case("Reader::read(raw stream)", &stream);
    for _ in 0 .. 8 { if !matches!(r.read::<u64>(), Ok(Some(_))) { break } }
    total::clear_case();
    st.nontrivial(vcore::engine::hash_of(&stream));
    Ok(())
}

fn subs() -> Vec<Sub> {
    let mut v = blocking::subs();
    v.push(Sub { prop: "C14", name: "raw-stream", rule: "random byte streams into a reader with max_len 16: never an allocation sized by the prefix (also the replay entry for abnormal exits)",
                 kind: Kind::Random { quick: 100_000, thorough: 500_000, tape: 64, f: raw_stream } });
    v.extend(aread::subs());
    v.extend(awrite::subs());
    v
}

fn assumptions(p: &str) -> Vec<String> {
    match p {
        "C14" => vec!["the scripted io::Read honours the std contract (returns <= buf.len(), Ok(0) only at end of data)".into(), "reader allocation bound: 3*len + 4 KiB for an accepted frame (Vec growth + decoded value), 4 KiB for a refused one".into()],
        "C15" | "C16" => vec![
            "futures are polled by hand with a no-op waker; the transports' outcomes and the caller's keep-polling/drop decisions are the schedule (generated)".into(),
            "exhaustive exploration is bounded by consecutive Pendings, injected faults and drops as stated per sub-check; beyond that: random walks".into(),
            "futures_util's read/write adaptors are thin wrappers over poll_read/poll_write".into()],
        _ => vec![]
    }
}

fn main() { total::supervise("raw-stream", || vcore::engine::main(subs(), &assumptions)) }
