//! C16 — AsyncWriter delivers whole frames in order under short writes and cancel+sync.

use crate::sched::{amounts, amounts_small, dfs, split_count, split_prefix, Shared, TapeChooser};
use crate::vals::{FailAfter, Rec, Val};
use futures_io::AsyncWrite;
use g_codec::util::short_hex;
use minicbor_io::{AsyncWriter, Error};
use std::cell::RefCell;
use std::future::Future;
use std::io;
use std::pin::Pin;
use std::rc::Rc;
use std::task::{Context, Poll, Waker};
use vcore::engine::{hash_of, CaseResult, Fail, Kind as SubKind, Stats, Sub};
use vcore::Gen;

#[derive(Clone, Copy)]
pub struct Bounds { pub pending_run: usize, pub pending_total: usize, pub errors: usize, pub zeros: usize, pub drops: usize, pub small: bool }

#[derive(Default)]
pub struct SinkState { pub received: Vec<u8>, pub calls: usize, pub pend_run: usize, pub errors: usize, pub zeros: usize, pub pendings: usize, pub partials: usize, pub log: Vec<String> }

pub struct ScriptSink { st: Rc<RefCell<SinkState>>, ch: Shared, b: Bounds }

impl AsyncWrite for ScriptSink {
    fn poll_write(self: Pin<&mut Self>, cx: &mut Context<'_>, buf: &[u8]) -> Poll<io::Result<usize>> {
        let this = self.get_mut();
        let mut s = this.st.borrow_mut();
        s.calls += 1;
        let accept: Vec<usize> = if buf.is_empty() { vec![0] } else { let mut a = if this.b.small { amounts_small(buf.len()) } else { amounts(buf.len()) }; a.reverse(); a }; // first alternative: everything
        let can_pend = s.pend_run < this.b.pending_run && s.pendings < this.b.pending_total;
        let can_err = s.errors < this.b.errors;
        let can_zero = s.zeros < this.b.zeros && !buf.is_empty();
        let n = accept.len() + can_pend as usize + can_err as usize + can_zero as usize;
        let c = this.ch.borrow_mut().choose(n);
        if c < accept.len() {
            let k = accept[c];
            s.received.extend_from_slice(&buf[.. k]);
            s.pend_run = 0;
            if k < buf.len() { s.partials += 1 }
            if s.log.len() < 64 { s.log.push(format!("accept{}/{}", k, buf.len())) }
            return Poll::Ready(Ok(k))
        }
        let mut c = c - accept.len();
        if can_pend { if c == 0 { s.pend_run += 1; s.pendings += 1; if s.log.len() < 64 { s.log.push("pending".into()) } cx.waker().wake_by_ref(); return Poll::Pending } c -= 1 }
        if can_err { if c == 0 { s.errors += 1; s.pend_run = 0; if s.log.len() < 64 { s.log.push("error".into()) } return Poll::Ready(Err(crate::sched::transient_error())) } c -= 1 }
        let _ = c;
        s.zeros += 1;
        s.pend_run = 0;
        if s.log.len() < 64 { s.log.push("accept0".into()) }
        Poll::Ready(Ok(0))
    }
    fn poll_flush(self: Pin<&mut Self>, _: &mut Context<'_>) -> Poll<io::Result<()>> { Poll::Ready(Ok(())) }
    fn poll_close(self: Pin<&mut Self>, _: &mut Context<'_>) -> Poll<io::Result<()>> { Poll::Ready(Ok(())) }
}

#[derive(Clone, Debug)]
pub enum Item { V(Val), Failing(usize), TooLong(usize) }

enum Done { Completed(Result<usize, Error>), Dropped }

fn poll_write_call(w: &mut AsyncWriter<ScriptSink>, it: &Item, ch: &Shared, drops_left: &mut usize, st: &Rc<RefCell<SinkState>>) -> Done {
    let mut cx = Context::from_waker(Waker::noop());
    macro_rules! drive { ($fut:expr) => {{
        let mut fut = Box::pin($fut);
        loop {
            let pendings_before = st.borrow().pendings;
            match fut.as_mut().poll(&mut cx) {
                Poll::Ready(r) => return Done::Completed(r),
                Poll::Pending => {
                    // a Pending the sink did not cause: the caller may drop the future there as well (see aread.rs)
                    if st.borrow().pendings == pendings_before && crate::sched::spontaneous_drop() {
                        { let mut s = st.borrow_mut(); if s.log.len() < 64 { s.log.push("DROP-write(at a Pending of the writer's own)".into()) } }
                        return Done::Dropped
                    }
                    if *drops_left > 0 && ch.borrow_mut().choose(2) == 1 {
                        *drops_left -= 1;
                        { let mut s = st.borrow_mut(); if s.log.len() < 64 { s.log.push("DROP-write".into()) } }
                        return Done::Dropped
                    }
                }
            }
        }
    }}}
    match it {
        Item::V(Val::U(x)) => drive!(w.write(x)),
        Item::V(Val::S(x)) => drive!(w.write(x)),
        Item::V(Val::B(x)) => drive!(w.write(minicbor::bytes::ByteVec::from(x.clone()))),
        Item::V(Val::R(x)) => drive!(w.write(x)),
        Item::Failing(n) => drive!(w.write(FailAfter(*n))),
        Item::TooLong(n) => drive!(w.write("y".repeat(*n)))
    }
}

/// Drive `sync()` — itself droppable and re-issued — until it returns Ok. Returns the errors it surfaced.
fn sync_to_completion(w: &mut AsyncWriter<ScriptSink>, ch: &Shared, drops_left: &mut usize, st: &Rc<RefCell<SinkState>>) -> Result<Vec<Error>, Fail> {
    let mut cx = Context::from_waker(Waker::noop());
    let mut errs = Vec::new();
    let mut guard = 0;
    'outer: loop {
        guard += 1;
        if guard > 100_000 { return Err(Fail::new("sync-does-not-finish", "sync() did not complete".to_string())) }
        let mut fut = Box::pin(w.sync());
        loop {
            let pendings_before = st.borrow().pendings;
            match fut.as_mut().poll(&mut cx) {
                Poll::Ready(Ok(())) => return Ok(errs),
                Poll::Ready(Err(e)) => { errs.push(e); continue 'outer }
                Poll::Pending => {
                    if st.borrow().pendings == pendings_before && crate::sched::spontaneous_drop() {
                        { let mut s = st.borrow_mut(); if s.log.len() < 64 { s.log.push("DROP-sync(at a Pending of the writer's own)".into()) } }
                        continue 'outer
                    }
                    if *drops_left > 0 && ch.borrow_mut().choose(2) == 1 {
                        *drops_left -= 1;
                        { let mut s = st.borrow_mut(); if s.log.len() < 64 { s.log.push("DROP-sync".into()) } }
                        continue 'outer
                    }
                }
            }
        }
    }
}

pub struct RunInfo { pub cancelled_writes: usize, pub partials: usize, pub pendings: usize, pub errors: usize, pub zeros: usize }

/// `idle_syncs[i]`: call `sync()` once more after item `i` is settled (it must not touch the sink). The statement demands a
/// sync only after a dropped write, so histories without these extra calls are just as legitimate - and an extra sync can
/// repair state that a write left behind, which is why both forms are generated.
fn run_schedule(items: &[Item], max_len: u32, ch: Shared, b: Bounds, idle_syncs: &[bool]) -> Result<RunInfo, Fail> {
    let st = Rc::new(RefCell::new(SinkState::default()));
    let sink = ScriptSink { st: st.clone(), ch: ch.clone(), b };
    crate::sched::reset_spontaneous();
    let mut w = match crate::sched::take_prebuf() { Some(b) => AsyncWriter::with_buffer(sink, b), None => AsyncWriter::new(sink) };
    w.set_max_len(max_len);
    let mut drops_left = b.drops;
    let mut expected: Vec<u8> = Vec::new();
    let mut cancelled = 0;
    let describe = |st: &Rc<RefCell<SinkState>>| -> String { format!("schedule [{}]", st.borrow().log.join(" ")) };
    // a sync before anything was written (the cancel-safe calling pattern starts every write with one): the writer is idle,
    // whatever buffer it was constructed with
    if crate::sched::take_first_sync() {
        let errs = sync_to_completion(&mut w, &ch, &mut drops_left, &st)?;
        if !errs.is_empty() || st.borrow().calls != 0 { return Err(Fail::new("idle-sync-writes", format!("sync() on a freshly constructed writer called the sink (received {}); {}", short_hex(&st.borrow().received), describe(&st)))) }
    }
    for (i, it) in items.iter().enumerate() {
        let zeros_before = st.borrow().zeros;
        let errors_before = st.borrow().errors;
        let received_before = st.borrow().received.len();
        let outcome = poll_write_call(&mut w, it, &ch, &mut drops_left, &st);
        match it {
            Item::Failing(_) | Item::TooLong(_) => {
                match outcome {
                    Done::Completed(Err(Error::Encode(_))) if matches!(it, Item::Failing(_)) => {}
                    Done::Completed(Err(Error::InvalidLen)) if matches!(it, Item::TooLong(_)) => {}
                    Done::Completed(r) => return Err(Fail::new("bad-value-result", format!("item {} ({:?}) completed with {:?}; {}", i, it, r.map_err(|e| e.to_string()), describe(&st)))),
                    Done::Dropped => return Err(Fail::new("bad-value-pending", format!("item {} ({:?}) returned Pending although nothing may be written; {}", i, it, describe(&st))))
                }
                if st.borrow().received.len() != received_before { return Err(Fail::new("bad-value-emitted", format!("item {} ({:?}) put {} bytes into the sink; {}", i, it, st.borrow().received.len() - received_before, describe(&st)))) }
                // nothing is pending here: the next write may follow at once, or after a sync that has nothing to do
                if !idle_syncs.get(i).copied().unwrap_or(true) { continue }
                let calls = st.borrow().calls;
                let errs = sync_to_completion(&mut w, &ch, &mut drops_left, &st)?;
                if !errs.is_empty() || st.borrow().calls != calls { return Err(Fail::new("idle-sync-writes", format!("sync() after a refused value touched the sink; {}", describe(&st)))) }
                continue
            }
            Item::V(v) => {
                let frame = v.frame();
                expected.extend_from_slice(&frame);
                let mut surfaced: Vec<Error> = Vec::new();
                match outcome {
                    Done::Completed(Ok(n)) => {
                        if n != frame.len() - 4 { return Err(Fail::new("write-return", format!("write of item {} returned {} for a {}-byte payload; {}", i, n, frame.len() - 4, describe(&st)))) }
                    }
                    Done::Completed(Err(e)) => { surfaced.push(e); surfaced.extend(sync_to_completion(&mut w, &ch, &mut drops_left, &st)?) }
                    Done::Dropped => { cancelled += 1; surfaced.extend(sync_to_completion(&mut w, &ch, &mut drops_left, &st)?) }
                }
                // every injected fault surfaces exactly once, with the documented kind
                let zeros = st.borrow().zeros - zeros_before;
                let errors = st.borrow().errors - errors_before;
                let got_zero = surfaced.iter().filter(|e| matches!(e, Error::Io(x) if x.kind() == io::ErrorKind::WriteZero && !crate::sched::is_transient(x))).count();
                let got_err = surfaced.iter().filter(|e| matches!(e, Error::Io(x) if crate::sched::is_transient(x))).count();
                if got_zero != zeros { return Err(Fail::new("write-zero", format!("the sink accepted 0 bytes {} times but {} WriteZero errors surfaced; {}", zeros, got_zero, describe(&st)))) }
                if got_err != errors { return Err(Fail::new("error-count", format!("{} transient errors injected, {} surfaced; {}", errors, got_err, describe(&st)))) }
                if surfaced.len() != got_zero + got_err { return Err(Fail::new("unexpected-error", format!("unexpected errors {:?}; {}", surfaced.iter().map(|e| e.to_string()).collect::<Vec<_>>(), describe(&st)))) }
                // frame complete: the sink holds exactly the frames so far
                if st.borrow().received != expected {
                    let s = st.borrow();
                    return Err(Fail::new("sink-bytes", format!("after item {} the sink holds {} ; the complete frames so far are {} ; {}", i, short_hex(&s.received), short_hex(&expected), format!("schedule [{}]", s.log.join(" ")))))
                }
                // sync on an idle writer performs no sink call
                if !idle_syncs.get(i).copied().unwrap_or(true) { continue }
                let calls = st.borrow().calls;
                let errs = sync_to_completion(&mut w, &ch, &mut drops_left, &st)?;
                if !errs.is_empty() || st.borrow().calls != calls { return Err(Fail::new("idle-sync-writes", format!("sync() on an idle writer called the sink; {}", describe(&st)))) }
            }
        }
    }
    let s = st.borrow();
    if s.received != expected { return Err(Fail::new("sink-bytes", format!("final sink content {} differs from the concatenated frames {}", short_hex(&s.received), short_hex(&expected)))) }
    Ok(RunInfo { cancelled_writes: cancelled, partials: s.partials, pendings: s.pendings, errors: s.errors, zeros: s.zeros })
}

/// (values, max_len, which items are followed by an extra idle sync)
fn dfs_items() -> Vec<(Vec<Item>, u32, Vec<bool>)> {
    let big = 512 * 1024;
    vec![
        (vec![Item::V(Val::U(7))], big, vec![true]),
        (vec![Item::V(Val::U(7)), Item::V(Val::U(300))], big, vec![true, true]),
        (vec![Item::V(Val::S("ab".into()))], big, vec![true]),
        (vec![Item::Failing(2), Item::V(Val::U(1))], big, vec![true, true]),
        (vec![Item::V(Val::U(9)), Item::TooLong(20), Item::V(Val::B(vec![1]))], 8, vec![true, true, true]),
        (vec![Item::V(Val::R(Rec { a: 1, s: "x".into(), o: None, v: vec![] }))], big, vec![true]),
        // a refused value straight after a completed write (no sync in between), then a sync; a refusal followed at once by a write
        (vec![Item::V(Val::U(9)), Item::TooLong(20)], 8, vec![false, true]),
        (vec![Item::V(Val::U(300)), Item::Failing(3)], big, vec![false, true]),
        (vec![Item::TooLong(20), Item::V(Val::B(vec![1]))], 8, vec![false, true]),
        (vec![Item::V(Val::U(7)), Item::V(Val::U(300))], big, vec![false, true]),
    ]
}

fn exhaustive(i: u64, st: &mut Stats, b: Bounds, cap: u64) -> CaseResult {
    let all = dfs_items();
    let (items, max_len, idle) = &all[(i as usize / split_count()) % all.len()];
    let fixed = split_prefix(i as usize % split_count());
    crate::sched::set_err_kind(crate::sched::ERR_KINDS[[0usize, 5, 2][(i as usize / split_count()) % 3]]);
    let mut nontrivial = 0u64;
    let (count, done) = dfs(&fixed, cap, |ch| {
        crate::sched::set_first_sync(idle.first().copied().unwrap_or(false));
        let info = run_schedule(items, *max_len, ch, b, idle)?;
        if info.cancelled_writes > 0 || info.partials > 0 { nontrivial += 1 }
        Ok(())
    })?;
    if count == 0 { return Ok(()) }
    st.evals(count);
    st.nontrivial_enum(nontrivial);
    if !done { st.mark_incomplete(); st.class("dfs/subtree-capped") } else { st.class("dfs/subtree-exhausted") }
    st.sample(i, || format!("items {:?} (extra idle syncs {:?}), first choices {:?}: {} schedules, {} with a short write or a cancelled write{}", items, idle, fixed, count, nontrivial, if done { "" } else { " (capped)" }));
    Ok(())
}

fn exhaustive_quick(i: u64, st: &mut Stats) -> CaseResult { exhaustive(i, st, Bounds { pending_run: 2, pending_total: 2, errors: 1, zeros: 1, drops: 2, small: true }, 3_000_000) }
fn exhaustive_thorough(i: u64, st: &mut Stats) -> CaseResult { exhaustive(i, st, Bounds { pending_run: 2, pending_total: 4, errors: 1, zeros: 1, drops: 3, small: false }, 50_000_000) }

fn random_walk(g: &mut Gen, st: &mut Stats) -> CaseResult {
    st.eval();
    let n = match g.below(50) { 0 => 40, 1 ..= 5 => 5 + g.below(8), _ => 1 + g.below(4) };
    // (limits at the very top of the u32 range: arithmetic on max_len must not wrap)
    let max_len: u32 = match g.below(20) { 0 => u32::MAX, 1 => u32::MAX - 3, 2 => u32::MAX - 4, 3 ..= 7 => 64, _ => 512 * 1024 };
    let items: Vec<Item> = (0 .. n).map(|_| match g.below(10) {
        0 => Item::Failing(g.below(6)),
        1 if max_len <= 1 << 20 => Item::TooLong(max_len as usize + 1 + g.below(10)),
        2 ..= 5 => Item::V(Val::small(g)),
        _ => { let v = if n > 12 { Val::small(g) } else { Val::any(g) }; if v.encoded().len() > max_len as usize { Item::V(Val::small(g)) } else { Item::V(v) } }
    }).collect();
    let b = Bounds { pending_run: 1 + g.below(4), pending_total: usize::MAX, errors: g.below(4), zeros: g.below(3), drops: g.below(12), small: false };
    let ch: Shared = Rc::new(RefCell::new(TapeChooser::draw(g, 400)));
    let idle: Vec<bool> = (0 .. n).map(|_| g.bool()).collect();
    let ctor = crate::sched::draw_prebuf(g);
    st.class(&format!("walk/AsyncWriter::{}", ctor));
    let kind = *g.pick(&crate::sched::ERR_KINDS);
    crate::sched::set_err_kind(kind);
    let first_sync = g.bool();
    crate::sched::set_first_sync(first_sync);
    if first_sync { st.class("walk/sync before the first write") }
    let info = run_schedule(&items, max_len, ch, b, &idle)?;
    if info.cancelled_writes > 0 || info.partials > 0 { st.nontrivial(hash_of(&(format!("{:?}", items).len(), info.partials, info.pendings, info.cancelled_writes, info.errors, info.zeros))) }
    st.class(if info.cancelled_writes > 0 { "walk/cancelled-write-resumed-by-sync" } else if info.partials > 0 { "walk/short-writes" } else { "walk/straight" });
    if info.zeros > 0 { st.class("walk/accept-0") }
    if info.errors > 0 { st.class("walk/transient-error") }
    if n > 4 { st.class("walk/5-40 values on one writer") }
    if max_len > u32::MAX - 8 { st.class("walk/max_len within 4 of u32::MAX") }
    if items.windows(2).zip(idle.iter()).any(|(w, s)| !*s && matches!(w[0], Item::V(_)) && !matches!(w[1], Item::V(_))) { st.class("walk/refused-value-straight-after-a-write") }
    Ok(())
}

pub fn subs() -> Vec<Sub> {
    let n = (dfs_items().len() * split_count()) as u64;
    vec![
        Sub { prop: "C16", name: "exhaustive", rule: "10 value lists (1-3 values incl. one whose Encode fails after emitting bytes and one above max_len; with and without an extra sync() between the calls) x every schedule of sink outcomes {accept k of n, Pending, transient error, accept 0} and caller decisions {poll again, drop the write future then drive sync (itself droppable) to completion} within the bounds (quick: <= 2 Pendings in total, 1 error, 1 accept-0, 2 drops, acceptances of all / half / 1 byte), depth-first by re-execution; oracle: sink == concatenation of complete frames in order after every value, completed write returns the payload length, each fault surfaces exactly once (accept 0 -> WriteZero), refused values emit nothing, sync on an idle writer makes no sink call; non-trivial = a short write or a cancelled write",
              kind: SubKind::Enumerate { quick: n, thorough: n, f: exhaustive_quick, complete_quick: true, complete_thorough: false } },
        Sub { prop: "C16", name: "exhaustive-deeper", rule: "the same value lists with <= 4 Pendings in total, 3 drops and the full acceptance spread (thorough; capped at 5*10^7 schedules per subtree)",
              kind: SubKind::Enumerate { quick: 0, thorough: n, f: exhaustive_thorough, complete_quick: false, complete_thorough: true } },
        Sub { prop: "C16", name: "random-walks", rule: "1-4 generated values, in 12 % of the walks 5-40 (payloads up to 70 KB, failing and over-long values mixed in), schedule drawn from the tape with up to 4 consecutive Pendings, 3 errors, 2 accept-0 and 11 drops",
              kind: SubKind::Random { quick: 300_000, thorough: 3_000_000, tape: 2048, f: random_walk } },
    ]
}
