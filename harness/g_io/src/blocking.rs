//! C14 — blocking framed I/O under fragmentation and faults.

use crate::vals::{Keyed, Kind, Rec, Seq, Val};
use g_codec::total::{mem_mark, mem_peak_since, set_case, clear_case};
use g_codec::util::short_hex;
use minicbor_io::{Error, Reader, Writer};
use std::io::{self, Read};
use vcore::engine::{hash_of, CaseResult, Kind as SubKind, Stats, Sub};
use vcore::{ensure, fail, Gen};

#[derive(Clone, Debug)]
pub enum Step { Piece(usize), Interrupted, Fail }

/// `io::Read` that delivers `data` in the pieces / faults of `script`; afterwards everything that is asked for.
pub struct ScriptRead<'a> { data: &'a [u8], pos: usize, script: &'a [Step], si: usize, piece: usize, pub calls: usize }

impl<'a> ScriptRead<'a> {
    pub fn new(data: &'a [u8], script: &'a [Step]) -> Self { ScriptRead { data, pos: 0, script, si: 0, piece: 0, calls: 0 } }
    pub fn consumed(&self) -> usize { self.pos }
}

impl Read for ScriptRead<'_> {
    fn read(&mut self, buf: &mut [u8]) -> io::Result<usize> {
        self.calls += 1;
        if buf.is_empty() { return Ok(0) }
        if self.piece == 0 {
            match self.script.get(self.si) {
                Some(Step::Piece(k)) => { self.si += 1; self.piece = (*k).max(1) }
                Some(Step::Interrupted) => { self.si += 1; return Err(io::ErrorKind::Interrupted.into()) }
                Some(Step::Fail) => { self.si += 1; return Err(io::Error::new(io::ErrorKind::ConnectionReset, "scripted failure")) }
                None => self.piece = usize::MAX
            }
        }
        let n = self.piece.min(buf.len()).min(self.data.len() - self.pos);
        buf[.. n].copy_from_slice(&self.data[self.pos .. self.pos + n]);
        self.pos += n;
        if self.piece != usize::MAX { self.piece -= n }
        if n == 0 { self.piece = 0 }
        Ok(n)
    }
    /// Native scatter read (sockets, files): the same scripted delivery, filling the buffers in order - it may end anywhere,
    /// also inside a later buffer. (std's default would only ever touch the first non-empty buffer.)
    fn read_vectored(&mut self, bufs: &mut [io::IoSliceMut<'_>]) -> io::Result<usize> {
        let total: usize = bufs.iter().map(|b| b.len()).sum();
        let mut tmp = vec![0u8; total];
        let n = self.read(&mut tmp)?;
        let mut at = 0;
        for b in bufs.iter_mut() { if at >= n { break } let k = b.len().min(n - at); b[.. k].copy_from_slice(&tmp[at .. at + k]); at += k }
        Ok(n)
    }
}

fn read_one<R: Read>(r: &mut Reader<R>, k: Kind) -> Result<Option<Val>, Error> {
    Ok(match k {
        Kind::U => r.read::<u64>()?.map(Val::U),
        Kind::S => r.read::<String>()?.map(Val::S),
        Kind::B => r.read::<minicbor::bytes::ByteVec>()?.map(|b| Val::B(b.into())),
        Kind::R => r.read::<Rec>()?.map(Val::R)
    })
}

fn stream_of(vals: &[Val]) -> Vec<u8> { let mut s = Vec::new(); for v in vals { s.extend_from_slice(&v.frame()) } s }

/// Read back `vals` from `stream` under `script`: exactly the written values, then a clean end.
fn expect_all(vals: &[Val], stream: &[u8], script: &[Step], what: &str) -> CaseResult {
    let src = ScriptRead::new(stream, script);
    let mut r = Reader::new(src);
    for (i, v) in vals.iter().enumerate() {
        match read_one(&mut r, v.kind()) {
            Ok(Some(got)) => ensure!(&got == v, "wrong-value", "{}: frame {} read back as {:?}, written {:?} (script {:?})", what, i, got, v, script),
            Ok(None) => fail!("early-end", "{}: clean end reported before frame {} of {} (script {:?})", what, i, vals.len(), script),
            Err(e) => fail!("read-error", "{}: frame {} failed with {} (script {:?}, stream {})", what, i, e, script, short_hex(stream))
        }
    }
    match read_one(&mut r, Kind::U) {
        Ok(None) => {}
        Ok(Some(x)) => fail!("phantom-frame", "{}: an extra value {:?} after the last frame", what, x),
        Err(e) => fail!("end-error", "{}: end of stream reported as error {}", what, e)
    }
    ensure!(r.reader().consumed() == stream.len(), "bytes-unaccounted", "{}: {} of {} bytes consumed", what, r.reader().consumed(), stream.len());
    Ok(())
}

fn small_streams() -> Vec<Vec<Val>> {
    vec![
        vec![],
        vec![Val::U(7)],
        vec![Val::B(vec![])],
        vec![Val::U(7), Val::U(300)],
        vec![Val::S("ab".into()), Val::U(1)],
        vec![Val::U(24), Val::S(String::new())],
        vec![Val::S("h\u{e9}llo".into())],
        vec![Val::U(1), Val::U(2), Val::U(3)],
        vec![Val::R(Rec { a: 1, s: "x".into(), o: None, v: vec![] }), Val::U(9)],
        vec![Val::U(70000), Val::B(vec![1, 2, 3])],
    ]
}

/// Index space: (stream, composition of its length). Streams longer than `max_len` bytes are left out.
fn composition_space(max_len: usize) -> Vec<(usize, u64)> {
    let mut v = Vec::new();
    for (i, s) in small_streams().iter().enumerate() {
        let n = stream_of(s).len();
        if n > max_len { continue }
        v.push((i, if n == 0 { 1 } else { 1u64 << (n - 1) }));
    }
    v
}

fn compositions(i: u64, max_len: usize, st: &mut Stats) -> CaseResult {
    st.eval();
    let space = composition_space(max_len);
    let mut rest = i;
    let mut pick = None;
    for (si, cnt) in &space { if rest < *cnt { pick = Some((*si, rest)); break } rest -= cnt }
    let (si, bits) = match pick { Some(p) => p, None => return Ok(()) };
    let vals = &small_streams()[si];
    let stream = stream_of(vals);
    // bit j set = cut after byte j
    let mut script = Vec::new();
    let mut run = 1usize;
    for j in 0 .. stream.len().saturating_sub(1) { if bits >> j & 1 == 1 { script.push(Step::Piece(run)); run = 1 } else { run += 1 } }
    if !stream.is_empty() { script.push(Step::Piece(run)) }
    expect_all(vals, &stream, &script, "composition")?;
    if script.len() >= 2 { st.nontrivial_enum(1) }
    if i % 4099 == 0 { st.sample(i, || format!("stream {} delivered in pieces {:?}", short_hex(&stream), script.iter().map(|s| match s { Step::Piece(k) => *k, _ => 0 }).collect::<Vec<_>>())) }
    Ok(())
}

fn compositions14(i: u64, st: &mut Stats) -> CaseResult { compositions(i, 14, st) }
fn compositions20(i: u64, st: &mut Stats) -> CaseResult { compositions(i, 20, st) }

fn space_size(max_len: usize) -> u64 { composition_space(max_len).iter().map(|(_, c)| *c).sum() }

fn gen_script(g: &mut Gen, len: usize, with_interrupts: bool) -> Vec<Step> {
    let mut s = Vec::new();
    let mut left = len;
    let mode = g.below(4);
    while left > 0 && s.len() < 4000 {
        if with_interrupts && g.chance(40) { s.push(Step::Interrupted); continue }
        let k = match mode { 0 => 1, 1 => 1 + g.below(4), 2 => 1 + g.below(left.min(64)), _ => 1 + g.below(left) };
        let k = k.min(left);
        s.push(Step::Piece(k));
        left -= k;
    }
    if with_interrupts && g.chance(60) { s.push(Step::Interrupted) }
    s
}

fn fragmentation(g: &mut Gen, st: &mut Stats) -> CaseResult {
    st.eval();
    let n = g.below(6);
    let vals: Vec<Val> = (0 .. n).map(|_| Val::any(g)).collect();
    let stream = stream_of(&vals);
    let script = gen_script(g, stream.len(), true);
    expect_all(&vals, &stream, &script, "fragmentation")?;
    let ints = script.iter().filter(|s| matches!(s, Step::Interrupted)).count();
    st.class(if ints > 0 { "fragmented/with-interrupts" } else { "fragmented" });
    if script.len() >= 2 { st.nontrivial(hash_of(&(&stream[.. stream.len().min(64)], stream.len(), script.len(), ints))) }
    st.sample(hash_of(&stream), || format!("{} frames, {} bytes, {} reads, {} interrupts", vals.len(), stream.len(), script.len(), ints));
    Ok(())
}

fn truncation(g: &mut Gen, st: &mut Stats) -> CaseResult {
    let n = 1 + g.below(4);
    let vals: Vec<Val> = (0 .. n).map(|_| Val::small(g)).collect();
    let stream = stream_of(&vals);
    let mut boundaries = vec![0usize];
    for v in &vals { boundaries.push(boundaries.last().unwrap() + v.frame().len()) }
    // every truncation point
    for cut in 0 ..= stream.len() {
        st.eval();
        let data = &stream[.. cut];
        let ints = g.bool();
        let script = gen_script(g, cut, ints);
        let mut r = Reader::new(ScriptRead::new(data, &script));
        let complete = boundaries.iter().filter(|b| **b <= cut).count() - 1;
        for (i, v) in vals.iter().take(complete).enumerate() {
            match read_one(&mut r, v.kind()) { Ok(Some(got)) => ensure!(&got == v, "wrong-value", "cut {}: frame {} read back as {:?}, written {:?}", cut, i, got, v), other => fail!("read-error", "cut {}: complete frame {} gave {:?}", cut, i, other.map(|_| ()).map_err(|e| e.to_string())) }
        }
        let on_boundary = boundaries.contains(&cut);
        let k = vals.get(complete).map(|v| v.kind()).unwrap_or(Kind::U);
        match read_one(&mut r, k) {
            Ok(None) => ensure!(on_boundary, "truncation-as-clean-end", "stream cut at {} (inside frame {}) reported a clean end; stream {}", cut, complete, short_hex(&stream)),
            Ok(Some(x)) => fail!("value-from-truncated-frame", "stream cut at {} produced the value {:?} from an incomplete frame", cut, x),
            Err(Error::Io(e)) if e.kind() == io::ErrorKind::UnexpectedEof => ensure!(!on_boundary, "boundary-as-error", "stream cut on the frame boundary {} reported UnexpectedEof", cut),
            Err(e) => fail!("wrong-error", "stream cut at {}: expected UnexpectedEof, got {}", cut, e)
        }
        st.class(if on_boundary { "cut/on-boundary" } else if cut - boundaries[complete] < 4 { "cut/inside-prefix" } else { "cut/inside-payload" });
    }
    st.nontrivial(hash_of(&stream));
    Ok(())
}

/// A frame whose payload does not decode as the requested type must not desynchronise what follows.
fn resync(g: &mut Gen, st: &mut Stats) -> CaseResult {
    st.eval();
    let n = 2 + g.below(4);
    let vals: Vec<Val> = (0 .. n).map(|_| Val::small(g)).collect();
    let bad = g.below(n);
    let mut stream = Vec::new();
    let mode = g.below(3);
    for (i, v) in vals.iter().enumerate() {
        if i == bad && mode == 0 {
            // corrupted payload: same length, garbage content
            let f = v.frame();
            stream.extend_from_slice(&f[.. 4]);
            stream.extend((4 .. f.len()).map(|_| 0xffu8));
        } else { stream.extend_from_slice(&v.frame()) }
    }
    let script = gen_script(g, stream.len(), true);
    let mut r = Reader::new(ScriptRead::new(&stream, &script));
    for (i, v) in vals.iter().enumerate() {
        if i == bad {
            // mode 0: garbage; mode 1/2: type confusion (ask for a type the frame does not hold)
            let k = if mode == 0 { v.kind() } else { match v.kind() { Kind::U => Kind::S, Kind::S => Kind::U, Kind::B => Kind::R, Kind::R => Kind::B } };
            match read_one(&mut r, k) {
                Err(Error::Decode(_)) => {}
                Ok(x) => fail!("bad-frame-accepted", "frame {} ({:?}) read as {:?} gave {:?}", i, v, k, x),
                Err(e) => fail!("wrong-error", "undecodable frame {} gave {} instead of a decode error", i, e)
            }
        } else {
            match read_one(&mut r, v.kind()) {
                Ok(Some(got)) => ensure!(&got == v, "desynchronised", "after the undecodable frame {}, frame {} read back as {:?}, written {:?}", bad, i, got, v),
                other => fail!("desynchronised", "after the undecodable frame {}, frame {} gave {:?}", bad, i, other.map_err(|e| e.to_string()))
            }
        }
    }
    ensure!(matches!(read_one(&mut r, Kind::U), Ok(None)), "end-error", "no clean end after the last frame");
    st.class(match mode { 0 => "resync/corrupt-payload", _ => "resync/type-confusion" });
    st.nontrivial(hash_of(&(&stream, bad, mode)));
    Ok(())
}

/// max_len on both sides and the reader's allocation bound.
fn limits(g: &mut Gen, st: &mut Stats) -> CaseResult {
    st.eval();
    let v = Val::any(g);
    let e = v.encoded();
    let len = e.len();
    let m = match g.below(8) { 0 => len.saturating_sub(1), 1 => len, 2 => len + 1, 3 => 0, 4 => 512 * 1024, 5 => (u32::MAX - g.below(6) as u32) as usize, 6 => *g.pick(&[u32::MAX as usize, u32::MAX as usize - 3, u32::MAX as usize - 4, 1usize << 31]), _ => g.below(len + 2) } as u32;
    // writer
    {
        let mut w = Writer::new(Vec::new());
        w.set_max_len(m);
        let before = Val::U(5);
        let r0 = write_val(&mut w, &before);
        let _ = r0;
        let sink_before = w.writer().clone();
        let r = write_val(&mut w, &v);
        if len > m as usize {
            match r { Err(Error::InvalidLen) => {}, other => fail!("writer-max-len", "a {}-byte value with max_len {} gave {:?}", len, m, other.map_err(|e| e.to_string())) }
            ensure!(w.writer() == &sink_before, "writer-emitted-oversize", "the writer put {} bytes into the sink for a value above its maximum", w.writer().len() - sink_before.len());
        } else {
            match r { Ok(n) => ensure!(n == len, "writer-return", "write returned {} for a {}-byte payload", n, len), Err(e) => fail!("writer-error", "write of a {}-byte value with max_len {} failed: {}", len, m, e) }
            let mut want = sink_before.clone();
            want.extend_from_slice(&v.frame());
            ensure!(w.writer() == &want, "writer-bytes", "sink holds {} after writing {:?}", short_hex(&w.writer()[sink_before.len() ..]), v);
        }
    }
    // reader
    {
        let stream = stream_of(&[v.clone(), Val::U(1)]);
        let script = gen_script(g, stream.len(), false);
        let mut r = Reader::new(ScriptRead::new(&stream, &script));
        r.set_max_len(m);
        set_case("Reader::read", &stream[.. stream.len().min(64)]);
        let mark = mem_mark();
        let got = read_one(&mut r, v.kind());
        let peak = mem_peak_since(mark);
        clear_case();
        if len > m as usize {
            match got { Err(Error::InvalidLen) => {}, other => fail!("reader-max-len", "a {}-byte frame with max_len {} gave {:?}", len, m, other.map_err(|e| e.to_string())) }
            ensure!(peak <= 4096, "reader-allocated-for-refused-frame", "the reader allocated {} bytes for a frame it refused (max_len {})", peak, m);
        } else {
            match got { Ok(Some(x)) => ensure!(x == v, "wrong-value", "read back {:?}", x), other => fail!("read-error", "{:?}", other.map_err(|e| e.to_string())) }
            ensure!(peak <= 3 * len + 4096, "reader-memory", "reading a {}-byte frame allocated {} bytes at peak (max_len {})", len, peak, m);
        }
    }
    // hostile prefix: far above max_len, no payload behind it
    {
        let declared = *g.pick(&[0xffff_ffffu32, 0x8000_0000, 0x0400_0001, 0x0010_0000, m.saturating_add(1)]);
        if declared as usize > m as usize {
            let mut stream = declared.to_be_bytes().to_vec();
            stream.extend_from_slice(&[1, 2, 3]);
            let mut r = Reader::new(ScriptRead::new(&stream, &[]));
            r.set_max_len(m);
            set_case("Reader::read(hostile prefix)", &stream);
            let mark = mem_mark();
            let got = read_one(&mut r, Kind::U);
            let peak = mem_peak_since(mark);
            clear_case();
            match got { Err(Error::InvalidLen) => {}, other => fail!("reader-max-len", "declared length {} with max_len {} gave {:?}", declared, m, other.map_err(|e| e.to_string())) }
            ensure!(peak <= 4096, "reader-allocated-for-refused-frame", "declared length {} above max_len {}: {} bytes allocated", declared, m, peak);
        }
    }
    st.class(if len > m as usize { "limits/over" } else { "limits/within" });
    st.nontrivial(hash_of(&(len, m)));
    Ok(())
}

pub fn write_val<W: io::Write>(w: &mut Writer<W>, v: &Val) -> Result<usize, Error> {
    match v { Val::U(x) => w.write(x), Val::S(x) => w.write(x), Val::B(x) => w.write(minicbor::bytes::ByteVec::from(x.clone())), Val::R(x) => w.write(x) }
}

/// Writer output through a sink that accepts short writes.
/// The first calls follow a generated script (0 = `Interrupted`, nothing taken; b = at most b bytes), later ones take at
/// most `piece`; with `vectored`, `write_vectored` is native and takes bytes across buffer boundaries (what sockets and
/// pipes do), otherwise it is std's default (first non-empty buffer).
struct ShortSink { data: Vec<u8>, piece: usize, script: Vec<u8>, k: usize, vectored: bool }
impl ShortSink {
    fn draw(g: &mut Gen) -> Self {
        let piece = 1 + g.below(9);
        let n = g.below(10);
        ShortSink { data: Vec::new(), piece, script: (0 .. n).map(|_| if g.chance(25) { 0 } else { 1 + g.below(12) as u8 }).collect(), k: 0, vectored: g.bool() }
    }
    fn step(&mut self) -> Option<usize> { let s = self.script.get(self.k).copied(); self.k += 1; match s { Some(0) => None, Some(b) => Some(b as usize), None => Some(self.piece.max(1)) } }
}
impl io::Write for ShortSink {
    fn write(&mut self, b: &[u8]) -> io::Result<usize> {
        let Some(p) = self.step() else { return Err(io::ErrorKind::Interrupted.into()) };
        let n = b.len().min(p); self.data.extend_from_slice(&b[.. n]); Ok(n)
    }
    fn write_vectored(&mut self, bufs: &[io::IoSlice<'_>]) -> io::Result<usize> {
        if !self.vectored { return match bufs.iter().find(|b| !b.is_empty()) { Some(b) => self.write(b), None => self.write(&[]) } }
        let Some(mut left) = self.step() else { return Err(io::ErrorKind::Interrupted.into()) };
        let mut n = 0;
        for b in bufs { let k = b.len().min(left); self.data.extend_from_slice(&b[.. k]); n += k; left -= k; if left == 0 { break } }
        Ok(n)
    }
    fn flush(&mut self) -> io::Result<()> { Ok(()) }
}

fn writer_frames(g: &mut Gen, st: &mut Stats) -> CaseResult {
    st.eval();
    let n = g.below(6);
    let vals: Vec<Val> = (0 .. n).map(|_| Val::any(g)).collect();
    // the writer's scratch buffer: fresh, or handed in by the caller - empty, small and used, or with a large capacity left over
    // from earlier traffic; now and then the limit is raised and a frame above 1 MiB goes through (buffers of that size are
    // where memory-conscious code starts to behave differently)
    let ctor = g.below(8);
    let mut w = match ctor { 0 => Writer::with_buffer(ShortSink::draw(g), Vec::new()), 1 => Writer::with_buffer(ShortSink::draw(g), g.bytes(30)), 2 => Writer::with_buffer(ShortSink::draw(g), Vec::with_capacity(*g.pick(&[70_000usize, 1 << 20, (1 << 20) + 1, 3 << 20]))), _ => Writer::new(ShortSink::draw(g)) };
    let mut vals = vals;
    if g.below(600) == 0 { w.set_max_len(4 << 20); let n = (1usize << 20) + g.below(300_000); vals.insert(g.below(vals.len() + 1), Val::B((0 .. n).map(|i| (i * 131 + i / 256) as u8).collect())); st.class("writer/frame above 1 MiB") }
    st.class(["writer/with_buffer(empty)", "writer/with_buffer(used)", "writer/with_buffer(large capacity)", "writer/new", "writer/new", "writer/new", "writer/new", "writer/new"][ctor]);
    for v in &vals {
        let want = v.encoded().len();
        match write_val(&mut w, v) { Ok(k) => ensure!(k == want, "writer-return", "write returned {} for a {}-byte payload", k, want), Err(e) => fail!("writer-error", "write failed: {}", e) }
    }
    // a value that fails to encode leaves nothing behind
    let before = w.writer().data.len();
    ensure!(w.write(crate::vals::FailAfter(g.below(5))).is_err(), "failing-encode-accepted", "a value whose Encode fails was written");
    ensure!(w.writer().data.len() == before, "failing-encode-emitted", "a failing value put bytes into the sink");
    let want = stream_of(&vals);
    ensure!(w.writer().data == want, "writer-bytes", "sink holds {} ; expected the concatenation of length-prefixed encodings {}", short_hex(&w.writer().data), short_hex(&want));
    st.nontrivial(hash_of(&want));
    st.class("writer/frames");
    Ok(())
}

/// io::Write that can be told to fail the next call outright (nothing accepted) and otherwise accepts short writes.
struct FaultySink { data: Vec<u8>, piece: usize, fail_next: bool, calls: usize }
impl io::Write for FaultySink {
    fn write(&mut self, b: &[u8]) -> io::Result<usize> {
        self.calls += 1;
        if self.fail_next { self.fail_next = false; return Err(io::Error::new(io::ErrorKind::BrokenPipe, "scripted sink failure")) }
        let n = b.len().min(self.piece.max(1));
        self.data.extend_from_slice(&b[.. n]);
        Ok(n)
    }
    fn flush(&mut self) -> io::Result<()> { Ok(()) }
}

/// Histories of calls on ONE writer: good values interleaved with refused ones (over max_len, failing Encode,
/// sink failure before any byte of the frame was taken) and max_len changes. The sink must hold exactly the
/// frames of the successful writes, each successful write returns its payload length, nothing of a refused
/// value may leak into a later frame, and no emitted frame exceeds the maximum in force.
fn writer_histories(g: &mut Gen, st: &mut Stats) -> CaseResult {
    st.eval();
    let mut w = Writer::new(FaultySink { data: Vec::new(), piece: 1 + g.below(12), fail_next: false, calls: 0 });
    let mut max_len: usize = 512 * 1024;
    let mut expected: Vec<u8> = Vec::new();
    let mut log = String::new();
    let n = 2 + g.below(8);
    let mut refused = 0;
    let mut after_refusal_ok = 0;
    for _ in 0 .. n {
        match g.below(8) {
            0 => { let m = *g.pick(&[0u32, 1, 2, 8, 64, 512 * 1024]); w.set_max_len(m); max_len = m as usize; log.push_str(&format!("max_len={} ", m)) }
            1 => {
                log.push_str("failing-encode ");
                let before = w.writer().data.len();
                ensure!(w.write(crate::vals::FailAfter(g.below(6))).is_err(), "failing-encode-accepted", "history [{}]: a value whose Encode fails was written", log);
                ensure!(w.writer().data.len() == before, "refused-value-emitted", "history [{}]: a failing value put bytes into the sink", log);
                refused += 1;
            }
            2 => {
                // sink refuses the first write call of this frame: nothing of it reaches the sink
                let v = Val::small(g);
                log.push_str(&format!("sink-fails({:?}) ", v));
                w.writer_mut().fail_next = true;
                let before = w.writer().data.len();
                if v.encoded().len() > max_len {
                    // refused before the sink is touched
                    match write_val(&mut w, &v) { Err(Error::InvalidLen) => {}, other => fail!("writer-max-len", "history [{}]: over-long value gave {:?}", log, other.map_err(|e| e.to_string())) }
                    w.writer_mut().fail_next = false;
                } else {
                    match write_val(&mut w, &v) { Err(Error::Io(_)) => {}, other => fail!("sink-error-not-reported", "history [{}]: sink failure gave {:?}", log, other.map_err(|e| e.to_string())) }
                }
                ensure!(w.writer().data.len() == before, "refused-value-emitted", "history [{}]: bytes reached the sink although it refused the call", log);
                refused += 1;
            }
            _ => {
                let v = if g.chance(60) { Val::S("z".repeat(max_len + 1 + g.below(4))) } else { Val::small(g) };
                let e = v.encoded();
                log.push_str(&format!("write({} bytes) ", e.len()));
                let before = w.writer().data.len();
                let r = write_val(&mut w, &v);
                if e.len() > max_len {
                    match r { Err(Error::InvalidLen) => {}, other => fail!("writer-max-len", "history [{}]: a {}-byte value with max_len {} gave {:?}", log, e.len(), max_len, other.map_err(|e| e.to_string())) }
                    ensure!(w.writer().data.len() == before, "refused-value-emitted", "history [{}]: an over-long value put bytes into the sink", log);
                    refused += 1;
                } else {
                    match r {
                        Ok(k) => ensure!(k == e.len(), "writer-return", "history [{}]: write returned {} for a {}-byte payload", log, k, e.len()),
                        Err(err) => fail!("good-value-refused", "history [{}]: a {}-byte value within max_len {} was refused: {}", log, e.len(), max_len, err)
                    }
                    expected.extend_from_slice(&v.frame());
                    if refused > 0 { after_refusal_ok += 1 }
                    ensure!(w.writer().data == expected, "writer-bytes", "history [{}]: the sink holds {} ; the frames of the successful writes are {}", log, short_hex(&w.writer().data[before.min(w.writer().data.len()) ..]), short_hex(&expected[before.min(expected.len()) ..]));
                }
            }
        }
    }
    ensure!(w.writer().data == expected, "writer-bytes", "history [{}]: final sink content differs from the frames of the successful writes", log);
    st.class(if after_refusal_ok > 0 { "history/good-write-after-refusal" } else if refused > 0 { "history/refusal-last" } else { "history/no-refusal" });
    if after_refusal_ok > 0 { st.nontrivial(hash_of(&log)) }
    st.sample(hash_of(&log), || format!("[{}]", log.trim_end()));
    Ok(())
}

/// Histories on ONE writer and ONE reader built with `with_buffer` (scratch buffers that arrive non-empty), mixing
/// plain values, context-dependent values (`write_with` / `read_with`), borrowed reads (`&str`, `&ByteSlice` pointing
/// into the reader's buffer), frames of very different sizes in both orders and reads with the wrong type.
fn io_histories(g: &mut Gen, st: &mut Stats) -> CaseResult {
    st.eval();
    #[derive(Debug)]
    enum Op { V(Val), K(Keyed) }
    let n = if g.chance(6) { 100 + g.below(200) } else { 1 + g.below(8) };
    let ops: Vec<Op> = (0 .. n).map(|_| match g.below(5) {
        0 => Op::K(Keyed(g.u32())),
        1 => Op::V(Val::S("y".repeat(*g.pick(&[0usize, 1, 23, 24, 255, 256, 3000])))),
        2 => Op::V(Val::B(g.bytes(300))),
        _ => Op::V(Val::small(g))
    }).collect();
    // ---- writer
    let junk = g.bytes(40);
    let mut w = Writer::with_buffer(ShortSink { data: Vec::new(), piece: 1 + g.below(9), script: Vec::new(), k: 0, vectored: false }, junk.clone());
    let mut wctx: u32 = g.u32();
    let rctx0 = wctx;
    let mut expected: Vec<u8> = Vec::new();
    for op in &ops {
        let (res, frame) = match op {
            Op::V(v) => (write_val(&mut w, v), v.frame()),
            Op::K(k) => {
                let e = minicbor::to_vec(k.0.wrapping_add(wctx)).expect("to_vec");
                let before = wctx;
                let r = w.write_with(*k, &mut wctx);
                ensure!(wctx == before.wrapping_add(1), "context-not-threaded", "write_with left the context at {} (was {})", wctx, before);
                let mut f = (e.len() as u32).to_be_bytes().to_vec(); f.extend_from_slice(&e);
                (r, f)
            }
        };
        match res { Ok(k) => ensure!(k == frame.len() - 4, "writer-return", "write returned {} for a {}-byte payload ({:?})", k, frame.len() - 4, op), Err(e) => fail!("writer-error", "write of {:?} failed: {}", op, e) }
        expected.extend_from_slice(&frame);
        ensure!(w.writer().data == expected, "writer-bytes", "after {:?} (writer built with a {}-byte scratch buffer) the sink ends with {} ; expected {}", op, junk.len(), short_hex(&w.writer().data[expected.len().saturating_sub(frame.len()).min(w.writer().data.len()) ..]), short_hex(&frame));
    }
    ensure!(w.flush().is_ok(), "flush", "flush failed");
    let (sink, _scratch) = w.into_parts();
    ensure!(sink.data == expected, "writer-bytes", "into_parts: the sink holds {} bytes, the frames are {} bytes", sink.data.len(), expected.len());
    // ---- reader
    let script = gen_script(g, expected.len(), true);
    let rjunk = g.bytes(40);
    let mut r = Reader::with_buffer(ScriptRead::new(&expected, &script), rjunk);
    let mut rctx = rctx0;
    let mut borrowed = 0;
    let mut confused = 0;
    for (i, op) in ops.iter().enumerate() {
        match op {
            Op::K(k) => {
                if g.chance(40) {
                    // a frame that holds an unsigned integer, asked for as text: decode error, frames stay aligned ... but this
                    // frame is consumed, so the history continues with the next one (context untouched by the failed read? it is
                    // the decoder's business; only the framing is judged here)
                    match r.read::<&str>() { Err(Error::Decode(_)) => {}, other => fail!("bad-frame-accepted", "frame {} ({:?}) read as &str gave {:?}", i, op, other.map_err(|e| e.to_string())) }
                    rctx = rctx.wrapping_add(1);
                    confused += 1;
                    continue
                }
                match r.read_with::<u32, Keyed>(&mut rctx) { Ok(Some(x)) => ensure!(x == *k, "wrong-value", "frame {}: read_with returned {:?}, written {:?}", i, x, k), other => fail!("read-error", "frame {} ({:?}): {:?}", i, op, other.map_err(|e| e.to_string())) }
            }
            Op::V(Val::S(s)) if g.bool() => {
                match r.read::<&str>() { Ok(Some(x)) => ensure!(x == s.as_str(), "wrong-value", "frame {}: borrowed &str of {} bytes differs from the {} bytes written", i, x.len(), s.len()), other => fail!("read-error", "frame {} as &str: {:?}", i, other.map_err(|e| e.to_string())) }
                borrowed += 1;
            }
            Op::V(Val::B(b)) if g.bool() => {
                match r.read::<&minicbor::bytes::ByteSlice>() { Ok(Some(x)) => ensure!(&x[..] == &b[..], "wrong-value", "frame {}: borrowed bytes differ from what was written", i), other => fail!("read-error", "frame {} as &ByteSlice: {:?}", i, other.map_err(|e| e.to_string())) }
                borrowed += 1;
            }
            Op::V(v) => match read_one(&mut r, v.kind()) { Ok(Some(x)) => ensure!(&x == v, "wrong-value", "frame {} read back as {:?}, written {:?}", i, x, v), other => fail!("read-error", "frame {} ({:?}): {:?}", i, op, other.map_err(|e| e.to_string())) }
        }
    }
    ensure!(matches!(read_one(&mut r, Kind::U), Ok(None)), "end-error", "no clean end after the last frame");
    ensure!(matches!(read_one(&mut r, Kind::S), Ok(None)), "end-error", "the clean end is not stable");
    let (src, _buf) = r.into_parts();
    ensure!(src.consumed() == expected.len(), "bytes-unaccounted", "{} of {} bytes consumed", src.consumed(), expected.len());
    if n >= 100 { st.class("io-history/100-300 frames") }
    st.class(if confused > 0 { "io-history/with-wrong-type-read" } else if borrowed > 0 { "io-history/with-borrowed-read" } else { "io-history/plain" });
    if ops.len() >= 2 { st.nontrivial(hash_of(&expected)) }
    st.sample(hash_of(&expected), || format!("{} frames / {} bytes, {} borrowed reads, {} wrong-type reads", ops.len(), expected.len(), borrowed, confused));
    Ok(())
}

/// What the decoder is handed must be exactly the frame: frames of very different sizes on one reader, where a later,
/// shorter frame holds (a) a CBOR sequence that is decoded to the end of its input, or (b) a payload that is a strict
/// prefix of an item - which must be a decode error (end of input), never a value pieced together from older bytes.
fn frame_extent(g: &mut Gen, st: &mut Stats) -> CaseResult {
    st.eval();
    let n = 2 + g.below(5);
    let mut stream: Vec<u8> = Vec::new();
    #[derive(Debug)]
    enum F { S(Seq), Cut(Vec<u8>) }
    let mut frames = Vec::new();
    for i in 0 .. n {
        let len = if i % 2 == 0 { 4 + g.below(40) } else { g.below(4) };
        let xs: Vec<u32> = (0 .. len).map(|_| g.u32()).collect();
        let enc = minicbor::to_vec(Seq(xs.clone())).expect("to_vec");
        if g.chance(90) && enc.len() >= 2 {
            // a strict prefix of a well-formed array of the same integers: ends inside an item
            let whole = minicbor::to_vec(&xs).expect("to_vec");
            let cut = 1 + g.below(whole.len() - 1);
            let payload = whole[.. cut].to_vec();
            stream.extend_from_slice(&(payload.len() as u32).to_be_bytes()); stream.extend_from_slice(&payload);
            frames.push(F::Cut(payload));
        } else {
            stream.extend_from_slice(&(enc.len() as u32).to_be_bytes()); stream.extend_from_slice(&enc);
            frames.push(F::S(Seq(xs)));
        }
    }
    let script = gen_script(g, stream.len(), true);
    let junk = g.bytes(60);
    let mut r = if g.bool() { Reader::with_buffer(ScriptRead::new(&stream, &script), junk) } else { Reader::new(ScriptRead::new(&stream, &script)) };
    for (i, f) in frames.iter().enumerate() {
        match f {
            F::S(want) => match r.read::<Seq>() { Ok(Some(got)) => ensure!(&got == want, "wrong-value", "frame {}: the sequence {:?} was read back as {:?} (bytes that are not part of the frame reached the decoder?)", i, want.0, got.0), other => fail!("read-error", "frame {}: {:?}", i, other.map(|x| x.map(|s| s.0)).map_err(|e| e.to_string())) },
            F::Cut(p) => match r.read::<Vec<u32>>() {
                Err(Error::Decode(e)) => ensure!(e.is_end_of_input(), "wrong-error", "frame {} holds the incomplete item {} ; the decode error is `{}`, not end of input", i, short_hex(p), e),
                Ok(x) => fail!("value-from-incomplete-payload", "frame {} holds the incomplete item {} but a value came back: {:?}", i, short_hex(p), x),
                Err(e) => fail!("wrong-error", "frame {} with the incomplete item {} gave {}", i, short_hex(p), e)
            }
        }
    }
    ensure!(matches!(r.read::<Seq>(), Ok(None)), "end-error", "no clean end after the last frame");
    st.class("frame-extent");
    st.nontrivial(hash_of(&stream));
    Ok(())
}

pub fn subs() -> Vec<Sub> {
    let n14 = space_size(14);
    let n20 = space_size(20);
    vec![
        Sub { prop: "C14", name: "compositions", rule: "10 fixed short streams x every composition of the stream length into read sizes (streams <= 14 bytes; thorough <= 20): exactly the written values, then a clean end, all bytes consumed; non-trivial = >= 2 reads",
              kind: SubKind::Enumerate { quick: n14, thorough: n20, f: compositions20, complete_quick: false, complete_thorough: true } },
        Sub { prop: "C14", name: "compositions-14", rule: "the <= 14-byte streams, every composition (complete in the quick tier)",
              kind: SubKind::Enumerate { quick: n14, thorough: n14, f: compositions14, complete_quick: true, complete_thorough: true } },
        Sub { prop: "C14", name: "fragmentation", rule: "0-5 generated values (payload sizes across head-width boundaries, one >= 64 KiB) delivered through generated read-size scripts with Interrupted errors injected",
              kind: SubKind::Random { quick: 200_000, thorough: 2_000_000, tape: 1024, f: fragmentation } },
        Sub { prop: "C14", name: "truncation", rule: "1-4 frames cut at every offset: complete frames read back, a cut on a frame boundary is a clean end, a cut inside a prefix or payload is UnexpectedEof - never a value; evaluations count cuts",
              kind: SubKind::Random { quick: 30_000, thorough: 300_000, tape: 1024, f: truncation } },
        Sub { prop: "C14", name: "resync", rule: "a frame with corrupted payload or read as the wrong type gives a decode error and every later frame still reads correctly",
              kind: SubKind::Random { quick: 200_000, thorough: 1_000_000, tape: 1024, f: resync } },
        Sub { prop: "C14", name: "limits", rule: "max_len in {len-1, len, len+1, 0, 512 KiB, random} on writer (InvalidLen, zero bytes emitted) and reader (InvalidLen, no allocation for the refused frame; hostile prefixes up to 2^32-1; peak allocation bounded)",
              kind: SubKind::Random { quick: 200_000, thorough: 1_000_000, tape: 1024, f: limits } },
        Sub { prop: "C14", name: "writer-histories", rule: "2-9 calls on one Writer: good values interleaved with refused ones (over max_len, failing Encode, sink failing before the frame) and max_len changes; sink == frames of the successful writes after every step, returned lengths exact, nothing of a refused value leaks into a later frame; non-trivial = a successful write after a refusal",
              kind: SubKind::Random { quick: 150_000, thorough: 3_000_000, tape: 1024, f: writer_histories } },
        Sub { prop: "C14", name: "frame-extent", rule: "2-6 frames of alternating long and short payloads on one Reader (new / with_buffer with junk): CBOR sequences decoded to the end of the frame come back exactly; a payload that is a strict prefix of an item is a decode error of class end-of-input, never a value",
              kind: SubKind::Random { quick: 100_000, thorough: 1_000_000, tape: 1024, f: frame_extent } },
        Sub { prop: "C14", name: "io-histories", rule: "1-8 frames (2 % of the cases: 100-300) through ONE Writer::with_buffer and ONE Reader::with_buffer (scratch buffers arrive non-empty): plain values, context-dependent values via write_with/read_with (context advanced exactly once per value), borrowed reads (&str, &ByteSlice), frames of 0..3000 bytes in any order, reads with the wrong type, into_parts; sink == frames after every write, reader returns exactly the written values then a stable clean end, all bytes consumed",
              kind: SubKind::Random { quick: 150_000, thorough: 2_000_000, tape: 2048, f: io_histories } },
        Sub { prop: "C14", name: "writer", rule: "0-5 values through a short-writing sink: bytes == concatenation of 4-byte big-endian length + encoding, write returns the payload length, a value whose Encode fails emits nothing",
              kind: SubKind::Random { quick: 150_000, thorough: 1_000_000, tape: 1024, f: writer_frames } },
    ]
}
