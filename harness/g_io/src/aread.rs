//! C15 — AsyncReader is cancellation-safe: no frame lost, duplicated or torn.

use crate::sched::{amounts, amounts_small, dfs, split_count, split_prefix, Chooser, Shared, TapeChooser};
use crate::vals::{Kind, Rec, Val};
use futures_io::AsyncRead;
use g_codec::util::short_hex;
use minicbor_io::{AsyncReader, Error};
use std::cell::RefCell;
use std::future::Future;
use std::io;
use std::pin::Pin;
use std::rc::Rc;
use std::task::{Context, Poll, Waker};
use vcore::engine::{hash_of, CaseResult, Fail, Kind as SubKind, Stats, Sub};
use vcore::{ensure, fail, Gen};

#[derive(Clone, Copy)]
pub struct Bounds { pub pending_run: usize, pub pending_total: usize, pub errors: usize, pub drops: usize, pub small: bool }

#[derive(Default)]
pub struct SrcState { pub pos: usize, pub pend_run: usize, pub errors: usize, pub pendings: usize, pub polls: usize, pub log: Vec<String> }

/// AsyncRead whose every poll outcome is a choice of the schedule.
pub struct ScriptSrc { data: Rc<Vec<u8>>, st: Rc<RefCell<SrcState>>, ch: Shared, b: Bounds }

impl AsyncRead for ScriptSrc {
    /// Native scatter read when the run asks for it (what sockets and buffered readers provide): one scripted outcome for the
    /// whole list of buffers, the delivered bytes filling them in order - a delivery may end anywhere, also inside a later buffer.
    fn poll_read_vectored(self: Pin<&mut Self>, cx: &mut Context<'_>, bufs: &mut [io::IoSliceMut<'_>]) -> Poll<io::Result<usize>> {
        if !crate::sched::vectored_src() {
            return match bufs.iter_mut().find(|b| !b.is_empty()) { Some(b) => self.poll_read(cx, b), None => self.poll_read(cx, &mut []) }
        }
        let total: usize = bufs.iter().map(|b| b.len()).sum();
        let mut tmp = vec![0u8; total];
        match self.poll_read(cx, &mut tmp) {
            Poll::Ready(Ok(n)) => { let mut at = 0; for b in bufs.iter_mut() { if at >= n { break } let k = b.len().min(n - at); b[.. k].copy_from_slice(&tmp[at .. at + k]); at += k } Poll::Ready(Ok(n)) }
            other => other
        }
    }
    fn poll_read(self: Pin<&mut Self>, cx: &mut Context<'_>, buf: &mut [u8]) -> Poll<io::Result<usize>> {
        let this = self.get_mut();
        let mut s = this.st.borrow_mut();
        s.polls += 1;
        let avail = this.data.len() - s.pos;
        let max = avail.min(buf.len());
        // alternatives: deliver k (or end-of-stream when nothing is left), Pending, transient error
        let deliver: Vec<usize> = if max == 0 { vec![0] } else if this.b.small { amounts_small(max) } else { amounts(max) };
        let can_pend = s.pend_run < this.b.pending_run && s.pendings < this.b.pending_total;
        let can_err = s.errors < this.b.errors;
        let n = deliver.len() + can_pend as usize + can_err as usize;
        let c = this.ch.borrow_mut().choose(n);
        if c < deliver.len() {
            let k = deliver[c];
            buf[.. k].copy_from_slice(&this.data[s.pos .. s.pos + k]);
            s.pos += k;
            s.pend_run = 0;
            if s.log.len() < 64 { s.log.push(if k == 0 && !buf.is_empty() { "eof".into() } else { format!("deliver{}", k) }) }
            Poll::Ready(Ok(k))
        } else if can_pend && c == deliver.len() {
            s.pend_run += 1;
            s.pendings += 1;
            if s.log.len() < 64 { s.log.push("pending".into()) }
            cx.waker().wake_by_ref();
            Poll::Pending
        } else {
            s.errors += 1;
            s.pend_run = 0;
            if s.log.len() < 64 { s.log.push("error".into()) }
            Poll::Ready(Err(crate::sched::transient_error()))
        }
    }
}

enum ReadOutcome { Val(Val), End, Err(Error) }

/// One call of `AsyncReader::read`, polled by hand; `Err(())` = the caller dropped the pending future.
fn read_call(r: &mut AsyncReader<ScriptSrc>, k: Kind, ch: &Shared, drops_left: &mut usize, log: &Rc<RefCell<SrcState>>) -> Result<ReadOutcome, ()> {
    let mut cx = Context::from_waker(Waker::noop());
    macro_rules! drive { ($t:ty, $wrap:expr) => {{
        let mut fut = Box::pin(r.read::<$t>());
        loop {
            let pendings_before = log.borrow().pendings;
            match fut.as_mut().poll(&mut cx) {
                Poll::Ready(Ok(Some(v))) => { let f: fn($t) -> Val = $wrap; return Ok(ReadOutcome::Val(f(v))) }
                Poll::Ready(Ok(None)) => return Ok(ReadOutcome::End),
                Poll::Ready(Err(e)) => return Ok(ReadOutcome::Err(e)),
                Poll::Pending => {
                    // a Pending the transport did not cause (the future yielded of its own accord): a suspension point like
                    // any other, so the caller may drop the future right there - the first few times it always does
                    if log.borrow().pendings == pendings_before && crate::sched::spontaneous_drop() {
                        { let mut s = log.borrow_mut(); if s.log.len() < 64 { s.log.push("DROP(at a Pending of the reader's own)".into()) } }
                        return Err(())
                    }
                    // caller decision: keep polling, or drop the future and call read again
                    if *drops_left > 0 && ch.borrow_mut().choose(2) == 1 {
                        *drops_left -= 1;
                        { let mut s = log.borrow_mut(); if s.log.len() < 64 { s.log.push("DROP".into()) } }
                        return Err(())
                    }
                }
            }
        }
    }}}
    match k {
        Kind::U => drive!(u64, Val::U),
        Kind::S => drive!(String, Val::S),
        Kind::B => drive!(minicbor::bytes::ByteVec, |b| Val::B(b.into())),
        Kind::R => drive!(Rec, Val::R)
    }
}

/// Between two `read` calls (after a dropped future or a surfaced transient error) the caller may change the limit. The new
/// value admits every frame whose length prefix is still to be judged; a frame whose prefix was already accepted - possibly
/// longer than the new value - is delivered all the same, and the frames behind it stay in step. Random walks only.
fn maybe_move_limit(r: &mut AsyncReader<ScriptSrc>, vals: &[Val], i: usize, pos: usize, frame_start: usize, ch: &Shared) {
    if !crate::sched::limit_moves() { return }
    if ch.borrow_mut().choose(3) != 0 { return }
    let prefix_done = pos >= frame_start + 4;
    let from = if prefix_done { i + 1 } else { i };
    let v = vals.iter().skip(from).map(|v| v.encoded().len()).max().unwrap_or(0) as u32;
    r.set_max_len(v);
    crate::sched::count_limit_move(prefix_done && vals.get(i).map(|x| x.encoded().len() as u32 > v).unwrap_or(false));
}

pub struct RunInfo { pub drops_mid_frame: usize, pub pendings: usize, pub errors: usize, pub polls: usize }

/// Run one schedule: `vals` are the complete frames in `stream[..cut]` order; `cut` may lie inside a frame.
fn run_schedule(vals: &[Val], stream: &Rc<Vec<u8>>, complete: usize, on_boundary: bool, ch: Shared, b: Bounds) -> Result<RunInfo, Fail> {
    let st = Rc::new(RefCell::new(SrcState::default()));
    let src = ScriptSrc { data: stream.clone(), st: st.clone(), ch: ch.clone(), b };
    crate::sched::reset_spontaneous();
    let mut r = match crate::sched::take_prebuf() { Some(b) => AsyncReader::with_buffer(src, b), None => AsyncReader::new(src) };
    if let Some(m) = crate::sched::READER_MAX.with(|c| c.take()) { r.set_max_len(m) }
    let mut drops_left = b.drops;
    let mut drops_mid = 0;
    let mut surfaced_errors = 0;
    let mut i = 0usize;
    let describe = |st: &Rc<RefCell<SrcState>>| -> String { format!("schedule [{}] on stream {}", st.borrow().log.join(" "), short_hex(stream)) };
    loop {
        let k = vals.get(i).map(|v| v.kind()).unwrap_or(Kind::U);
        let pos_before = st.borrow().pos;
        match read_call(&mut r, k, &ch, &mut drops_left, &st) {
            Err(()) => {
                // dropped while pending; was a frame partially received?
                let p = st.borrow().pos;
                let frame_start: usize = vals[.. i.min(vals.len())].iter().map(|v| v.frame().len()).sum();
                if p > frame_start { drops_mid += 1 }
                let _ = pos_before;
                maybe_move_limit(&mut r, vals, i, p, frame_start, &ch);
                continue
            }
            Ok(ReadOutcome::Val(v)) => {
                if i >= complete { return Err(Fail::new("value-from-incomplete-frame", format!("read returned {:?} but only {} complete frames were delivered; {}", v, complete, describe(&st)))) }
                if v != vals[i] { return Err(Fail::new("wrong-value", format!("frame {} read back as {:?}, written {:?}; {}", i, v, vals[i], describe(&st)))) }
                i += 1;
            }
            Ok(ReadOutcome::End) => {
                if i != complete || !on_boundary { return Err(Fail::new("premature-end", format!("clean end reported after {} of {} frames (stream ends {} a frame); {}", i, complete, if on_boundary { "between" } else { "inside" }, describe(&st)))) }
                break
            }
            Ok(ReadOutcome::Err(Error::Io(e))) if crate::sched::is_transient(&e) => {
                surfaced_errors += 1;
                { let p = st.borrow().pos; let frame_start: usize = vals[.. i.min(vals.len())].iter().map(|v| v.frame().len()).sum(); maybe_move_limit(&mut r, vals, i, p, frame_start, &ch); }
                if surfaced_errors > st.borrow().errors { return Err(Fail::new("error-duplicated", format!("a transient error surfaced more often than it was injected; {}", describe(&st)))) }
                continue // reading resumes where it left off
            }
            Ok(ReadOutcome::Err(Error::Io(e))) if e.kind() == io::ErrorKind::UnexpectedEof => {
                if on_boundary || i != complete { return Err(Fail::new("spurious-eof-error", format!("UnexpectedEof after {} of {} frames although the stream ends {} a frame; {}", i, complete, if on_boundary { "between" } else { "inside" }, describe(&st)))) }
                break
            }
            Ok(ReadOutcome::Err(e)) => return Err(Fail::new("unexpected-error", format!("read failed with {} after {} frames; {}", e, i, describe(&st))))
        }
    }
    let s = st.borrow();
    if surfaced_errors != s.errors { return Err(Fail::new("error-swallowed", format!("{} transient errors injected, {} surfaced; schedule [{}]", s.errors, surfaced_errors, s.log.join(" ")))) }
    if s.pos != stream.len() { return Err(Fail::new("bytes-unaccounted", format!("{} of {} source bytes consumed; schedule [{}]", s.pos, stream.len(), s.log.join(" ")))) }
    Ok(RunInfo { drops_mid_frame: drops_mid, pendings: s.pendings, errors: s.errors, polls: s.polls })
}

fn stream_of(vals: &[Val]) -> Vec<u8> { let mut s = Vec::new(); for v in vals { s.extend_from_slice(&v.frame()) } s }

/// (values, cut): the delivered stream is `stream[..cut]`.
fn dfs_streams() -> Vec<(Vec<Val>, usize)> {
    let a = vec![Val::U(7)];                       // 5 bytes
    let b = vec![Val::U(1), Val::U(2)];            // 10 bytes
    let c = vec![Val::S("ab".into())];             // 7 bytes
    let d = vec![Val::U(300), Val::B(vec![])];     // 7 + 5 bytes
    vec![(a.clone(), 5), (a.clone(), 2), (a.clone(), 4), (b.clone(), 10), (b.clone(), 7), (c.clone(), 7), (c.clone(), 6), (d.clone(), 12), (vec![], 0), (b, 5), (d, 9)]
}

fn prep(vals: &[Val], cut: usize) -> (Rc<Vec<u8>>, usize, bool) {
    let full = stream_of(vals);
    let cut = cut.min(full.len());
    let mut bounds = vec![0usize];
    for v in vals { bounds.push(bounds.last().unwrap() + v.frame().len()) }
    let complete = bounds.iter().filter(|b| **b <= cut).count() - 1;
    (Rc::new(full[.. cut].to_vec()), complete, bounds.contains(&cut))
}

fn exhaustive(i: u64, st: &mut Stats, b: Bounds, cap: u64) -> CaseResult {
    let streams = dfs_streams();
    let (vals, cut) = &streams[(i as usize / split_count()) % streams.len()];
    let fixed = split_prefix(i as usize % split_count());
    let (stream, complete, on_boundary) = prep(vals, *cut);
    // the injected error's kind varies with the stream (UnexpectedEof is also what the reader itself reports at a torn end)
    crate::sched::set_err_kind(crate::sched::ERR_KINDS[(i as usize / split_count()) % 3]);
    let mut nontrivial = 0u64;
    // every second stream is delivered by a source with a native scatter read
    crate::sched::set_vectored_src((i as usize / split_count()) % 2 == 1);
    let (count, done) = dfs(&fixed, cap, |ch| {
        let info = run_schedule(vals, &stream, complete, on_boundary, ch, b)?;
        if info.drops_mid_frame > 0 { nontrivial += 1 }
        Ok(())
    })?;
    if count == 0 { return Ok(()) }
    st.evals(count);
    st.nontrivial_enum(nontrivial);
    if !done { st.mark_incomplete(); st.class("dfs/subtree-capped") } else { st.class("dfs/subtree-exhausted") }
    st.sample(i, || format!("stream {} ({} complete frames, ends {} a frame), first choices {:?}: {} schedules, {} with a drop while a frame was partially received{}", short_hex(&stream), complete, if on_boundary { "between" } else { "inside" }, fixed, count, nontrivial, if done { "" } else { " (capped)" }));
    Ok(())
}

fn exhaustive_quick(i: u64, st: &mut Stats) -> CaseResult { exhaustive(i, st, Bounds { pending_run: 2, pending_total: 3, errors: 1, drops: 3, small: true }, 6_000_000) }
fn exhaustive_thorough(i: u64, st: &mut Stats) -> CaseResult { exhaustive(i, st, Bounds { pending_run: 2, pending_total: 4, errors: 1, drops: 3, small: false }, 50_000_000) }

fn random_walk(g: &mut Gen, st: &mut Stats) -> CaseResult {
    st.eval();
    // mostly 1-3 frames; now and then a longer run on the same reader (state carried from frame to frame)
    let n = match g.below(50) { 0 => 40, 1 ..= 5 => 4 + g.below(9), _ => 1 + g.below(3) };
    let vals: Vec<Val> = (0 .. n).map(|_| if g.chance(40) && n <= 12 { Val::any(g) } else { Val::small(g) }).collect();
    let full = stream_of(&vals);
    let cut = if g.chance(80) { g.below(full.len() + 1) } else { full.len() };
    let (stream, complete, on_boundary) = prep(&vals, cut);
    let b = Bounds { pending_run: 1 + g.below(4), pending_total: usize::MAX, errors: g.below(4), drops: g.below(12), small: false };
    let ch: Shared = Rc::new(RefCell::new(TapeChooser::draw(g, 400)));
    let ctor = crate::sched::draw_prebuf(g);
    let kind = *g.pick(&crate::sched::ERR_KINDS);
    crate::sched::set_err_kind(kind);
    // (drawn last so that earlier tapes keep their meaning) does the source scatter natively?
    let vectored = g.bool();
    crate::sched::set_vectored_src(vectored);
    crate::sched::set_limit_moves(g.bool());
    if vectored { st.class("walk/source with native poll_read_vectored") }
    // a maximum that every frame of the walk respects: the default, the top of the u32 range, or exactly the largest frame
    let largest = vals.iter().map(|v| v.encoded().len()).max().unwrap_or(0) as u32;
    crate::sched::READER_MAX.with(|c| c.set(match g.below(8) { 0 => Some(u32::MAX), 1 => Some(u32::MAX - 3), 2 => Some(largest), 3 => Some(largest.max(1) + 1), _ => None }));
    let info = run_schedule(&vals, &stream, complete, on_boundary, ch, b)?;
    crate::sched::set_limit_moves(false);
    if crate::sched::take_limit_below_inflight() { st.class("walk/set_max_len below the frame in flight") }
    if info.errors > 0 { st.class(&format!("walk/transient error of kind {:?}", kind)) }
    st.class(&format!("walk/AsyncReader::{}", ctor));
    if info.drops_mid_frame > 0 { st.nontrivial(hash_of(&(&stream[.. stream.len().min(48)], stream.len(), info.polls, info.pendings, info.drops_mid_frame))) }
    st.class(if info.drops_mid_frame > 0 { "walk/drop-mid-frame" } else if info.pendings > 0 { "walk/pendings-only" } else { "walk/straight" });
    if info.errors > 0 { st.class("walk/with-transient-error") }
    if !on_boundary { st.class("walk/stream-ends-inside-frame") }
    if n > 3 { st.class("walk/4-40 frames on one reader") }
    Ok(())
}

pub fn subs() -> Vec<Sub> {
    let n = (dfs_streams().len() * split_count()) as u64;
    vec![
        Sub { prop: "C15", name: "exhaustive", rule: "11 streams (1-2 frames, <= 12 bytes, complete and cut inside prefix/payload) x every schedule of source outcomes {deliver k, Pending, transient error, end} and caller decisions {poll again, drop the future and call read again} within the bounds (quick: <= 2 consecutive and <= 3 Pendings in total, <= 1 error, <= 3 drops, deliveries of 1 / half / all bytes), explored depth-first by re-execution; evaluations = schedules; non-trivial = a drop while a frame was partially received",
              kind: SubKind::Enumerate { quick: n, thorough: n, f: exhaustive_quick, complete_quick: true, complete_thorough: false } },
        Sub { prop: "C15", name: "exhaustive-deeper", rule: "the same streams with <= 4 Pendings in total, every delivery size spread, capped at 5*10^7 schedules per subtree (thorough)",
              kind: SubKind::Enumerate { quick: 0, thorough: n, f: exhaustive_thorough, complete_quick: false, complete_thorough: true } },
        Sub { prop: "C15", name: "random-walks", rule: "1-3 generated frames, in 12 % of the walks 4-40 (payloads up to 70 KB), stream possibly cut anywhere, schedule drawn from the tape with up to 4 consecutive Pendings, 3 transient errors and 11 drops; distinct by (stream, poll/pending/drop counts)",
              kind: SubKind::Random { quick: 300_000, thorough: 3_000_000, tape: 2048, f: random_walk } },
    ]
}

#[allow(dead_code)]
fn _unused(_: &dyn Chooser, _: fn() -> Fail) { let _ = fail_marker; }
#[allow(dead_code)]
fn fail_marker() -> CaseResult { ensure!(true, "x", "y"); if false { fail!("x", "y") } Ok(()) }
