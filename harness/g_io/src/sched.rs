//! Schedules as generated values: every non-deterministic outcome of the scripted transports and
//! every decision of the caller is one choice among `n` alternatives.

use std::cell::RefCell;
use std::rc::Rc;
use vcore::engine::Fail;
use vcore::Gen;

pub trait Chooser {
    /// Pick one of `n >= 1` alternatives.
    fn choose(&mut self, n: usize) -> usize;
    fn trail(&self) -> Vec<usize>;
}

/// Random walk: the schedule is a vector of 16-bit choices drawn from the proptest-owned tape and mapped
/// monotonically onto the alternatives (so shrinking the tape shrinks the schedule towards "first
/// alternative everywhere"); an exhausted vector yields the first alternative.
pub struct TapeChooser { pub choices: Vec<u16>, pub i: usize, pub trail: Vec<usize> }
impl TapeChooser {
    pub fn draw(g: &mut Gen, n: usize) -> TapeChooser { TapeChooser { choices: (0 .. n).map(|_| g.raw_u16()).collect(), i: 0, trail: Vec::new() } }
}
impl Chooser for TapeChooser {
    fn choose(&mut self, n: usize) -> usize {
        let v = self.choices.get(self.i).copied().unwrap_or(0) as usize;
        self.i += 1;
        let c = if n <= 1 { 0 } else { (v * n) >> 16 };
        self.trail.push(c);
        c
    }
    fn trail(&self) -> Vec<usize> { self.trail.clone() }
}

/// Systematic exploration by re-execution: follow `prefix`, then always the first alternative,
/// recording how many alternatives each choice point had.
pub struct DfsChooser { prefix: Vec<usize>, pub seen: Vec<(usize, usize)>, pub invalid: bool }
impl Chooser for DfsChooser {
    fn choose(&mut self, n: usize) -> usize {
        let i = self.seen.len();
        let c = if i < self.prefix.len() { if self.prefix[i] >= n { self.invalid = true } self.prefix[i].min(n - 1) } else { 0 };
        self.seen.push((c, n));
        c
    }
    fn trail(&self) -> Vec<usize> { self.seen.iter().map(|(c, _)| *c).collect() }
}

pub type Shared = Rc<RefCell<dyn Chooser>>;

/// Explore every schedule of `run` whose first choices are `fixed` (depth-first, by re-execution).
/// Returns (schedules run, complete?). A `fixed` prefix that names a non-existent alternative is an empty subtree.
pub fn dfs<F: FnMut(Rc<RefCell<DfsChooser>>) -> Result<(), Fail>>(fixed: &[usize], cap: u64, mut run: F) -> Result<(u64, bool), Fail> {
    let mut prefix: Vec<usize> = fixed.to_vec();
    let mut count = 0u64;
    loop {
        let ch = Rc::new(RefCell::new(DfsChooser { prefix: prefix.clone(), seen: Vec::new(), invalid: false }));
        let r = run(ch.clone());
        if ch.borrow().invalid { return Ok((count, true)) }
        r?;
        count += 1;
        let seen = ch.borrow().seen.clone();
        // a run shorter than the fixed prefix belongs to the subtree of its own (shorter) prefix: count it once, under all-zero padding
        if seen.len() < fixed.len() { return Ok((if fixed[seen.len() ..].iter().all(|c| *c == 0) { count } else { count - 1 }, true)) }
        // next schedule: bump the deepest choice beyond the fixed prefix that still has an untried alternative
        let mut j = seen.len();
        loop {
            if j <= fixed.len() { return Ok((count, true)) }
            j -= 1;
            if seen[j].0 + 1 < seen[j].1 { break }
        }
        prefix = seen[.. j].iter().map(|(c, _)| *c).collect();
        prefix.push(seen[j].0 + 1);
        if count >= cap { return Ok((count, false)) }
    }
}

/// Width of the subtree split used to spread one exploration over the worker threads.
pub const SPLIT: usize = 3;
pub const SPLIT_ALTS: usize = 7;
pub fn split_prefix(k: usize) -> Vec<usize> { let mut v = Vec::new(); let mut k = k; for _ in 0 .. SPLIT { v.push(k % SPLIT_ALTS); k /= SPLIT_ALTS } v }
pub fn split_count() -> usize { SPLIT_ALTS.pow(SPLIT as u32) }

/// Reduced set for the exhaustive explorations: smallest, half, everything.
pub fn amounts_small(max: usize) -> Vec<usize> { let mut v = vec![1, (max / 2).max(1), max]; v.sort_unstable(); v.dedup(); v }

/// Amounts offered when up to `max` bytes could move: all of them when few, a spread otherwise.
pub fn amounts(max: usize) -> Vec<usize> {
    if max <= 4 { (1 ..= max).collect() } else { let mut v = vec![1, 2, max / 2, max - 1, max]; v.sort_unstable(); v.dedup(); v }
}

thread_local! {
    /// Scratch buffer handed to `AsyncReader::with_buffer` / `AsyncWriter::with_buffer` by the next schedule run
    /// (None = plain `new`). Set by the random walks: empty, non-empty junk, or a large pre-allocated capacity.
    pub static PREBUF: std::cell::RefCell<Option<Vec<u8>>> = const { std::cell::RefCell::new(None) };
}
pub fn draw_prebuf(g: &mut vcore::Gen) -> &'static str {
    let (b, label) = match g.below(6) {
        0 => (Some(g.bytes(40)), "with_buffer(junk)"),
        1 => (Some(Vec::with_capacity(*g.pick(&[70_000usize, 200_000]))), "with_buffer(large capacity)"),
        2 => (Some(Vec::new()), "with_buffer(empty)"),
        _ => (None, "new")
    };
    PREBUF.with(|p| *p.borrow_mut() = b);
    label
}
thread_local! { pub static FIRST_SYNC: std::cell::Cell<bool> = const { std::cell::Cell::new(false) }; }
pub fn take_first_sync() -> bool { FIRST_SYNC.with(|p| p.replace(false)) }
pub fn set_first_sync(b: bool) { FIRST_SYNC.with(|p| p.set(b)) }
pub fn take_prebuf() -> Option<Vec<u8>> { PREBUF.with(|p| p.borrow_mut().take()) }

thread_local! {
    /// Kind of the transient I/O errors the scripted transports inject (the injected errors are recognised by their
    /// message, so any kind - UnexpectedEof, Interrupted, WouldBlock ... - can be used).
    pub static ERR_KIND: std::cell::Cell<std::io::ErrorKind> = const { std::cell::Cell::new(std::io::ErrorKind::ConnectionReset) };
}
pub const TRANSIENT: &str = "transient scripted error";
pub const ERR_KINDS: [std::io::ErrorKind; 7] = [std::io::ErrorKind::ConnectionReset, std::io::ErrorKind::UnexpectedEof, std::io::ErrorKind::Interrupted, std::io::ErrorKind::WouldBlock,
                                                std::io::ErrorKind::TimedOut, std::io::ErrorKind::WriteZero, std::io::ErrorKind::Other];
pub fn set_err_kind(k: std::io::ErrorKind) { ERR_KIND.with(|c| c.set(k)) }
pub fn transient_error() -> std::io::Error { std::io::Error::new(ERR_KIND.with(|c| c.get()), TRANSIENT) }
pub fn is_transient(e: &std::io::Error) -> bool { e.get_ref().map(|x| x.to_string() == TRANSIENT).unwrap_or(false) }

thread_local! {
    /// `set_max_len` value for the AsyncReader of the next schedule run (None = the default).
    pub static READER_MAX: std::cell::Cell<Option<u32>> = const { std::cell::Cell::new(None) };
}

thread_local! { static SPONTANEOUS: std::cell::Cell<usize> = const { std::cell::Cell::new(0) }; }
/// Drops granted at Pendings that the scripted transport did not cause (at most 3 per run, always taken first).
pub fn reset_spontaneous() { SPONTANEOUS.with(|c| c.set(0)) }
pub fn spontaneous_drop() -> bool { SPONTANEOUS.with(|c| { let n = c.get(); c.set(n + 1); n < 3 }) }

thread_local! { static VECTORED_SRC: std::cell::Cell<bool> = const { std::cell::Cell::new(false) }; }
pub fn set_vectored_src(b: bool) { VECTORED_SRC.with(|c| c.set(b)) }
pub fn vectored_src() -> bool { VECTORED_SRC.with(|c| c.get()) }

thread_local! { static LIMIT_MOVES: std::cell::Cell<bool> = const { std::cell::Cell::new(false) }; static LIMIT_BELOW: std::cell::Cell<bool> = const { std::cell::Cell::new(false) }; }
pub fn set_limit_moves(b: bool) { LIMIT_MOVES.with(|c| c.set(b)) }
pub fn limit_moves() -> bool { LIMIT_MOVES.with(|c| c.get()) }
pub fn count_limit_move(below_inflight: bool) { if below_inflight { LIMIT_BELOW.with(|c| c.set(true)) } }
pub fn take_limit_below_inflight() -> bool { LIMIT_BELOW.with(|c| c.replace(false)) }
