fn main() { schemagen::build_chunk(4, 8) }
