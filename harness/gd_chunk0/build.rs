fn main() { schemagen::build_chunk(0, 8) }
