//! Generated derive types (one chunk of the schema population) and their check tables.
#![allow(unused, non_snake_case, clippy::all)]
pub use g_derive_rt::rt;
include!(concat!(env!("OUT_DIR"), "/generated.rs"));
