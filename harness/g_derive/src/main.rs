//! C07 (built-in + derived), C08, C09, C10 over generated type definitions.

mod refs;

use g_derive_rt::{PairEntry, RootEntry};
use vcore::engine::{CaseResult, Fail, Kind, Stats, Sub};
use vcore::Gen;

fn roots() -> &'static Vec<RootEntry> {
    static T: std::sync::OnceLock<Vec<RootEntry>> = std::sync::OnceLock::new();
    T.get_or_init(|| {
        let mut v = Vec::new();
        v.extend(gd_chunk0::roots()); v.extend(gd_chunk1::roots()); v.extend(gd_chunk2::roots()); v.extend(gd_chunk3::roots());
        v.extend(gd_chunk4::roots()); v.extend(gd_chunk5::roots()); v.extend(gd_chunk6::roots()); v.extend(gd_chunk7::roots());
        v.sort_by_key(|r| r.id);
        v
    })
}

fn pairs() -> &'static Vec<PairEntry> {
    static T: std::sync::OnceLock<Vec<PairEntry>> = std::sync::OnceLock::new();
    T.get_or_init(|| {
        let mut v = Vec::new();
        v.extend(gd_chunk0::pairs()); v.extend(gd_chunk1::pairs()); v.extend(gd_chunk2::pairs()); v.extend(gd_chunk3::pairs());
        v.extend(gd_chunk4::pairs()); v.extend(gd_chunk5::pairs()); v.extend(gd_chunk6::pairs()); v.extend(gd_chunk7::pairs());
        v.sort_by_key(|r| r.id);
        v
    })
}

/// Attach the type definition to a failure so that the report is self-contained.
fn with_schema(r: CaseResult, name: &str, source: &str) -> CaseResult {
    r.map_err(|f| Fail::new(f.sig, format!("[schema {}] {}\n--- type definitions ---\n{}", name, f.detail, source)))
}

fn pick_root<'a>(g: &mut Gen) -> &'a RootEntry { let r = roots(); &r[g.below(r.len())] }

fn c07_derived(g: &mut Gen, st: &mut Stats) -> CaseResult { let r = pick_root(g); with_schema((r.c07)(g, st), r.name, r.source) }
fn c08_random(g: &mut Gen, st: &mut Stats) -> CaseResult { let r = pick_root(g); with_schema((r.c08)(g, st), r.name, r.source) }
fn c09_random(g: &mut Gen, st: &mut Stats) -> CaseResult { let r = pick_root(g); with_schema((r.c09)(g, st), r.name, r.source) }
fn c10_random(g: &mut Gen, st: &mut Stats) -> CaseResult {
    let p = pairs();
    let e = &p[g.below(p.len())];
    (e.c10)(g, st).map_err(|f| Fail::new(f.sig, format!("[pair {}: {}] {}\n--- old ---\n{}--- new ---\n{}", e.id, e.edits, f.detail, e.old_source, e.new_source)))
}

/// Enumeration of (schema, presence mask of the root's optional fields), up to 6 optionals exhaustively.
fn presence_index() -> &'static Vec<(usize, u64)> {
    static T: std::sync::OnceLock<Vec<(usize, u64)>> = std::sync::OnceLock::new();
    T.get_or_init(|| {
        let mut v = Vec::new();
        for (i, r) in roots().iter().enumerate() {
            let k = r.optionals.min(6);
            for m in 0 .. (1u64 << k) {
                // beyond 6 optionals: the first 6 exhaustively, the rest alternating patterns
                let mask = if r.optionals > 6 { m | (if m % 2 == 0 { 0xaaaa_aaaa_aaaa_aa80 } else { 0x5555_5555_5555_5540 }) } else { m };
                v.push((i, mask));
            }
        }
        v
    })
}

fn presence(i: u64, st: &mut Stats) -> CaseResult {
    let (ri, mask) = presence_index()[i as usize];
    let r = &roots()[ri];
    let out = with_schema((r.presence)(mask, st), r.name, r.source);
    if out.is_ok() { st.class(&format!("presence/{}-optionals", r.optionals.min(7))) }
    out
}

fn presence07(i: u64, st: &mut Stats) -> CaseResult { presence(i, st) }
fn presence08(i: u64, st: &mut Stats) -> CaseResult { presence(i, st) }
fn presence09(i: u64, st: &mut Stats) -> CaseResult { presence(i, st) }

fn subs() -> Vec<Sub> {
    let np = presence_index().len() as u64;
    let nr = roots().len();
    let npairs = pairs().len();
    eprintln!("  generated population: {} root schemas, {} version pairs, {} (schema, presence-mask) combinations", nr, npairs, np);
    let mut v = g_codec::checks::c07::subs();
    v.push(Sub { prop: "C07", name: "derived", rule: "value of a generated derived type (schema grammar over every value-affecting attribute): len == bytes written, exact buffer suffices, one byte less fails; distinct by bytes",
                 kind: Kind::Random { quick: 1_500_000, thorough: 6_000_000, tape: 768, f: c07_derived } });
    v.push(Sub { prop: "C07", name: "derived-presence", rule: "every generated schema x every presence combination of its root-level optional fields (exhaustive up to 6 optionals), deterministic leaf values",
                 kind: Kind::Enumerate { quick: np, thorough: np, f: presence07, complete_quick: true, complete_thorough: true } });
    v.push(Sub { prop: "C08", name: "wire-format", rule: "value of a generated type: to_vec == reference encoder driven by the schema (documented format); second spelling (renamed, reordered, n<->b) of the same schema encodes the same tape-drawn value to identical bytes; non-trivial = an absent/gap null or a tag occurs; distinct by bytes",
                 kind: Kind::Random { quick: 1_500_000, thorough: 6_000_000, tape: 768, f: c08_random } });
    for p in ["C08", "C07"] {
        v.push(Sub { prop: p, name: "reference-fields", rule: "encode-only definitions (struct, tuple struct, generic struct, enum variant; array, map and tagged) whose fields are &T, &mut T, &&T, &&mut T, &mut &T, &&&T references to the values, x every presence combination of 4 optional fields x values: bytes and CborLen identical to the twin definition that owns the values (an absent optional behind a reference is absent)",
                     kind: Kind::Random { quick: 200_000, thorough: 2_000_000, tape: 64, f: refs::reference_fields } });
    }
    for p in ["C08", "C07", "C09"] {
        v.push(Sub { prop: p, name: "extreme-indices", rule: "definitions with field, key and variant indices 2^32-1 and 2^32-2 (array and map structs, enum variants, index_only): exact bytes, exact length and round trip; a present field at array index 2^32-1 is observed through a 48-byte sink (header of 2^32 elements, the leading fields, nulls; write error) and its length by arithmetic; a variant index beyond the u32 range on input is rejected",
                     kind: Kind::Random { quick: 20_000, thorough: 200_000, tape: 16, f: refs::extreme::extreme_indices } });
    }
    v.push(Sub { prop: "C08", name: "presence", rule: "every generated schema x every presence combination of root-level optional fields (exhaustive up to 6)",
                 kind: Kind::Enumerate { quick: np, thorough: np, f: presence08, complete_quick: true, complete_thorough: true } });
    v.push(Sub { prop: "C09", name: "roundtrip", rule: "value of a generated type: decode(own encoding + junk) == value with skipped fields defaulted, exact consumption, borrowing fields point into the input; the same through a re-framed encoding (indefinite bodies/collections, wider heads); negative edits of the item tree (wrong/removed tag at struct/enum/variant/field level, mandatory field removed, unused variant index) must fail with the documented error class",
                 kind: Kind::Random { quick: 1_000_000, thorough: 4_000_000, tape: 768, f: c09_random } });
    v.push(Sub { prop: "C09", name: "presence", rule: "every generated schema x every presence combination of root-level optional fields (exhaustive up to 6): round-trip",
                 kind: Kind::Enumerate { quick: np, thorough: np, f: presence09, complete_quick: true, complete_thorough: true } });
    v.push(Sub { prop: "C10", name: "version-pairs", rule: "pairs (old, new) of generated schema universes related by 1-4 documented-compatible edits (add/drop optional field at fresh or gap index, add variant to an optional-only enum, unit variant -> variant with optional fields): a value of either version decodes with the other; field-wise comparison through a schema-generic view (shared equal, reader-only absent, writer-only ignored, unknown variant -> None with siblings intact), exact consumption; then (a) 1-3 fields unknown to BOTH versions are injected into the same bytes - arbitrary well-formed items (all major types, wide heads, indefinite containers/strings, tag chains, integers beyond i64, half floats, simple values) appended behind the reader's highest index (array) or inserted under unused keys at generated positions (map) - and (b) the writer's value is re-framed (wider heads, indefinite bodies): the reader must return exactly the view it returned for the plain bytes and consume everything; non-trivial = the two views differ, or an injected / re-framed input",
                 kind: Kind::Random { quick: 1_500_000, thorough: 6_000_000, tape: 768, f: c10_random } });
    v
}

fn assumptions(_: &str) -> Vec<String> {
    vec![
        "type definitions range over the harness's schema grammar (structs/enums, array/map, index_only, transparent, skip, tags at every level, n/b, gaps, >= 24 fields, minicbor::bytes, two nil-aware custom codecs, one generic parameter, nesting); not over all Rust definitions".into(),
        "the reference encoder (g_derive_rt::rt::body/variant/tagged) is written from minicbor-derive's documentation; an absent optional field that carries a tag and lies below the highest present array index is expected as tag(null)".into(),
        "the schema population of the quick tier is fixed (VERIF_SCHEMA_SEED=1) so that the build is cached; VERIF_SEED drives the values. The thorough tier regenerates the population from VERIF_SEED".into(),
    ]
}

fn main() { vcore::engine::main(subs(), &assumptions) }
