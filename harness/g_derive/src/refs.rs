//! Encode-only definitions whose fields are *references* to the values (`&T`, `&mut T`, `&&T`, `&&mut T`, `&mut &T`): what a
//! program that serialises data it does not own derives. A field that refers to an absent optional value is an absent
//! optional value, so each definition must produce exactly the bytes - and the length - of its twin that owns the values
//! (the twins are ordinary definitions of the kind the generated population checks against the reference encoder).

use minicbor::{CborLen, Encode};
use vcore::engine::{hash_of, CaseResult, Stats};
use vcore::{ensure, Gen};

macro_rules! family {
    ($m:ident, $($attr:tt)*) => {
        pub mod $m {
            use super::*;
            #[derive(Debug, Clone, Encode, CborLen)] $($attr)*
            pub struct Own { #[n(0)] pub a: Option<u16>, #[n(1)] pub b: u8, #[n(3)] pub c: Option<String>, #[n(4)] pub d: Option<u16>, #[n(7)] pub e: Option<u8> }
            #[derive(Encode, CborLen)] $($attr)*
            pub struct R1<'a> { #[n(0)] pub a: &'a Option<u16>, #[n(1)] pub b: &'a u8, #[n(3)] pub c: &'a Option<String>, #[n(4)] pub d: &'a Option<u16>, #[n(7)] pub e: &'a Option<u8> }
            #[derive(Encode, CborLen)] $($attr)*
            pub struct R2<'a> { #[n(0)] pub a: &'a mut Option<u16>, #[n(1)] pub b: &'a mut u8, #[n(3)] pub c: &'a mut Option<String>, #[n(4)] pub d: &'a mut Option<u16>, #[n(7)] pub e: &'a mut Option<u8> }
            #[derive(Encode, CborLen)] $($attr)*
            pub struct R3<'a, 'x> { #[n(0)] pub a: &'a &'a Option<u16>, #[n(1)] pub b: u8, #[n(3)] pub c: &'a &'a mut Option<String>, #[n(4)] pub d: &'x mut &'a Option<u16>, #[n(7)] pub e: &'a &'a &'a Option<u8> }
            #[derive(Encode, CborLen)] $($attr)*
            pub struct RT<'a>(#[n(0)] pub &'a mut Option<u16>, #[n(1)] pub u8, #[n(3)] pub &'a Option<String>, #[n(4)] pub &'a &'a mut Option<u16>, #[n(7)] pub &'a mut Option<u8>);
            #[derive(Encode, CborLen)] $($attr)*
            pub struct G<A, C, D, E> { #[n(0)] pub a: A, #[n(1)] pub b: u8, #[n(3)] pub c: C, #[n(4)] pub d: D, #[n(7)] pub e: E }
            #[derive(Encode, CborLen)]
            pub enum EOwn { #[n(0)] $($attr)* V { #[n(0)] a: Option<u16>, #[n(1)] b: u8, #[n(3)] c: Option<String>, #[n(4)] d: Option<u16>, #[n(7)] e: Option<u8> } }
            #[derive(Encode, CborLen)]
            pub enum ERef<'a> { #[n(0)] $($attr)* V { #[n(0)] a: &'a mut Option<u16>, #[n(1)] b: u8, #[n(3)] c: &'a Option<String>, #[n(4)] d: &'a &'a mut Option<u16>, #[n(7)] e: &'a mut Option<u8> } }

            pub fn check(o: &Own, st: &mut Stats) -> CaseResult {
                let want = minicbor::to_vec(o).map_err(|e| vcore::Fail::new("encode", e.to_string()))?;
                let wlen = minicbor::len(o);
                ensure!(wlen == want.len(), "own-len", "owning twin: len {} but {} bytes", wlen, want.len());
                macro_rules! same { ($what:expr, $v:expr) => {{
                    let got = minicbor::to_vec(&$v).map_err(|e| vcore::Fail::new("encode", e.to_string()))?;
                    ensure!(got == want, "reference-fields-bytes", "{} [{}]: {:?} encodes as {} through reference fields {}, the twin that owns the values gives {}", stringify!($m), stringify!($($attr)*), o, vcore::item::hex(&got), $what, vcore::item::hex(&want));
                    let l = minicbor::len(&$v);
                    ensure!(l == got.len(), "reference-fields-len", "{} [{}]: {:?} through reference fields {}: len {} but {} bytes are written", stringify!($m), stringify!($($attr)*), o, $what, l, got.len());
                }} }
                let mut w = o.clone();
                same!("&T", R1 { a: &w.a, b: &w.b, c: &w.c, d: &w.d, e: &w.e });
                { let Own { a, b, c, d, e } = &mut w; same!("&mut T", R2 { a, b, c, d, e }); }
                { let mut w2 = o.clone(); let ra = &w.a; let rd = &w.d; let mut rd2 = rd; let re = &&w.e; let rc = &mut w2.c; same!("&&T / &&mut T / &mut &T / &&&T", R3 { a: &ra, b: w.b, c: &rc, d: &mut rd2, e: &re }); }
                { let mut w2 = o.clone(); let mut w3 = o.clone(); let rd = &mut w3.d; same!("tuple struct of &mut T / &T / &&mut T", RT(&mut w2.a, w.b, &w.c, &rd, &mut w2.e)); }
                { let mut w2 = o.clone(); let mut w3 = o.clone(); let rd = &w3.d; let _ = &mut w3.b; same!("generic struct instantiated with &mut T / &T / &&T", G { a: &mut w2.a, b: w.b, c: &w.c, d: &rd, e: &mut w2.e }); }
                // enum variants
                let ewant = minicbor::to_vec(&EOwn::V { a: o.a, b: o.b, c: o.c.clone(), d: o.d, e: o.e }).map_err(|e| vcore::Fail::new("encode", e.to_string()))?;
                { let mut w2 = o.clone(); let mut w3 = o.clone(); let rd = &mut w3.d; let v = ERef::V { a: &mut w2.a, b: w.b, c: &w.c, d: &rd, e: &mut w2.e };
                  let got = minicbor::to_vec(&v).map_err(|e| vcore::Fail::new("encode", e.to_string()))?;
                  ensure!(got == ewant, "reference-fields-bytes", "{} [{}]: {:?} as enum variant with reference fields encodes as {}, the owning twin gives {}", stringify!($m), stringify!($($attr)*), o, vcore::item::hex(&got), vcore::item::hex(&ewant));
                  ensure!(minicbor::len(&v) == got.len(), "reference-fields-len", "{}: enum variant with reference fields: len {} but {} bytes", stringify!($m), minicbor::len(&v), got.len()); }
                st.nontrivial(hash_of(&(stringify!($m), &want)));
                Ok(())
            }
        }
    }
}

family!(arr, );
family!(arr2, #[cbor(array)]);
family!(map, #[cbor(map)]);
family!(tagged, #[cbor(tag(77))]);

pub fn reference_fields(g: &mut Gen, st: &mut Stats) -> CaseResult {
    st.eval();
    let mask = g.below(16);
    let s = if mask & 2 != 0 { Some(g.string(6)) } else { None };
    macro_rules! own { ($m:ident) => { $m::Own { a: if mask & 1 != 0 { Some(g.u16()) } else { None }, b: g.byte(), c: s.clone(), d: if mask & 4 != 0 { Some(g.u16()) } else { None }, e: if mask & 8 != 0 { Some(g.byte()) } else { None } } } }
    st.class(&format!("reference-fields/{} of 4 optionals present", (mask as u32).count_ones()));
    match g.below(4) { 0 => arr::check(&own!(arr), st), 1 => arr2::check(&own!(arr2), st), 2 => map::check(&own!(map), st), _ => tagged::check(&own!(tagged), st) }
}

// ---- indices at the top of the u32 range ----------------------------------------------------------------------------------
// `#[n(4294967295)]` is a legal index. Under map encoding it is an ordinary key; under array encoding a present field at that
// index means a header of 2^32 elements followed by as many nulls - nothing one would build in memory, but the header and
// the first bytes are observable through a bounded sink, and the length is plain arithmetic.

pub mod extreme {
    use super::*;
    use minicbor::Decode;
    #[derive(Debug, Clone, PartialEq, Encode, Decode, CborLen)]
    pub struct XA { #[n(0)] pub a: u8, #[n(4294967295)] pub z: Option<u8> }
    #[derive(Debug, Clone, PartialEq, Encode, Decode, CborLen)] #[cbor(map)]
    pub struct XM { #[n(0)] pub a: u8, #[n(4294967295)] pub z: Option<u8>, #[n(4294967294)] pub y: Option<u16> }
    #[derive(Debug, Clone, PartialEq, Encode, Decode, CborLen)]
    pub enum XE { #[n(4294967295)] Last, #[n(4294967294)] #[cbor(map)] M { #[n(4294967295)] z: Option<u8>, #[n(1)] q: u8 }, #[n(0)] V(#[n(0)] u8, #[n(4294967295)] Option<u8>) }
    #[derive(Debug, Clone, Copy, PartialEq, Encode, Decode, CborLen)] #[cbor(index_only)]
    pub enum XI { #[n(4294967295)] Top, #[n(0)] Zero, #[n(4294967294)] Sub }

    fn rt<T: Encode<()> + for<'b> Decode<'b, ()> + CborLen<()> + PartialEq + std::fmt::Debug>(v: &T, want: &[u8]) -> CaseResult {
        let got = minicbor::to_vec(v).map_err(|e| vcore::Fail::new("encode", e.to_string()))?;
        ensure!(got == want, "extreme-index-bytes", "{:?} encodes as {}, the documented format gives {}", v, vcore::item::hex(&got), vcore::item::hex(want));
        ensure!(minicbor::len(v) == got.len(), "extreme-index-len", "{:?}: len {} but {} bytes are written", v, minicbor::len(v), got.len());
        match minicbor::decode::<T>(&got) { Ok(b) => ensure!(&b == v, "extreme-index-roundtrip", "{:?} encoded as {} decodes as {:?}", v, vcore::item::hex(&got), b), Err(e) => return Err(vcore::Fail::new("extreme-index-roundtrip", format!("{:?} encoded as {} is rejected: {}", v, vcore::item::hex(&got), e))) }
        Ok(())
    }

    /// A present field at array index 2^32-1: header + the first fields + nulls, as far as a small sink takes them.
    fn bounded<T: Encode<()> + CborLen<()> + std::fmt::Debug>(v: &T, prefix: &[u8], total: u64) -> CaseResult {
        let mut buf = [0xeeu8; 48];
        let r = minicbor::encode(v, &mut buf[..]);
        match r { Err(e) => ensure!(e.is_write(), "extreme-index-error", "{:?} into a 48-byte slice failed with `{}`, not with a write error", v, e), Ok(()) => return Err(vcore::Fail::new("extreme-index-fits", format!("{:?} was encoded into 48 bytes: {}", v, vcore::item::hex(&buf)))) }
        let mut want = prefix.to_vec();
        want.resize(48, 0xf6);
        ensure!(buf[..] == want[..], "extreme-index-bytes", "{:?}: the first 48 bytes written are {}, the documented format starts {}", v, vcore::item::hex(&buf), vcore::item::hex(&want));
        let l = minicbor::len(v) as u64;
        ensure!(l == total, "extreme-index-len", "{:?}: len = {}, the encoding has {} bytes (header 9, fields, 2^32 - 2 nulls)", v, l, total);
        Ok(())
    }

    pub fn extreme_indices(g: &mut Gen, st: &mut Stats) -> CaseResult {
        st.eval();
        let a = g.byte() % 24; let z = g.byte() % 24; let y = (g.byte() % 24) as u16;
        const TOP: [u8; 5] = [0x1a, 0xff, 0xff, 0xff, 0xff];
        const SUB: [u8; 5] = [0x1a, 0xff, 0xff, 0xff, 0xfe];
        let cat = |parts: &[&[u8]]| -> Vec<u8> { parts.iter().flat_map(|p| p.iter().copied()).collect() };
        match g.below(10) {
            0 => rt(&XA { a, z: None }, &[0x81, a])?,
            1 => bounded(&XA { a, z: Some(z) }, &cat(&[&[0x9b, 0, 0, 0, 1, 0, 0, 0, 0], &[a]]), 9 + 1 + ((1u64 << 32) - 2) + 1)?,
            2 => rt(&XM { a, z: Some(z), y: None }, &cat(&[&[0xa2, 0x00, a], &TOP, &[z]]))?,
            3 => rt(&XM { a, z: Some(z), y: Some(y) }, &cat(&[&[0xa3, 0x00, a], &SUB, &[y as u8], &TOP, &[z]]))?,
            4 => rt(&XM { a, z: None, y: None }, &[0xa1, 0x00, a])?,
            5 => rt(&XE::Last, &cat(&[&[0x82], &TOP, &[0x80]]))?,
            6 => rt(&XE::M { z: Some(z), q: a }, &cat(&[&[0x82], &SUB, &[0xa2, 0x01, a], &TOP, &[z]]))?,
            7 => { rt(&XE::V(a, None), &[0x82, 0x00, 0x81, a])?; bounded(&XE::V(a, Some(z)), &cat(&[&[0x82, 0x00, 0x9b, 0, 0, 0, 1, 0, 0, 0, 0], &[a]]), 2 + 9 + 1 + ((1u64 << 32) - 2) + 1)? }
            8 => { rt(&XI::Top, &TOP)?; rt(&XI::Sub, &SUB)?; rt(&XI::Zero, &[0x00])? }
            _ => {
                // the reader's side: an index beyond the u32 range is no variant (how a key beyond the range is treated in a map is
                // not documented - indices are u32 by definition - and is not judged)
                let r = minicbor::decode::<XI>(&[0x1b, 0, 0, 0, 1, 0, 0, 0, 0]);
                ensure!(r.is_err(), "extreme-index-decode", "variant index 2^32 decoded as {:?}", r);
                let r = minicbor::decode::<XI>(&[0x1b, 0, 0, 0, 1, 0xff, 0xff, 0xff, 0xff]);
                ensure!(r.is_err(), "extreme-index-decode", "variant index 2^33 - 1 decoded as {:?}", r);
            }
        }
        st.nontrivial(hash_of(&(a, z, y)));
        st.class("extreme-indices");
        Ok(())
    }
}
