//! Encode-only definitions whose fields are *references* to the values (`&T`, `&mut T`, `&&T`, `&&mut T`, `&mut &T`): what a
//! program that serialises data it does not own derives. A field that refers to an absent optional value is an absent
//! optional value, so each definition must produce exactly the bytes - and the length - of its twin that owns the values
//! (the twins are ordinary definitions of the kind the generated population checks against the reference encoder).

use minicbor::{CborLen, Encode};
use vcore::engine::{hash_of, CaseResult, Stats};
use vcore::{ensure, Gen};

macro_rules! family {
    ($m:ident, $($attr:tt)*) => {
        pub mod $m {
            use super::*;
            #[derive(Debug, Clone, Encode, CborLen)] $($attr)*
            pub struct Own { #[n(0)] pub a: Option<u16>, #[n(1)] pub b: u8, #[n(3)] pub c: Option<String>, #[n(4)] pub d: Option<u16>, #[n(7)] pub e: Option<u8> }
            #[derive(Encode, CborLen)] $($attr)*
            pub struct R1<'a> { #[n(0)] pub a: &'a Option<u16>, #[n(1)] pub b: &'a u8, #[n(3)] pub c: &'a Option<String>, #[n(4)] pub d: &'a Option<u16>, #[n(7)] pub e: &'a Option<u8> }
            #[derive(Encode, CborLen)] $($attr)*
            pub struct R2<'a> { #[n(0)] pub a: &'a mut Option<u16>, #[n(1)] pub b: &'a mut u8, #[n(3)] pub c: &'a mut Option<String>, #[n(4)] pub d: &'a mut Option<u16>, #[n(7)] pub e: &'a mut Option<u8> }
            #[derive(Encode, CborLen)] $($attr)*
            pub struct R3<'a, 'x> { #[n(0)] pub a: &'a &'a Option<u16>, #[n(1)] pub b: u8, #[n(3)] pub c: &'a &'a mut Option<String>, #[n(4)] pub d: &'x mut &'a Option<u16>, #[n(7)] pub e: &'a &'a &'a Option<u8> }
            #[derive(Encode, CborLen)] $($attr)*
            pub struct RT<'a>(#[n(0)] pub &'a mut Option<u16>, #[n(1)] pub u8, #[n(3)] pub &'a Option<String>, #[n(4)] pub &'a &'a mut Option<u16>, #[n(7)] pub &'a mut Option<u8>);
            #[derive(Encode, CborLen)] $($attr)*
            pub struct G<A, C, D, E> { #[n(0)] pub a: A, #[n(1)] pub b: u8, #[n(3)] pub c: C, #[n(4)] pub d: D, #[n(7)] pub e: E }
            #[derive(Encode, CborLen)]
            pub enum EOwn { #[n(0)] $($attr)* V { #[n(0)] a: Option<u16>, #[n(1)] b: u8, #[n(3)] c: Option<String>, #[n(4)] d: Option<u16>, #[n(7)] e: Option<u8> } }
            #[derive(Encode, CborLen)]
            pub enum ERef<'a> { #[n(0)] $($attr)* V { #[n(0)] a: &'a mut Option<u16>, #[n(1)] b: u8, #[n(3)] c: &'a Option<String>, #[n(4)] d: &'a &'a mut Option<u16>, #[n(7)] e: &'a mut Option<u8> } }

            pub fn check(o: &Own, st: &mut Stats) -> CaseResult {
                let want = minicbor::to_vec(o).map_err(|e| vcore::Fail::new("encode", e.to_string()))?;
                let wlen = minicbor::len(o);
                ensure!(wlen == want.len(), "own-len", "owning twin: len {} but {} bytes", wlen, want.len());
                macro_rules! same { ($what:expr, $v:expr) => {{
                    let got = minicbor::to_vec(&$v).map_err(|e| vcore::Fail::new("encode", e.to_string()))?;
                    ensure!(got == want, "reference-fields-bytes", "{} [{}]: {:?} encodes as {} through reference fields {}, the twin that owns the values gives {}", stringify!($m), stringify!($($attr)*), o, vcore::item::hex(&got), $what, vcore::item::hex(&want));
                    let l = minicbor::len(&$v);
                    ensure!(l == got.len(), "reference-fields-len", "{} [{}]: {:?} through reference fields {}: len {} but {} bytes are written", stringify!($m), stringify!($($attr)*), o, $what, l, got.len());
                }} }
                let mut w = o.clone();
                same!("&T", R1 { a: &w.a, b: &w.b, c: &w.c, d: &w.d, e: &w.e });
                { let Own { a, b, c, d, e } = &mut w; same!("&mut T", R2 { a, b, c, d, e }); }
                { let mut w2 = o.clone(); let ra = &w.a; let rd = &w.d; let mut rd2 = rd; let re = &&w.e; let rc = &mut w2.c; same!("&&T / &&mut T / &mut &T / &&&T", R3 { a: &ra, b: w.b, c: &rc, d: &mut rd2, e: &re }); }
                { let mut w2 = o.clone(); let mut w3 = o.clone(); let rd = &mut w3.d; same!("tuple struct of &mut T / &T / &&mut T", RT(&mut w2.a, w.b, &w.c, &rd, &mut w2.e)); }
                { let mut w2 = o.clone(); let mut w3 = o.clone(); let rd = &w3.d; let _ = &mut w3.b; same!("generic struct instantiated with &mut T / &T / &&T", G { a: &mut w2.a, b: w.b, c: &w.c, d: &rd, e: &mut w2.e }); }
                // enum variants
                let ewant = minicbor::to_vec(&EOwn::V { a: o.a, b: o.b, c: o.c.clone(), d: o.d, e: o.e }).map_err(|e| vcore::Fail::new("encode", e.to_string()))?;
                { let mut w2 = o.clone(); let mut w3 = o.clone(); let rd = &mut w3.d; let v = ERef::V { a: &mut w2.a, b: w.b, c: &w.c, d: &rd, e: &mut w2.e };
                  let got = minicbor::to_vec(&v).map_err(|e| vcore::Fail::new("encode", e.to_string()))?;
                  ensure!(got == ewant, "reference-fields-bytes", "{} [{}]: {:?} as enum variant with reference fields encodes as {}, the owning twin gives {}", stringify!($m), stringify!($($attr)*), o, vcore::item::hex(&got), vcore::item::hex(&ewant));
                  ensure!(minicbor::len(&v) == got.len(), "reference-fields-len", "{}: enum variant with reference fields: len {} but {} bytes", stringify!($m), minicbor::len(&v), got.len()); }
                st.nontrivial(hash_of(&(stringify!($m), &want)));
                Ok(())
            }
        }
    }
}

family!(arr, );
family!(arr2, #[cbor(array)]);
family!(map, #[cbor(map)]);
family!(tagged, #[cbor(tag(77))]);

pub fn reference_fields(g: &mut Gen, st: &mut Stats) -> CaseResult {
    st.eval();
    let mask = g.below(16);
    let s = if mask & 2 != 0 { Some(g.string(6)) } else { None };
    macro_rules! own { ($m:ident) => { $m::Own { a: if mask & 1 != 0 { Some(g.u16()) } else { None }, b: g.byte(), c: s.clone(), d: if mask & 4 != 0 { Some(g.u16()) } else { None }, e: if mask & 8 != 0 { Some(g.byte()) } else { None } } } }
    st.class(&format!("reference-fields/{} of 4 optionals present", (mask as u32).count_ones()));
    match g.below(4) { 0 => arr::check(&own!(arr), st), 1 => arr2::check(&own!(arr2), st), 2 => map::check(&own!(map), st), _ => tagged::check(&own!(tagged), st) }
}
