fn main() { schemagen::build_chunk(3, 8) }
