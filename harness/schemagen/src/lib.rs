//! Schema grammar for minicbor-derive: generates *programs* (type definitions covering every
//! value-affecting attribute), documented-compatible edits between versions, and the Rust source
//! (type definitions + harness-side model/generator impls) compiled by g_derive's build script.
//!
//! Generation here happens at build time and is a pure function of the schema seed; the values of the
//! generated types are produced at run time from proptest-owned tapes.

pub mod emit;

#[derive(Clone)]
pub struct Rng(u64);
impl Rng {
    pub fn new(seed: u64) -> Rng { Rng(seed.wrapping_mul(0x9E3779B97F4A7C15) ^ 0xD1B54A32D192ED03) }
    pub fn next(&mut self) -> u64 { self.0 ^= self.0 << 13; self.0 ^= self.0 >> 7; self.0 ^= self.0 << 17; self.0.wrapping_mul(0x2545F4914F6CDD1D) }
    pub fn below(&mut self, n: usize) -> usize { if n <= 1 { 0 } else { (self.next() >> 11) as usize % n } }
    pub fn chance(&mut self, pct: usize) -> bool { self.below(100) < pct }
    pub fn pick<'a, T>(&mut self, xs: &'a [T]) -> &'a T { &xs[self.below(xs.len())] }
}

#[derive(Clone, Debug, PartialEq)]
pub enum Ty {
    U8, U16, U32, U64, I8, I16, I32, I64, Bool, Char, F32, F64,
    String,
    /// `&'a str` (implicitly borrowing)
    Str,
    /// `Cow<'a, str>`: `Cow::Borrowed` iff the index is `b`
    CowStr,
    /// `Vec<u8>` with `with = "minicbor::bytes"`
    BytesVec,
    /// `&'a [u8]` with `with = "minicbor::bytes"`
    BytesSlice,
    /// `[u8; 4]` with `with = "minicbor::bytes"`
    BytesArr4,
    /// `Cow<'a, [u8]>` with `with = "minicbor::bytes"`
    CowBytes,
    ByteVec,
    /// `&'a ByteSlice`
    ByteSliceRef,
    /// `Cow<'a, ByteSlice>`: borrowed from the input under `b`, owned under `n` (the macros recognise it by its spelling)
    CowByteSlice,
    VecOf(Box<Ty>),
    BoxOf(Box<Ty>),
    /// `BTreeMap<u8, T>`
    MapU8(Box<Ty>),
    /// a previously generated struct / enum of the same universe
    Struct(usize),
    Enum(usize),
    /// harness type `NilU32` through `with = "...", has_nil` (nil is a sentinel that encodes as five bytes, not as null)
    NilWith,
    /// harness type `NilStr` through encode_with/decode_with/is_nil/nil/cbor_len
    NilFns,
    /// the type parameter `T` of a generic struct
    Param,
    /// a generic struct of the universe instantiated at u16
    GenericInst(usize),
    /// the same generic struct instantiated at `Option<u16>`: the parameter field is nil-capable although the
    /// macro cannot see an `Option` in its declared type (it has to ask `Encode::is_nil` / `Decode::nil`)
    GenericInstOpt(usize),
    /// harness type `OwnNil`: a user type whose `Encode::is_nil` / `Decode::nil` are overridden (no attribute)
    NilOwn,
    /// `crate::rt::OptU8`, a type alias of `Option<u8>` (nil-capable, not syntactically an `Option`)
    OptAlias,
    /// `OwnNil` with only `decode_with` (NilOwnDec) or only `encode_with` (NilOwnEnc) forwarding to its own impls: a codec
    /// attribute without `nil` / `is_nil` switches the trait-level nil handling off, so the field is mandatory and its
    /// nil value is written as an explicit null
    NilOwnDec,
    NilOwnEnc,
    /// `Box<Option<T>>` (T an owned scalar leaf): a *mandatory* field whose value may be null - `Box` forwards neither
    /// `is_nil` nor `nil`, so the null is written explicitly and a missing field is an error
    BoxOpt(Box<Ty>),
    /// `(Option<Vec<u8>>)` - the type in parentheses, as macro-generated code often has it - with `minicbor::bytes`: the macros
    /// decide optionality of a field with a codec from the spelling, and this spelling is not `Option<..>`: the field is mandatory
    /// and its `None` is an explicit null
    ParenOptBytes,
    /// harness type `WideNil`: trait-level nil whose encoding is an ordinary value; also used as `Option<WideNil>`
    WideNil,
}

#[derive(Clone, Debug)]
pub struct Field {
    pub idx: u32,
    pub b: bool,
    pub ty: Ty,
    pub optional: bool,
    pub tag: Option<u64>,
    pub skip: bool,
    pub name: String,
    /// use the `#[cbor(n(..))]` spelling instead of `#[n(..)]`
    pub long_attr: bool,
    /// a forwarding custom codec on an ordinary field: 1 = `decode_with`, 2 = `encode_with`, 3 = both (as separate
    /// attributes); the functions forward to the type's own impls, so the bytes must not change
    pub fwd: u8,
}

#[derive(Clone, Copy, Debug, PartialEq)]
pub enum Encoding { Array, Map }

#[derive(Clone, Copy, Debug, PartialEq)]
pub enum Shape { Unit, Tuple, Named }

#[derive(Clone, Debug)]
pub struct StructDef {
    pub name: String,
    pub shape: Shape,
    /// explicit attribute (None = default array)
    pub encoding: Option<Encoding>,
    pub tag: Option<u64>,
    pub transparent: bool,
    pub fields: Vec<Field>,
    pub generic: bool,
}

#[derive(Clone, Debug)]
pub struct Variant {
    pub idx: u32,
    pub name: String,
    pub shape: Shape,
    pub encoding: Option<Encoding>,
    pub tag: Option<u64>,
    pub fields: Vec<Field>,
}

#[derive(Clone, Debug)]
pub struct EnumDef {
    pub name: String,
    pub encoding: Option<Encoding>,
    pub index_only: bool,
    pub tag: Option<u64>,
    pub variants: Vec<Variant>,
}

#[derive(Clone, Debug)]
pub enum Def { Struct(StructDef), Enum(EnumDef) }

impl Def {
    pub fn name(&self) -> &str { match self { Def::Struct(s) => &s.name, Def::Enum(e) => &e.name } }
}

/// A closed set of type definitions; later definitions may reference earlier ones. The last one is the root.
#[derive(Clone, Debug)]
pub struct Universe { pub defs: Vec<Def> }

impl StructDef { pub fn enc(&self) -> Encoding { self.encoding.unwrap_or(Encoding::Array) } }
impl EnumDef { pub fn enc(&self) -> Encoding { self.encoding.unwrap_or(Encoding::Array) } }
impl Variant { pub fn enc(&self, e: &EnumDef) -> Encoding { self.encoding.unwrap_or(e.enc()) } }

pub fn ty_needs_lifetime(t: &Ty, u: &Universe) -> bool {
    match t {
        Ty::Str | Ty::CowStr | Ty::BytesSlice | Ty::CowBytes | Ty::ByteSliceRef | Ty::CowByteSlice => true,
        Ty::VecOf(x) | Ty::BoxOf(x) | Ty::MapU8(x) => ty_needs_lifetime(x, u),
        Ty::Struct(i) | Ty::Enum(i) | Ty::GenericInst(i) | Ty::GenericInstOpt(i) => def_needs_lifetime(&u.defs[*i], u),
        _ => false
    }
}

pub fn def_needs_lifetime(d: &Def, u: &Universe) -> bool {
    match d {
        Def::Struct(s) => s.fields.iter().any(|f| ty_needs_lifetime(&f.ty, u)),
        Def::Enum(e) => e.variants.iter().any(|v| v.fields.iter().any(|f| ty_needs_lifetime(&f.ty, u)))
    }
}

/// The derive macros constrain the decode lifetime implicitly only for `&str` / `&[u8]` / `&ByteSlice`
/// (and `Option`s of them); any other field type that mentions a lifetime has to be marked `#[b(..)]`.
pub fn must_be_b(t: &Ty, u: &Universe) -> bool {
    ty_needs_lifetime(t, u) && !matches!(t, Ty::Str | Ty::BytesSlice | Ty::ByteSliceRef | Ty::CowStr | Ty::CowBytes | Ty::CowByteSlice)
}

/// Can this type stand in an `Option<_>`-less field that is still "optional" (nil-capable)?
pub fn ty_has_nil(t: &Ty) -> bool { matches!(t, Ty::NilWith | Ty::NilFns | Ty::NilOwn | Ty::OptAlias | Ty::WideNil) }

/// Can a value of this type encode as a bare null? Such a type must not stand directly inside an `Option<_>` field:
/// `Some(x)` with `x` encoding as null is indistinguishable from `None` on the wire (the "Option directly in an
/// Option" shape that is lossy by construction) - e.g. a transparent newtype around an optional field.
pub fn can_encode_null(t: &Ty, u: &Universe) -> bool {
    match t {
        Ty::NilWith | Ty::NilFns | Ty::NilOwn | Ty::OptAlias => true,
        Ty::BoxOf(x) => can_encode_null(x, u),
        Ty::BoxOpt(_) | Ty::NilOwnDec | Ty::NilOwnEnc | Ty::ParenOptBytes => true,
        Ty::Struct(i) => match &u.defs[*i] { Def::Struct(s) if s.transparent => s.fields.iter().any(|f| f.optional || can_encode_null(&f.ty, u)), _ => false },
        _ => false
    }
}

const TAGS: [u64; 9] = [0, 7, 23, 24, 255, 256, 55799, 4294967296, 18446744073709551615];

pub struct GenCfg {
    pub allow_lifetimes: bool,
    pub allow_custom: bool,
    pub allow_generic: bool,
    pub allow_floats: bool,
}

impl Default for GenCfg { fn default() -> Self { GenCfg { allow_lifetimes: true, allow_custom: true, allow_generic: true, allow_floats: true } } }

fn leaf_ty(r: &mut Rng, cfg: &GenCfg) -> Ty {
    loop {
        let t = match r.below(31) {
            0 => Ty::U8, 1 => Ty::U16, 2 => Ty::U32, 3 => Ty::U64, 4 => Ty::I8, 5 => Ty::I16, 6 => Ty::I32, 7 => Ty::I64,
            8 => Ty::Bool, 9 => Ty::Char, 10 => Ty::F32, 11 => Ty::F64, 12 | 13 => Ty::String, 14 => Ty::Str, 15 => Ty::CowStr,
            16 => Ty::BytesVec, 17 => Ty::BytesSlice, 18 => Ty::BytesArr4, 19 => Ty::CowBytes, 20 => Ty::ByteVec, 21 => Ty::ByteSliceRef,
            22 => Ty::NilWith, 23 => Ty::NilFns, 24 => Ty::NilOwn, 25 => Ty::OptAlias, 26 => Ty::CowByteSlice, 27 => Ty::ParenOptBytes, 28 | 29 => Ty::WideNil, _ => if r.bool_() { Ty::NilOwnDec } else { Ty::NilOwnEnc }
        };
        let lt = matches!(t, Ty::Str | Ty::CowStr | Ty::BytesSlice | Ty::CowBytes | Ty::ByteSliceRef | Ty::CowByteSlice);
        if lt && !cfg.allow_lifetimes { continue }
        if (ty_has_nil(&t) || matches!(t, Ty::NilOwnDec | Ty::NilOwnEnc | Ty::ParenOptBytes)) && !cfg.allow_custom { continue }
        if matches!(t, Ty::F32 | Ty::F64) && !cfg.allow_floats { continue }
        return t
    }
}

fn field_ty(r: &mut Rng, u: &Universe, cfg: &GenCfg, depth: usize) -> Ty {
    let structs: Vec<usize> = u.defs.iter().enumerate().filter(|(_, d)| matches!(d, Def::Struct(s) if !s.generic)).map(|(i, _)| i).collect();
    let enums: Vec<usize> = u.defs.iter().enumerate().filter(|(_, d)| matches!(d, Def::Enum(_))).map(|(i, _)| i).collect();
    let generics: Vec<usize> = u.defs.iter().enumerate().filter(|(_, d)| matches!(d, Def::Struct(s) if s.generic)).map(|(i, _)| i).collect();
    // a generic struct that exists in the universe is worth instantiating (at u16 and at Option<u16>)
    if !generics.is_empty() && depth == 0 && r.chance(30) { let i = *r.pick(&generics); return if r.bool_() { Ty::GenericInstOpt(i) } else { Ty::GenericInst(i) } }
    match r.below(20) {
        0 ..= 10 => leaf_ty(r, cfg),
        11 | 12 if !structs.is_empty() => Ty::Struct(*r.pick(&structs)),
        13 | 14 if !enums.is_empty() => Ty::Enum(*r.pick(&enums)),
        15 if depth < 2 => Ty::VecOf(Box::new(field_ty(r, u, cfg, depth + 1))),
        16 if depth < 2 => if depth == 0 && r.chance(35) { Ty::BoxOpt(Box::new(r.pick(&[Ty::U8, Ty::U16, Ty::I32, Ty::Bool, Ty::String, Ty::U64]).clone())) } else { Ty::BoxOf(Box::new(field_ty(r, u, cfg, depth + 1))) },
        17 if depth < 2 => Ty::MapU8(Box::new(field_ty(r, u, cfg, depth + 1))),
        18 if !generics.is_empty() => { let i = *r.pick(&generics); if r.bool_() { Ty::GenericInstOpt(i) } else { Ty::GenericInst(i) } }
        _ => leaf_ty(r, cfg)
    }
}

/// `with = minicbor::bytes` types and custom-codec types cannot be nested inside Vec/Box/Map (the codec attribute applies to the field).
fn contains_field_level_codec(t: &Ty) -> bool {
    match t {
        Ty::BytesVec | Ty::BytesSlice | Ty::BytesArr4 | Ty::CowBytes | Ty::NilWith | Ty::NilFns | Ty::NilOwn | Ty::OptAlias | Ty::NilOwnDec | Ty::NilOwnEnc | Ty::ParenOptBytes | Ty::WideNil => true,
        Ty::VecOf(x) | Ty::BoxOf(x) | Ty::MapU8(x) => contains_field_level_codec(x),
        _ => false
    }
}

fn sanitize(t: Ty) -> Ty {
    match t {
        Ty::VecOf(x) => if contains_field_level_codec(&x) || matches!(*x, Ty::CowStr | Ty::CowByteSlice) { Ty::VecOf(Box::new(Ty::U16)) } else { Ty::VecOf(x) },
        Ty::BoxOf(x) => if contains_field_level_codec(&x) || matches!(*x, Ty::CowStr | Ty::Str | Ty::ByteSliceRef | Ty::CowByteSlice) { Ty::BoxOf(Box::new(Ty::I32)) } else { Ty::BoxOf(x) },
        Ty::MapU8(x) => if contains_field_level_codec(&x) || matches!(*x, Ty::CowStr | Ty::CowByteSlice) { Ty::MapU8(Box::new(Ty::String)) } else { Ty::MapU8(x) },
        o => o
    }
}

fn gen_indices(r: &mut Rng, n: usize, enc: Encoding, big: bool) -> Vec<u32> {
    // strictly increasing with gaps; permuted afterwards by declaration order
    let mut out = Vec::new();
    let mut cur: u32 = if r.chance(30) { r.below(4) as u32 } else { 0 };
    for i in 0 .. n {
        out.push(cur);
        let step = match r.below(10) { 0 ..= 5 => 1, 6 | 7 => 2, 8 => 3 + r.below(3) as u32, _ => if enc == Encoding::Map || big { 20 + r.below(300) as u32 } else { 2 } };
        cur += step;
        if enc == Encoding::Map && i + 2 == n && r.chance(15) { cur = (*r.pick(&[255u32, 256, 65535, 65536, 1_000_000, 2_147_483_000])).max(cur) }
    }
    out
}

fn gen_fields(r: &mut Rng, u: &Universe, cfg: &GenCfg, enc: Encoding, shape: Shape, max: usize, prefix: &str, all_optional: bool, param: bool) -> Vec<Field> {
    if shape == Shape::Unit { return vec![] }
    let many = r.chance(4);
    // now and then a type without any encoded field (`S {}`, `S()`, `V {}`, `V()`, or only skipped fields): it still has to
    // step over whatever a newer version put into its body
    let n = if many { 24 + r.below(6) } else if !param && !all_optional && r.chance(6) { 0 } else { 1 + r.below(max) };
    let idx = gen_indices(r, n, enc, false);
    let mut fields: Vec<Field> = Vec::new();
    let mut used_param = false;
    for (k, i) in idx.iter().enumerate() {
        let mut ty = if many { if cfg.allow_custom { r.pick(&[Ty::U8, Ty::Bool, Ty::U16, Ty::U8, Ty::Bool, Ty::OptAlias, Ty::NilOwn]).clone() } else { r.pick(&[Ty::U8, Ty::Bool, Ty::U16]).clone() } } else { sanitize(field_ty(r, u, cfg, 0)) };
        if param && !used_param && (k == 0 || r.chance(30)) { ty = Ty::Param; used_param = true }
        let nil_capable = ty_has_nil(&ty);
        let mut ty = ty;
        // a type that can itself encode as null cannot be wrapped in an Option (lossy by construction)
        if all_optional && !nil_capable && can_encode_null(&ty, u) { ty = Ty::U8 }
        // (`Option<WideNil>`: an optional field whose payload type has a nil value of its own - `Some(nil)` is present)
        let optional = (!nil_capable || (ty == Ty::WideNil && r.bool_())) && ty != Ty::Param && !can_encode_null(&ty, u) && (all_optional || many || r.chance(45) || ty == Ty::WideNil);
        if all_optional && nil_capable { /* nil-capable counts as optional */ }
        if all_optional && ty == Ty::Param { ty = Ty::U8 }
        let tag = if r.chance(18) { Some(*r.pick(&TAGS)) } else { None };
        let b = match ty { Ty::CowStr | Ty::CowBytes | Ty::CowByteSlice => r.chance(60), Ty::Str | Ty::BytesSlice | Ty::ByteSliceRef => r.chance(50), _ => must_be_b(&ty, u) };
        let fwd = if cfg.allow_custom && matches!(ty, Ty::U8 | Ty::U16 | Ty::U32 | Ty::U64 | Ty::I8 | Ty::I16 | Ty::I32 | Ty::I64 | Ty::Bool | Ty::Char | Ty::F32 | Ty::F64 | Ty::String | Ty::ByteVec) && r.chance(12) { 1 + r.below(3) as u8 }
                  // (a forwarding codec on a field of enum or struct type: with a codec in place the macros decide optionality and the
                  // handling of unknown variants from the field's syntactic type alone)
                  else if cfg.allow_custom && matches!(ty, Ty::Enum(_) | Ty::Struct(_)) && r.chance(20) { 1 + r.below(3) as u8 } else { 0 };
        fields.push(Field { idx: *i, b, ty, optional: optional || (all_optional && !nil_capable), tag, skip: false, name: format!("{}{}", prefix, k), long_attr: r.chance(25), fwd });
    }
    // skipped fields (Default-able types), any position
    if !many && r.chance(20) {
        let pos = r.below(fields.len() + 1);
        let ty = r.pick(&[Ty::U8, Ty::String, Ty::Bool]).clone();
        fields.insert(pos, Field { idx: 0, b: false, ty, optional: r.chance(30), tag: None, skip: true, name: format!("{}skipped", prefix), long_attr: false, fwd: 0 });
    }
    // a keyword as field name (raw identifier), where the fields are named
    if shape == Shape::Named && !fields.is_empty() && r.chance(8) { let k = r.below(fields.len()); fields[k].name = (*r.pick(&["r#type", "r#match", "r#struct", "r#fn"])).to_string() }
    // permute the declaration order (indices stay attached to their fields)
    if r.chance(50) {
        for i in (1 .. fields.len()).rev() { let j = r.below(i + 1); fields.swap(i, j) }
    }
    fields
}

fn gen_struct(r: &mut Rng, u: &Universe, cfg: &GenCfg, name: String) -> StructDef {
    let shape = match r.below(10) { 0 => Shape::Unit, 1 ..= 3 => Shape::Tuple, _ => Shape::Named };
    let encoding = match r.below(5) { 0 | 1 => None, 2 => Some(Encoding::Array), _ => Some(Encoding::Map) };
    let enc = encoding.unwrap_or(Encoding::Array);
    let generic = cfg.allow_generic && shape != Shape::Unit && r.chance(10);
    let transparent = !generic && shape != Shape::Unit && r.chance(7);
    if transparent {
        // (newtypes around the string and byte-string types - borrowed, Cow and owned, with and without a field-level codec -
        // are what transparent is mostly used for, and they take their own path through the macros: every second one)
        let ty = if r.chance(50) { if cfg.allow_lifetimes { r.pick(&[Ty::CowStr, Ty::CowBytes, Ty::Str, Ty::BytesSlice, Ty::ByteSliceRef, Ty::BytesVec, Ty::BytesArr4, Ty::ByteVec, Ty::String, Ty::CowBytes, Ty::CowStr, Ty::CowByteSlice, Ty::CowByteSlice]).clone() } else { r.pick(&[Ty::BytesVec, Ty::BytesArr4, Ty::ByteVec, Ty::String]).clone() } } else { sanitize(field_ty(r, u, cfg, 1)) };
        let ty = if contains_field_level_codec(&ty) && ty_has_nil(&ty) { Ty::U32 } else { ty };
        let b = (matches!(ty, Ty::CowStr | Ty::CowBytes | Ty::CowByteSlice) && r.chance(60)) || must_be_b(&ty, u);
        return StructDef { name, shape, encoding: None, tag: None, transparent: true, generic: false,
                           fields: vec![Field { idx: r.below(3) as u32, b, optional: r.chance(20) && !can_encode_null(&ty, u), ty, tag: None, skip: false, name: "inner".into(), long_attr: false, fwd: 0 }] }
    }
    let fields = gen_fields(r, u, cfg, enc, shape, 7, "f", false, generic);
    let tag = if r.chance(15) { Some(*r.pick(&TAGS)) } else { None };
    StructDef { name, shape, encoding, tag, transparent: false, fields, generic }
}

fn gen_enum(r: &mut Rng, u: &Universe, cfg: &GenCfg, name: String) -> EnumDef {
    let index_only = r.chance(25);
    let encoding = match r.below(5) { 0 | 1 => None, 2 => Some(Encoding::Array), _ => Some(Encoding::Map) };
    let nvar = if r.chance(4) { 30 + r.below(12) } else { 1 + r.below(5) };
    let mut idxs = Vec::new();
    let mut cur = if r.chance(30) { r.below(3) as u32 } else { 0 };
    for _ in 0 .. nvar { idxs.push(cur); cur += match r.below(8) { 0 ..= 4 => 1, 5 => 2, 6 => 23, _ => 250 + r.below(70000) as u32 } }
    let mut variants = Vec::new();
    for (k, i) in idxs.iter().enumerate() {
        let shape = if index_only { Shape::Unit } else { match r.below(6) { 0 | 1 => Shape::Unit, 2 | 3 => Shape::Tuple, _ => Shape::Named } };
        let venc = if !index_only && r.chance(25) { Some(if r.bool_() { Encoding::Array } else { Encoding::Map }) } else { None };
        let e = venc.or(encoding).unwrap_or(Encoding::Array);
        let fields = gen_fields(r, u, cfg, e, shape, 4, &format!("v{}f", k), false, false);
        let tag = if !index_only && r.chance(15) { Some(*r.pick(&TAGS)) } else { None };
        variants.push(Variant { idx: *i, name: format!("V{}", k), shape, encoding: venc, tag, fields });
    }
    if r.chance(40) { for i in (1 .. variants.len()).rev() { let j = r.below(i + 1); variants.swap(i, j) } }
    let tag = if !index_only && r.chance(12) { Some(*r.pick(&TAGS)) } else { None };
    EnumDef { name, encoding, index_only, tag, variants }
}

impl Rng { pub fn bool_(&mut self) -> bool { self.next() & 1 == 1 } }

/// Generate a universe of 1..=4 definitions; the last one is the root and is always a non-generic definition.
pub fn gen_universe(r: &mut Rng, cfg: &GenCfg, prefix: &str) -> Universe {
    let mut u = Universe { defs: Vec::new() };
    let n = 1 + r.below(4);
    for k in 0 .. n {
        let name = format!("{}T{}", prefix, k);
        let last = k + 1 == n;
        let d = if r.chance(35) { Def::Enum(gen_enum(r, &u, cfg, name)) } else {
            let mut s = gen_struct(r, &u, cfg, name);
            if last && s.generic { s.generic = false; for f in s.fields.iter_mut() { if f.ty == Ty::Param { f.ty = Ty::U16 } } }
            Def::Struct(s)
        };
        u.defs.push(d);
    }
    fix_b(&mut u);
    u
}

/// Mark every field whose type mentions a lifetime through a nested type as `b` (see `must_be_b`).
pub fn fix_b(u: &mut Universe) {
    let snapshot = u.clone();
    for d in u.defs.iter_mut() {
        match d {
            Def::Struct(s) => for f in s.fields.iter_mut() { if !f.skip && must_be_b(&f.ty, &snapshot) { f.b = true } },
            Def::Enum(e) => for v in e.variants.iter_mut() { for f in v.fields.iter_mut() { if !f.skip && must_be_b(&f.ty, &snapshot) { f.b = true } } }
        }
    }
}

// ---- compatible edits (C10) ---------------------------------------------------------------------

/// Is enum `e` used anywhere other than directly as an `Option<E>` field?
fn enum_only_optional(u: &Universe, e: usize) -> bool {
    fn mentions(t: &Ty, e: usize) -> bool { match t { Ty::Enum(i) => *i == e, Ty::VecOf(x) | Ty::BoxOf(x) | Ty::MapU8(x) => mentions(x, e), _ => false } }
    let check = |f: &Field| -> bool { if !mentions(&f.ty, e) { return true } f.ty == Ty::Enum(e) && f.optional };
    // the root itself must not be the enum (top-level enums cannot change compatibly)
    if u.defs.len() - 1 == e { return false }
    u.defs.iter().all(|d| match d {
        Def::Struct(s) => s.fields.iter().all(|f| check(f)) && !(s.transparent && s.fields.iter().any(|f| mentions(&f.ty, e))),
        Def::Enum(en) => en.variants.iter().all(|v| v.fields.iter().all(|f| check(f)))
    })
}

fn fresh_index(r: &mut Rng, fields: &[Field], enc: Encoding, also_used: &[u32]) -> u32 {
    let mut used: Vec<u32> = fields.iter().filter(|f| !f.skip).map(|f| f.idx).collect();
    used.extend_from_slice(also_used);
    let max = used.iter().copied().max().map(|m| m + 1).unwrap_or(0);
    // a gap index if there is one (half of the time), otherwise beyond the end
    let gaps: Vec<u32> = (0 .. max).filter(|i| !used.contains(i)).collect();
    if !gaps.is_empty() && r.chance(60) { return *r.pick(&gaps) }
    max + if enc == Encoding::Map && r.chance(30) { r.below(500) as u32 } else { r.below(2) as u32 }
}

fn new_optional_field(r: &mut Rng, u: &Universe, cfg: &GenCfg, fields: &[Field], enc: Encoding, name: String, also_used: &[u32]) -> Field {
    let mut ty = sanitize(field_ty(r, u, cfg, 0));
    if ty == Ty::Param { ty = Ty::U8 }
    if !ty_has_nil(&ty) && can_encode_null(&ty, u) { ty = Ty::U8 }
    let tag = if r.chance(35) { Some(*r.pick(&TAGS)) } else { None };
    let b = match ty { Ty::CowStr | Ty::CowBytes | Ty::CowByteSlice => r.chance(60), Ty::Str | Ty::BytesSlice | Ty::ByteSliceRef => r.chance(50), _ => must_be_b(&ty, u) };
    let nil = ty_has_nil(&ty);
    Field { idx: fresh_index(r, fields, enc, also_used), b, ty, optional: !nil, tag, skip: false, name, long_attr: r.chance(25), fwd: 0 }
}

/// Apply 1..=4 documented-compatible edits. Returns the edited universe and a description of the edits.
pub fn edit_universe(r: &mut Rng, base: &Universe, cfg: &GenCfg) -> (Universe, Vec<String>) {
    let n = 1 + r.below(4);
    edit_from(r, base, base.clone(), cfg, n)
}

/// Apply `n` random documented-compatible edits to `start` (itself a compatible edit of `base`).
pub fn edit_from(r: &mut Rng, base: &Universe, start: Universe, cfg: &GenCfg, n: usize) -> (Universe, Vec<String>) {
    let mut u = start;
    let mut log = Vec::new();
    let mut serial = 100 + r.below(800);
    for _ in 0 .. n {
        let di = r.below(u.defs.len());
        let snapshot = u.clone();
        match &mut u.defs[di] {
            Def::Struct(s) => {
                if s.transparent { continue }
                let empty = s.fields.iter().all(|f| f.skip);
                if s.shape == Shape::Unit && !r.chance(50) { continue }
                if s.shape == Shape::Unit || empty || r.chance(65) {
                    // (a unit struct that gains a field becomes a named struct)
                    if s.shape == Shape::Unit { s.shape = Shape::Named }
                    serial += 1;
                    // never re-use an index the base version assigned (possibly to a field dropped meanwhile)
                    let base_used: Vec<u32> = match &base.defs[di] { Def::Struct(b) => b.fields.iter().filter(|f| !f.skip).map(|f| f.idx).collect(), _ => vec![] };
                    let f = new_optional_field(r, &Universe { defs: snapshot.defs[.. di].to_vec() }, cfg, &s.fields, s.enc(), format!("added{}", serial), &base_used);
                    log.push(format!("{}: add optional field #{}{}", s.name, f.idx, if f.tag.is_some() { " (tagged)" } else { "" }));
                    let pos = r.below(s.fields.len() + 1);
                    s.fields.insert(pos, f);
                } else {
                    let cands: Vec<usize> = s.fields.iter().enumerate().filter(|(_, f)| !f.skip && (f.optional || ty_has_nil(&f.ty)) && f.ty != Ty::Param).map(|(i, _)| i).collect();
                    if let Some(k) = cands.get(r.below(cands.len().max(1))).copied() {
                        if s.fields.iter().filter(|f| !f.skip).count() > 1 {
                            log.push(format!("{}: drop optional field #{}", s.name, s.fields[k].idx));
                            s.fields.remove(k);
                        }
                    }
                }
            }
            Def::Enum(e) => {
                let only_opt = enum_only_optional(&snapshot, di);
                match r.below(3) {
                    0 if only_opt => {
                        let max = e.variants.iter().map(|v| v.idx).max().unwrap_or(0);
                        let idx = max + 1 + r.below(3) as u32;
                        serial += 1;
                        let shape = if e.index_only { Shape::Unit } else { *r.pick(&[Shape::Unit, Shape::Tuple, Shape::Named]) };
                        let venc = e.enc();
                        let fields = gen_fields(r, &Universe { defs: snapshot.defs[.. di].to_vec() }, cfg, venc, shape, 3, &format!("n{}f", serial), false, false);
                        let tag = if !e.index_only && r.chance(25) { Some(*r.pick(&TAGS)) } else { None };
                        log.push(format!("{}: add variant #{}", e.name, idx));
                        e.variants.push(Variant { idx, name: format!("New{}", serial), shape, encoding: None, tag, fields });
                    }
                    1 if !e.index_only => {
                        let units: Vec<usize> = e.variants.iter().enumerate().filter(|(_, v)| v.shape == Shape::Unit).map(|(i, _)| i).collect();
                        if let Some(k) = units.get(r.below(units.len().max(1))).copied() {
                            let venc = e.variants[k].enc(e);
                            serial += 1;
                            let shape = if r.bool_() { Shape::Tuple } else { Shape::Named };
                            let fields = gen_fields(r, &Universe { defs: snapshot.defs[.. di].to_vec() }, cfg, venc, shape, 3, &format!("u{}f", serial), true, false);
                            let fields: Vec<Field> = fields.into_iter().filter(|f| !f.skip).collect();
                            log.push(format!("{}::{}: unit variant -> {:?} variant with {} optional fields", e.name, e.variants[k].name, shape, fields.len()));
                            e.variants[k].shape = shape;
                            e.variants[k].fields = fields;
                        }
                    }
                    _ => {
                        // add an optional field to a struct/tuple variant
                        let cands: Vec<usize> = e.variants.iter().enumerate().filter(|(_, v)| v.shape != Shape::Unit).map(|(i, _)| i).collect();
                        if let Some(k) = cands.get(r.below(cands.len().max(1))).copied() {
                            serial += 1;
                            let venc = e.variants[k].enc(e);
                            let base_used: Vec<u32> = match &base.defs[di] { Def::Enum(b) => b.variants.iter().filter(|v| v.idx == e.variants[k].idx).flat_map(|v| v.fields.iter().filter(|f| !f.skip).map(|f| f.idx)).collect(), _ => vec![] };
                            let f = new_optional_field(r, &Universe { defs: snapshot.defs[.. di].to_vec() }, cfg, &e.variants[k].fields, venc, format!("added{}", serial), &base_used);
                            log.push(format!("{}::{}: add optional field #{}", e.name, e.variants[k].name, f.idx));
                            e.variants[k].fields.push(f);
                        }
                    }
                }
            }
        }
    }
    fix_b(&mut u);
    (u, log)
}


// ---- targeted version pairs ------------------------------------------------------------------------

fn plain_struct(r: &mut Rng, u: &Universe, cfg: &GenCfg, name: String) -> StructDef {
    loop {
        let s = gen_struct(r, u, cfg, name.clone());
        if !s.transparent && !s.generic && s.shape != Shape::Unit && s.fields.iter().filter(|f| !f.skip).count() >= 1 && s.fields.len() < 12 { return s }
    }
}

/// Insert `f` so that every other field of `s` has a larger index (they are all "later siblings").
fn insert_first(s: &mut StructDef, mut f: Field, r: &mut Rng) {
    for x in s.fields.iter_mut() { if !x.skip { x.idx += 1 } }
    f.idx = 0;
    let pos = r.below(s.fields.len() + 1);
    s.fields.insert(pos, f);
}

/// A (base, newer, edit log) pair whose first edit is of the kind selected by `focus`; up to two random
/// compatible edits follow. focus: 0 = random, 1 = add variant to an optional-only enum (regular / index_only),
/// 2 = unit variant -> variant with optional fields, 3 = tagged optional field at a gap index, 4 = drop optional field,
/// 5 = a type without encoded fields gains optional fields.
pub fn gen_pair(r: &mut Rng, cfg: &GenCfg, focus: usize, prefix: &str) -> Option<(Universe, Universe, Vec<String>)> {
    let mut log = Vec::new();
    let (base, mut newer) = match focus {
        1 => {
            let mut e = gen_enum(r, &Universe { defs: vec![] }, cfg, format!("{}T0", prefix));
            if r.bool_() && !e.index_only {
                e.index_only = true; e.tag = None;
                for v in e.variants.iter_mut() { v.shape = Shape::Unit; v.fields.clear(); v.tag = None; v.encoding = None }
            }
            let mut u = Universe { defs: vec![Def::Enum(e)] };
            let mut s = plain_struct(r, &Universe { defs: vec![] }, cfg, format!("{}T1", prefix));
            let tag = if r.chance(25) { Some(*r.pick(&TAGS)) } else { None };
            insert_first(&mut s, Field { idx: 0, b: false, ty: Ty::Enum(0), optional: true, tag, skip: false, name: "choice".into(), long_attr: r.bool_(), fwd: if cfg.allow_custom && r.chance(40) { 1 + r.below(3) as u8 } else { 0 } }, r);
            u.defs.push(Def::Struct(s));
            fix_b(&mut u);
            let mut n = u.clone();
            if let Def::Enum(e) = &mut n.defs[0] {
                let max = e.variants.iter().map(|v| v.idx).max().unwrap_or(0);
                let idx = max + 1 + r.below(3) as u32;
                let shape = if e.index_only { Shape::Unit } else { *r.pick(&[Shape::Unit, Shape::Tuple, Shape::Named]) };
                let venc = e.enc();
                let fields = gen_fields(r, &Universe { defs: vec![] }, cfg, venc, shape, 3, "nvf", false, false);
                let tag = if !e.index_only && r.chance(25) { Some(*r.pick(&TAGS)) } else { None };
                log.push(format!("{}: add variant #{} ({})", e.name, idx, if e.index_only { "index_only" } else { "regular" }));
                e.variants.push(Variant { idx, name: "Newest".into(), shape, encoding: None, tag, fields });
            }
            (u, n)
        }
        2 => {
            let mut e = gen_enum(r, &Universe { defs: vec![] }, cfg, format!("{}T0", prefix));
            e.index_only = false;
            if !e.variants.iter().any(|v| v.shape == Shape::Unit) { let k = r.below(e.variants.len()); e.variants[k].shape = Shape::Unit; e.variants[k].fields.clear() }
            let mut u = Universe { defs: vec![Def::Enum(e)] };
            let mut s = plain_struct(r, &Universe { defs: vec![] }, cfg, format!("{}T1", prefix));
            let optional = r.bool_();
            insert_first(&mut s, Field { idx: 0, b: false, ty: Ty::Enum(0), optional, tag: None, skip: false, name: "state".into(), long_attr: false, fwd: 0 }, r);
            u.defs.push(Def::Struct(s));
            fix_b(&mut u);
            let mut n = u.clone();
            if let Def::Enum(e) = &mut n.defs[0] {
                let units: Vec<usize> = e.variants.iter().enumerate().filter(|(_, v)| v.shape == Shape::Unit).map(|(i, _)| i).collect();
                let k = *r.pick(&units);
                let venc = e.variants[k].enc(e);
                let shape = if r.bool_() { Shape::Tuple } else { Shape::Named };
                let fields: Vec<Field> = gen_fields(r, &Universe { defs: vec![] }, cfg, venc, shape, 3, "uvf", true, false).into_iter().filter(|f| !f.skip).collect();
                log.push(format!("{}::{}: unit variant -> {:?} variant with {} optional fields", e.name, e.variants[k].name, shape, fields.len()));
                e.variants[k].shape = shape;
                e.variants[k].fields = fields;
            }
            (u, n)
        }
        3 => {
            let mut s = plain_struct(r, &Universe { defs: vec![] }, cfg, format!("{}T0", prefix));
            // make sure there is a gap below the highest index
            let mut used: Vec<u32> = s.fields.iter().filter(|f| !f.skip).map(|f| f.idx).collect();
            used.sort_unstable();
            let max = *used.last().unwrap();
            if (0 .. max).all(|i| used.contains(&i)) { for f in s.fields.iter_mut() { if !f.skip && f.idx == max { f.idx += 1 + r.below(3) as u32 } } }
            let u = Universe { defs: vec![Def::Struct(s)] };
            let mut n = u.clone();
            if let Def::Struct(s) = &mut n.defs[0] {
                let used: Vec<u32> = s.fields.iter().filter(|f| !f.skip).map(|f| f.idx).collect();
                let max = used.iter().copied().max().unwrap();
                let gaps: Vec<u32> = (0 .. max).filter(|i| !used.contains(i)).collect();
                let mut f = new_optional_field(r, &Universe { defs: vec![] }, cfg, &s.fields, s.enc(), "gapfill".into(), &[]);
                f.idx = *r.pick(&gaps);
                f.tag = Some(*r.pick(&TAGS));
                log.push(format!("{}: add tagged optional field at gap index #{}", s.name, f.idx));
                let pos = r.below(s.fields.len() + 1);
                s.fields.insert(pos, f);
            }
            (u, n)
        }
        4 => {
            let mut s = plain_struct(r, &Universe { defs: vec![] }, cfg, format!("{}T0", prefix));
            if !s.fields.iter().any(|f| !f.skip && (f.optional || ty_has_nil(&f.ty))) || s.fields.iter().filter(|f| !f.skip).count() < 2 {
                let f = new_optional_field(r, &Universe { defs: vec![] }, cfg, &s.fields, s.enc(), "doomed".into(), &[]);
                s.fields.push(f);
                if s.fields.iter().filter(|f| !f.skip).count() < 2 { let f2 = new_optional_field(r, &Universe { defs: vec![] }, cfg, &s.fields, s.enc(), "other".into(), &[]); s.fields.push(f2) }
            }
            let u = Universe { defs: vec![Def::Struct(s)] };
            let mut n = u.clone();
            if let Def::Struct(s) = &mut n.defs[0] {
                let cands: Vec<usize> = s.fields.iter().enumerate().filter(|(_, f)| !f.skip && (f.optional || ty_has_nil(&f.ty))).map(|(i, _)| i).collect();
                let k = *r.pick(&cands);
                log.push(format!("{}: drop optional field #{}", s.name, s.fields[k].idx));
                s.fields.remove(k);
            }
            (u, n)
        }
        5 => {
            // a type without encoded fields gains optional fields
            let shape = *r.pick(&[Shape::Unit, Shape::Tuple, Shape::Named, Shape::Named]);
            let encoding = match r.below(3) { 0 => None, 1 => Some(Encoding::Array), _ => Some(Encoding::Map) };
            let tag = if r.chance(25) { Some(*r.pick(&TAGS)) } else { None };
            let mut fields = Vec::new();
            if shape == Shape::Named && r.bool_() { fields.push(Field { idx: 0, b: false, ty: Ty::U8, optional: false, tag: None, skip: true, name: "fskipped".into(), long_attr: false, fwd: 0 }) }
            let s = StructDef { name: format!("{}T0", prefix), shape, encoding, tag, transparent: false, fields, generic: false };
            let u = Universe { defs: vec![Def::Struct(s)] };
            let mut n = u.clone();
            if let Def::Struct(s) = &mut n.defs[0] {
                if s.shape == Shape::Unit { s.shape = Shape::Named }
                for k in 0 .. 1 + r.below(3) {
                    let f = new_optional_field(r, &Universe { defs: vec![] }, cfg, &s.fields, s.enc(), format!("gained{}", k), &[]);
                    log.push(format!("{}: a type without fields gains optional field #{}", s.name, f.idx));
                    s.fields.push(f);
                }
            }
            (u, n)
        }
        _ => {
            let mut base = gen_universe(r, cfg, prefix);
            let mut tries = 0;
            while !matches!(base.defs.last().unwrap(), Def::Struct(s) if !s.transparent) && tries < 50 { base = gen_universe(r, cfg, prefix); tries += 1 }
            if !matches!(base.defs.last().unwrap(), Def::Struct(s) if !s.transparent) { return None }
            let n = base.clone();
            (base, n)
        }
    };
    // further random compatible edits on top (relative to the *base*, so indices are never re-used)
    let extra = if focus == 0 { 1 + r.below(4) } else { r.below(3) };
    if extra > 0 {
        let (n2, l2) = edit_from(r, &base, newer, cfg, extra);
        newer = n2;
        log.extend(l2);
    }
    fix_b(&mut newer);
    Some((base, newer, log))
}

/// Rename every identifier and shuffle declaration orders and n/b spellings where that cannot change the
/// decoded representation (second spelling of the same schema; C08's metamorphic leg).
pub fn respell(r: &mut Rng, base: &Universe, prefix: &str) -> Universe {
    let mut u = base.clone();
    for (k, d) in u.defs.iter_mut().enumerate() {
        match d {
            Def::Struct(s) => {
                s.name = format!("{}R{}", prefix, k);
                for (j, f) in s.fields.iter_mut().enumerate() { f.name = format!("zz{}_{}", j, r.below(1000)); f.long_attr = !f.long_attr; flip_b(r, f) }
                if s.shape == Shape::Named { for i in (1 .. s.fields.len()).rev() { let j = r.below(i + 1); s.fields.swap(i, j) } }
            }
            Def::Enum(e) => {
                e.name = format!("{}R{}", prefix, k);
                for (j, v) in e.variants.iter_mut().enumerate() {
                    v.name = format!("W{}x{}", j, r.below(1000));
                    for (q, f) in v.fields.iter_mut().enumerate() { f.name = format!("yy{}_{}", q, r.below(1000)); f.long_attr = !f.long_attr; flip_b(r, f) }
                    if v.shape == Shape::Named { for i in (1 .. v.fields.len()).rev() { let j = r.below(i + 1); v.fields.swap(i, j) } }
                }
                for i in (1 .. e.variants.len()).rev() { let j = r.below(i + 1); e.variants.swap(i, j) }
            }
        }
    }
    u
}

fn flip_b(r: &mut Rng, f: &mut Field) {
    // n <-> b where lifetimes allow: only types that carry a lifetime may be marked b
    if matches!(f.ty, Ty::Str | Ty::BytesSlice | Ty::ByteSliceRef | Ty::CowStr | Ty::CowBytes | Ty::CowByteSlice) && r.chance(70) { f.b = !f.b }
}

// ---- build-time driver ----------------------------------------------------------------------------

fn rust_str(s: &str) -> String { format!("{:?}", s) }

/// Generate `OUT_DIR/generated.rs` for chunk `chunk` of `nchunks`.
/// Environment: VERIF_SCHEMA_SEED (default 1), VERIF_SCHEMA_COUNT (default 240), VERIF_PAIR_COUNT (default 120).
pub fn build_chunk(chunk: usize, nchunks: usize) {
    println!("cargo:rerun-if-env-changed=VERIF_SCHEMA_SEED");
    println!("cargo:rerun-if-env-changed=VERIF_SCHEMA_COUNT");
    println!("cargo:rerun-if-env-changed=VERIF_PAIR_COUNT");
    let seed: u64 = std::env::var("VERIF_SCHEMA_SEED").ok().and_then(|s| s.parse().ok()).unwrap_or(1);
    let nschemas: usize = std::env::var("VERIF_SCHEMA_COUNT").ok().and_then(|s| s.parse().ok()).unwrap_or(240);
    let npairs: usize = std::env::var("VERIF_PAIR_COUNT").ok().and_then(|s| s.parse().ok()).unwrap_or(120);
    let out = std::path::PathBuf::from(std::env::var("OUT_DIR").unwrap()).join("generated.rs");
    let mut src = String::new();
    let mut roots = String::new();
    let mut pairs = String::new();
    let cfg = GenCfg::default();
    for i in (0 .. nschemas).filter(|i| i % nchunks == chunk) {
        let mut r = Rng::new(seed.wrapping_mul(1_000_003).wrapping_add(i as u64));
        let u = gen_universe(&mut r, &cfg, &format!("S{}", i));
        let u2 = respell(&mut r, &u, &format!("S{}", i));
        src.push_str(&emit::universe_source(&u));
        src.push_str(&emit::universe_source(&u2));
        let text: String = u.defs.iter().map(|d| emit::def_source(d, &u)).collect::<Vec<_>>().join("");
        // every definition of the universe is a check root (the last one is "the" root; the others would otherwise only be
        // exercised where a later definition happens to use them)
        for k in 0 .. u.defs.len() {
            let last = k + 1 == u.defs.len();
            let m = if last { format!("checks_s{}", i) } else { format!("checks_s{}_{}", i, k) };
            src.push_str(&format!("g_derive_rt::root_checks!({}, {}, {}, {});\n", m, emit::def_type(&u, k), emit::def_type(&u2, k), emit::count_def_optionals(&u, k)));
            roots.push_str(&format!("        g_derive_rt::RootEntry {{ id: {}, name: {}, source: {}, optionals: {}, c07: {m}::c07, c08: {m}::c08, c09: {m}::c09, presence: {m}::presence }},\n",
                                    i * 8 + if last { 7 } else { k }, rust_str(u.defs[k].name()), rust_str(&text), emit::count_def_optionals(&u, k), m = m));
        }
    }
    for i in (0 .. npairs).filter(|i| i % nchunks == chunk) {
        let mut r = Rng::new(seed.wrapping_mul(7_000_003).wrapping_add(0x5EED_0000 + i as u64));
        // top-level enums cannot change compatibly: pairs are rooted at structs
        let (base, mut newer, log) = match gen_pair(&mut r, &cfg, i % 6, &format!("P{}o", i)) { Some(x) => x, None => continue };
        for d in newer.defs.iter_mut() { match d { Def::Struct(s) => s.name = s.name.replacen("o", "n", 1), Def::Enum(e) => e.name = e.name.replacen("o", "n", 1) } }
        src.push_str(&emit::universe_source(&base));
        src.push_str(&emit::universe_source(&newer));
        let text_old: String = base.defs.iter().map(|d| emit::def_source(d, &base)).collect::<Vec<_>>().join("");
        let text_new: String = newer.defs.iter().map(|d| emit::def_source(d, &newer)).collect::<Vec<_>>().join("");
        src.push_str(&format!("g_derive_rt::pair_checks!(checks_p{}, {}, {});\n", i, emit::root_type(&base), emit::root_type(&newer)));
        pairs.push_str(&format!("        g_derive_rt::PairEntry {{ id: {}, edits: {}, old_source: {}, new_source: {}, c10: checks_p{}::c10 }},\n",
                                i, rust_str(&log.join("; ")), rust_str(&text_old), rust_str(&text_new), i));
    }
    src.push_str(&format!("pub fn roots() -> Vec<g_derive_rt::RootEntry> {{\n    vec![\n{}    ]\n}}\n", roots));
    src.push_str(&format!("pub fn pairs() -> Vec<g_derive_rt::PairEntry> {{\n    vec![\n{}    ]\n}}\n", pairs));
    std::fs::write(out, src).unwrap();
}
