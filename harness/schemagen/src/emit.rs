//! Rust source emitter: type definitions (compiled by the real derive macros) plus harness-side impls
//! (generator, reference model, equality, normalisation, generic value view, descriptors).
//! The emitted code refers to the runtime support in `crate::rt` of the including crate.

use crate::*;
use std::fmt::Write;

fn lt(u: &Universe, d: &Def) -> &'static str { if def_needs_lifetime(d, u) { "<'a>" } else { "" } }

fn generics_decl(u: &Universe, d: &Def) -> String {
    let l = def_needs_lifetime(d, u);
    let g = matches!(d, Def::Struct(s) if s.generic);
    match (l, g) { (false, false) => String::new(), (true, false) => "<'a>".into(), (false, true) => "<T>".into(), (true, true) => "<'a, T>".into() }
}

pub fn ty_text(t: &Ty, u: &Universe) -> String {
    match t {
        Ty::U8 => "u8".into(), Ty::U16 => "u16".into(), Ty::U32 => "u32".into(), Ty::U64 => "u64".into(),
        Ty::I8 => "i8".into(), Ty::I16 => "i16".into(), Ty::I32 => "i32".into(), Ty::I64 => "i64".into(),
        Ty::Bool => "bool".into(), Ty::Char => "char".into(), Ty::F32 => "f32".into(), Ty::F64 => "f64".into(),
        Ty::String => "String".into(), Ty::Str => "&'a str".into(), Ty::CowStr => "std::borrow::Cow<'a, str>".into(),
        Ty::BytesVec => "Vec<u8>".into(), Ty::BytesSlice => "&'a [u8]".into(), Ty::BytesArr4 => "[u8; 4]".into(), Ty::CowBytes => "std::borrow::Cow<'a, [u8]>".into(),
        Ty::ByteVec => "minicbor::bytes::ByteVec".into(), Ty::ByteSliceRef => "&'a minicbor::bytes::ByteSlice".into(), Ty::CowByteSlice => "std::borrow::Cow<'a, minicbor::bytes::ByteSlice>".into(),
        Ty::VecOf(x) => format!("Vec<{}>", ty_text(x, u)),
        Ty::BoxOf(x) => format!("Box<{}>", ty_text(x, u)),
        Ty::MapU8(x) => format!("std::collections::BTreeMap<u8, {}>", ty_text(x, u)),
        Ty::Struct(i) | Ty::Enum(i) => format!("{}{}", u.defs[*i].name(), lt(u, &u.defs[*i])),
        Ty::NilWith => "crate::rt::NilU32".into(), Ty::NilFns => "crate::rt::NilStr".into(),
        Ty::Param => "T".into(),
        Ty::GenericInst(i) => if def_needs_lifetime(&u.defs[*i], u) { format!("{}<'a, u16>", u.defs[*i].name()) } else { format!("{}<u16>", u.defs[*i].name()) }
        Ty::GenericInstOpt(i) => if def_needs_lifetime(&u.defs[*i], u) { format!("{}<'a, Option<u16>>", u.defs[*i].name()) } else { format!("{}<Option<u16>>", u.defs[*i].name()) }
        Ty::NilOwn | Ty::NilOwnDec | Ty::NilOwnEnc => "crate::rt::OwnNil".into(),
        Ty::OptAlias => "crate::rt::OptU8".into(),
        Ty::BoxOpt(x) => format!("Box<Option<{}>>", ty_text(x, u)),
        Ty::ParenOptBytes => "(Option<Vec<u8>>)".into(),
        Ty::WideNil => "crate::rt::WideNil".into(),
    }
}

fn field_ty_text(f: &Field, u: &Universe) -> String {
    let mut t = ty_text(&f.ty, u);
    // the spelling of the path to `ByteSlice` must not matter either: imported name, module-qualified, fully qualified
    // (the chunk crates import `minicbor::bytes::{self, ByteSlice}`)
    if matches!(f.ty, Ty::ByteSliceRef | Ty::CowByteSlice) { t = t.replace("minicbor::bytes::ByteSlice", ["ByteSlice", "bytes::ByteSlice", "minicbor::bytes::ByteSlice"][(f.idx as usize + f.name.len() / 2) % 3]) }
    // the spelling of `Option` must not matter (fully qualified paths are what code generators emit)
    // optional only through the traits: a type alias hides the `Option` from the macros (every third optional field of enum
    // or struct type without a codec; with a codec the spelling decides optionality, so those keep the plain form)
    if f.optional && f.fwd == 0 && matches!(f.ty, Ty::Enum(_) | Ty::Struct(_)) && (f.idx as usize + f.name.len()) % 3 == 0 {
        if let Ty::Enum(i) | Ty::Struct(i) = &f.ty { if !matches!(&u.defs[*i], Def::Struct(s) if s.generic) { return format!("{}Opt{}", u.defs[*i].name(), lt(u, &u.defs[*i])) } }
    }
    if f.optional { format!("{}<{}>", ["Option", "std::option::Option", "core::option::Option", "::core::option::Option", "Option"][(f.idx as usize + f.name.len()) % 5], t) } else { t }
}

fn field_attrs(f: &Field, u: &Universe) -> String {
    if f.skip { return "#[cbor(skip)]".into() }
    let mut parts: Vec<String> = Vec::new();
    let mut s = String::new();
    let ix = format!("{}({})", if f.b { "b" } else { "n" }, f.idx);
    // a field whose type only compiles with the lifetime bound that `b` adds keeps the short spelling: if a change to the
    // macros loses the marker there, the population stops compiling (inconclusive), whereas on Cow / &str fields the loss is a
    // run-time difference the borrow check sees
    if f.long_attr && !(f.b && must_be_b(&f.ty, u)) { parts.push(ix) } else { write!(s, "#[{}] ", ix).unwrap() }
    if let Some(t) = f.tag { parts.push(format!("tag({})", t)) }
    match f.ty {
        Ty::BytesVec | Ty::BytesSlice | Ty::BytesArr4 | Ty::CowBytes | Ty::ParenOptBytes => parts.push("with = \"minicbor::bytes\"".into()),
        Ty::NilWith => { parts.push("with = \"crate::rt::nil_u32\"".into()); parts.push("has_nil".into()) }
        Ty::NilFns => {
            // the order of the keys, and their distribution over several #[cbor(..)] attributes, must not matter
            let mut keys = vec!["encode_with = \"crate::rt::nil_str::encode\"", "decode_with = \"crate::rt::nil_str::decode\"", "is_nil = \"crate::rt::nil_str::is_nil\"", "nil = \"crate::rt::nil_str::nil\"", "cbor_len = \"crate::rt::nil_str::cbor_len\""];
            // one of the 120 orders, chosen by the field (Lehmer code of a small hash)
            let mut code = (f.idx as usize).wrapping_mul(31).wrapping_add(f.name.len() * 7 + f.name.bytes().map(|b| b as usize).sum::<usize>()) % 120;
            let mut pool = keys.clone();
            keys.clear();
            for radix in (1 ..= 5).rev() { keys.push(pool.remove(code % radix)); code /= radix }
            // the macros accept `is_nil` / `nil` only once their `encode_with` / `decode_with` is known (other orders are
            // compile errors, i.e. not definitions "accepted by the derive macros"): keep those two pairs in that order
            let pos = |ks: &Vec<&str>, p: &str| ks.iter().position(|k| k.starts_with(p)).unwrap();
            let (a, b) = (pos(&keys, "encode_with"), pos(&keys, "is_nil")); if b < a { keys.swap(a, b) }
            let (a, b) = (pos(&keys, "decode_with"), pos(&keys, "nil =")); if b < a { keys.swap(a, b) }
            if (f.idx as usize + f.name.len()) % 3 == 0 {
                // split: the first two keys in an attribute of their own, emitted before the rest
                write!(s, "#[cbor({})] ", keys[.. 2].join(", ")).unwrap();
                for k in &keys[2 ..] { parts.push(k.to_string()) }
            } else { for k in keys { parts.push(k.to_string()) } }
        }
        Ty::NilOwnDec => parts.push("decode_with = \"crate::rt::fwd::decode\"".into()),
        Ty::NilOwnEnc => parts.push("encode_with = \"crate::rt::fwd::encode\"".into()),
        _ => {}
    }
    match f.fwd { 1 => parts.push("decode_with = \"crate::rt::fwd::decode\"".into()), 2 => parts.push("encode_with = \"crate::rt::fwd::encode\"".into()),
                  3 => { write!(s, "#[cbor(decode_with = \"crate::rt::fwd::decode\")] ").unwrap(); parts.push("encode_with = \"crate::rt::fwd::encode\"".into()) } _ => {} }
    if !parts.is_empty() { write!(s, "#[cbor({})]", parts.join(", ")).unwrap() }
    s
}

fn container_attrs(encoding: Option<Encoding>, tag: Option<u64>, index_only: bool, transparent: bool) -> String {
    let mut parts: Vec<String> = Vec::new();
    match encoding { Some(Encoding::Array) => parts.push("array".into()), Some(Encoding::Map) => parts.push("map".into()), None => {} }
    if let Some(t) = tag { parts.push(format!("tag({})", t)) }
    if index_only { parts.push("index_only".into()) }
    if transparent { parts.push("transparent".into()) }
    if parts.is_empty() { String::new() } else { format!("#[cbor({})]", parts.join(", ")) }
}

fn fields_decl(fields: &[Field], shape: Shape, u: &Universe, public: bool) -> String {
    let p = if public { "pub " } else { "" };
    match shape {
        Shape::Unit => String::new(),
        Shape::Tuple => format!("({})", fields.iter().map(|f| format!("{} {}{}", field_attrs(f, u), p, field_ty_text(f, u))).collect::<Vec<_>>().join(", ")),
        Shape::Named => format!(" {{ {} }}", fields.iter().map(|f| format!("{} {}{}: {}", field_attrs(f, u), p, f.name, field_ty_text(f, u))).collect::<Vec<_>>().join(", "))
    }
}

/// The definition itself, as the user of minicbor-derive would write it.
pub fn def_source(d: &Def, u: &Universe) -> String {
    let s = def_source_a(d, u);
    // the name of the lifetime parameter is the user's choice (the harness-side impls refer to it by position): every third
    // definition spells it differently, including the name serde users are used to
    let alt = ["'a", "'input", "'de"][d.name().bytes().map(|b| b as usize).sum::<usize>() % 3];
    let s = if alt == "'a" { s } else { s.replace("<'a>", &format!("<{}>", alt)).replace("<'a, ", &format!("<{}, ", alt)).replace("&'a ", &format!("&{} ", alt)) };
    decorate(&s, d.name().bytes().map(|b| b as usize).sum::<usize>())
}

/// What real code carries next to the `#[cbor(..)]` attributes and must not disturb the macros: doc comments (also ones
/// that quote attribute syntax), lint attributes, a `where` clause on a generic definition. Every fourth definition.
fn decorate(src: &str, h: usize) -> String {
    if h % 4 != 1 { return src.to_string() }
    let mut out = String::new();
    for line in src.lines() {
        let t = line.trim_start();
        if t.starts_with("#[derive(") { out.push_str("/// A record. Fields carry `#[n(0)]`-style indices; see `#[cbor(map)]`.\n#[allow(dead_code, clippy::all)]\n"); out.push_str(line); out.push('\n'); out.push_str("#[doc(hidden)]\n"); continue }
        if t.starts_with("#[cbor(n(") && line.starts_with("    ") { out.push_str("    /// A variant: `#[cbor(n(99), tag(1))]` is not its index.\n    #[allow(dead_code)]\n") }
        let mut l = line.to_string();
        // field attributes: a doc attribute in front of the first field, a lint attribute in front of the second index attribute
        if let Some(p) = l.find("{ #[").map(|p| p + 2).or_else(|| l.find("(#[").map(|p| p + 1)) { l.insert_str(p, "#[doc = \"first field, not `#[b(7)]`\"] ") }
        if let Some(p) = l.rfind(", #[") { l.insert_str(p + 2, "#[allow(unused)] ") }
        // a where clause on generic named structs
        if l.starts_with("pub struct ") && l.contains("<T> {") { l = l.replacen("<T> {", "<T> where T: Sized {", 1) }
        if l.starts_with("pub struct ") && l.contains("<'a, T> {") { l = l.replacen("<'a, T> {", "<'a, T> where T: Sized + 'a {", 1) }
        out.push_str(&l); out.push('\n');
    }
    out
}

fn def_source_a(d: &Def, u: &Universe) -> String {
    let mut s = String::new();
    match d {
        Def::Struct(st) => {
            writeln!(s, "#[derive(Debug, minicbor::Encode, minicbor::Decode, minicbor::CborLen)]").unwrap();
            let a = container_attrs(st.encoding, st.tag, false, st.transparent);
            if !a.is_empty() { writeln!(s, "{}", a).unwrap() }
            let body = fields_decl(&st.fields, st.shape, u, true);
            match st.shape {
                Shape::Unit => writeln!(s, "pub struct {}{};", st.name, generics_decl(u, d)).unwrap(),
                Shape::Tuple => writeln!(s, "pub struct {}{}{};", st.name, generics_decl(u, d), body).unwrap(),
                Shape::Named => writeln!(s, "pub struct {}{}{}", st.name, generics_decl(u, d), body).unwrap()
            }
        }
        Def::Enum(e) => {
            writeln!(s, "#[derive(Debug, minicbor::Encode, minicbor::Decode, minicbor::CborLen)]").unwrap();
            let a = container_attrs(e.encoding, e.tag, e.index_only, false);
            if !a.is_empty() { writeln!(s, "{}", a).unwrap() }
            writeln!(s, "pub enum {}{} {{", e.name, generics_decl(u, d)).unwrap();
            for v in &e.variants {
                let mut parts = vec![format!("n({})", v.idx)];
                match v.encoding { Some(Encoding::Array) => parts.push("array".into()), Some(Encoding::Map) => parts.push("map".into()), None => {} }
                if let Some(t) = v.tag { parts.push(format!("tag({})", t)) }
                writeln!(s, "    #[cbor({})] {}{},", parts.join(", "), v.name, fields_decl(&v.fields, v.shape, u, false)).unwrap();
            }
            writeln!(s, "}}").unwrap();
        }
    }
    // an alias under which fields can hold this type optionally without spelling `Option` (see field_ty_text)
    if !matches!(d, Def::Struct(st) if st.generic) { writeln!(s, "pub type {}Opt{} = Option<{}{}>;", d.name(), lt(u, d), d.name(), lt(u, d)).unwrap() }
    s
}

/// Expression giving access to field number `pos` (declaration order) of a struct value `self`.
fn self_access(f: &Field, pos: usize, shape: Shape) -> String { match shape { Shape::Named => format!("self.{}", f.name), _ => format!("self.{}", pos) } }

fn binder(f: &Field, pos: usize) -> String { if f.name.is_empty() { format!("b{}", pos) } else { format!("b_{}", f.name) } }

/// Model expression for a value `x` (a reference expression) of type `t`.
fn model_expr(t: &Ty, x: &str, u: &Universe) -> String {
    match t {
        Ty::U8 | Ty::U16 | Ty::U32 | Ty::U64 => format!("fr.uint(*{} as u64)", x),
        Ty::I8 | Ty::I16 | Ty::I32 | Ty::I64 => format!("fr.int(*{} as i128)", x),
        Ty::Bool => format!("vcore::Item::bool(*{})", x),
        Ty::Char => format!("fr.uint(*{} as u64)", x),
        Ty::F32 => format!("vcore::Item::F32({}.to_bits())", x),
        Ty::F64 => format!("vcore::Item::F64({}.to_bits())", x),
        Ty::String | Ty::Str | Ty::CowStr => format!("fr.text(&{}[..])", x),
        Ty::BytesVec | Ty::BytesSlice | Ty::BytesArr4 | Ty::CowBytes | Ty::ByteVec | Ty::ByteSliceRef | Ty::CowByteSlice => format!("fr.bytes(&{}[..])", x),
        Ty::VecOf(e) => format!("{{ let v: Vec<vcore::Item> = {}.iter().map(|e| {}).collect(); fr.array(v) }}", x, model_expr(e, "e", u)),
        Ty::BoxOf(e) => model_expr(e, &format!("(&**{})", x), u),
        Ty::MapU8(e) => format!("{{ let v: Vec<(vcore::Item, vcore::Item)> = {}.iter().map(|(k, e)| (fr.uint(*k as u64), {})).collect(); fr.map(v) }}", x, model_expr(e, "e", u)),
        Ty::Struct(_) | Ty::Enum(_) | Ty::GenericInst(_) | Ty::GenericInstOpt(_) => format!("{}.to_model(fr)", x),
        Ty::NilWith => format!("(match {}.0 {{ None => fr.uint(u32::MAX as u64), Some(n) => fr.uint(n as u64) }})", x),
        Ty::NilOwn | Ty::NilOwnDec | Ty::NilOwnEnc => format!("(match {}.0 {{ None => vcore::Item::Null, Some(n) => fr.uint(n as u64) }})", x),
        Ty::OptAlias => format!("(match *{} {{ None => vcore::Item::Null, Some(n) => fr.uint(n as u64) }})", x),
        Ty::NilFns => format!("fr.text(&{}.0[..])", x),
        Ty::Param => format!("crate::rt::ParamModel::pmodel({}, fr)", x),
        Ty::BoxOpt(e) => format!("(match &**{} {{ None => vcore::Item::Null, Some(inner) => {} }})", x, model_expr(e, "inner", u)),
        Ty::ParenOptBytes => format!("(match {} {{ None => vcore::Item::Null, Some(inner) => fr.bytes(&inner[..]) }})", x),
        Ty::WideNil => format!("fr.uint({}.0 as u64)", x),
    }
}

fn is_nil_expr(f: &Field, x: &str) -> String {
    if f.optional { format!("{}.is_none()", x) }
    else { match f.ty { Ty::WideNil => format!("{}.0 == 0", x), Ty::NilWith | Ty::NilOwn => format!("{}.0.is_none()", x), Ty::NilFns => format!("{}.0.is_empty()", x), Ty::OptAlias => format!("{}.is_none()", x),
                        Ty::Param => format!("crate::rt::ParamModel::pnil(&{})", x), _ => "false".into() } }
}

/// Slot list expression for a body: `vec![Slot { idx, tag, nil, item }, ...]`.
fn slots_expr(fields: &[Field], access: &dyn Fn(&Field, usize) -> String, u: &Universe) -> String {
    let mut s = String::from("vec![");
    for (pos, f) in fields.iter().enumerate() {
        if f.skip { continue }
        let x = access(f, pos);
        let (nil, item) = if f.optional {
            (format!("{}.is_none()", x), format!("match &{} {{ None => vcore::Item::Null, Some(inner) => {} }}", x, model_expr(&f.ty, "inner", u)))
        } else {
            (is_nil_expr(f, &x), model_expr(&f.ty, &format!("(&{})", x), u))
        };
        write!(s, "crate::rt::Slot {{ idx: {}, tag: {}, nil: {}, item: {} }}, ", f.idx, match f.tag { Some(t) => format!("Some({}u64)", t), None => "None".into() }, nil, item).unwrap();
    }
    s.push(']');
    s
}

fn mval_expr(t: &Ty, x: &str, u: &Universe) -> String {
    match t {
        Ty::VecOf(e) => format!("crate::rt::MVal::Seq({}.iter().map(|e| {}).collect())", x, mval_expr(e, "e", u)),
        Ty::BoxOf(e) => mval_expr(e, &format!("(&**{})", x), u),
        Ty::MapU8(e) => format!("crate::rt::MVal::Seq({}.iter().map(|(k, e)| crate::rt::MVal::Seq(vec![crate::rt::MVal::Leaf(vec![*k]), {}])).collect())", x, mval_expr(e, "e", u)),
        Ty::Struct(_) | Ty::Enum(_) | Ty::GenericInst(_) | Ty::GenericInstOpt(_) => format!("{}.to_mval()", x),
        Ty::NilWith | Ty::NilOwn => format!("(match {}.0 {{ None => crate::rt::MVal::None, Some(_) => crate::rt::MVal::Leaf({{ let fr = &mut crate::rt::Fr::preferred(); {}.encode() }}) }})", x, model_expr(t, x, u)),
        Ty::WideNil => format!("(if {}.0 == 0 {{ crate::rt::MVal::None }} else {{ crate::rt::MVal::Leaf({{ let fr = &mut crate::rt::Fr::preferred(); {}.encode() }}) }})", x, model_expr(t, x, u)),
        Ty::OptAlias => format!("(match *{} {{ None => crate::rt::MVal::None, Some(_) => crate::rt::MVal::Leaf({{ let fr = &mut crate::rt::Fr::preferred(); {}.encode() }}) }})", x, model_expr(t, x, u)),
        Ty::Param => format!("crate::rt::ParamModel::pmval({})", x),
        Ty::NilFns => format!("(if {}.0.is_empty() {{ crate::rt::MVal::None }} else {{ crate::rt::MVal::Leaf({{ let fr = &mut crate::rt::Fr::preferred(); {}.encode() }}) }})", x, model_expr(t, x, u)),
        _ => format!("crate::rt::MVal::Leaf({{ let fr = &mut crate::rt::Fr::preferred(); let _ = &fr; {}.encode() }})", model_expr(t, x, u)),
    }
}

fn known_variants(t: &Ty, u: &Universe) -> String {
    if let Ty::Enum(i) = t { if let Def::Enum(e) = &u.defs[*i] { return format!("crate::rt::MVal::NoneOfEnum(vec![{}])", e.variants.iter().map(|v| v.idx.to_string()).collect::<Vec<_>>().join(", ")) } }
    "crate::rt::MVal::None".into()
}

fn mval_fields_expr(fields: &[Field], access: &dyn Fn(&Field, usize) -> String, u: &Universe) -> String {
    let mut s = String::from("vec![");
    for (pos, f) in fields.iter().enumerate() {
        if f.skip { continue }
        let x = access(f, pos);
        let v = if f.optional { format!("match &{} {{ None => {}, Some(inner) => crate::rt::MVal::Some(Box::new({})) }}", x, known_variants(&f.ty, u), mval_expr(&f.ty, "inner", u)) } else { mval_expr(&f.ty, &format!("(&{})", x), u) };
        write!(s, "({}u32, {}), ", f.idx, v).unwrap();
    }
    s.push(']');
    s
}

fn same_expr(t: &Ty, a: &str, b: &str) -> String {
    match t {
        Ty::VecOf(e) => format!("({a}.len() == {b}.len() && {a}.iter().zip({b}.iter()).all(|(x, y)| {}))", same_expr(e, "x", "y"), a = a, b = b),
        Ty::BoxOf(e) => same_expr(e, &format!("(&**{})", a), &format!("(&**{})", b)),
        Ty::MapU8(e) => format!("({a}.len() == {b}.len() && {a}.iter().zip({b}.iter()).all(|((k1, x), (k2, y))| k1 == k2 && {}))", same_expr(e, "x", "y"), a = a, b = b),
        Ty::F32 | Ty::F64 => format!("{}.to_bits() == {}.to_bits()", a, b),
        Ty::Struct(_) | Ty::Enum(_) | Ty::GenericInst(_) | Ty::GenericInstOpt(_) => format!("{}.same({})", a, b),
        Ty::CowStr | Ty::CowBytes | Ty::String | Ty::Str | Ty::BytesVec | Ty::BytesSlice | Ty::BytesArr4 | Ty::ByteVec | Ty::ByteSliceRef | Ty::CowByteSlice => format!("{}[..] == {}[..]", a, b),
        Ty::Param => format!("crate::rt::ParamModel::psame({}, {})", a, b),
        _ => format!("{} == {}", a, b)
    }
}

fn same_field(f: &Field, a: &str, b: &str) -> String {
    if f.optional { format!("(match (&{}, &{}) {{ (None, None) => true, (Some(x), Some(y)) => {}, _ => false }})", a, b, same_expr(&f.ty, "x", "y")) }
    else { same_expr(&f.ty, &format!("(&{})", a), &format!("(&{})", b)) }
}

fn borrow_expr(t: &Ty, f: &Field, x: &str, direct: bool) -> Option<String> {
    match t {
        Ty::Str => Some(format!("crate::rt::inside({}.as_ptr(), {}.len(), input)", x, x)),
        Ty::BytesSlice | Ty::ByteSliceRef => Some(format!("crate::rt::inside({}.as_ptr(), {}.len(), input)", x, x)),
        Ty::CowStr | Ty::CowBytes | Ty::CowByteSlice if direct && f.b && !f.optional => Some(format!("(match {} {{ std::borrow::Cow::Borrowed(s) => crate::rt::inside(s.as_ptr(), s.len(), input), std::borrow::Cow::Owned(_) => false }})", x)),
        Ty::VecOf(e) => borrow_expr(e, f, "e", false).map(|inner| format!("{}.iter().all(|e| {})", x, inner)),
        Ty::BoxOf(e) => borrow_expr(e, f, &format!("(&**{})", x), false),
        Ty::MapU8(e) => borrow_expr(e, f, "e", false).map(|inner| format!("{}.values().all(|e| {})", x, inner)),
        Ty::Struct(_) | Ty::Enum(_) | Ty::GenericInst(_) | Ty::GenericInstOpt(_) => Some(format!("{}.borrows_ok(input)", x)),
        _ => None
    }
}

/// `x` is a place expression of type `t`.
fn normalize_stmt(t: &Ty, x: &str) -> Option<String> {
    match t {
        Ty::Struct(_) | Ty::Enum(_) | Ty::GenericInst(_) | Ty::GenericInstOpt(_) => Some(format!("{}.normalize();", x)),
        Ty::VecOf(e) => normalize_stmt(e, "(*e)").map(|s| format!("for e in {}.iter_mut() {{ {} }}", x, s)),
        Ty::BoxOf(e) => normalize_stmt(e, &format!("(*{})", x)),
        Ty::MapU8(e) => normalize_stmt(e, "(*e)").map(|s| format!("for e in {}.values_mut() {{ {} }}", x, s)),
        _ => None
    }
}

fn canonical_order(fields: &[Field]) -> Vec<usize> {
    let mut idx: Vec<usize> = (0 .. fields.len()).filter(|i| !fields[*i].skip).collect();
    idx.sort_by_key(|i| fields[*i].idx);
    idx.extend((0 .. fields.len()).filter(|i| fields[*i].skip));
    idx
}

fn draw_stmts(fields: &[Field], u: &Universe) -> String {
    let mut s = String::new();
    for i in canonical_order(fields) {
        let f = &fields[i];
        let t = field_ty_text(f, u);
        if f.skip { writeln!(s, "        let d{}: {} = crate::rt::Draw::draw(g, ar, &mut crate::rt::Presence::random());", i, t).unwrap() }
        else if f.ty == Ty::OptAlias && !f.optional { writeln!(s, "        let d{}: {} = crate::rt::draw_opt_alias(g);", i, t).unwrap() }
        else if matches!(f.ty, Ty::BoxOpt(_)) && !f.optional { writeln!(s, "        let d{}: {} = crate::rt::draw_box_opt(g, ar);", i, t).unwrap() }
        else if f.ty == Ty::ParenOptBytes && !f.optional { writeln!(s, "        let d{}: {} = crate::rt::draw_plain_opt(g, ar);", i, t).unwrap() }
        else { writeln!(s, "        let d{}: {} = crate::rt::Draw::draw(g, ar, pm);", i, t).unwrap() }
    }
    s
}

fn construct(name: &str, fields: &[Field], shape: Shape) -> String {
    match shape {
        Shape::Unit => name.to_string(),
        Shape::Tuple => format!("{}({})", name, (0 .. fields.len()).map(|i| format!("d{}", i)).collect::<Vec<_>>().join(", ")),
        Shape::Named => format!("{} {{ {} }}", name, fields.iter().enumerate().map(|(i, f)| format!("{}: d{}", f.name, i)).collect::<Vec<_>>().join(", "))
    }
}

fn pattern(name: &str, fields: &[Field], shape: Shape, suffix: &str) -> String {
    match shape {
        Shape::Unit => name.to_string(),
        Shape::Tuple => format!("{}({})", name, (0 .. fields.len()).map(|i| format!("p{}{}", i, suffix)).collect::<Vec<_>>().join(", ")),
        Shape::Named => format!("{} {{ {} }}", name, fields.iter().enumerate().map(|(i, f)| format!("{}: p{}{}", f.name, i, suffix)).collect::<Vec<_>>().join(", "))
    }
}

fn enc_text(e: Encoding) -> &'static str { match e { Encoding::Array => "crate::rt::Enc::Array", Encoding::Map => "crate::rt::Enc::Map" } }
fn opt_u64(t: Option<u64>) -> String { match t { Some(t) => format!("Some({}u64)", t), None => "None".into() } }

fn fdescs(fields: &[Field]) -> String {
    format!("vec![{}]", fields.iter().filter(|f| !f.skip).map(|f| format!("crate::rt::FDesc {{ idx: {}, tag: {}, can_be_absent: {} }}", f.idx, opt_u64(f.tag), if f.ty == Ty::Param && !f.optional { "<T as crate::rt::ParamModel<'a>>::NILABLE".to_string() } else { (f.optional || ty_has_nil(&f.ty)).to_string() })).collect::<Vec<_>>().join(", "))
}

/// Harness impls for one definition.
pub fn impl_source(d: &Def, u: &Universe) -> String {
    let mut s = String::new();
    let gd = generics_decl(u, d);
    let name = d.name();
    let (impl_g, ty_g) = match (def_needs_lifetime(d, u), matches!(d, Def::Struct(st) if st.generic)) {
        (false, false) => ("<'a>".to_string(), String::new()),
        (true, false) => ("<'a>".to_string(), "<'a>".to_string()),
        (false, true) => ("<'a, T: crate::rt::ParamModel<'a>>".to_string(), "<T>".to_string()),
        (true, true) => ("<'a, T: crate::rt::ParamModel<'a>>".to_string(), "<'a, T>".to_string()),
    };
    let _ = gd;
    writeln!(s, "impl{} crate::rt::Derived<'a> for {}{} {{", impl_g, name, ty_g).unwrap();
    match d {
        Def::Struct(st) => {
            let acc = |f: &Field, pos: usize| self_access(f, pos, st.shape);
            // draw
            writeln!(s, "    fn draw_in(g: &mut vcore::Gen, ar: &'a crate::rt::Arena, pm: &mut crate::rt::Presence) -> Self {{").unwrap();
            writeln!(s, "        pm.enter();").unwrap();
            s.push_str(&draw_stmts(&st.fields, u));
            writeln!(s, "        pm.leave();").unwrap();
            writeln!(s, "        {}\n    }}", construct(name, &st.fields, st.shape)).unwrap();
            // model
            writeln!(s, "    fn to_model(&self, fr: &mut crate::rt::Fr) -> vcore::Item {{").unwrap();
            if st.transparent {
                let f = &st.fields[0];
                let x = acc(f, 0);
                if f.optional { writeln!(s, "        match &{} {{ None => vcore::Item::Null, Some(inner) => {} }}", x, model_expr(&f.ty, "inner", u)).unwrap() }
                else { writeln!(s, "        {}", model_expr(&f.ty, &format!("(&{})", x), u)).unwrap() }
            } else {
                writeln!(s, "        let slots = {};", slots_expr(&st.fields, &acc, u)).unwrap();
                writeln!(s, "        let body = crate::rt::body(fr, {}, slots);", enc_text(st.enc())).unwrap();
                writeln!(s, "        crate::rt::tagged(fr, {}, body)", opt_u64(st.tag)).unwrap();
            }
            writeln!(s, "    }}").unwrap();
            // same
            writeln!(s, "    fn same(&self, o: &Self) -> bool {{ true {} }}", st.fields.iter().enumerate().map(|(pos, f)| format!("&& {}", same_field(f, &acc(f, pos), &acc(f, pos).replacen("self", "o", 1)))).collect::<Vec<_>>().join(" ")).unwrap();
            // normalize
            writeln!(s, "    fn normalize(&mut self) {{").unwrap();
            for (pos, f) in st.fields.iter().enumerate() {
                let x = acc(f, pos);
                if f.skip { writeln!(s, "        {} = Default::default();", x).unwrap(); continue }
                if f.optional { if let Some(n) = normalize_stmt(&f.ty, "(*inner)") { writeln!(s, "        if let Some(inner) = {}.as_mut() {{ {} }}", x, n).unwrap() } }
                else if let Some(n) = normalize_stmt(&f.ty, &x) { writeln!(s, "        {}", n).unwrap() }
            }
            writeln!(s, "    }}").unwrap();
            // mval
            writeln!(s, "    fn to_mval(&self) -> crate::rt::MVal {{").unwrap();
            if st.transparent {
                let f = &st.fields[0];
                let x = acc(f, 0);
                if f.optional { writeln!(s, "        match &{} {{ None => crate::rt::MVal::None, Some(inner) => crate::rt::MVal::Some(Box::new({})) }}", x, mval_expr(&f.ty, "inner", u)).unwrap() }
                else { writeln!(s, "        {}", mval_expr(&f.ty, &format!("(&{})", x), u)).unwrap() }
            } else {
                writeln!(s, "        crate::rt::MVal::Struct({})", mval_fields_expr(&st.fields, &acc, u)).unwrap();
            }
            writeln!(s, "    }}").unwrap();
            // borrows
            writeln!(s, "    fn borrows_ok(&self, input: &[u8]) -> bool {{ let _ = input; true").unwrap();
            for (pos, f) in st.fields.iter().enumerate() {
                if f.skip { continue }
                let x = acc(f, pos);
                if f.optional { if let Some(b) = borrow_expr(&f.ty, f, "inner", true) { writeln!(s, "        && (match &{} {{ None => true, Some(inner) => {} }})", x, b).unwrap() } }
                else if let Some(b) = borrow_expr(&f.ty, f, &format!("(&{})", x), true) { writeln!(s, "        && {}", b).unwrap() }
            }
            writeln!(s, "    }}").unwrap();
            // descriptor
            writeln!(s, "    fn desc() -> crate::rt::Desc {{ crate::rt::Desc::Struct {{ tag: {}, enc: {}, transparent: {}, fields: {} }} }}", opt_u64(st.tag), enc_text(st.enc()), st.transparent, fdescs(&st.fields)).unwrap();
        }
        Def::Enum(e) => {
            let mut sorted: Vec<&Variant> = e.variants.iter().collect();
            sorted.sort_by_key(|v| v.idx);
            writeln!(s, "    fn draw_in(g: &mut vcore::Gen, ar: &'a crate::rt::Arena, pm: &mut crate::rt::Presence) -> Self {{").unwrap();
            writeln!(s, "        pm.enter();\n        let r = match g.below({}) {{", sorted.len()).unwrap();
            for (k, v) in sorted.iter().enumerate() {
                let arm = if k + 1 == sorted.len() { "_".to_string() } else { k.to_string() };
                writeln!(s, "        {} => {{\n{}            {}\n        }}", arm, draw_stmts(&v.fields, u), construct(&format!("{}::{}", name, v.name), &v.fields, v.shape)).unwrap();
            }
            writeln!(s, "        }};\n        pm.leave();\n        r\n    }}").unwrap();
            // model
            writeln!(s, "    fn to_model(&self, fr: &mut crate::rt::Fr) -> vcore::Item {{\n        let inner = match self {{").unwrap();
            for v in &e.variants {
                let acc = |_f: &Field, pos: usize| format!("(*p{})", pos);
                let pat = pattern(&format!("{}::{}", name, v.name), &v.fields, v.shape, "");
                if e.index_only {
                    writeln!(s, "            {} => fr.uint({}),", pat, v.idx).unwrap();
                } else {
                    let slots = slots_expr(&v.fields, &acc, u);
                    // silence unused bindings of skipped fields
                    let unused: String = v.fields.iter().enumerate().filter(|(_, f)| f.skip).map(|(i, _)| format!("let _ = p{}; ", i)).collect();
                    writeln!(s, "            {} => {{ {}let slots = {}; let body = crate::rt::body(fr, {}, slots); let body = crate::rt::tagged(fr, {}, body); crate::rt::variant(fr, {}, body) }}", pat, unused, slots, enc_text(v.enc(e)), opt_u64(v.tag), v.idx).unwrap();
                }
            }
            writeln!(s, "        }};\n        crate::rt::tagged(fr, {}, inner)\n    }}", opt_u64(e.tag)).unwrap();
            // same
            writeln!(s, "    fn same(&self, o: &Self) -> bool {{\n        match (self, o) {{").unwrap();
            for v in &e.variants {
                let pa = pattern(&format!("{}::{}", name, v.name), &v.fields, v.shape, "a");
                let pb = pattern(&format!("{}::{}", name, v.name), &v.fields, v.shape, "b");
                let cond: String = v.fields.iter().enumerate().map(|(i, f)| format!("&& {}", same_field(f, &format!("(*p{}a)", i), &format!("(*p{}b)", i)))).collect::<Vec<_>>().join(" ");
                writeln!(s, "            ({}, {}) => {{ true {} }}", pa, pb, cond).unwrap();
            }
            if e.variants.len() > 1 { writeln!(s, "            _ => false").unwrap() }
            writeln!(s, "        }}\n    }}").unwrap();
            // normalize
            writeln!(s, "    fn normalize(&mut self) {{\n        match self {{").unwrap();
            for v in &e.variants {
                let pat = pattern(&format!("{}::{}", name, v.name), &v.fields, v.shape, "");
                let mut body = String::new();
                for (i, f) in v.fields.iter().enumerate() {
                    if f.skip { write!(body, "*p{} = Default::default(); ", i).unwrap(); continue }
                    if f.optional { if let Some(n) = normalize_stmt(&f.ty, "(*inner)") { write!(body, "if let Some(inner) = p{}.as_mut() {{ {} }} ", i, n).unwrap() } else { write!(body, "let _ = p{}; ", i).unwrap() } }
                    else if let Some(n) = normalize_stmt(&f.ty, &format!("(*p{})", i)) { write!(body, "{} ", n).unwrap() } else { write!(body, "let _ = p{}; ", i).unwrap() }
                }
                writeln!(s, "            {} => {{ {} }}", pat, body).unwrap();
            }
            writeln!(s, "        }}\n    }}").unwrap();
            // mval
            writeln!(s, "    fn to_mval(&self) -> crate::rt::MVal {{\n        match self {{").unwrap();
            for v in &e.variants {
                let acc = |_f: &Field, pos: usize| format!("(*p{})", pos);
                let pat = pattern(&format!("{}::{}", name, v.name), &v.fields, v.shape, "");
                let unused: String = v.fields.iter().enumerate().filter(|(_, f)| f.skip).map(|(i, _)| format!("let _ = p{}; ", i)).collect();
                writeln!(s, "            {} => {{ {}crate::rt::MVal::Enum({}, {}) }}", pat, unused, v.idx, mval_fields_expr(&v.fields, &acc, u)).unwrap();
            }
            writeln!(s, "        }}\n    }}").unwrap();
            // borrows
            writeln!(s, "    fn borrows_ok(&self, input: &[u8]) -> bool {{\n        let _ = input;\n        match self {{").unwrap();
            for v in &e.variants {
                let pat = pattern(&format!("{}::{}", name, v.name), &v.fields, v.shape, "");
                let mut body = String::from("true");
                for (i, f) in v.fields.iter().enumerate() {
                    write!(body, " && {{ let _ = p{}; true }}", i).unwrap();
                    if f.skip { continue }
                    if f.optional { if let Some(b) = borrow_expr(&f.ty, f, "inner", true) { write!(body, " && (match p{} {{ None => true, Some(inner) => {} }})", i, b).unwrap() } }
                    else if let Some(b) = borrow_expr(&f.ty, f, &format!("p{}", i), true) { write!(body, " && {}", b).unwrap() }
                }
                writeln!(s, "            {} => {{ {} }}", pat, body).unwrap();
            }
            writeln!(s, "        }}\n    }}").unwrap();
            let vdescs: String = e.variants.iter().map(|v| format!("crate::rt::VDesc {{ idx: {}, tag: {}, enc: {}, unit: {}, fields: {} }}", v.idx, opt_u64(v.tag), enc_text(v.enc(e)), v.shape == Shape::Unit, fdescs(&v.fields))).collect::<Vec<_>>().join(", ");
            writeln!(s, "    fn desc() -> crate::rt::Desc {{ crate::rt::Desc::Enum {{ tag: {}, index_only: {}, variants: vec![{}] }} }}", opt_u64(e.tag), e.index_only, vdescs).unwrap();
        }
    }
    writeln!(s, "}}").unwrap();
    // Draw for nested use
    writeln!(s, "impl{} crate::rt::Draw<'a> for {}{} {{ fn draw(g: &mut vcore::Gen, ar: &'a crate::rt::Arena, pm: &mut crate::rt::Presence) -> Self {{ <Self as crate::rt::Derived<'a>>::draw_in(g, ar, pm) }} }}", impl_g, name, ty_g).unwrap();
    s
}

pub fn universe_source(u: &Universe) -> String {
    let mut s = String::new();
    for d in &u.defs {
        s.push_str(&def_source(d, u));
        s.push_str(&impl_source(d, u));
        s.push('\n');
    }
    s
}

/// Root type expression with an elided lifetime where needed, e.g. `P3T2<'_>`.
pub fn root_type(u: &Universe) -> String {
    let d = u.defs.last().unwrap();
    if def_needs_lifetime(d, u) { format!("{}<'_>", d.name()) } else { d.name().to_string() }
}

/// Type expression of definition `k` used as a check root (lifetime elided, the generic parameter at u16).
pub fn def_type(u: &Universe, k: usize) -> String {
    let d = &u.defs[k];
    let g = matches!(d, Def::Struct(s) if s.generic);
    match (def_needs_lifetime(d, u), g) { (false, false) => d.name().to_string(), (true, false) => format!("{}<'_>", d.name()), (false, true) => format!("{}<u16>", d.name()), (true, true) => format!("{}<'_, u16>", d.name()) }
}

pub fn count_def_optionals(u: &Universe, k: usize) -> usize {
    match &u.defs[k] { Def::Struct(s) => s.fields.iter().filter(|f| !f.skip && f.optional).count(), Def::Enum(_) => 0 }
}

pub fn count_root_optionals(u: &Universe) -> usize {
    match u.defs.last().unwrap() { Def::Struct(s) => s.fields.iter().filter(|f| !f.skip && f.optional).count(), Def::Enum(_) => 0 }
}
