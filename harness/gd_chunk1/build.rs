fn main() { schemagen::build_chunk(1, 8) }
