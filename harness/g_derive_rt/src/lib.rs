//! Runtime for the generated derive types (shared by the generated chunk crates and the g_derive binary).

pub mod rt;
pub mod checks;

pub use vcore;
pub use minicbor;

use vcore::engine::{CaseResult, Stats};
use vcore::Gen;

pub type CheckFn = fn(&mut Gen, &mut Stats) -> CaseResult;
pub type PresenceFn = fn(u64, &mut Stats) -> CaseResult;

pub struct RootEntry { pub id: usize, pub name: &'static str, pub source: &'static str, pub optionals: usize, pub c07: CheckFn, pub c08: CheckFn, pub c09: CheckFn, pub presence: PresenceFn }
pub struct PairEntry { pub id: usize, pub edits: &'static str, pub old_source: &'static str, pub new_source: &'static str, pub c10: CheckFn }

/// Per-root check functions. `$T` and `$R` are the root type and its second spelling (elided lifetimes).
#[macro_export]
macro_rules! root_checks {
    ($m:ident, $T:ty, $R:ty, $nopt:expr) => {
        pub mod $m {
            #[allow(unused_imports)]
            use super::*;
            use $crate::rt::{Arena, Derived, Fr, Presence};
            use $crate::vcore::engine::{CaseResult, Stats};
            use $crate::vcore::Gen;

            pub fn c07(g: &mut Gen, st: &mut Stats) -> CaseResult {
                let ar = Arena::new();
                let v: $T = Derived::draw_in(g, &ar, &mut Presence::random());
                $crate::checks::c07(&v, st)
            }

            pub fn c08(g: &mut Gen, st: &mut Stats) -> CaseResult {
                let ar = Arena::new();
                let mut g2 = g.fork();
                let mask = g.raw_u64(); let _ = g2.raw_u64();
                let forced = g.bool(); let _ = g2.bool();
                let mut pm = if forced { Presence::forced(mask) } else { Presence::random() };
                let mut pm2 = if forced { Presence::forced(mask) } else { Presence::random() };
                let v: $T = Derived::draw_in(g, &ar, &mut pm);
                let r: $R = Derived::draw_in(&mut g2, &ar, &mut pm2);
                let model = v.to_model(&mut Fr::preferred());
                $crate::checks::c08(&v, &r, &model, st)
            }

            pub fn c09(g: &mut Gen, st: &mut Stats) -> CaseResult {
                let ar = Arena::new();
                let mut v: $T = Derived::draw_in(g, &ar, &mut Presence::random());
                let bytes = match $crate::minicbor::to_vec(&v) { Ok(b) => b, Err(e) => return Err($crate::vcore::Fail::new("encode-error", e.to_string())) };
                let model = v.to_model(&mut Fr::preferred());
                let reframed = { let mut fr = Fr::random(g); v.to_model(&mut fr) }.encode();
                v.normalize();
                // 1. own encoding followed by junk
                let junk = g.below(3);
                let mut buf = bytes.clone();
                for _ in 0 .. junk { buf.push(g.byte()) }
                {
                    let mut d = $crate::minicbor::Decoder::new(&buf);
                    let back: Result<$T, _> = d.decode();
                    $crate::checks::c09_roundtrip(&v, back, d.position(), &bytes, &buf, "own encoding", st)?;
                }
                // 2. re-framed (indefinite bodies / collections, wider heads)
                {
                    let mut buf2 = reframed.clone();
                    buf2.push(0xff);
                    let mut d = $crate::minicbor::Decoder::new(&buf2);
                    let back: Result<$T, _> = d.decode();
                    $crate::checks::c09_roundtrip(&v, back, d.position(), &reframed, &buf2, "re-framed encoding", st)?;
                }
                // 3. negative edits of the item tree
                for neg in $crate::checks::negatives(&model, &<$T as Derived>::desc(), g) {
                    let enc = neg.item.encode();
                    let r: Result<$T, _> = $crate::minicbor::decode(&enc);
                    $crate::checks::c09_negative(&neg, &enc, r.map(|x| format!("{:?}", x)), st)?;
                }
                Ok(())
            }

            /// One value for a fixed presence mask of the root's optional fields (deterministic leaf tape).
            pub fn presence(mask: u64, st: &mut Stats) -> CaseResult {
                let tape = $crate::checks::fixed_tape(mask);
                let mut g = Gen::new(&tape);
                let ar = Arena::new();
                let mut v: $T = Derived::draw_in(&mut g, &ar, &mut Presence::forced(mask));
                let model = v.to_model(&mut Fr::preferred());
                let r: $R = { let mut g2 = Gen::new(&tape); Derived::draw_in(&mut g2, &ar, &mut Presence::forced(mask)) };
                $crate::checks::c08(&v, &r, &model, st)?;
                $crate::checks::c07(&v, st)?;
                let bytes = $crate::minicbor::to_vec(&v).map_err(|e| $crate::vcore::Fail::new("encode-error", e.to_string()))?;
                v.normalize();
                let mut d = $crate::minicbor::Decoder::new(&bytes);
                let back: Result<$T, _> = d.decode();
                $crate::checks::c09_roundtrip(&v, back, d.position(), &bytes, &bytes, "own encoding", st)
            }
        }
    }
}

#[macro_export]
macro_rules! pair_checks {
    ($m:ident, $Old:ty, $New:ty) => {
        pub mod $m {
            #[allow(unused_imports)]
            use super::*;
            use $crate::rt::{Arena, Derived, Presence};
            use $crate::vcore::engine::{CaseResult, Stats};
            use $crate::vcore::Gen;

            pub fn c10(g: &mut Gen, st: &mut Stats) -> CaseResult {
                let ar = Arena::new();
                let forward = g.bool();
                if forward {
                    let w: $Old = Derived::draw_in(g, &ar, &mut Presence::random());
                    let bytes = $crate::minicbor::to_vec(&w).map_err(|e| $crate::vcore::Fail::new("encode-error", e.to_string()))?;
                    let mut d = $crate::minicbor::Decoder::new(&bytes);
                    let r: Result<$New, _> = d.decode();
                    let plain = r.as_ref().ok().map(|x| x.to_mval());
                    $crate::checks::c10_compare("old writer -> new reader", &bytes, w.to_mval(), format!("{:?}", w), r.map(|x| (x.to_mval(), format!("{:?}", x))), d.position(), st)?;
                    let plain = plain.unwrap();
                    if let Some((b2, what)) = $crate::checks::inject_unknown_fields(g, &bytes, &<$New as Derived>::desc(), &<$Old as Derived>::desc()) {
                        let mut d = $crate::minicbor::Decoder::new(&b2);
                        let r: Result<$New, _> = d.decode();
                        $crate::checks::c10_same_view("old writer + unknown fields of arbitrary content -> new reader", &what, &b2, &plain, r.map(|x| (x.to_mval(), format!("{:?}", x))), d.position(), st, "unknown fields of arbitrary content")?;
                    }
                    let b3 = w.to_model(&mut $crate::rt::Fr::random(g)).encode();
                    let mut d = $crate::minicbor::Decoder::new(&b3);
                    let r: Result<$New, _> = d.decode();
                    $crate::checks::c10_same_view("old writer, re-framed -> new reader", "wider heads / indefinite containers", &b3, &plain, r.map(|x| (x.to_mval(), format!("{:?}", x))), d.position(), st, "re-framed writer bytes")
                } else {
                    let w: $New = Derived::draw_in(g, &ar, &mut Presence::random());
                    let bytes = $crate::minicbor::to_vec(&w).map_err(|e| $crate::vcore::Fail::new("encode-error", e.to_string()))?;
                    let mut d = $crate::minicbor::Decoder::new(&bytes);
                    let r: Result<$Old, _> = d.decode();
                    let plain = r.as_ref().ok().map(|x| x.to_mval());
                    $crate::checks::c10_compare("new writer -> old reader", &bytes, w.to_mval(), format!("{:?}", w), r.map(|x| (x.to_mval(), format!("{:?}", x))), d.position(), st)?;
                    let plain = plain.unwrap();
                    if let Some((b2, what)) = $crate::checks::inject_unknown_fields(g, &bytes, &<$Old as Derived>::desc(), &<$New as Derived>::desc()) {
                        let mut d = $crate::minicbor::Decoder::new(&b2);
                        let r: Result<$Old, _> = d.decode();
                        $crate::checks::c10_same_view("new writer + unknown fields of arbitrary content -> old reader", &what, &b2, &plain, r.map(|x| (x.to_mval(), format!("{:?}", x))), d.position(), st, "unknown fields of arbitrary content")?;
                    }
                    let b3 = w.to_model(&mut $crate::rt::Fr::random(g)).encode();
                    let mut d = $crate::minicbor::Decoder::new(&b3);
                    let r: Result<$Old, _> = d.decode();
                    $crate::checks::c10_same_view("new writer, re-framed -> old reader", "wider heads / indefinite containers", &b3, &plain, r.map(|x| (x.to_mval(), format!("{:?}", x))), d.position(), st, "re-framed writer bytes")
                }
            }
        }
    }
}
