//! Generic parts of the derive checks (C07 derived, C08, C09, C10).

use crate::rt::{compatible, Derived, Desc, Enc, FDesc, MVal};
use g_codec::util::short_hex;
use minicbor::decode::Error;
use minicbor::{CborLen, Encode};
use std::fmt::Debug;
use vcore::engine::{hash_of, CaseResult, Fail, Stats};
use vcore::item::Item;
use vcore::{ensure, fail, Gen};

pub fn fixed_tape(mask: u64) -> Vec<u8> {
    // deterministic pseudo-tape for the presence enumeration (a pure function of the mask)
    let mut x = mask.wrapping_mul(0x9E3779B97F4A7C15) ^ 0x1234_5678_9abc_def0;
    (0 .. 192).map(|_| { x ^= x << 13; x ^= x >> 7; x ^= x << 17; (x >> 24) as u8 }).collect()
}

pub fn c07<T: Encode<()> + CborLen<()> + Debug>(v: &T, st: &mut Stats) -> CaseResult {
    st.eval();
    if let Some(bytes) = g_codec::checks::c07::check_len(v, st)? {
        if bytes.len() >= 2 { st.nontrivial(hash_of(&bytes)) }
        st.class(match bytes.len() { 0 ..= 23 => "derived-len/<24", 24 ..= 255 => "derived-len/24..255", _ => "derived-len/>=256" });
        st.sample(hash_of(&bytes), || format!("len({:?}) = {}", v, bytes.len()));
    }
    Ok(())
}

fn count_absent(m: &Item) -> (usize, bool) {
    // (nulls anywhere, has tag anywhere)
    match m {
        Item::Null => (1, false),
        Item::Array(xs, _) => xs.iter().map(count_absent).fold((0, false), |a, b| (a.0 + b.0, a.1 || b.1)),
        Item::Map(xs, _) => xs.iter().map(|(_, v)| count_absent(v)).fold((0, false), |a, b| (a.0 + b.0, a.1 || b.1)),
        Item::Tag(_, _, x) => { let c = count_absent(x); (c.0, true) }
        _ => (0, false)
    }
}

pub fn c08<'a, T: Encode<()> + Debug + Derived<'a>, R: Encode<()> + Debug>(v: &T, second_spelling: &R, model: &Item, st: &mut Stats) -> CaseResult {
    st.eval();
    let bytes = match minicbor::to_vec(v) { Ok(b) => b, Err(e) => fail!("encode-error", "to_vec({:?}) failed: {}", v, e) };
    let want = model.encode();
    if bytes != want {
        let got = vcore::item::parse(&bytes).map(|x| x.0.render()).unwrap_or_else(|e| format!("<{:?}>", e));
        fail!("wire-format", "{:?} encoded as {} = {} ; the documented format is {} = {}", v, short_hex(&bytes), got, short_hex(&want), model.render());
    }
    let other = match minicbor::to_vec(second_spelling) { Ok(b) => b, Err(e) => fail!("encode-error", "to_vec of the second spelling failed: {}", e) };
    ensure!(other == bytes, "spelling-dependent", "renaming / reordering declarations / n<->b changed the bytes: {:?} -> {} but {:?} -> {}", v, short_hex(&bytes), second_spelling, short_hex(&other));
    let (nulls, tags) = count_absent(model);
    if nulls > 0 || tags { st.nontrivial(hash_of(&bytes)) }
    st.class(match (nulls > 0, tags) { (false, false) => "format/dense", (true, false) => "format/with-null", (false, true) => "format/with-tag", (true, true) => "format/with-null-and-tag" });
    st.sample(hash_of(&bytes), || format!("{:?} -> {}", v, short_hex(&bytes)));
    Ok(())
}

pub fn c09_roundtrip<'a, T: Derived<'a> + Debug>(want: &T, back: Result<T, Error>, pos: usize, enc: &[u8], buf: &[u8], what: &str, st: &mut Stats) -> CaseResult {
    st.eval();
    match back {
        Err(e) => fail!("decode-failed", "{} {} of {:?} was rejected: {}", what, short_hex(enc), want, e),
        Ok(b) => {
            ensure!(want.same(&b), "value-mismatch", "{} {} of {:?} decoded to {:?}", what, short_hex(enc), want, b);
            ensure!(pos == enc.len(), "position", "{} {}: consumed {} of {} bytes", what, short_hex(enc), pos, enc.len());
            ensure!(b.borrows_ok(buf), "not-borrowed", "{} {}: a borrowing field of {:?} does not point into the input", what, short_hex(enc), b);
        }
    }
    st.class(if what.starts_with("own") { "roundtrip/own" } else { "roundtrip/re-framed" });
    if enc.len() >= 2 { st.nontrivial(hash_of(&(what.len(), enc))) }
    Ok(())
}

#[derive(Debug)]
pub enum Expect { TagMismatch, AnyError, MissingValue, UnknownVariant, WrongValue }
pub struct Negative { pub what: String, pub item: Item, pub expect: Expect }

fn strip_tag(i: &Item) -> (Option<u64>, &Item) { match i { Item::Tag(t, _, x) => (Some(*t), &**x), o => (None, o) } }

fn retag(t: u64, x: Item) -> Item { Item::tag(t, x) }

/// Edits of one struct / variant body.
fn body_negatives(body: &Item, enc: Enc, fields: &[FDesc], rebuild: &dyn Fn(Item) -> Item, out: &mut Vec<Negative>, g: &mut Gen) {
    match (enc, body) {
        (Enc::Array, Item::Array(xs, _)) => {
            for f in fields {
                let i = f.idx as usize;
                if i >= xs.len() { continue }
                if let Some(t) = f.tag {
                    if let Item::Tag(t0, _, inner) = &xs[i] {
                        if *t0 == t {
                            let mut ys = xs.clone(); ys[i] = retag(t ^ (1 + g.below(3) as u64), (**inner).clone());
                            out.push(Negative { what: format!("field #{}: tag {} replaced", f.idx, t), item: rebuild(Item::array(ys)), expect: Expect::TagMismatch });
                            let bare_null_in_optional_slot = matches!(**inner, Item::Null) && f.can_be_absent;
                            if !bare_null_in_optional_slot {
                                let mut ys = xs.clone(); ys[i] = (**inner).clone();
                                out.push(Negative { what: format!("field #{}: tag {} removed", f.idx, t), item: rebuild(Item::array(ys)), expect: Expect::AnyError });
                            }
                        }
                    }
                }
                // a value no field type of the population accepts (an unassigned simple value) in the field's place: optional and
                // nil-capable fields have to report it too - only null, a missing entry or an unknown variant mean "absent"
                {
                    let bad = match (&xs[i], f.tag) { (Item::Tag(t0, w, _), Some(t)) if *t0 == t => Item::Tag(*t0, *w, Box::new(Item::Simple(99))), _ => Item::Simple(99) };
                    let mut ys = xs.clone(); ys[i] = bad;
                    out.push(Negative { what: format!("field #{}: value replaced by simple(99)", f.idx), item: rebuild(Item::array(ys)), expect: Expect::WrongValue });
                }
                if !f.can_be_absent {
                    let ys: Vec<Item> = xs[.. i].to_vec();
                    out.push(Negative { what: format!("mandatory field #{} cut off (array truncated before it)", f.idx), item: rebuild(Item::array(ys)), expect: Expect::MissingValue });
                }
            }
        }
        (Enc::Map, Item::Map(xs, _)) => {
            for f in fields {
                let pos = xs.iter().position(|(k, _)| k.as_int() == Some(f.idx as i128));
                let pos = match pos { Some(p) => p, None => continue };
                if let Some(t) = f.tag {
                    if let Item::Tag(t0, _, inner) = &xs[pos].1 {
                        if *t0 == t {
                            let mut ys = xs.clone(); ys[pos].1 = retag(t ^ (1 + g.below(3) as u64), (**inner).clone());
                            out.push(Negative { what: format!("field #{}: tag {} replaced", f.idx, t), item: rebuild(Item::map(ys)), expect: Expect::TagMismatch });
                            let mut ys = xs.clone(); ys[pos].1 = (**inner).clone();
                            let bare_null_in_optional_slot = matches!(**inner, Item::Null) && f.can_be_absent;
                            if !bare_null_in_optional_slot {
                                out.push(Negative { what: format!("field #{}: tag {} removed", f.idx, t), item: rebuild(Item::map(ys)), expect: Expect::AnyError });
                            }
                        }
                    }
                }
                {
                    let bad = match (&xs[pos].1, f.tag) { (Item::Tag(t0, w, _), Some(t)) if *t0 == t => Item::Tag(*t0, *w, Box::new(Item::Simple(99))), _ => Item::Simple(99) };
                    let mut ys = xs.clone(); ys[pos].1 = bad;
                    out.push(Negative { what: format!("field #{}: value replaced by simple(99)", f.idx), item: rebuild(Item::map(ys)), expect: Expect::WrongValue });
                }
                if !f.can_be_absent {
                    let mut ys = xs.clone(); ys.remove(pos);
                    out.push(Negative { what: format!("mandatory field #{} removed from the map", f.idx), item: rebuild(Item::map(ys)), expect: Expect::MissingValue });
                }
            }
        }
        _ => {}
    }
}

/// Erroneous variants of the (preferred) encoding of a value, built by editing the item tree.
pub fn negatives(model: &Item, desc: &Desc, g: &mut Gen) -> Vec<Negative> {
    let mut out = Vec::new();
    match desc {
        Desc::Struct { transparent: true, .. } => {}
        Desc::Struct { tag, enc, fields, .. } => {
            let (t0, body) = strip_tag(model);
            if let (Some(t), Some(t0)) = (tag, t0) {
                if *t == t0 {
                    out.push(Negative { what: format!("struct tag {} replaced", t), item: retag(t ^ 1, body.clone()), expect: Expect::TagMismatch });
                    out.push(Negative { what: format!("struct tag {} removed", t), item: body.clone(), expect: Expect::AnyError });
                }
            }
            let tg = *tag;
            let rebuild = move |b: Item| -> Item { match tg { Some(t) => retag(t, b), None => b } };
            body_negatives(body, *enc, fields, &rebuild, &mut out, g);
        }
        Desc::Enum { tag, index_only, variants } => {
            let (t0, inner) = strip_tag(model);
            if let (Some(t), Some(t0)) = (tag, t0) {
                if *t == t0 {
                    out.push(Negative { what: format!("enum tag {} replaced", t), item: retag(t ^ 1, inner.clone()), expect: Expect::TagMismatch });
                    out.push(Negative { what: format!("enum tag {} removed", t), item: inner.clone(), expect: Expect::AnyError });
                }
            }
            let tg = *tag;
            let known: Vec<u32> = variants.iter().map(|v| v.idx).collect();
            let unused = (0u32 ..).find(|i| !known.contains(i)).unwrap();
            let unused = if g.bool() { unused } else { known.iter().max().copied().unwrap_or(0) + 1 + g.below(1000) as u32 };
            if *index_only {
                let it = Item::uint(unused as u64);
                out.push(Negative { what: format!("variant index replaced by the unused {}", unused), item: match tg { Some(t) => retag(t, it), None => it }, expect: Expect::UnknownVariant });
            } else if let Item::Array(xs, _) = inner {
                if xs.len() == 2 {
                    let it = Item::array(vec![Item::uint(unused as u64), xs[1].clone()]);
                    out.push(Negative { what: format!("variant index replaced by the unused {}", unused), item: match tg { Some(t) => retag(t, it), None => it }, expect: Expect::UnknownVariant });
                    if let Some(vi) = xs[0].as_int() {
                        if let Some(vd) = variants.iter().find(|v| v.idx as i128 == vi) {
                            let (vt0, vbody) = strip_tag(&xs[1]);
                            let idx_item = xs[0].clone();
                            let wrap = move |b: Item| -> Item { let it = Item::array(vec![idx_item.clone(), b]); match tg { Some(t) => retag(t, it), None => it } };
                            if let (Some(t), Some(t0)) = (vd.tag, vt0) {
                                if t == t0 {
                                    out.push(Negative { what: format!("variant tag {} replaced", t), item: wrap(retag(t ^ 1, vbody.clone())), expect: Expect::TagMismatch });
                                    out.push(Negative { what: format!("variant tag {} removed", t), item: wrap(vbody.clone()), expect: Expect::AnyError });
                                }
                            }
                            if !vd.unit {
                                let vt = vd.tag;
                                let wrap2 = move |b: Item| -> Item { wrap(match vt { Some(t) => retag(t, b), None => b }) };
                                body_negatives(vbody, vd.enc, &vd.fields, &wrap2, &mut out, g);
                            }
                        }
                    }
                }
            }
        }
    }
    out
}

pub fn c09_negative(neg: &Negative, enc: &[u8], r: Result<String, Error>, st: &mut Stats) -> CaseResult {
    st.eval();
    match r {
        Ok(v) => fail!("defect-papered-over", "{}: {} was accepted as {}", neg.what, short_hex(enc), v),
        Err(e) => {
            match neg.expect {
                Expect::TagMismatch => ensure!(e.is_tag_mismatch(), "error-class", "{}: {} failed with `{}`, not with a tag mismatch", neg.what, short_hex(enc), e),
                Expect::MissingValue => ensure!(e.is_missing_value(), "error-class", "{}: {} failed with `{}`, not with a missing-value error", neg.what, short_hex(enc), e),
                Expect::UnknownVariant => ensure!(e.is_unknown_variant(), "error-class", "{}: {} failed with `{}`, not with an unknown-variant error", neg.what, short_hex(enc), e),
                Expect::AnyError | Expect::WrongValue => {}
            }
        }
    }
    st.class(match neg.expect { Expect::TagMismatch => "negative/wrong-tag", Expect::AnyError => "negative/removed-tag", Expect::MissingValue => "negative/missing-mandatory", Expect::UnknownVariant => "negative/unknown-variant", Expect::WrongValue => "negative/wrong-type-value" });
    st.nontrivial(hash_of(&(enc, neg.what.len())));
    Ok(())
}

pub fn c10_compare(dir: &str, bytes: &[u8], w: MVal, wdbg: String, r: Result<(MVal, String), Error>, pos: usize, st: &mut Stats) -> CaseResult {
    st.eval();
    match r {
        Err(e) => Err(Fail::new("rejected", format!("{}: {} written for {} was rejected: {}", dir, short_hex(bytes), wdbg, e))),
        Ok((rv, rdbg)) => {
            let mut path = String::from("root");
            if let Err(m) = compatible(&w, &rv, &mut path) {
                return Err(Fail::new("incompatible", format!("{}: {} written for {} read back as {} - {}", dir, short_hex(bytes), wdbg, rdbg, m)))
            }
            ensure!(pos == bytes.len(), "position", "{}: reader consumed {} of {} bytes of {}", dir, pos, bytes.len(), short_hex(bytes));
            let differs = w != rv;
            st.class(if differs { if dir.starts_with("old") { "old->new/view differs (edit exercised)" } else { "new->old/view differs (edit exercised)" } } else { "views identical" });
            if differs { st.nontrivial(hash_of(&(dir.len(), bytes))) }
            st.sample(hash_of(&bytes), || format!("{}: {} -> {}", dir, wdbg, rdbg));
            Ok(())
        }
    }
}


/// "Fields unknown to the reader are ignored whatever their content": take bytes the reader accepts and add fields it
/// does not know, holding ARBITRARY well-formed items (every major type, wide heads, indefinite containers and strings,
/// tag chains, integers beyond i64, half floats, simple values) - what a newer writer with fields of any type would send.
/// Array encoding: the body is padded with nulls up to the reader's highest index, then 1-3 items are appended; map
/// encoding: 1-3 entries with keys outside both versions' indices are inserted at generated positions. Returns None
/// when the root is not a plain struct body.
pub fn inject_unknown_fields(g: &mut Gen, bytes: &[u8], reader: &Desc, writer: &Desc) -> Option<(Vec<u8>, String)> {
    let (rf, enc) = match reader { Desc::Struct { enc, transparent: false, fields, .. } => (fields, *enc), _ => return None };
    let wf: &[FDesc] = match writer { Desc::Struct { fields, .. } => fields, _ => &[] };
    let (root, used) = vcore::item::parse(bytes).ok()?;
    if used != bytes.len() { return None }
    let cfg = vcore::gen::ItemCfg { max_depth: 4, max_nodes: 12, wide: true, indef: true, tags: true, floats: true, simple: true, f16: true, max_str: 12 };
    let n = 1 + g.below(3);
    let mut what = String::new();
    let (tag, body) = match root { Item::Tag(t, w, b) => (Some((t, w)), *b), other => (None, other) };
    let new_body = match (enc, body) {
        (Enc::Array, Item::Array(mut v, _)) => {
            let top = rf.iter().chain(wf.iter()).map(|f| f.idx as usize + 1).max().unwrap_or(0);
            if top > 4096 { return None }
            while v.len() < top { v.push(Item::Null) }
            for _ in 0 .. n { let it = vcore::gen::item(g, &cfg); what.push_str(&format!("#{}={} ", v.len(), vcore::item::hex(&it.encode()))); v.push(it) }
            if g.chance(60) { Item::Array(v, None) } else { Item::array(v) }
        }
        (Enc::Map, Item::Map(mut v, _)) => {
            let mut next = rf.iter().chain(wf.iter()).map(|f| f.idx as u64 + 1).max().unwrap_or(0);
            for _ in 0 .. n {
                let key = if g.chance(40) { next + g.below(1000) as u64 } else { next };
                next = key + 1;
                let it = vcore::gen::item(g, &cfg);
                what.push_str(&format!("#{}={} ", key, vcore::item::hex(&it.encode())));
                let pos = g.below(v.len() + 1);
                v.insert(pos, (Item::uint(key), it));
            }
            if g.chance(60) { Item::Map(v, None) } else { Item::map(v) }
        }
        _ => return None
    };
    let out = match tag { Some((t, w)) => Item::Tag(t, w, Box::new(new_body)), None => new_body };
    Some((out.encode(), what))
}

/// The reader saw `plain`; with unknown fields injected (or the writer's value re-framed) it must see the same.
pub fn c10_same_view(what: &str, detail: &str, bytes: &[u8], plain: &MVal, r: Result<(MVal, String), Error>, pos: usize, st: &mut Stats, class: &'static str) -> CaseResult {
    st.eval();
    match r {
        Err(e) => Err(Fail::new("rejected", format!("{}: {} ({}) was rejected: {}", what, short_hex(bytes), detail, e))),
        Ok((rv, rdbg)) => {
            ensure!(&rv == plain, "disturbed", "{}: {} ({}) read back as {} - not what the reader sees without them", what, short_hex(bytes), detail, rdbg);
            ensure!(pos == bytes.len(), "position", "{}: reader consumed {} of {} bytes of {}", what, pos, bytes.len(), short_hex(bytes));
            st.class(class);
            st.nontrivial(hash_of(&bytes));
            Ok(())
        }
    }
}
