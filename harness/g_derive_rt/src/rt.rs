//! Runtime support for the generated types: arena-backed value drawing, the schema-driven reference
//! encoder (written from minicbor-derive's documented format), the generic value view used for
//! cross-version comparison, descriptors for negative edits, and the harness-provided custom codecs.

use std::cell::RefCell;
use vcore::item::{Item, W};
use vcore::Gen;

// ---- arena -----------------------------------------------------------------------------------

#[derive(Default)]
pub struct Arena { bufs: RefCell<Vec<Box<[u8]>>> }
impl Arena {
    pub fn new() -> Arena { Arena::default() }
    pub fn bytes(&self, v: Vec<u8>) -> &[u8] {
        let b = v.into_boxed_slice();
        let (p, n) = (b.as_ptr(), b.len());
        self.bufs.borrow_mut().push(b);
        // the boxed slice is never moved or freed while the arena lives
        unsafe { std::slice::from_raw_parts(p, n) }
    }
    pub fn str(&self, s: String) -> &str { let b = self.bytes(s.into_bytes()); unsafe { std::str::from_utf8_unchecked(b) } }
}

pub fn inside(p: *const u8, n: usize, input: &[u8]) -> bool {
    let a = input.as_ptr() as usize;
    (p as usize) >= a && (p as usize) + n <= a + input.len()
}

// ---- presence of optional fields -----------------------------------------------------------------

pub struct Presence { forced: Option<u64>, used: u32, depth: u32 }
impl Presence {
    pub fn random() -> Presence { Presence { forced: None, used: 0, depth: 0 } }
    /// Root-level optional fields take their presence from the bits of `mask` (in index order).
    pub fn forced(mask: u64) -> Presence { Presence { forced: Some(mask), used: 0, depth: 0 } }
    pub fn enter(&mut self) { self.depth += 1 }
    pub fn leave(&mut self) { self.depth -= 1 }
    pub fn next(&mut self, g: &mut Gen) -> bool {
        if self.depth == 1 { if let Some(m) = self.forced { if self.used < 64 { let b = (m >> self.used) & 1 == 1; self.used += 1; return b } } }
        !g.chance(90)
    }
}

// ---- drawing values ---------------------------------------------------------------------------

pub trait Draw<'a>: Sized { fn draw(g: &mut Gen, ar: &'a Arena, pm: &mut Presence) -> Self; }

macro_rules! draw_prim { ($($t:ty => $e:expr;)*) => { $( impl<'a> Draw<'a> for $t { fn draw(g: &mut Gen, _: &'a Arena, _: &mut Presence) -> Self { let f: fn(&mut Gen) -> $t = $e; f(g) } } )* } }
draw_prim! {
    u8 => |g| g.u8(); u16 => |g| g.u16(); u32 => |g| g.u32(); u64 => |g| g.u64();
    i8 => |g| g.i8(); i16 => |g| g.i16(); i32 => |g| g.i32(); i64 => |g| g.i64();
    bool => |g| g.bool(); char => |g| g.char();
    f32 => |g| f32::from_bits(g.f32_bits()); f64 => |g| f64::from_bits(g.f64_bits());
    String => |g| g.string(30);
    [u8; 4] => |g| [g.byte(), g.byte(), g.byte(), g.byte()];
    minicbor::bytes::ByteVec => |g| minicbor::bytes::ByteVec::from(g.bytes(40));
    NilU32 => |g| NilU32(if g.chance(100) { None } else { Some(g.u32().min(u32::MAX - 1)) });
    OwnNil => |g| OwnNil(if g.chance(100) { None } else { Some(g.u32()) });
    WideNil => |g| WideNil(if g.chance(100) { 0 } else { g.u32() });
    NilStr => |g| NilStr(if g.chance(100) { String::new() } else { let s = g.string(12); if s.is_empty() { "x".into() } else { s } });
}
impl<'a> Draw<'a> for &'a str { fn draw(g: &mut Gen, ar: &'a Arena, _: &mut Presence) -> Self { ar.str(g.string(30)) } }
impl<'a> Draw<'a> for std::borrow::Cow<'a, str> { fn draw(g: &mut Gen, ar: &'a Arena, _: &mut Presence) -> Self { std::borrow::Cow::Borrowed(ar.str(g.string(30))) } }
impl<'a> Draw<'a> for &'a [u8] { fn draw(g: &mut Gen, ar: &'a Arena, _: &mut Presence) -> Self { ar.bytes(g.bytes(40)) } }
impl<'a> Draw<'a> for std::borrow::Cow<'a, [u8]> { fn draw(g: &mut Gen, ar: &'a Arena, _: &mut Presence) -> Self { std::borrow::Cow::Borrowed(ar.bytes(g.bytes(40))) } }
impl<'a> Draw<'a> for std::borrow::Cow<'a, minicbor::bytes::ByteSlice> { fn draw(g: &mut Gen, ar: &'a Arena, _: &mut Presence) -> Self { std::borrow::Cow::Borrowed(<&minicbor::bytes::ByteSlice>::from(ar.bytes(g.bytes(40)))) } }
impl<'a> Draw<'a> for &'a minicbor::bytes::ByteSlice { fn draw(g: &mut Gen, ar: &'a Arena, _: &mut Presence) -> Self { <&minicbor::bytes::ByteSlice>::from(ar.bytes(g.bytes(40))) } }
impl<'a, T: Draw<'a>> Draw<'a> for Option<T> { fn draw(g: &mut Gen, ar: &'a Arena, pm: &mut Presence) -> Self { if pm.next(g) { Some(T::draw(g, ar, pm)) } else { None } } }
impl<'a, T: Draw<'a>> Draw<'a> for Vec<T> { fn draw(g: &mut Gen, ar: &'a Arena, pm: &mut Presence) -> Self { let n = g.len(30).min(30); (0 .. n).map(|_| T::draw(g, ar, pm)).collect() } }
impl<'a, T: Draw<'a>> Draw<'a> for Box<T> { fn draw(g: &mut Gen, ar: &'a Arena, pm: &mut Presence) -> Self { Box::new(T::draw(g, ar, pm)) } }
impl<'a, T: Draw<'a>> Draw<'a> for std::collections::BTreeMap<u8, T> { fn draw(g: &mut Gen, ar: &'a Arena, pm: &mut Presence) -> Self { let n = g.len(26).min(26); (0 .. n).map(|_| (g.u8(), T::draw(g, ar, pm))).collect() } }

/// What a generated type provides (emitted by `schemagen::emit`).
pub trait Derived<'a>: Sized {
    fn draw_in(g: &mut Gen, ar: &'a Arena, pm: &mut Presence) -> Self;
    /// The documented wire format of this value, with the framing choices of `fr`.
    fn to_model(&self, fr: &mut Fr) -> Item;
    fn same(&self, o: &Self) -> bool;
    /// Reset skipped fields to their defaults (what decoding produces).
    fn normalize(&mut self);
    fn to_mval(&self) -> MVal;
    fn borrows_ok(&self, input: &[u8]) -> bool;
    fn desc() -> Desc;
}

/// The type parameter of generic structs.
pub trait ParamModel<'a>: Draw<'a> {
    /// can a value of this type be nil (absent)? Decides whether the field may be missing from the input.
    const NILABLE: bool;
    fn pmodel(&self, fr: &mut Fr) -> Item;
    fn psame(&self, o: &Self) -> bool;
    fn pnil(&self) -> bool;
    fn pmval(&self) -> MVal;
}
impl<'a> ParamModel<'a> for u16 {
    const NILABLE: bool = false;
    fn pmodel(&self, fr: &mut Fr) -> Item { fr.uint(*self as u64) }
    fn psame(&self, o: &Self) -> bool { self == o }
    fn pnil(&self) -> bool { false }
    fn pmval(&self) -> MVal { MVal::Leaf(Item::UInt(*self as u64, W::min_for(*self as u64)).encode()) }
}
/// The parameter instantiated with an `Option`: nil-capable through `Encode::is_nil` / `Decode::nil` only.
impl<'a> ParamModel<'a> for Option<u16> {
    const NILABLE: bool = true;
    fn pmodel(&self, fr: &mut Fr) -> Item { match self { None => Item::Null, Some(n) => fr.uint(*n as u64) } }
    fn psame(&self, o: &Self) -> bool { self == o }
    fn pnil(&self) -> bool { self.is_none() }
    fn pmval(&self) -> MVal { match self { None => MVal::None, Some(n) => MVal::Leaf(Item::UInt(*n as u64, W::min_for(*n as u64)).encode()) } }
}

// ---- framing context ----------------------------------------------------------------------------

/// Chooses head widths and definite/indefinite framing: preferred (what the encoder must emit), or
/// random within what the derived decoders are documented to accept.
pub struct Fr<'g, 't> { g: Option<&'g mut Gen<'t>> }
impl<'g, 't> Fr<'g, 't> {
    pub fn preferred() -> Fr<'static, 'static> { Fr { g: None } }
    pub fn random(g: &'g mut Gen<'t>) -> Fr<'g, 't> { Fr { g: Some(g) } }
    pub fn w(&mut self, v: u64) -> W { match &mut self.g { None => W::min_for(v), Some(g) => g.width_for(v) } }
    /// container framing: `None` = indefinite
    pub fn cont(&mut self, n: u64) -> Option<W> { match &mut self.g { None => Some(W::min_for(n)), Some(g) => if g.chance(100) { None } else { Some(g.width_for(n)) } } }
    pub fn uint(&mut self, v: u64) -> Item { Item::UInt(v, self.w(v)) }
    pub fn int(&mut self, v: i128) -> Item { if v >= 0 { self.uint(v as u64) } else { let n = (-1 - v) as u64; Item::NInt(n, self.w(n)) } }
    pub fn text(&mut self, s: &str) -> Item { Item::Text(s.to_string(), self.w(s.len() as u64)) }
    pub fn bytes(&mut self, b: &[u8]) -> Item { Item::Bytes(b.to_vec(), self.w(b.len() as u64)) }
    /// homogeneous collections are decoded through the iterator API: definite or indefinite
    pub fn array(&mut self, v: Vec<Item>) -> Item { let f = self.cont(v.len() as u64); Item::Array(v, f) }
    pub fn map(&mut self, v: Vec<(Item, Item)>) -> Item { let f = self.cont(v.len() as u64); Item::Map(v, f) }
}

#[derive(Clone, Copy, Debug, PartialEq)]
pub enum Enc { Array, Map }

pub struct Slot { pub idx: u32, pub tag: Option<u64>, pub nil: bool, pub item: Item }

/// The body of a struct / variant as documented in minicbor-derive (lib.rs, "CBOR encoding"):
/// array: each field at its index, index gaps and absent optional values are null, the array ends at the
/// highest present index; map: index keys in ascending order, absent optional values omitted.
pub fn body(fr: &mut Fr, enc: Enc, mut slots: Vec<Slot>) -> Item {
    slots.sort_by_key(|s| s.idx);
    match enc {
        Enc::Array => {
            let max = slots.iter().filter(|s| !s.nil).map(|s| s.idx).max();
            let mut out: Vec<Item> = Vec::new();
            if let Some(max) = max {
                let mut next = 0u32;
                for s in slots {
                    if s.idx > max { break }
                    while next < s.idx { out.push(Item::Null); next += 1 }
                    // an absent optional value is null; tags precede what they annotate
                    let it = match s.tag { Some(t) => { let w = fr.w(t); Item::Tag(t, w, Box::new(s.item)) } None => s.item };
                    out.push(it);
                    next = s.idx + 1;
                }
            }
            let f = fr.cont(out.len() as u64);
            Item::Array(out, f)
        }
        Enc::Map => {
            let mut out: Vec<(Item, Item)> = Vec::new();
            for s in slots {
                if s.nil { continue }
                let k = fr.uint(s.idx as u64);
                let it = match s.tag { Some(t) => { let w = fr.w(t); Item::Tag(t, w, Box::new(s.item)) } None => s.item };
                out.push((k, it));
            }
            let f = fr.cont(out.len() as u64);
            Item::Map(out, f)
        }
    }
}

pub fn tagged(fr: &mut Fr, tag: Option<u64>, it: Item) -> Item { match tag { Some(t) => { let w = fr.w(t); Item::Tag(t, w, Box::new(it)) } None => it } }

/// `[variant index, body]` — the wrapper must be a definite two-element array.
pub fn variant(fr: &mut Fr, idx: u32, body: Item) -> Item { let i = fr.uint(idx as u64); let w = fr.w(2); Item::Array(vec![i, body], Some(w)) }

// ---- generic value view (cross-version comparison) ------------------------------------------------

#[derive(Clone, Debug, PartialEq)]
pub enum MVal {
    /// preferred encoding of a leaf value
    Leaf(Vec<u8>),
    None,
    /// an absent optional enum; carries the variant indices its type knows
    NoneOfEnum(Vec<u32>),
    Some(Box<MVal>),
    Seq(Vec<MVal>),
    Struct(Vec<(u32, MVal)>),
    Enum(u32, Vec<(u32, MVal)>),
}

fn is_absent(v: &MVal) -> bool { matches!(v, MVal::None | MVal::NoneOfEnum(_)) }

/// Is `r` (what the reader decoded) the documented view of `w` (what the writer encoded)?
pub fn compatible(w: &MVal, r: &MVal, path: &mut String) -> Result<(), String> {
    fn fields(wf: &[(u32, MVal)], rf: &[(u32, MVal)], path: &mut String) -> Result<(), String> {
        for (i, rv) in rf {
            match wf.iter().find(|(j, _)| j == i) {
                Some((_, wv)) => { let l = path.len(); path.push_str(&format!(".#{}", i)); compatible(wv, rv, path)?; path.truncate(l) }
                None => if !is_absent(rv) { return Err(format!("{}.#{}: field unknown to the writer decoded as {:?} instead of absent", path, i, rv)) }
            }
        }
        Ok(()) // fields only the writer knows are ignored whatever their content
    }
    match (w, r) {
        (MVal::Leaf(a), MVal::Leaf(b)) => if a == b { Ok(()) } else { Err(format!("{}: leaf {} read back as {}", path, vcore::item::hex(a), vcore::item::hex(b))) },
        (MVal::None, x) | (MVal::NoneOfEnum(_), x) => if is_absent(x) { Ok(()) } else { Err(format!("{}: absent value read back as {:?}", path, x)) },
        (MVal::Some(a), MVal::Some(b)) => compatible(a, b, path),
        (MVal::Some(a), MVal::NoneOfEnum(known)) => match &**a {
            MVal::Enum(vi, _) if !known.contains(vi) => Ok(()), // unknown variant in an optional field becomes None
            other => Err(format!("{}: present value {:?} read back as absent", path, other))
        },
        (MVal::Some(a), MVal::None) => Err(format!("{}: present value {:?} read back as absent", path, a)),
        (MVal::Seq(a), MVal::Seq(b)) => {
            if a.len() != b.len() { return Err(format!("{}: sequence of {} read back with {} elements", path, a.len(), b.len())) }
            for (i, (x, y)) in a.iter().zip(b.iter()).enumerate() { let l = path.len(); path.push_str(&format!("[{}]", i)); compatible(x, y, path)?; path.truncate(l) }
            Ok(())
        }
        (MVal::Struct(a), MVal::Struct(b)) => fields(a, b, path),
        (MVal::Enum(va, fa), MVal::Enum(vb, fb)) => { if va != vb { return Err(format!("{}: variant {} read back as variant {}", path, va, vb)) } let l = path.len(); path.push_str(&format!("::{}", va)); fields(fa, fb, path)?; path.truncate(l); Ok(()) }
        (a, b) => Err(format!("{}: {:?} read back as {:?}", path, a, b))
    }
}

// ---- descriptors (root level) for negative edits --------------------------------------------------

#[derive(Clone, Debug)]
pub struct FDesc { pub idx: u32, pub tag: Option<u64>, pub can_be_absent: bool }
#[derive(Clone, Debug)]
pub struct VDesc { pub idx: u32, pub tag: Option<u64>, pub enc: Enc, pub unit: bool, pub fields: Vec<FDesc> }
#[derive(Clone, Debug)]
pub enum Desc {
    Struct { tag: Option<u64>, enc: Enc, transparent: bool, fields: Vec<FDesc> },
    Enum { tag: Option<u64>, index_only: bool, variants: Vec<VDesc> }
}

// ---- harness-provided custom codecs ----------------------------------------------------------------

/// A nil-capable value used through `#[cbor(with = "crate::rt::nil_u32", has_nil)]`.  Its nil value is a sentinel that
/// does *not* encode as null (`u32::MAX`, five bytes): where the derived code writes a nil value through the field's
/// codec (below the highest present index of an array) it is those five bytes that appear, and the length must agree.
/// Null is accepted on input (what software unaware of the field puts into the gap).
#[derive(Debug, Clone, PartialEq, Default)]
pub struct NilU32(pub Option<u32>);
pub mod nil_u32 {
    use super::NilU32;
    use minicbor::{decode as dec, encode as enc, Decoder, Encoder};
    pub fn encode<C, W: enc::Write>(v: &NilU32, e: &mut Encoder<W>, _: &mut C) -> Result<(), enc::Error<W::Error>> { match v.0 { None => e.u32(u32::MAX)?.ok(), Some(n) => e.u32(n)?.ok() } }
    pub fn decode<'b, C>(d: &mut Decoder<'b>, _: &mut C) -> Result<NilU32, dec::Error> { if d.datatype()? == minicbor::data::Type::Null { d.null()?; Ok(NilU32(None)) } else { let n = d.u32()?; Ok(NilU32(if n == u32::MAX { None } else { Some(n) })) } }
    pub fn is_nil(v: &NilU32) -> bool { v.0.is_none() }
    pub fn nil() -> Option<NilU32> { Some(NilU32(None)) }
    pub fn cbor_len<C>(v: &NilU32, ctx: &mut C) -> usize { match v.0 { None => 5, Some(n) => minicbor::CborLen::cbor_len(&n, ctx) } }
}

/// A nil-capable value used through encode_with / decode_with / is_nil / nil / cbor_len attributes.
#[derive(Debug, Clone, PartialEq, Default)]
pub struct NilStr(pub String);
pub mod nil_str {
    use super::NilStr;
    use minicbor::{decode as dec, encode as enc, Decoder, Encoder};
    // the nil value (the empty string) encodes as itself: one byte, but not null
    pub fn encode<C, W: enc::Write>(v: &NilStr, e: &mut Encoder<W>, _: &mut C) -> Result<(), enc::Error<W::Error>> { e.str(&v.0)?.ok() }
    pub fn decode<'b, C>(d: &mut Decoder<'b>, _: &mut C) -> Result<NilStr, dec::Error> { if d.datatype()? == minicbor::data::Type::Null { d.null()?; Ok(NilStr(String::new())) } else { Ok(NilStr(d.str()?.to_string())) } }
    pub fn is_nil(v: &NilStr) -> bool { v.0.is_empty() }
    pub fn nil() -> Option<NilStr> { Some(NilStr(String::new())) }
    pub fn cbor_len<C>(v: &NilStr, ctx: &mut C) -> usize { minicbor::CborLen::cbor_len(v.0.as_str(), ctx) }
}

/// A user type that is nil-capable through the trait methods alone: `Encode::is_nil` and `Decode::nil` are
/// overridden, no field attribute is involved.
#[derive(Debug, Clone, PartialEq, Default)]
pub struct OwnNil(pub Option<u32>);
impl<C> minicbor::Encode<C> for OwnNil {
    fn encode<W: minicbor::encode::Write>(&self, e: &mut minicbor::Encoder<W>, _: &mut C) -> Result<(), minicbor::encode::Error<W::Error>> { match self.0 { None => e.null()?.ok(), Some(n) => e.u32(n)?.ok() } }
    fn is_nil(&self) -> bool { self.0.is_none() }
}
impl<'b, C> minicbor::Decode<'b, C> for OwnNil {
    fn decode(d: &mut minicbor::Decoder<'b>, _: &mut C) -> Result<Self, minicbor::decode::Error> { if d.datatype()? == minicbor::data::Type::Null { d.null()?; Ok(OwnNil(None)) } else { Ok(OwnNil(Some(d.u32()?))) } }
    fn nil() -> Option<Self> { Some(OwnNil(None)) }
}
impl<C> minicbor::CborLen<C> for OwnNil { fn cbor_len(&self, ctx: &mut C) -> usize { match self.0 { None => 1, Some(n) => minicbor::CborLen::cbor_len(&n, ctx) } } }

/// A user type with a nil value of its own that is an ordinary value on the wire (`0`, written as the integer 0, never as null).
/// As a mandatory field it is nil-capable through the trait methods; wrapped in `Option` it is an optional field whose
/// `Some(nil)` is a *present* value: only `None` is absent.
#[derive(Debug, Clone, Copy, PartialEq, Default)]
pub struct WideNil(pub u32);
impl<C> minicbor::Encode<C> for WideNil {
    fn encode<W: minicbor::encode::Write>(&self, e: &mut minicbor::Encoder<W>, _: &mut C) -> Result<(), minicbor::encode::Error<W::Error>> { e.u32(self.0)?.ok() }
    fn is_nil(&self) -> bool { self.0 == 0 }
}
impl<'b, C> minicbor::Decode<'b, C> for WideNil {
    fn decode(d: &mut minicbor::Decoder<'b>, _: &mut C) -> Result<Self, minicbor::decode::Error> { if d.datatype()? == minicbor::data::Type::Null { d.null()?; Ok(WideNil(0)) } else { Ok(WideNil(d.u32()?)) } }
    fn nil() -> Option<Self> { Some(WideNil(0)) }
}
impl<C> minicbor::CborLen<C> for WideNil { fn cbor_len(&self, ctx: &mut C) -> usize { minicbor::CborLen::cbor_len(&self.0, ctx) } }

/// A type alias hides the `Option` from the derive macros: nil handling has to come from the trait methods.
pub type OptU8 = Option<u8>;
pub fn draw_opt_alias(g: &mut Gen) -> OptU8 { if g.chance(100) { None } else { Some(g.u8()) } }

/// `Box<Option<T>>`: presence of the inner value is drawn from the tape (it is not an optional *field*).
/// An `Option` that is a mandatory field's value (its `None` is an explicit null on the wire), drawn independently of the presence mask.
pub fn draw_plain_opt<'a, T: Draw<'a>>(g: &mut Gen, ar: &'a Arena) -> Option<T> { if g.chance(110) { None } else { Some(T::draw(g, ar, &mut Presence::random())) } }
pub fn draw_box_opt<'a, T: Draw<'a>>(g: &mut Gen, ar: &'a Arena) -> Box<Option<T>> { Box::new(if g.chance(110) { None } else { Some(T::draw(g, ar, &mut Presence::random())) }) }

/// Codec functions that forward to the type's own impls (`decode_with` / `encode_with` attributes on ordinary fields).
pub mod fwd {
    use minicbor::{decode as dec, encode as enc, Decoder, Encoder};
    pub fn decode<'b, C, T: minicbor::Decode<'b, C>>(d: &mut Decoder<'b>, ctx: &mut C) -> Result<T, dec::Error> { T::decode(d, ctx) }
    pub fn encode<C, T: minicbor::Encode<C>, W: enc::Write>(v: &T, e: &mut Encoder<W>, ctx: &mut C) -> Result<(), enc::Error<W::Error>> { v.encode(e, ctx) }
}
