//! Generated derive types (one chunk of the schema population) and their check tables.
#![allow(unused, non_snake_case, clippy::all)]
pub use g_derive_rt::rt;
// three spellings of the same path occur in the generated definitions
use minicbor::bytes::{self, ByteSlice};
include!(concat!(env!("OUT_DIR"), "/generated.rs"));
