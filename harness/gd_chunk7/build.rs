fn main() { schemagen::build_chunk(7, 8) }
