fn main() { schemagen::build_chunk(5, 8) }
